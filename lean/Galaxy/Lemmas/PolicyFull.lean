/-
  Lemmas about the synchronisation part of model M7 (C15), part 6: the whole full sync — the policy batch keeps what
  the pod loop needs, the ipsets after syncRules, and the assembly.
-/
import Galaxy.Lemmas.PolicyPods

namespace Galaxy.Policy

/-! ### the policy batch and the rest of the table -/

theorem applyCmd_nodup (k : Kern) (t t' : Table) (cmd : Cmd) (h : applyCmd k t cmd = .ok t')
    (hn : (Tbl.keys t).Nodup) : (Tbl.keys t').Nodup := by
  cases cmd with
  | decl c =>
    simp only [applyCmd] at h
    split at h
    · split at h
      · cases h; exact hn
      · cases h
    · cases h; exact nodup_setChain _ _ _ hn
  | app c r =>
    simp only [applyCmd] at h
    split at h
    · cases h
    · cases h
    · cases h
    · split at h
      · cases h
      · cases h; exact nodup_setChain _ _ _ hn
  | del c =>
    simp only [applyCmd] at h
    split at h
    · cases h
    · split at h
      · cases h; exact hn
      · split at h
        · cases h
        · cases h; exact nodup_erase _ _ hn

theorem applyCmd_other (k : Kern) (t t' : Table) (cmd : Cmd) (h : applyCmd k t cmd = .ok t') :
    ∀ c, c ≠ cmd.chain → Tbl.get t' c = Tbl.get t c := by
  intro c hne
  cases cmd with
  | decl c0 =>
    simp only [Cmd.chain] at hne
    simp only [applyCmd] at h
    split at h
    · split at h
      · cases h; rfl
      · cases h
    · cases h; rw [get_setChain]; simp [hne]
  | app c0 r =>
    simp only [Cmd.chain] at hne
    simp only [applyCmd] at h
    split at h
    · cases h
    · cases h
    · cases h
    · split at h
      · cases h
      · cases h; rw [get_setChain]; simp [hne]
  | del c0 =>
    simp only [Cmd.chain] at hne
    simp only [applyCmd] at h
    split at h
    · cases h
    · split at h
      · cases h; rfl
      · split at h
        · cases h
        · cases h; exact Tbl.get_erase_ne t (fun e => hne e.symm)

theorem foldlM_other (k : Kern) (P : Chain → Prop) (cmds : List Cmd) (hc : ∀ cmd ∈ cmds, P cmd.chain) (t t' : Table)
    (h : cmds.foldlM (applyCmd k) t = .ok t') (hn : (Tbl.keys t).Nodup) :
    (Tbl.keys t').Nodup ∧ ∀ c, ¬ P c → Tbl.get t' c = Tbl.get t c := by
  induction cmds generalizing t with
  | nil => simp [List.foldlM] at h; cases h; exact ⟨hn, fun _ _ => rfl⟩
  | cons cmd rest ih =>
    simp only [List.foldlM_cons] at h
    obtain ⟨t1, h1, h2⟩ := except_bind_ok h
    obtain ⟨n', g'⟩ := ih (fun x hx => hc x (List.mem_cons_of_mem _ hx)) t1 h2 (applyCmd_nodup k t t1 cmd h1 hn)
    refine ⟨n', fun c hcP => ?_⟩
    rw [g' c hcP, applyCmd_other k t t1 cmd h1 c (fun e => hcP (e ▸ hc cmd (List.mem_cons_self ..)))]

def Chain.isPlcy : Chain → Bool
  | .plcy _ => true
  | _ => false

theorem policyBatch_plcy (t : Table) (ps : List NetPol) : ∀ cmd ∈ policyBatch t ps, cmd.chain.isPlcy = true := by
  intro cmd h
  simp only [policyBatch, List.mem_append, List.mem_map, List.mem_flatMap, List.mem_filter] at h
  rcases h with ((⟨p, _, rfl⟩ | ⟨c, ⟨_, hc⟩, rfl⟩) | ⟨p, _, r, _, rfl⟩) | ⟨c, ⟨_, hc⟩, rfl⟩
  · rfl
  · cases c <;> simp_all [Cmd.chain, Chain.isPlcy]
  · rfl
  · cases c <;> simp_all [Cmd.chain, Chain.isPlcy]

/-- the hypothesis of the pod loop about the PRIOR kernel table (L = the pods of the cluster on this node): distinct
    chain names, built-in chains present, no GLX-POD chain of a pod outside L or without address, every hook rule the
    canonical hook — with the CURRENT address — of a pod of L whose chain exists, no hook twice, nothing else jumps
    to a pod chain.  (What D13 violates.) -/
structure PriorPods (L : List Pod) (t : Table) : Prop where
  keys : (Tbl.keys t).Nodup
  builtin : ∀ b, b.isBuiltin = true → chainExists t b = true
  podchains : ∀ h, chainExists t (.pod h) = true → ∃ q ∈ L, q.hash = h ∧ q.ip.isSome = true
  hooksI : ∀ r ∈ hooks t .glxIngress, ∃ q ∈ L, hookRule true q = [r] ∧ chainExists t (.pod q.hash) = true
  hooksE : ∀ r ∈ hooks t .glxEgress, ∃ q ∈ L, hookRule false q = [r] ∧ chainExists t (.pod q.hash) = true
  nodupI : (hooks t .glxIngress).Nodup
  nodupE : (hooks t .glxEgress).Nodup
  refs : ∀ cn rs, Tbl.get t cn = some rs → cn ≠ .glxIngress → cn ≠ .glxEgress →
    ∀ r ∈ rs, ∀ h, r.jumpsTo (.pod h) = false

theorem PodInv.prior {ps : List NetPol} {L : List Pod} {t : Table} (inv : PodInv ps L t) : PriorPods L t :=
  ⟨inv.keys, inv.builtin, inv.podchains, inv.hooksI, inv.hooksE, inv.nodupI, inv.nodupE, inv.refs⟩

/-- a successful policy batch turns the prior hypothesis into the invariant of the pod loop -/
theorem syncIptables_podinv (k : Kern) (ps : List NetPol) (L : List Pod) (hn : (ps.map (·.hash)).Nodup)
    (pr : PriorPods L k.tbl) (hok : (syncIptables k ps).2 = []) : PodInv ps L (syncIptables k ps).1 := by
  have hex := syncIptables_exact k ps hn hok
  unfold syncIptables at hok hex ⊢
  cases hr : restore k (policyBatch k.tbl ps) with
  | error e => rw [hr] at hok; simp at hok
  | ok t' =>
    rw [hr] at hex
    simp only at hex ⊢
    obtain ⟨n', g'⟩ := foldlM_other k (fun c => c.isPlcy = true) _ (policyBatch_plcy k.tbl ps) k.tbl t' hr pr.keys
    have same : ∀ c, c.isPlcy = false → Tbl.get t' c = Tbl.get k.tbl c := fun c hc => g' c (by simp [hc])
    have hks : ∀ c, c.isPlcy = false → hooks t' c = hooks k.tbl c := fun c hc => by unfold hooks; rw [same c hc]
    have hce : ∀ c, c.isPlcy = false → chainExists t' c = chainExists k.tbl c :=
      fun c hc => by unfold chainExists; rw [same c hc]
    refine ⟨n', ?_, ?_, ?_, ?_, ?_, ?_, ?_, ?_⟩
    · intro b hb; rw [hce b (by cases b <;> simp_all [Chain.isBuiltin, Chain.isPlcy])]; exact pr.builtin b hb
    · intro p hp
      unfold chainExists
      rw [hex p.hash]
      cases hf : ps.find? (fun x => x.hash == p.hash) with
      | none => exact absurd (by simp) ((List.find?_eq_none.mp hf) p hp)
      | some x => rfl
    · intro h hx; rw [hce _ rfl] at hx; exact pr.podchains h hx
    · intro r hr'
      rw [hks _ rfl] at hr'
      obtain ⟨q, hq, h1, h2⟩ := pr.hooksI r hr'
      exact ⟨q, hq, h1, by rw [hce _ rfl]; exact h2⟩
    · intro r hr'
      rw [hks _ rfl] at hr'
      obtain ⟨q, hq, h1, h2⟩ := pr.hooksE r hr'
      exact ⟨q, hq, h1, by rw [hce _ rfl]; exact h2⟩
    · rw [hks _ rfl]; exact pr.nodupI
    · rw [hks _ rfl]; exact pr.nodupE
    · intro cn rs hg hi he r hr' hh
      cases hp : cn.isPlcy
      · rw [same cn hp] at hg; exact pr.refs cn rs hg hi he r hr' hh
      · cases cn <;> simp [Chain.isPlcy] at hp
        rename_i h0
        rw [hex h0] at hg
        cases hf : ps.find? (fun x => x.hash == h0) with
        | none => rw [hf] at hg; cases hg
        | some x =>
          rw [hf] at hg; simp only [Option.map_some, Option.some.injEq] at hg; subst hg
          simp [PRule.jumpsTo, policyChain_tgt x r hr']

/-! ### the ipsets after syncRules -/

/-- set `n` exists with type `ty` and holds exactly the entries `es` (as a set of entries, options included) -/
def SetIs (sets : List IpSet) (n : SetName) (ty : SetType) (es : List Entry) : Prop :=
  ∃ s', sets.find? (·.name == n) = some s' ∧ s'.type = ty ∧ ∀ y, y ∈ s'.entries ↔ y ∈ es

theorem mem_foldl_addEntry (new : List Entry) (hc : KeysConsistent new) (y : Entry) :
    y ∈ new.foldl addEntry [] ↔ y ∈ new := by
  have h := mem_addFold [] new hc [] y
  have e : (fun es e => if ([] : List Entry).contains e = true then es else addEntry es e) = addEntry := by
    funext es e; simp
  rw [e] at h
  rw [h]
  simp

/-- one createIPSet step of the current source establishes the set … -/
theorem syncOneSet_establishes (sets sets' : List IpSet) (s : IpSet)
    (hold : ∀ s0 ∈ sets, (s0.entries.map Entry.key).Nodup) (hnew : KeysConsistent s.entries)
    (h : syncOneSetWith true sets s = .ok sets') : SetIs sets' s.name s.type s.entries := by
  unfold syncOneSetWith at h
  cases hf : sets.find? (·.name == s.name) with
  | none =>
    rw [hf] at h; simp only at h; cases h
    refine ⟨{ s with entries := s.entries.foldl addEntry [] }, ?_, rfl, mem_foldl_addEntry s.entries hnew⟩
    rw [List.find?_append, hf]; simp
  | some old =>
    rw [hf] at h; simp only at h
    split at h
    · cases h
    · rename_i hty
      cases h
      refine ⟨_, find_updSet_self sets s.name _ old hf, ?_, ?_⟩
      · simp only; exact Classical.not_not.mp hty
      · exact entries_exact s.entries old.entries (hold old (List.mem_of_find?_eq_some hf)) hnew

/-- … and leaves every set of another name as it was -/
theorem syncOneSet_other (keep : Bool) (sets sets' : List IpSet) (s : IpSet) (h : syncOneSetWith keep sets s = .ok sets')
    (n : SetName) (hne : n ≠ s.name) : sets'.find? (·.name == n) = sets.find? (·.name == n) := by
  unfold syncOneSetWith at h
  split at h
  · split at h
    · cases h
    · cases h; exact find_updSet_ne sets s.name n _ hne
  · cases h
    rw [List.find?_append]
    have : ¬ s.name = n := fun e => hne e.symm
    cases sets.find? (·.name == n) <;> simp [this]

theorem syncOneSet_keys (keep : Bool) (sets sets' : List IpSet) (s : IpSet) (h : syncOneSetWith keep sets s = .ok sets')
    (hold : ∀ s0 ∈ sets, (s0.entries.map Entry.key).Nodup) (n : SetName) (hne : n ≠ s.name) :
    ∀ s0, sets'.find? (·.name == n) = some s0 → (s0.entries.map Entry.key).Nodup := by
  intro s0 h0
  rw [syncOneSet_other keep sets sets' s h n hne] at h0
  exact hold s0 (List.mem_of_find?_eq_some h0)

theorem SetIs_congr {sets sets' : List IpSet} {n : SetName} {ty : SetType} {es : List Entry}
    (h : sets'.find? (·.name == n) = sets.find? (·.name == n)) (hs : SetIs sets n ty es) : SetIs sets' n ty es := by
  obtain ⟨s', h1, h2, h3⟩ := hs
  exact ⟨s', by rw [h]; exact h1, h2, h3⟩

/-- the whole createIPSet pass: every compiled set is established (distinct set names; only the FIRST set of a name
    matters to `find?`, so the key hypothesis is asked of the set `find?` returns) -/
theorem foldlM_sets_exact (new : List IpSet) (sets sets' : List IpSet)
    (hnames : (new.map (·.name)).Nodup) (hcons : ∀ s ∈ new, KeysConsistent s.entries)
    (hold : ∀ s ∈ new, ∀ s0, sets.find? (·.name == s.name) = some s0 → (s0.entries.map Entry.key).Nodup)
    (h : new.foldlM (syncOneSetWith true) sets = .ok sets') :
    (∀ s ∈ new, SetIs sets' s.name s.type s.entries) ∧
    ∀ n, n ∉ new.map (·.name) → sets'.find? (·.name == n) = sets.find? (·.name == n) := by
  induction new generalizing sets with
  | nil => simp [List.foldlM] at h; cases h; exact ⟨fun _ h => (by cases h), fun _ _ => rfl⟩
  | cons s rest ih =>
    simp only [List.foldlM_cons] at h
    obtain ⟨s1, h1, h2⟩ := except_bind_ok h
    simp only [List.map_cons, List.nodup_cons, List.mem_map, not_exists, not_and] at hnames
    -- s itself: only the set `find?` returns is read
    have hs : SetIs s1 s.name s.type s.entries := by
      unfold syncOneSetWith at h1
      cases hf : sets.find? (·.name == s.name) with
      | none =>
        rw [hf] at h1; simp only at h1; cases h1
        refine ⟨{ s with entries := s.entries.foldl addEntry [] }, ?_, rfl,
          mem_foldl_addEntry s.entries (hcons s (List.mem_cons_self ..))⟩
        rw [List.find?_append, hf]; simp
      | some old =>
        rw [hf] at h1; simp only at h1
        split at h1
        · cases h1
        · rename_i hty
          cases h1
          refine ⟨_, find_updSet_self sets s.name _ old hf, ?_, ?_⟩
          · simp only; exact Classical.not_not.mp hty
          · exact entries_exact s.entries old.entries (hold s (List.mem_cons_self ..) old hf)
              (hcons s (List.mem_cons_self ..))
    have hne : ∀ x ∈ rest, x.name ≠ s.name := fun x hx e => hnames.1 x hx e
    obtain ⟨r1, r2⟩ := ih s1 hnames.2 (fun x hx => hcons x (List.mem_cons_of_mem _ hx))
      (by
        intro x hx s0 h0
        rw [syncOneSet_other true sets s1 s h1 x.name (hne x hx)] at h0
        exact hold x (List.mem_cons_of_mem _ hx) s0 h0) h2
    refine ⟨?_, ?_⟩
    · intro x hx
      rcases List.mem_cons.mp hx with rfl | hx'
      · exact SetIs_congr (r2 x.name (by
          intro hm; obtain ⟨y, hy, hyn⟩ := List.mem_map.mp hm; exact hnames.1 y hy hyn)) hs
      · exact r1 x hx'
    · intro n hn
      simp only [List.map_cons, List.mem_cons, not_or] at hn
      rw [r2 n hn.2, syncOneSet_other true sets s1 s h1 n hn.1]

theorem setExists_filter_ne (sets : List IpSet) (n m : SetName) :
    setExists (sets.filter (·.name != m)) n = (setExists sets n && (n != m)) := by
  rw [Bool.eq_iff_iff]
  simp only [setExists, List.any_eq_true, List.mem_filter, Bool.and_eq_true, bne_iff_ne, ne_eq, beq_iff_eq]
  constructor
  · rintro ⟨s, ⟨hs, h1⟩, h2⟩
    exact ⟨⟨s, hs, h2⟩, fun e => h1 (h2.trans e)⟩
  · rintro ⟨⟨s, hs, h2⟩, h1⟩
    exact ⟨s, ⟨hs, fun e => h1 (h2.symm.trans e)⟩, h2⟩

/-- the deferred clean-up: sets that are not stale keep their content; a stale set no rule matches on is gone -/
theorem destroyStale_spec (t : Table) (stale : List SetName) (sets : List IpSet) :
    (∀ n, n ∉ stale → (destroyStale t stale sets).find? (·.name == n) = sets.find? (·.name == n)) ∧
    (∀ n ∈ stale, setReferenced t n = false → setExists (destroyStale t stale sets) n = false) := by
  unfold destroyStale
  induction stale generalizing sets with
  | nil => exact ⟨fun _ _ => rfl, fun _ h => (by cases h)⟩
  | cons m rest ih =>
    simp only [List.foldl_cons]
    by_cases hr : setReferenced t m = true
    · simp only [hr, if_true]
      obtain ⟨i1, i2⟩ := ih sets
      refine ⟨fun n hn => i1 n (fun h => hn (List.mem_cons_of_mem _ h)), ?_⟩
      intro n hn hnr
      rcases List.mem_cons.mp hn with rfl | hn'
      · rw [hr] at hnr; cases hnr
      · exact i2 n hn' hnr
    · simp only [hr, Bool.false_eq_true, if_false]
      obtain ⟨i1, i2⟩ := ih (sets.filter (·.name != m))
      refine ⟨?_, ?_⟩
      · intro n hn
        simp only [List.mem_cons, not_or] at hn
        rw [i1 n hn.2]; exact find_filter_ne sets m n hn.1
      · intro n hn hnr
        by_cases hm : n ∈ rest
        · exact i2 n hm hnr
        · rcases List.mem_cons.mp hn with rfl | hn'
          · -- removed now, and never re-created
            have hf := i1 n hm
            have hgone : setExists (sets.filter (·.name != n)) n = false := by
              rw [setExists_filter_ne]; simp
            unfold setExists at hgone ⊢
            cases hx : (List.foldl (fun ss n => if setReferenced t n = true then ss else ss.filter (·.name != n))
                (sets.filter (·.name != n)) rest).any (·.name == n)
            · rfl
            · obtain ⟨s0, hs0, hn0⟩ := List.any_eq_true.mp hx
              have : ((List.foldl (fun ss n => if setReferenced t n = true then ss else ss.filter (·.name != n))
                  (sets.filter (·.name != n)) rest).find? (·.name == n)).isSome = true := by
                rw [List.find?_isSome]; exact ⟨s0, hs0, hn0⟩
              rw [hf] at this
              rw [List.find?_isSome] at this
              obtain ⟨s1, hs1, hn1⟩ := this
              rw [(List.any_eq_false.mp hgone) s1 hs1 |> fun h => (by simpa using h : (s1.name == n) = false)] at hn1
              cases hn1
          · exact absurd hn' hm

/-- THE IPSETS AFTER syncRules (current source), from ANY prior sets with one element per key: if no `ipset create`
    clashes, every compiled set exists with the compiled type and holds exactly the compiled entries (options
    included), and every stale GLX set that no rule matches on any more is destroyed -/
theorem syncRules_sets_exact (k : Kern) (c : Cluster) (ps : List NetPol)
    (hnames : ((compileSets c ps).map (·.name)).Nodup)
    (hcons : ∀ s ∈ compileSets c ps, KeysConsistent s.entries)
    (hold : ∀ s0 ∈ k.sets, (s0.entries.map Entry.key).Nodup)
    (hok : ∀ f ∈ (syncRulesWith true k c ps).2, f ≠ Fail.createMismatch) :
    (∀ s ∈ compileSets c ps, SetIs (syncRulesWith true k c ps).1.sets s.name s.type s.entries) ∧
    (∀ n ∈ k.sets.map (·.name), n.isGlx = true → n ∉ (compileSets c ps).map (·.name) →
      setReferenced (syncRulesWith true k c ps).1.tbl n = false →
      setExists (syncRulesWith true k c ps).1.sets n = false) := by
  unfold syncRulesWith at hok ⊢
  cases hf : (compileSets c ps).foldlM (syncOneSetWith true) k.sets with
  | error e =>
    exfalso
    rw [hf] at hok
    have hm : e = Fail.createMismatch := by
      have : ∀ (new : List IpSet) (sets : List IpSet) (e : Fail),
          new.foldlM (syncOneSetWith true) sets = .error e → e = .createMismatch := by
        intro new
        induction new with
        | nil => intro sets e h; simp [List.foldlM] at h; cases h
        | cons s rest ih =>
          intro sets e h
          simp only [List.foldlM_cons] at h
          rcases except_bind_error h with h1 | ⟨s1, _, h2⟩
          · unfold syncOneSetWith at h1
            split at h1
            · split at h1
              · cases h1; rfl
              · cases h1
            · cases h1
          · exact ih s1 e h2
      exact this _ _ _ hf
    exact hok e (by simp) hm
  | ok sets1 =>
    simp only
    obtain ⟨e1, e2⟩ := foldlM_sets_exact (compileSets c ps) k.sets sets1 hnames hcons
      (fun s _ s0 h0 => hold s0 (List.mem_of_find?_eq_some h0)) hf
    obtain ⟨d1, d2⟩ := destroyStale_spec (syncIptables { k with sets := sets1 } ps).1
      ((k.sets.map (·.name)).filter (fun n => n.isGlx && !((compileSets c ps).any (·.name == n)))) sets1
    refine ⟨?_, ?_⟩
    · intro s hs
      refine SetIs_congr (d1 s.name ?_) (e1 s hs)
      intro hm
      have := (List.mem_filter.mp hm).2
      simp only [Bool.and_eq_true, Bool.not_eq_true', List.any_eq_false, beq_iff_eq] at this
      exact this.2 s hs rfl
    · intro n hn hg hnc hnr
      apply d2 n _ hnr
      rw [List.mem_filter]
      refine ⟨hn, ?_⟩
      simp only [hg, Bool.true_and, Bool.not_eq_true', List.any_eq_false, beq_iff_eq]
      intro x hx e
      exact hnc (List.mem_map.mpr ⟨x, hx, e⟩)

/-! ### the whole full sync -/

theorem syncRules_parts (keep : Bool) (k : Kern) (c : Cluster) (ps : List NetPol)
    (hok : (syncRulesWith keep k c ps).2 = []) :
    ∃ sets1, (compileSets c ps).foldlM (syncOneSetWith keep) k.sets = .ok sets1 ∧
      (syncRulesWith keep k c ps).1.tbl = (syncIptables { k with sets := sets1 } ps).1 ∧
      (syncIptables { k with sets := sets1 } ps).2 = [] := by
  unfold syncRulesWith at hok ⊢
  cases hf : (compileSets c ps).foldlM (syncOneSetWith keep) k.sets with
  | error e => rw [hf] at hok; simp at hok
  | ok sets1 =>
    rw [hf] at hok
    exact ⟨sets1, rfl, rfl, hok⟩

/-- closed form of what a full sync leaves, for the policy chains, the pod chains and the hook rules -/
structure OwnedExact (c : Cluster) (ps : List NetPol) (node : String) (t : Table) : Prop where
  plcy : ∀ h, Tbl.get t (.plcy h) = (ps.find? (fun p => p.hash == h)).map policyChain
  pods : ∀ h rs, Tbl.get t (.pod h) = some rs ↔
    ∃ q ∈ localPods c node, q.hash = h ∧ activePod ps q = true ∧ rs = podChain ps q
  hooksI : ∀ r, r ∈ hooks t .glxIngress ↔ ∃ q ∈ localPods c node, hookRule true q = [r] ∧ hookedIngress ps q = true
  hooksE : ∀ r, r ∈ hooks t .glxEgress ↔ ∃ q ∈ localPods c node, hookRule false q = [r] ∧ hookedEgress ps q = true
  nodupI : (hooks t .glxIngress).Nodup
  nodupE : (hooks t .glxEgress).Nodup

/-- FULL SYNC, chains: from any prior table satisfying `PriorPods`, if syncRules reports no failure then the whole run
    reports none, the policy chains, pod chains and hook rules are exactly the compiled ones, and the hypothesis holds
    again afterwards -/
theorem fullSync_chains_exact (keep : Bool) (k : Kern) (c : Cluster) (ps : List NetPol) (node : String)
    (hps : (ps.map (·.hash)).Nodup) (hL : ((localPods c node).map (·.hash)).Nodup)
    (pr : PriorPods (localPods c node) k.tbl) (hok : (syncRulesWith keep k c ps).2 = []) :
    (fullSyncWith keep k c ps node).2 = [] ∧
    (fullSyncWith keep k c ps node).1.sets = (syncRulesWith keep k c ps).1.sets ∧
    OwnedExact c ps node (fullSyncWith keep k c ps node).1.tbl ∧
    PodInv ps (localPods c node) (fullSyncWith keep k c ps node).1.tbl := by
  obtain ⟨sets1, _, htbl, hok2⟩ := syncRules_parts keep k c ps hok
  have inv1 : PodInv ps (localPods c node) (syncRulesWith keep k c ps).1.tbl := by
    rw [htbl]; exact syncIptables_podinv { k with sets := sets1 } ps _ hps pr hok2
  have hplcy1 := syncIptables_exact { k with sets := sets1 } ps hps hok2
  obtain ⟨p1, p2, p3, p4, p5⟩ := syncPods_spec (syncRulesWith keep k c ps).1 c ps node hL inv1
  obtain ⟨x1, x2, x3⟩ := pods_exact_of_inv p3 hL p4
  unfold fullSyncWith
  refine ⟨by simp [hok, p1], p2, ⟨?_, x1, x2, x3, p3.nodupI, p3.nodupE⟩, p3⟩
  intro h
  rw [p5 h, htbl]; exact hplcy1 h

/-! ### a second sync: nothing can fail -/

theorem foldlM_sets_ok (keep : Bool) (new : List IpSet) (sets : List IpSet) (hnames : (new.map (·.name)).Nodup)
    (htype : ∀ s ∈ new, ∀ s0, sets.find? (·.name == s.name) = some s0 → s0.type = s.type) :
    ∃ sets', new.foldlM (syncOneSetWith keep) sets = .ok sets' := by
  induction new generalizing sets with
  | nil => exact ⟨sets, rfl⟩
  | cons s rest ih =>
    simp only [List.map_cons, List.nodup_cons, List.mem_map, not_exists, not_and] at hnames
    have hstep : ∃ s1, syncOneSetWith keep sets s = .ok s1 := by
      unfold syncOneSetWith
      cases hf : sets.find? (·.name == s.name) with
      | none => exact ⟨_, rfl⟩
      | some old =>
        have := htype s (List.mem_cons_self ..) old hf
        simp [this]
    obtain ⟨s1, h1⟩ := hstep
    obtain ⟨sets', h2⟩ := ih s1 hnames.2 (by
      intro x hx s0 h0
      rw [syncOneSet_other keep sets s1 s h1 x.name (fun e => hnames.1 x hx e)] at h0
      exact htype x (List.mem_cons_of_mem _ hx) s0 h0)
    exact ⟨sets', by simp only [List.foldlM_cons, h1]; exact h2⟩

/-- without stale policy chains the policy batch cannot fail -/
theorem policyBatch_ok (k : Kern) (ps : List NetPol) (hlim : overLimit ps = false)
    (hstale : ∀ c ∈ Tbl.keys k.tbl, c.isPlcy = true → c ∈ ps.map (fun p => Chain.plcy p.hash))
    (hsets : ∀ p ∈ ps, ∀ r ∈ policyChain p, ∀ n ∈ r.setRefs, setExists k.sets n = true) :
    ∃ t', restore k (policyBatch k.tbl ps) = .ok t' := by
  unfold restore policyBatch
  simp only
  generalize hst : (List.map (fun x => x.1) k.tbl).filter (fun c => match c with
    | .plcy _ => !(ps.map (fun p => Chain.plcy p.hash)).contains c
    | _ => false) = stale
  have hnil : stale = [] := by
    rw [← hst, List.filter_eq_nil_iff]
    intro c hc
    cases c <;> simp
    rename_i h
    have := hstale (.plcy h) hc rfl
    simpa using this
  subst hnil
  simp only [List.map_nil, List.append_nil]
  have hb : ∀ c ∈ ps.map (fun p => Chain.plcy p.hash), c.isBuiltin = false := by
    intro c hc; obtain ⟨p, _, rfl⟩ := List.mem_map.mp hc; rfl
  have hdecl : ps.map (fun p => Cmd.decl (.plcy p.hash)) = (ps.map (fun p => Chain.plcy p.hash)).map Cmd.decl := by
    simp [List.map_map]
  have happ : ps.flatMap (fun p => (policyChain p).map (Cmd.app (.plcy p.hash))) =
      (ps.flatMap (fun p => (policyChain p).map (fun r => (Chain.plcy p.hash, r)))).map (fun x => Cmd.app x.1 x.2) := by
    rw [List.map_flatMap]; congr; funext p; simp [List.map_map, Function.comp_def]
  rw [hdecl, happ, List.foldlM_append]
  obtain ⟨t1, hD, hgD⟩ := decls_get k _ hb k.tbl
  obtain ⟨t2, hA, _⟩ := apps_ok k (ps.flatMap (fun p => (policyChain p).map (fun r => (Chain.plcy p.hash, r))))
    (by
      intro x hx
      obtain ⟨p, hp, hx⟩ := List.mem_flatMap.mp hx
      obtain ⟨r, hr, rfl⟩ := List.mem_map.mp hx
      exact ⟨policyChain_tgt p r hr, List.all_eq_true.mpr (fun n hn => hsets p hp r hr n hn), portsOK_of_limit hlim hp hr⟩) t1
    (by
      intro x hx
      obtain ⟨p, hp, hx⟩ := List.mem_flatMap.mp hx
      obtain ⟨r, _, rfl⟩ := List.mem_map.mp hx
      unfold chainExists; rw [hgD]
      simp [List.mem_map.mpr ⟨p, hp, rfl⟩])
  rw [hD]
  exact ⟨t2, hA⟩

/-! one element per key is kept by createIPSet -/

def KeysNodup (es : List Entry) : Prop := (es.map Entry.key).Nodup

theorem key_key (e : Entry) : e.key.key = e.key := by cases e <;> rfl

theorem addEntry_keys (es : List Entry) (e : Entry) (h : KeysNodup es) : KeysNodup (addEntry es e) := by
  unfold addEntry KeysNodup at *
  split
  · -- replace in place: the list of keys is unchanged
    have : (es.map (fun x => if x.key = e.key then e else x)).map Entry.key = es.map Entry.key := by
      rw [List.map_map]
      apply List.map_congr_left
      intro x _
      by_cases hx : x.key = e.key <;> simp [hx]
    rw [this]; exact h
  · rename_i hn
    rw [List.map_append, List.nodup_append]
    refine ⟨h, by simp, ?_⟩
    intro a ha b hb
    simp only [List.map_cons, List.map_nil, List.mem_singleton] at hb
    subst hb
    obtain ⟨x, hx, rfl⟩ := List.mem_map.mp ha
    intro e'
    exact hn (List.any_eq_true.mpr ⟨x, hx, by simp [e']⟩)

theorem delEntry_keys (es : List Entry) (o : Entry) (h : KeysNodup es) : KeysNodup (delEntry es o) := by
  unfold delEntry KeysNodup at *
  exact (List.Sublist.map _ List.filter_sublist).nodup h

theorem foldl_addEntry_keys (l : List Entry) (g : Entry → Bool) (es : List Entry) (h : KeysNodup es) :
    KeysNodup (l.foldl (fun es e => if g e then es else addEntry es e) es) := by
  induction l generalizing es with
  | nil => exact h
  | cons e rest ih =>
    simp only [List.foldl_cons]
    split
    · exact ih es h
    · exact ih _ (addEntry_keys es e h)

theorem cleanup_keys (keep : Bool) (new l es : List Entry) (h : KeysNodup es) : KeysNodup (cleanupEntries keep new l es) := by
  unfold cleanupEntries
  induction l generalizing es with
  | nil => exact h
  | cons o rest ih =>
    simp only [List.foldl_cons]
    split
    · exact ih es h
    · split
      · exact ih es h
      · exact ih _ (delEntry_keys es o h)

theorem syncOneSet_keysNodup (keep : Bool) (sets sets' : List IpSet) (s : IpSet)
    (hold : ∀ s0 ∈ sets, KeysNodup s0.entries) (h : syncOneSetWith keep sets s = .ok sets') :
    ∀ s0 ∈ sets', KeysNodup s0.entries := by
  unfold syncOneSetWith at h
  cases hf : sets.find? (·.name == s.name) with
  | none =>
    rw [hf] at h; simp only at h; cases h
    intro s0 hs0
    rcases List.mem_append.mp hs0 with h1 | h1
    · exact hold s0 h1
    · simp at h1; subst h1
      have := foldl_addEntry_keys s.entries (fun _ => false) [] (by simp [KeysNodup])
      simpa using this
  | some old =>
    rw [hf] at h; simp only at h
    split at h
    · cases h
    · cases h
      intro s0 hs0
      simp only [updSet, List.mem_map] at hs0
      obtain ⟨x, hx, rfl⟩ := hs0
      by_cases e : x.name = s.name
      · simp only [e, if_true]
        apply cleanup_keys
        unfold addEntries
        exact foldl_addEntry_keys s.entries (fun e => old.entries.contains e) old.entries
          (hold old (List.mem_of_find?_eq_some hf))
      · simp only [e, if_false]; exact hold x hx

theorem syncRules_keysNodup (keep : Bool) (k : Kern) (c : Cluster) (ps : List NetPol)
    (hold : ∀ s0 ∈ k.sets, KeysNodup s0.entries) : ∀ s0 ∈ (syncRulesWith keep k c ps).1.sets, KeysNodup s0.entries := by
  unfold syncRulesWith
  cases hf : (compileSets c ps).foldlM (syncOneSetWith keep) k.sets with
  | error e => simp only; exact hold
  | ok sets1 =>
    simp only
    have h1 : ∀ s0 ∈ sets1, KeysNodup s0.entries := by
      have : ∀ (new : List IpSet) (sets sets' : List IpSet), (∀ s0 ∈ sets, KeysNodup s0.entries) →
          new.foldlM (syncOneSetWith keep) sets = .ok sets' → ∀ s0 ∈ sets', KeysNodup s0.entries := by
        intro new
        induction new with
        | nil => intro sets sets' h hh; simp [List.foldlM] at hh; cases hh; exact h
        | cons s rest ih =>
          intro sets sets' h hh
          simp only [List.foldlM_cons] at hh
          obtain ⟨s1, e1, e2⟩ := except_bind_ok hh
          exact ih s1 sets' (syncOneSet_keysNodup keep sets s1 s h e1) e2
      exact this _ _ _ hold hf
    intro s0 hs0
    -- destroyStale only removes sets
    have hsub : ∀ (stale : List SetName) (ss : List IpSet) (t : Table), ∀ x ∈ destroyStale t stale ss, x ∈ ss := by
      intro stale
      induction stale with
      | nil => intro ss t x hx; exact hx
      | cons m rest ih =>
        intro ss t x hx
        unfold destroyStale at hx ih
        simp only [List.foldl_cons] at hx
        split at hx
        · exact ih ss t x hx
        · exact (List.mem_filter.mp (ih _ t x hx)).1
    exact h1 s0 (hsub _ _ _ s0 hs0)

/-! ### exactness of the whole state and idempotence -/

/-- the hypotheses of the exactness / idempotence theorems about the prior kernel state and the compiled sets -/
structure SyncHyps (k : Kern) (c : Cluster) (ps : List NetPol) (node : String) : Prop where
  polHashes : (ps.map (·.hash)).Nodup
  podHashes : ((localPods c node).map (·.hash)).Nodup
  prior : PriorPods (localPods c node) k.tbl
  setNames : ((compileSets c ps).map (·.name)).Nodup
  setKeys : ∀ s ∈ compileSets c ps, KeysConsistent s.entries
  priorSets : ∀ s0 ∈ k.sets, KeysNodup s0.entries
  limit : overLimit ps = false

/-- FULL SYNC, whole owned state -/
theorem fullSync_exact (k : Kern) (c : Cluster) (ps : List NetPol) (node : String) (H : SyncHyps k c ps node)
    (hok : (syncRulesWith true k c ps).2 = []) :
    (fullSyncWith true k c ps node).2 = [] ∧
    OwnedExact c ps node (fullSyncWith true k c ps node).1.tbl ∧
    (∀ s ∈ compileSets c ps, SetIs (fullSyncWith true k c ps node).1.sets s.name s.type s.entries) ∧
    SyncHyps (fullSyncWith true k c ps node).1 c ps node := by
  obtain ⟨f1, f2, f3, f4⟩ := fullSync_chains_exact true k c ps node H.polHashes H.podHashes H.prior hok
  obtain ⟨s1, _⟩ := syncRules_sets_exact k c ps H.setNames H.setKeys H.priorSets (by rw [hok]; intro f hf; cases hf)
  refine ⟨f1, f3, fun s hs => by rw [f2]; exact s1 s hs,
    ⟨H.polHashes, H.podHashes, f4.prior, H.setNames, H.setKeys, ?_, H.limit⟩⟩
  rw [f2]; exact syncRules_keysNodup true k c ps H.priorSets

/-- after an exact sync, syncRules cannot fail -/
theorem syncRules_ok_of_exact (k : Kern) (c : Cluster) (ps : List NetPol) (node : String) (hlim : overLimit ps = false)
    (hnames : ((compileSets c ps).map (·.name)).Nodup) (hex : OwnedExact c ps node k.tbl)
    (hsets : ∀ s ∈ compileSets c ps, SetIs k.sets s.name s.type s.entries) :
    (syncRulesWith true k c ps).2 = [] := by
  obtain ⟨sets2, hfold⟩ := foldlM_sets_ok true (compileSets c ps) k.sets hnames (by
    intro s hs s0 h0
    obtain ⟨s', h1, h2, _⟩ := hsets s hs
    rw [h0] at h1; cases h1; exact h2)
  obtain ⟨hall, _⟩ := foldlM_sets_exist _ _ _ hfold
  obtain ⟨t', ht'⟩ := policyBatch_ok { k with sets := sets2 } ps hlim (by
    intro ch hc hp
    cases ch <;> simp [Chain.isPlcy] at hp
    rename_i h
    have hs := Tbl.get_isSome_of_mem_keys hc
    rw [hex.plcy h] at hs
    cases hf : ps.find? (fun p => p.hash == h) with
    | none => rw [hf] at hs; cases hs
    | some p =>
      have hh : p.hash = h := by simpa using List.find?_some hf
      exact List.mem_map.mpr ⟨p, List.mem_of_find?_eq_some hf, by rw [hh]⟩) (by
    intro p hp r hr n hn
    obtain ⟨s, hs, hname⟩ := policyChain_refs c ps p hp r hr n hn
    rw [← hname]; exact hall s hs)
  unfold syncRulesWith
  rw [hfold]
  simp only [syncIptables, ht']

/-- IDEMPOTENCE of the whole owned state: after a full sync that reports no failure (under the hypotheses), a second
    full sync reports no failure either and leaves policy chains, pod chains, hook rules and ipset contents exactly
    as they were; everything galaxy does not own is untouched (Frame) -/
theorem fullSync_idempotent (k : Kern) (c : Cluster) (ps : List NetPol) (node : String) (H : SyncHyps k c ps node)
    (hok : (syncRulesWith true k c ps).2 = []) :
    let S1 := (fullSyncWith true k c ps node).1
    let R2 := fullSyncWith true S1 c ps node
    R2.2 = [] ∧
    (∀ h, Tbl.get R2.1.tbl (.plcy h) = Tbl.get S1.tbl (.plcy h)) ∧
    (∀ h, Tbl.get R2.1.tbl (.pod h) = Tbl.get S1.tbl (.pod h)) ∧
    (∀ r, r ∈ hooks R2.1.tbl .glxIngress ↔ r ∈ hooks S1.tbl .glxIngress) ∧
    (∀ r, r ∈ hooks R2.1.tbl .glxEgress ↔ r ∈ hooks S1.tbl .glxEgress) ∧
    (∀ s ∈ compileSets c ps, ∃ e1 e2, setEntries S1.sets s.name = some e1 ∧ setEntries R2.1.sets s.name = some e2 ∧
      ∀ y, y ∈ e2 ↔ y ∈ e1) := by
  intro S1 R2
  obtain ⟨_, x1, x2, x3⟩ := fullSync_exact k c ps node H hok
  have hok2 : (syncRulesWith true S1 c ps).2 = [] := syncRules_ok_of_exact S1 c ps node H.limit H.setNames x1 x2
  obtain ⟨g1, y1, y2, _⟩ := fullSync_exact S1 c ps node x3 hok2
  refine ⟨g1, fun h => by rw [y1.plcy h, x1.plcy h], ?_, ?_, ?_, ?_⟩
  · intro h
    cases ha : Tbl.get R2.1.tbl (.pod h) with
    | some rs => exact ((x1.pods h rs).mpr ((y1.pods h rs).mp ha)).symm
    | none =>
      cases hb : Tbl.get S1.tbl (.pod h) with
      | none => rfl
      | some rs => rw [(y1.pods h rs).mpr ((x1.pods h rs).mp hb)] at ha; cases ha
  · intro r; rw [y1.hooksI r, x1.hooksI r]
  · intro r; rw [y1.hooksE r, x1.hooksE r]
  · intro s hs
    obtain ⟨a, ha1, _, ha3⟩ := x2 s hs
    obtain ⟨b, hb1, _, hb3⟩ := y2 s hs
    refine ⟨a.entries, b.entries, ?_, ?_, fun y => ?_⟩
    · show (List.find? (fun x => x.name == s.name) (fullSyncWith true k c ps node).1.sets).map (·.entries) = _
      rw [ha1]; rfl
    · show (List.find? (fun x => x.name == s.name) (fullSyncWith true S1 c ps node).1.sets).map (·.entries) = _
      rw [hb1]; rfl
    rw [hb3 y, ha3 y]

end Galaxy.Policy
