/-
  Helper lemmas for the IPInfo wire format (C13): decimal printer/parser, dotted quads, the element and list codec.
-/
import Galaxy.Model.Args

namespace Galaxy.Args
open Galaxy.Generated.Args

/-! ### digits -/

theorem digit_facts : ∀ d : Fin 10,
    isDigit (digitChar d.val) = true ∧ digitVal (digitChar d.val) = d.val ∧ (digitChar d.val = '0' → d.val = 0) := by
  decide

theorem isDigit_digitChar {d : Nat} (h : d < 10) : isDigit (digitChar d) = true := (digit_facts ⟨d, h⟩).1
theorem digitVal_digitChar {d : Nat} (h : d < 10) : digitVal (digitChar d) = d := (digit_facts ⟨d, h⟩).2.1
theorem digitChar_eq_zero {d : Nat} (h : d < 10) (e : digitChar d = '0') : d = 0 := (digit_facts ⟨d, h⟩).2.2 e

theorem revDigits_all (f n : Nat) : ∀ c ∈ revDigits f n, isDigit c = true := by
  induction f generalizing n with
  | zero => simp [revDigits]
  | succ f ih =>
    intro c hc
    unfold revDigits at hc
    split at hc
    · simp at hc; subst hc; exact isDigit_digitChar (by omega)
    · rcases List.mem_cons.mp hc with h | h
      · subst h; exact isDigit_digitChar (Nat.mod_lt _ (by omega))
      · exact ih _ c h

theorem revDigits_val (f n : Nat) (h : n < f) : valRev (revDigits f n) = n := by
  induction f generalizing n with
  | zero => omega
  | succ f ih =>
    unfold revDigits
    split
    · simp [valRev, digitVal_digitChar (by omega : n < 10)]
    · have : n / 10 < f := by omega
      simp only [valRev, ih _ this, digitVal_digitChar (Nat.mod_lt n (by omega : 10 > 0))]
      omega

theorem revDigits_ne_nil (f n : Nat) (h : n < f) : revDigits f n ≠ [] := by
  cases f with
  | zero => omega
  | succ f => unfold revDigits; split <;> simp

/-- the most significant digit is not '0' unless the number is 0 (then the text is "0") -/
theorem revDigits_getLast (f n : Nat) (h : n < f) :
    (revDigits f n).getLast? = some '0' → revDigits f n = ['0'] := by
  induction f generalizing n with
  | zero => omega
  | succ f ih =>
    unfold revDigits
    split
    · intro e
      simp at e
      have := digitChar_eq_zero (by omega : n < 10) e
      subst this; rfl
    · intro e
      have hlt : n / 10 < f := by omega
      have hne := revDigits_ne_nil f (n / 10) hlt
      rw [List.getLast?_cons_of_ne_nil hne] at e
      have := ih _ hlt e
      -- the higher digits are "0": n / 10 = 0, contradiction with n ≥ 10
      have hv := revDigits_val f (n / 10) hlt
      rw [this] at hv
      simp [valRev, digitVal] at hv
      omega

theorem showNat_all (n : Nat) : ∀ c ∈ showNat n, isDigit c = true := by
  intro c hc
  exact revDigits_all _ _ c (by simpa [showNat] using hc)

theorem showNat_ne_nil (n : Nat) : showNat n ≠ [] := by
  simp [showNat, revDigits_ne_nil (n + 1) n (by omega)]

theorem showNat_val (n : Nat) : valRev (showNat n).reverse = n := by
  simp [showNat, revDigits_val (n + 1) n (by omega)]

theorem showNat_no_leading_zero (n : Nat) : (showNat n).head? = some '0' → (showNat n).length = 1 := by
  intro e
  have e' : (revDigits (n + 1) n).getLast? = some '0' := by simpa [showNat, List.head?_reverse] using e
  have := revDigits_getLast (n + 1) n (by omega) e'
  simp [showNat, this]

/-! ### takeWhile / dropWhile over a digit block -/

theorem takeWhile_digits (ds : Str) (c : Char) (r : Str) (h : ∀ x ∈ ds, isDigit x = true) (hc : isDigit c = false) :
    (ds ++ c :: r).takeWhile isDigit = ds := by
  induction ds with
  | nil => simp [hc]
  | cons a t ih =>
    have ha : isDigit a = true := h a (by simp)
    simp [ha, ih (fun x hx => h x (by simp [hx]))]

theorem dropWhile_digits (ds : Str) (c : Char) (r : Str) (h : ∀ x ∈ ds, isDigit x = true) (hc : isDigit c = false) :
    (ds ++ c :: r).dropWhile isDigit = c :: r := by
  induction ds with
  | nil => simp [hc]
  | cons a t ih =>
    have ha : isDigit a = true := h a (by simp)
    simp [ha, ih (fun x hx => h x (by simp [hx]))]

theorem parseNat_show (n : Nat) (c : Char) (r : Str) (hc : isDigit c = false) :
    parseNat (showNat n ++ c :: r) = some (n, c :: r) := by
  unfold parseNat
  simp only [takeWhile_digits _ c r (showNat_all n) hc, dropWhile_digits _ c r (showNat_all n) hc]
  rw [if_neg (showNat_ne_nil n)]
  have : ¬ ((showNat n).head? = some '0' ∧ (showNat n).length ≠ 1) := by
    intro ⟨h1, h2⟩; exact h2 (showNat_no_leading_zero n h1)
  rw [if_neg this, showNat_val]

theorem parseOctet_show (n : Nat) (hn : n < 256) (c : Char) (r : Str) (hc : isDigit c = false) :
    parseOctet (showNat n ++ c :: r) = some (n, c :: r) := by
  simp [parseOctet, parseNat_show n c r hc, hn]

theorem parseIP_show (x : IPv4) (hx : x.WF) (c : Char) (r : Str) (hc : isDigit c = false) :
    parseIP (showIP x ++ c :: r) = some (x, c :: r) := by
  obtain ⟨ha, hb, hcc, hd⟩ := hx
  have dot : isDigit '.' = false := by decide
  unfold parseIP showIP
  simp only [List.append_assoc, List.cons_append]
  rw [parseOctet_show x.a ha '.' _ dot]
  simp only
  rw [parseOctet_show x.b hb '.' _ dot]
  simp only
  rw [parseOctet_show x.c hcc '.' _ dot]
  simp only
  rw [parseOctet_show x.d hd c r hc]

theorem expect_append (p r : Str) : expect p (p ++ r) = some r := by
  induction p with
  | nil => cases r <;> rfl
  | cons a t ih => simp [expect, ih]

/-! ### elements and lists -/

theorem parseElem_enc (x : IPInfo) (hx : x.WF) (r : Str) : parseElem (encElem x ++ r) = some (x, r) := by
  obtain ⟨hip, hpl, hvl, hgw⟩ := hx
  have slash : isDigit '/' = false := by decide
  have quote : isDigit '"' = false := by decide
  have comma : isDigit ',' = false := by decide
  unfold parseElem encElem
  simp only [List.append_assoc, List.cons_append]
  rw [expect_append]
  simp only
  rw [parseIP_show x.ip hip '/' _ slash]
  simp only
  have hv : litVlan ++ (showNat x.vlan ++ (litGw ++ (showIP x.gw ++ (litClose ++ r)))) =
      '"' :: (',' :: '"' :: (tagVlan.toList ++ ['"', ':']) ++ (showNat x.vlan ++ (litGw ++ (showIP x.gw ++ (litClose ++ r))))) := by
    simp [litVlan]
  rw [hv, parseNat_show x.plen '"' _ quote]
  simp only [hpl, if_true]
  rw [← hv, expect_append]
  simp only
  have hg : litGw ++ (showIP x.gw ++ (litClose ++ r)) =
      ',' :: ('"' :: (tagGateway.toList ++ ['"', ':', '"']) ++ (showIP x.gw ++ (litClose ++ r))) := by
    simp [litGw]
  rw [hg, parseNat_show x.vlan ',' _ comma]
  simp only [hvl, if_true]
  rw [← hg, expect_append]
  simp only
  have hc : litClose ++ r = '"' :: ('}' :: r) := by simp [litClose]
  rw [hc, parseIP_show x.gw hgw '"' _ quote]
  simp only
  rw [← hc, expect_append]

theorem encElem_cons (x : IPInfo) : ∃ t, encElem x = '{' :: t := by
  exact ⟨_, by simp [encElem, litOpen]; rfl⟩

theorem encElems_cons (x : IPInfo) (xs : List IPInfo) : ∃ t, encElems (x :: xs) = '{' :: t := by
  obtain ⟨t, ht⟩ := encElem_cons x
  cases xs with
  | nil => exact ⟨t, by simp [encElems, ht]⟩
  | cons y r => exact ⟨t ++ ',' :: encElems (y :: r), by simp [encElems, ht]⟩

theorem length_le_encElems (l : List IPInfo) : l.length ≤ (encElems l).length := by
  induction l with
  | nil => simp
  | cons x xs ih =>
    obtain ⟨t, ht⟩ := encElem_cons x
    cases xs with
    | nil => simp [encElems, ht]
    | cons y r =>
      simp only [encElems, List.length_append, List.length_cons] at ih ⊢
      omega

theorem parseElems_enc (l : List IPInfo) (hne : l ≠ []) (hl : ∀ x ∈ l, x.WF) (f : Nat) (hf : l.length ≤ f) (r : Str) :
    parseElems f (encElems l ++ ']' :: r) = some (l, r) := by
  induction l generalizing f with
  | nil => exact absurd rfl hne
  | cons x xs ih =>
    cases f with
    | zero => simp at hf
    | succ f =>
      have hx := hl x (by simp)
      cases xs with
      | nil =>
        simp [encElems, parseElems, parseElem_enc x hx]
      | cons y ys =>
        have := ih (by simp) (fun z hz => hl z (by simp [hz])) f (by simp at hf ⊢; omega)
        simp only [encElems, List.append_assoc, List.cons_append, parseElems, parseElem_enc x hx]
        rw [this]

theorem decode_encode (l : List IPInfo) (hl : ∀ x ∈ l, x.WF) : decodeIPInfos (encodeIPInfos l) = some l := by
  cases l with
  | nil => rfl
  | cons x xs =>
    obtain ⟨t, ht⟩ := encElems_cons x xs
    have hlen : (x :: xs).length ≤ (encElems (x :: xs) ++ [']']).length := by
      have := length_le_encElems (x :: xs)
      simp only [List.length_append, List.length_cons] at this ⊢
      omega
    have hp := parseElems_enc (x :: xs) (by simp) hl _ hlen []
    unfold encodeIPInfos
    rw [ht] at hp ⊢
    simp only [List.cons_append] at hp ⊢
    unfold decodeIPInfos
    split
    · rename_i heq
      simp at heq
    · rename_i r _ heq
      have hr : r = '{' :: (t ++ [']']) := by
        have := List.cons.inj heq
        exact this.2.symm
      subst hr
      rw [hp]
    · rename_i h1 h2
      exact absurd rfl (h2 _)

/-! ### which characters occur in the text -/

/-- every non-digit character the printer can emit -/
def jsonChars : Str := litOpen ++ litVlan ++ litGw ++ litClose ++ ['.', '/', ',', '[', ']']

theorem mem_showIP (x : IPv4) (c : Char) (h : c ∈ showIP x) : isDigit c = true ∨ c ∈ jsonChars := by
  simp only [showIP, List.mem_append, List.mem_cons] at h
  rcases h with h | h | h | h | h | h | h
  · exact Or.inl (showNat_all _ c h)
  · subst h; exact Or.inr (by simp [jsonChars])
  · exact Or.inl (showNat_all _ c h)
  · subst h; exact Or.inr (by simp [jsonChars])
  · exact Or.inl (showNat_all _ c h)
  · subst h; exact Or.inr (by simp [jsonChars])
  · exact Or.inl (showNat_all _ c h)

theorem mem_encElem (x : IPInfo) (c : Char) (h : c ∈ encElem x) : isDigit c = true ∨ c ∈ jsonChars := by
  simp only [encElem, List.mem_append, List.mem_cons] at h
  rcases h with h | h | h | h | h | h | h | h | h
  · exact Or.inr (by simp [jsonChars, h])
  · exact mem_showIP _ c h
  · subst h; exact Or.inr (by simp [jsonChars])
  · exact Or.inl (showNat_all _ c h)
  · exact Or.inr (by simp [jsonChars, h])
  · exact Or.inl (showNat_all _ c h)
  · exact Or.inr (by simp [jsonChars, h])
  · exact mem_showIP _ c h
  · exact Or.inr (by simp [jsonChars, h])

theorem mem_encElems (l : List IPInfo) (c : Char) (h : c ∈ encElems l) : isDigit c = true ∨ c ∈ jsonChars := by
  induction l with
  | nil => simp [encElems] at h
  | cons x xs ih =>
    cases xs with
    | nil => exact mem_encElem x c (by simpa [encElems] using h)
    | cons y r =>
      simp only [encElems, List.mem_append, List.mem_cons] at h
      rcases h with h | h | h
      · exact mem_encElem x c h
      · subst h; exact Or.inr (by simp [jsonChars])
      · exact ih h

theorem mem_encode (l : List IPInfo) (c : Char) (h : c ∈ encodeIPInfos l) : isDigit c = true ∨ c ∈ jsonChars := by
  simp only [encodeIPInfos, List.mem_append, List.mem_cons] at h
  rcases h with h | h | h
  · subst h; exact Or.inr (by simp [jsonChars])
  · exact mem_encElems l c h
  · rcases h with h | h
    · subst h; exact Or.inr (by simp [jsonChars])
    · simp at h

/-- a string that starts with '[' and ends with ']' is not changed by TrimSpace -/
theorem trim_bracketed (mid : Str) : trim ('[' :: (mid ++ [']'])) = '[' :: (mid ++ [']']) := by
  have h1 : isSpace '[' = false := by decide
  have h2 : isSpace ']' = false := by decide
  simp [trim, List.dropWhile, h1, h2]

end Galaxy.Args
