/-
  C02 proofs, part 3: the statements used by Props/C02 - Bind after Filter took a reserved address, and the documented
  subtlety (an identity that owns two addresses without requesting ranges).
-/
import Galaxy.Lemmas.C02Filter

namespace Galaxy.Plugin.C02
open Galaxy Galaxy.Plugin Galaxy.Plugin.C03

/-- after a record was (re-)keyed to a key that owned nothing, the key owns exactly that address -/
theorem ipsOfKey_after_rekey (s s' : State) (k : Key) (ip : IP) (r' : Rec) (hown : ipsOfKey s k = [])
    (ha : s'.alloc = Tbl.set s.alloc ip r') (hk : r'.key = k) : ipsOfKey s' k = [ip] := by
  have hnone : ∀ (t : Tbl IP Rec), (t.filter (fun e => e.2.key = k)).map (·.1) = [] →
      ((Tbl.erase t ip).filter (fun e => e.2.key = k)).map (·.1) = [] := by
    intro t
    induction t with
    | nil => intro _; rfl
    | cons e t ih =>
      intro h
      obtain ⟨j, r⟩ := e
      by_cases hkk : r.key = k
      · simp [List.filter, hkk] at h
      · have ht : (List.filter (fun e => decide (e.2.key = k)) t).map (·.1) = [] := by
          simpa [List.filter, hkk] using h
        by_cases hj : j = ip
        · have := ih ht
          simpa [Tbl.erase, hj] using this
        · have := ih ht
          simpa [Tbl.erase, hj, List.filter, hkk] using this
  unfold ipsOfKey at hown ⊢
  rw [ha]
  unfold Tbl.set
  simp only [List.filter, hk, decide_true, List.map_cons]
  rw [hnone s.alloc hown]

/-- "… and bind hands exactly that IP": in any state in which the pod's key owns exactly the address `ip` (e.g. right
    after `filter_takes_reserved`, or at any later time while the reservation is kept) a successful Bind writes `[ip]` -/
theorem bind_single (s : State) (ns name : String) (uid : Nat) (node : String) (ch : Choice) (pod : Pod) (ip : IP)
    (hl : Tbl.get s.vPods (ns, name) = some pod) (hw : pod.wants = true) (hr : pod.ranges = [])
    (hown : ipsOfKey s (keyOf pod) = [ip]) (hok : (bind Facts.good s ns name uid node ch).2.res = .ok) :
    (bind Facts.good s ns name uid node ch).2.ips.map (·.ip) = [ip] := by
  cases hbi : bindInfos s pod ch with
  | none =>
    exfalso
    unfold bind at hok
    simp only [hl, hw, Bool.not_true, Bool.false_eq_true, if_false, hbi] at hok
    split at hok <;> simp [Out.err, Out.bad] at hok
  | some infos =>
    obtain ⟨i, hi, he⟩ := bindInfos_noranges s pod ch hr infos hbi (by rw [hown]; simp)
    rw [hown] at hi
    have : i = ip := by simpa using hi
    subst this
    have hbi' : bindInfos s pod ch = some ([i].map some) := by rw [hbi, he]; rfl
    exact (bind_found s ns name uid node ch pod [i] hl hw hbi' (by simp) hok).1

end Galaxy.Plugin.C02
