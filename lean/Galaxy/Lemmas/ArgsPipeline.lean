/-
  Composition lemmas for C13: annotation → per-network args → accumulated CNI_ARGS → plugin-side decode.
-/
import Galaxy.Lemmas.Args
import Galaxy.Lemmas.ArgsJson

namespace Galaxy.Args
open Galaxy.Generated.Args

/-- pins on the regenerated names which the composition needs -/
structure NameFacts : Prop where
  key : tagIPInfos = ipInfosKey
  omitEmpty : ipInfosOmitEmpty = true
  keyWF : WFKey ipInfosKey.toList
  noSepInText : isDigit parseEntrySep = false ∧ parseEntrySep ∉ jsonChars

theorem wfVal_encode (N : NameFacts) (l : List IPInfo) : WFVal (encodeIPInfos l) := by
  constructor
  · intro h
    rcases mem_encode l _ h with h1 | h1
    · rw [N.noSepInText.1] at h1; exact absurd h1 (by simp)
    · exact N.noSepInText.2 h1
  · exact trim_bracketed _

theorem commonOf_cons (N : NameFacts) (x : IPInfo) (xs : List IPInfo) :
    commonOf (x :: xs) = [(ipInfosKey.toList, encodeIPInfos (x :: xs))] := by
  simp [commonOf, N.key]

theorem wfMap_commonOf (N : NameFacts) (l : List IPInfo) : WFMap (commonOf l) := by
  cases l with
  | nil => simp [commonOf, N.omitEmpty, WFMap, Tbl.keys]
  | cons x xs =>
    rw [commonOf_cons N]
    refine ⟨by simp [Tbl.keys], ?_⟩
    intro kv hkv
    simp at hkv
    subst hkv
    exact ⟨N.keyWF, wfVal_encode N _⟩

theorem pluginDecode_of_get (args : Str) (l : List IPInfo) (hne : l ≠ []) (hl : ∀ x ∈ l, x.WF)
    (h : Tbl.get (parseArgs args) ipInfosKey.toList = some (encodeIPInfos l)) : pluginDecode args = .ok l := by
  unfold pluginDecode
  rw [h]
  have hd := decode_encode l hl
  cases l with
  | nil => exact absurd rfl hne
  | cons x xs =>
    have : encodeIPInfos (x :: xs) = '[' :: (encElems (x :: xs) ++ [']']) := rfl
    rw [this] at hd ⊢
    simp only [hd]

theorem accumulateAll_common_ok (F : SepFacts) (N : NameFacts) (l : List IPInfo) (hne : l ≠ []) (hl : ∀ x ∈ l, x.WF)
    (orders : List (List Nat)) (ho : ∀ π ∈ orders, Admissible (commonOf l) π) (req : Str) :
    (accumulateAll req ((networkArgs (commonOf l) orders.length).zip orders)).map pluginDecode =
      List.replicate orders.length (.ok l) := by
  induction orders generalizing req with
  | nil => simp [networkArgs, accumulateAll]
  | cons π r ih =>
    have hπ := ho π (by simp)
    have hget : Tbl.get (commonOf l) ipInfosKey.toList = some (encodeIPInfos l) := by
      cases l with
      | nil => exact absurd rfl hne
      | cons x xs => rw [commonOf_cons N]; simp [Tbl.get]
    have h1 : Tbl.get (parseArgs (accumulate req (commonOf l) π)) ipInfosKey.toList = some (encodeIPInfos l) := by
      rw [get_parse_accumulate F req _ π (wfMap_commonOf N l) hπ, hget]
    have := ih (fun π' h' => ho π' (by simp [h'])) (accumulate req (commonOf l) π)
    simp only [networkArgs, List.length_cons, List.replicate_succ, List.zip_cons_cons, accumulateAll, List.map_cons]
    simp only [networkArgs] at this
    rw [this, pluginDecode_of_get _ l hne hl h1]

theorem accumulateAll_nil_fallback (F : SepFacts) (n : Nat) (req : Str)
    (h : Tbl.get (parseArgs req) ipInfosKey.toList = none) :
    (accumulateAll req ((List.replicate n ([] : Tbl Str Str)).zip (List.replicate n ([] : List Nat)))).map pluginDecode =
      List.replicate n .fallback := by
  induction n generalizing req with
  | zero => simp [accumulateAll]
  | succ n ih =>
    have hwf : WFMap ([] : Tbl Str Str) := by simp [WFMap, Tbl.keys]
    have hadm : Admissible ([] : Tbl Str Str) [] := by simp [Admissible]
    have h1 : Tbl.get (parseArgs (accumulate req [] [])) ipInfosKey.toList = none := by
      rw [get_parse_accumulate F req [] [] hwf hadm]; simpa [Tbl.get] using h
    have := ih (accumulate req [] []) h1
    simp only [List.replicate_succ, List.zip_cons_cons, accumulateAll, List.map_cons]
    rw [this]
    simp [pluginDecode, h1]

theorem pipeline_nil_fallback (F : SepFacts) (N : NameFacts) (n : Nat) (req : Str)
    (h : Tbl.get (parseArgs req) ipInfosKey.toList = none) :
    pipeline req [] (List.replicate n []) = List.replicate n .fallback := by
  have hc : commonOf [] = [] := by simp [commonOf, N.omitEmpty]
  unfold pipeline pipelineCommon networkArgs
  rw [List.length_replicate, hc]
  exact accumulateAll_nil_fallback F n req h

end Galaxy.Args
