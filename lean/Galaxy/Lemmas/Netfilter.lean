/-
  Generic lemmas about M6: lookups, `referenced`, the frame of a restore batch, and `get`-level
  characterisations of batches made of chain lines, of appends, and of chain deletions.
-/
import Galaxy.Model.Netfilter

namespace Galaxy.Netfilter

open Galaxy

/-! ## tables -/

theorem has_iff {T : Table} {c : String} : Tbl.has T c = true ↔ ∃ rs, Tbl.get T c = some rs := by
  simp [Tbl.has, Option.isSome_iff_exists]

theorem has_false_iff {T : Table} {c : String} : Tbl.has T c = false ↔ Tbl.get T c = none := by
  simp [Tbl.has]

theorem has_set (T : Table) (c k : String) (v : List Rule) :
    Tbl.has (Tbl.set T k v) c = (decide (k = c) || Tbl.has T c) := by
  by_cases h : k = c <;> simp [Tbl.has, Tbl.get_set, h]

theorem mem_keys_iff {T : Table} {c : String} : c ∈ Tbl.keys T ↔ ∃ rs, Tbl.get T c = some rs := by
  constructor
  · intro h
    have := Tbl.get_isSome_of_mem_keys h
    exact Option.isSome_iff_exists.mp this
  · rintro ⟨rs, h⟩
    exact Tbl.mem_keys_of_get h

theorem referenced_iff {T : Table} {c : String} :
    referenced T c = true ↔ ∃ k rs r, Tbl.get T k = some rs ∧ r ∈ rs ∧ chainRef r = some c := by
  unfold referenced
  rw [List.any_eq_true]
  constructor
  · rintro ⟨k, hk, h⟩
    obtain ⟨rs, hrs⟩ := mem_keys_iff.mp hk
    rw [hrs] at h
    simp only [Option.getD_some, List.any_eq_true, decide_eq_true_eq] at h
    obtain ⟨r, hr, hc⟩ := h
    exact ⟨k, rs, r, hrs, hr, hc⟩
  · rintro ⟨k, rs, r, hrs, hr, hc⟩
    refine ⟨k, mem_keys_iff.mpr ⟨rs, hrs⟩, ?_⟩
    rw [hrs]
    simp only [Option.getD_some, List.any_eq_true, decide_eq_true_eq]
    exact ⟨r, hr, hc⟩

theorem referenced_false_iff {T : Table} {c : String} :
    referenced T c = false ↔ ∀ k rs r, Tbl.get T k = some rs → r ∈ rs → chainRef r ≠ some c := by
  constructor
  · intro h k rs r hk hr hc
    have : referenced T c = true := referenced_iff.mpr ⟨k, rs, r, hk, hr, hc⟩
    rw [h] at this; exact Bool.noConfusion this
  · intro h
    cases hr : referenced T c with
    | false => rfl
    | true =>
      obtain ⟨k, rs, r, hk, hrr, hc⟩ := referenced_iff.mp hr
      exact absurd hc (h k rs r hk hrr)

/-! ## one command -/

def cmdChain : Cmd → String
  | .decl c => c
  | .app c _ => c
  | .ins c _ => c
  | .del c => c

theorem applyCmd_frame {setOk : String → Bool} {T T' : Table} {cmd : Cmd} {c : String}
    (h : applyCmd setOk T cmd = .ok T') (hc : cmdChain cmd ≠ c) : Tbl.get T' c = Tbl.get T c := by
  cases cmd with
  | decl k =>
    simp only [applyCmd] at h
    simp only [cmdChain] at hc
    split at h
    · split at h
      · cases h; rfl
      · cases h
    · cases h; simp [Tbl.get_set, hc]
  | app k r =>
    simp only [applyCmd] at h
    simp only [cmdChain] at hc
    split at h
    · cases h
    · split at h
      · cases h
      · cases h; simp [Tbl.get_set, hc]
  | ins k r =>
    simp only [applyCmd] at h
    simp only [cmdChain] at hc
    split at h
    · cases h
    · split at h
      · cases h
      · cases h; simp [Tbl.get_set, hc]
  | del k =>
    simp only [applyCmd] at h
    simp only [cmdChain] at hc
    cases hg : Tbl.get T k with
    | none => rw [hg] at h; cases h
    | some rules =>
      rw [hg] at h
      simp only at h
      by_cases hb : isBuiltin k = true
      · simp [hb] at h
      · by_cases hr : rules = []
        · by_cases hf : referenced T k = true
          · simp [hb, hr, hf] at h
          · simp [hb, hr, hf] at h; subst h; simp [Tbl.get_erase, hc]
        · simp [hb, hr] at h

/-! ## batches -/

theorem restoreIn_nil (setOk : String → Bool) (T : Table) : restoreIn setOk T [] = .ok T := rfl

theorem restoreIn_cons_ok {setOk : String → Bool} {T T1 : Table} {cmd : Cmd} (b : Batch)
    (h : applyCmd setOk T cmd = .ok T1) : restoreIn setOk T (cmd :: b) = restoreIn setOk T1 b := by
  simp [restoreIn, h]

theorem restoreIn_append_ok {setOk : String → Bool} {T T1 : Table} {a : Batch} (b : Batch)
    (h : restoreIn setOk T a = .ok T1) : restoreIn setOk T (a ++ b) = restoreIn setOk T1 b := by
  induction a generalizing T with
  | nil => simp [restoreIn] at h; subst h; rfl
  | cons cmd a ih =>
    simp only [restoreIn] at h
    split at h
    · cases h
    · next T2 h2 =>
      simp only [List.cons_append, restoreIn, h2]
      exact ih h

theorem restoreIn_append_err {setOk : String → Bool} {T : Table} {a : Batch} {e : Err} (b : Batch)
    (h : restoreIn setOk T a = .error e) : restoreIn setOk T (a ++ b) = .error e := by
  induction a generalizing T with
  | nil => simp [restoreIn] at h
  | cons cmd a ih =>
    simp only [restoreIn] at h
    split at h
    · next e' h2 => cases h; simp [restoreIn, h2]
    · next T2 h2 =>
      simp only [List.cons_append, restoreIn, h2]
      exact ih h

/-- chains a batch does not name keep their rules -/
theorem restoreIn_frame {setOk : String → Bool} {T T' : Table} {b : Batch} {c : String}
    (h : restoreIn setOk T b = .ok T') (hc : ∀ cmd ∈ b, cmdChain cmd ≠ c) : Tbl.get T' c = Tbl.get T c := by
  induction b generalizing T with
  | nil => simp [restoreIn] at h; subst h; rfl
  | cons cmd b ih =>
    simp only [restoreIn] at h
    split at h
    · cases h
    · next T1 h1 =>
      rw [ih h (fun x hx => hc x (List.mem_cons_of_mem _ hx))]
      exact applyCmd_frame h1 (hc cmd (List.mem_cons_self ..))

/-- `commit` never changes a chain the batch does not name, whether it succeeds or not -/
theorem commit_frame (setOk : String → Bool) (T : Table) (b : Batch) (c : String)
    (hc : ∀ cmd ∈ b, cmdChain cmd ≠ c) : Tbl.get (commit setOk T b).1 c = Tbl.get T c := by
  unfold commit
  split
  · next T' h => exact restoreIn_frame h hc
  · rfl

/-- all-or-nothing -/
theorem commit_error_unchanged {setOk : String → Bool} {T : Table} {b : Batch} {e : Err}
    (h : (commit setOk T b).2 = some e) : (commit setOk T b).1 = T := by
  unfold commit at h ⊢
  split
  · next T' h' => simp [h'] at h
  · rfl

/-! ### chain lines -/

theorem restore_decls (setOk : String → Bool) (T : Table) (cs : List String)
    (hnb : ∀ c ∈ cs, isBuiltin c = false) :
    ∃ T', restoreIn setOk T (cs.map .decl) = .ok T' ∧
      ∀ c, Tbl.get T' c = if c ∈ cs then some [] else Tbl.get T c := by
  induction cs generalizing T with
  | nil => exact ⟨T, rfl, fun c => by simp⟩
  | cons c0 cs ih =>
    have h0 : applyCmd setOk T (.decl c0) = .ok (Tbl.set T c0 []) := by
      simp [applyCmd, hnb c0 (List.mem_cons_self ..)]
    obtain ⟨T', hT', hget⟩ := ih (Tbl.set T c0 []) (fun c hc => hnb c (List.mem_cons_of_mem _ hc))
    refine ⟨T', ?_, ?_⟩
    · simp only [List.map_cons]
      rw [restoreIn_cons_ok _ h0]; exact hT'
    · intro c
      rw [hget c]
      by_cases h1 : c ∈ cs
      · simp [h1]
      · by_cases h2 : c0 = c
        · subst h2; simp [h1]
        · have : ¬ c = c0 := fun h => h2 h.symm
          simp [h1, this, Tbl.get_set, h2]

/-! ### appends -/

/-- the rules a batch appends to chain `c`, in order -/
def appsFor (c : String) : Batch → List Rule
  | [] => []
  | .app c' r :: b => if c' = c then r :: appsFor c b else appsFor c b
  | _ :: b => appsFor c b

theorem appsFor_append (c : String) (a b : Batch) : appsFor c (a ++ b) = appsFor c a ++ appsFor c b := by
  induction a with
  | nil => rfl
  | cons cmd a ih =>
    cases cmd with
    | app c' r => by_cases h : c' = c <;> simp [appsFor, h, ih]
    | decl _ => simp [appsFor, ih]
    | ins _ _ => simp [appsFor, ih]
    | del _ => simp [appsFor, ih]

/-- an `-A` command whose chain and references exist in `T` -/
def AppOk (setOk : String → Bool) (T : Table) (cmd : Cmd) : Prop :=
  ∃ c r, cmd = .app c r ∧ Tbl.has T c = true ∧ (∀ t, chainRef r = some t → Tbl.has T t = true) ∧
    (matchSets r).all setOk = true

theorem checkRefs_none {setOk : String → Bool} {T : Table} {r : Rule}
    (h1 : ∀ t, chainRef r = some t → Tbl.has T t = true) (h2 : (matchSets r).all setOk = true) :
    checkRefs setOk T r = none := by
  unfold checkRefs
  split
  · next t ht => simp [h1 t ht, h2]
  · simp [h2]

theorem restore_apps (setOk : String → Bool) (T : Table) (b : Batch) (hall : ∀ cmd ∈ b, AppOk setOk T cmd) :
    ∃ T', restoreIn setOk T b = .ok T' ∧
      ∀ c, Tbl.get T' c = (Tbl.get T c).map (· ++ appsFor c b) := by
  induction b generalizing T with
  | nil => exact ⟨T, rfl, fun c => by simp [appsFor]⟩
  | cons cmd b ih =>
    obtain ⟨c0, r0, rfl, hc0, hrefs, hsets⟩ := hall _ (List.mem_cons_self ..)
    obtain ⟨rules, hrules⟩ := has_iff.mp hc0
    have h0 : applyCmd setOk T (.app c0 r0) = .ok (Tbl.set T c0 (rules ++ [r0])) := by
      simp [applyCmd, checkRefs_none hrefs hsets, hrules]
    have hhas : ∀ x, Tbl.has (Tbl.set T c0 (rules ++ [r0])) x = Tbl.has T x := by
      intro x
      rw [has_set]
      by_cases hx : c0 = x
      · subst hx; simp [hc0]
      · simp [hx]
    have hall' : ∀ cmd ∈ b, AppOk setOk (Tbl.set T c0 (rules ++ [r0])) cmd := by
      intro cmd hcmd
      obtain ⟨c, r, he, h1, h2, h3⟩ := hall cmd (List.mem_cons_of_mem _ hcmd)
      exact ⟨c, r, he, by rw [hhas]; exact h1, fun t ht => by rw [hhas]; exact h2 t ht, h3⟩
    obtain ⟨T', hT', hget⟩ := ih _ hall'
    refine ⟨T', ?_, ?_⟩
    · rw [restoreIn_cons_ok _ h0]; exact hT'
    · intro c
      rw [hget c]
      by_cases hx : c0 = c
      · subst hx; simp [hrules, appsFor]
      · simp [Tbl.get_set, hx, appsFor]

/-! ### chain deletions -/

theorem referenced_erase {T : Table} {d c : String} (h : referenced T c = false) :
    referenced (Tbl.erase T d) c = false := by
  rw [referenced_false_iff] at h ⊢
  intro k rs r hk hr
  by_cases hkd : d = k
  · subst hkd; simp at hk
  · rw [Tbl.get_erase_ne _ hkd] at hk
    exact h k rs r hk hr

theorem restore_dels (setOk : String → Bool) (T : Table) (ds : List String) (hnd : ds.Nodup)
    (h : ∀ d ∈ ds, Tbl.get T d = some [] ∧ isBuiltin d = false ∧ referenced T d = false) :
    ∃ T', restoreIn setOk T (ds.map .del) = .ok T' ∧
      ∀ c, Tbl.get T' c = if c ∈ ds then none else Tbl.get T c := by
  induction ds generalizing T with
  | nil => exact ⟨T, rfl, fun c => by simp⟩
  | cons d0 ds ih =>
    obtain ⟨hg, hb, hr⟩ := h d0 (List.mem_cons_self ..)
    have h0 : applyCmd setOk T (.del d0) = .ok (Tbl.erase T d0) := by
      simp [applyCmd, hg, hb, hr]
    have hnd' := (List.nodup_cons.mp hnd)
    have h' : ∀ d ∈ ds, Tbl.get (Tbl.erase T d0) d = some [] ∧ isBuiltin d = false ∧
        referenced (Tbl.erase T d0) d = false := by
      intro d hd
      obtain ⟨a, b, c⟩ := h d (List.mem_cons_of_mem _ hd)
      have hne : d0 ≠ d := fun e => hnd'.1 (e ▸ hd)
      exact ⟨by rw [Tbl.get_erase_ne _ hne]; exact a, b, referenced_erase c⟩
    obtain ⟨T', hT', hget⟩ := ih _ hnd'.2 h'
    refine ⟨T', ?_, ?_⟩
    · simp only [List.map_cons]
      rw [restoreIn_cons_ok _ h0]; exact hT'
    · intro c
      rw [hget c]
      by_cases h1 : c ∈ ds
      · simp [h1]
      · by_cases h2 : d0 = c
        · subst h2; simp [h1]
        · have : ¬ c = d0 := fun e => h2 e.symm
          simp [h1, this, Tbl.get_erase, h2]

/-! ## single commands -/

theorem ensureRule_existing {prepend : Bool} {setOk : String → Bool} {T : Table} {c : String} {r : Rule}
    {rules : List Rule} (hrefs : checkRefs setOk T r = none) (hk : Tbl.get T c = some rules) (hj : r ∈ rules) :
    ensureRule prepend setOk T c r = .ok (true, T) := by
  unfold ensureRule
  rw [hrefs]; simp only [hk]; rw [if_pos hj]

theorem ensureRule_append {setOk : String → Bool} {T : Table} {c : String} {r : Rule}
    {rules : List Rule} (hrefs : checkRefs setOk T r = none) (hk : Tbl.get T c = some rules) (hj : r ∉ rules) :
    ensureRule false setOk T c r = .ok (false, Tbl.set T c (rules ++ [r])) := by
  unfold ensureRule
  rw [hrefs]; simp only [hk]; rw [if_neg hj]; rfl

theorem deleteRule_present {setOk : String → Bool} {T : Table} {c : String} {r : Rule}
    {rules : List Rule} (hrefs : checkRefs setOk T r = none) (hk : Tbl.get T c = some rules) (hj : r ∈ rules) :
    deleteRule setOk T c r = .ok (Tbl.set T c (rules.erase r)) := by
  unfold deleteRule
  rw [hrefs]; simp only [hk]; rw [if_pos hj]

theorem deleteRule_absent {setOk : String → Bool} {T : Table} {c : String} {r : Rule}
    {rules : List Rule} (hrefs : checkRefs setOk T r = none) (hk : Tbl.get T c = some rules) (hj : r ∉ rules) :
    deleteRule setOk T c r = .ok T := by
  unfold deleteRule
  rw [hrefs]; simp only [hk]; rw [if_neg hj]

theorem ensureRule_frame {prepend : Bool} {setOk : String → Bool} {T T' : Table} {c k : String} {r : Rule} {ex : Bool}
    (h : ensureRule prepend setOk T k r = .ok (ex, T')) (hc : k ≠ c) : Tbl.get T' c = Tbl.get T c := by
  unfold ensureRule at h
  split at h
  · cases h
  · split at h
    · cases h
    · split at h
      · cases h; rfl
      · cases h; simp [Tbl.get_set, hc]

theorem deleteRule_frame {setOk : String → Bool} {T T' : Table} {c k : String} {r : Rule}
    (h : deleteRule setOk T k r = .ok T') (hc : k ≠ c) : Tbl.get T' c = Tbl.get T c := by
  unfold deleteRule at h
  split at h
  · cases h
  · split at h
    · cases h; rfl
    · split at h
      · cases h; simp [Tbl.get_set, hc]
      · cases h; rfl

end Galaxy.Netfilter
