/-
  C03 proofs, part 3: one resync pass.
  * `Shr`: the pass only releases records, re-keys them to a key without pod name, or clears node / uid; the stored
    policy of a surviving record never changes;
  * `resyncOne_gone`: when the pod a record names is gone (lister in sync, no failing call) the closure takes the
    release decision with the STORED policy and carries it out completely;
  * `quiescent_core`: after one fault-free pass with the pod lister in sync, every record that still names a vanished /
    finished pod is one the documented policy keeps (or its policy is `never`).
-/
import Galaxy.Lemmas.C03Ipam

namespace Galaxy.Plugin.C03
open Galaxy Galaxy.Plugin

/-! ### the documented decision, for keys that are not deployment keys -/

theorem docAction_ne_release_iff (i : DIn) : docAction i ≠ .release ↔ docKeeps i = true := by
  unfold docAction
  cases docKeeps i <;> cases i.isDp <;> cases i.keyIsPrefix <;> simp

/-- whatever is not released by `unbindNoneDpPod` is kept by the documented policy -/
theorem codeActionOther_keeps (i : DIn) (hd : i.isDp = false) (h : codeActionOther i ≠ .release) : docKeeps i = true := by
  unfold codeActionOther at h
  rw [gen_policies.1, gen_policies.2.1, gen_policies.2.2] at h
  unfold docKeeps
  by_cases h0 : i.policy = 0
  · simp [h0] at h
  · have hb0 : (i.policy == 0) = false := by simpa using h0
    cases hs : supported i with
    | false => simp [hs] at h
    | true =>
      simp only [hb0, hs, Bool.not_true, Bool.or_self, Bool.false_eq_true, if_false] at h
      simp only [h0, if_false, hd, Bool.false_eq_true]
      by_cases h2 : i.policy = 2
      · have : docSupports i = true := by rw [← supported_eq_doc i (Or.inr h2)]; exact hs
        simp [this, h2]
      · have hb2 : (i.policy == 2) = false := by simpa using h2
        have hds : docSupports i = true := by
          unfold supported at hs
          unfold docSupports
          rw [gen_policies.2.2] at hs
          simp only [hd, hb2, Bool.false_or, Bool.false_eq_true, if_false] at hs ⊢
          cases hst : i.isSts with
          | true => simp
          | false =>
            simp only [hst, Bool.false_eq_true, if_false, Bool.false_or] at hs ⊢
            cases hn : i.numeric with
            | false => simp [hn] at hs
            | true => simpa [hn] using hs
        simp only [hds, Bool.not_true, Bool.false_eq_true, if_false, h2]
        by_cases h1 : i.policy = 1
        · simp only [h1, if_true]
          have hb1 : (i.policy == 1) = true := by simpa using h1
          simp only [hb2, Bool.false_eq_true, if_false, hb1, if_true] at h
          cases hk : (i.isSts || i.scalable) with
          | false =>
            exfalso
            unfold supported at hs
            rw [gen_policies.2.2] at hs
            simp only [hd, hb2, Bool.false_or] at hs
            cases hst : i.isSts <;> cases hsc : i.scalable <;> cases hn : i.numeric <;> simp_all
          | true =>
            simp only [hk, Bool.not_true, Bool.false_eq_true, if_false] at h
            cases he : i.appExists with
            | false => simp [he] at h
            | true =>
              simp only [he, Bool.not_true, Bool.false_eq_true, if_false] at h
              cases hi : i.index with
              | none => simp
              | some idx =>
                simp only [hi, gen_scaledDown] at h
                by_cases hlt : i.replicas < idx + 1
                · simp [hlt] at h
                · simp; omega
        · simp [h1]

/-- for a key that is not a deployment key the documented decision reads the state only through the app lister -/
theorem docKeeps_other_congr (cr : CRs) (s s' : State) (k : Key) (p : Nat) (hk : k.isDp = false)
    (hv : s'.vApps = s.vApps) : docKeeps (dinOf cr s' k p) = docKeeps (dinOf cr s k p) := by
  unfold docKeeps docSupports
  simp only [dinOf_isDp, dinOf_policy, dinOf_isSts, dinOf_numeric, dinOf_scalable, dinOf_index, hk]
  have ha : (dinOf cr s' k p).appExists = (dinOf cr s k p).appExists := by
    simp only [dinOf, hk, checkApp, hv]
  have hr : (dinOf cr s' k p).replicas = (dinOf cr s k p).replicas := by
    simp only [dinOf, hk, checkApp, hv]
  rw [ha, hr]
  simp

/-! ### the shape of a resync pass -/

/-- records only disappear, are re-keyed to a key without pod name, or lose node / uid; a surviving record keeps its
    stored policy -/
structure Shr (s s' : State) : Prop where
  frame : Frame s s'
  recs : ∀ ip r', Tbl.get s'.alloc ip = some r' →
    ∃ r, Tbl.get s.alloc ip = some r ∧ r'.policy = r.policy ∧ (r'.key = r.key ∨ r'.key.pod = "")

theorem Shr.refl (s : State) : Shr s s := ⟨Frame.refl s, fun _ r' h => ⟨r', h, rfl, Or.inl rfl⟩⟩

theorem Shr.trans {a b c : State} (h1 : Shr a b) (h2 : Shr b c) : Shr a c := by
  refine ⟨h1.frame.trans h2.frame, fun ip r' h => ?_⟩
  obtain ⟨r1, g1, p1, k1⟩ := h2.recs ip r' h
  obtain ⟨r0, g0, p0, k0⟩ := h1.recs ip r1 g1
  refine ⟨r0, g0, p1.trans p0, ?_⟩
  rcases k1 with k1 | k1
  · rcases k0 with k0 | k0
    · exact Or.inl (k1.trans k0)
    · exact Or.inr (by rw [k1]; exact k0)
  · exact Or.inr k1

theorem Shr.of_quiet {s s' : State} (q : QuietStep s s') : Shr s s' :=
  ⟨q.frame, fun ip r' h => ⟨r', by rw [← q.alloc]; exact h, rfl, Or.inl rfl⟩⟩

theorem exec_frame (s : State) (k : Key) (act : Action) : Frame s (exec s k act).1 := by
  cases act with
  | release => exact (releaseIP_chg s k).frame
  | reserveOwn => exact (reserve_chg s k k {}).frame
  | reservePrefix => exact (reserve_chg s k k.poolPrefix {}).frame
  | keep => exact Frame.refl s
  | fail c => exact Frame.refl s

theorem exec_shr (s : State) (k : Key) (act : Action) : Shr s (exec s k act).1 := by
  refine ⟨exec_frame s k act, fun ip r' h => ?_⟩
  cases act with
  | release => exact ⟨r', releaseIP_recs s k ip r' h, rfl, Or.inl rfl⟩
  | reserveOwn =>
    obtain ⟨r, g, p, kk⟩ := reserve_recs s k k {} ip r' h
    refine ⟨r, g, p, Or.inl ?_⟩
    rcases kk with kk | ⟨k1, k2⟩
    · exact kk
    · rw [k1, k2]
  | reservePrefix =>
    obtain ⟨r, g, p, kk⟩ := reserve_recs s k k.poolPrefix {} ip r' h
    refine ⟨r, g, p, ?_⟩
    rcases kk with kk | ⟨_, k2⟩
    · exact Or.inl kk
    · exact Or.inr (by rw [k2]; exact poolPrefix_pod k)
  | keep => exact ⟨r', h, rfl, Or.inl rfl⟩
  | fail c => exact ⟨r', h, rfl, Or.inl rfl⟩

theorem exec_coherent (s : State) (k : Key) (act : Action) (h : Coherent s) : Coherent (exec s k act).1 := by
  cases act with
  | release => exact releaseIP_coherent s k h
  | reserveOwn => exact reserve_coherent s k k {} h
  | reservePrefix => exact reserve_coherent s k k.poolPrefix {} h
  | keep => exact h
  | fail c => exact h

/-- the decision step of the closure, in the model's own words -/
theorem go_eq (s : State) (k : Key) (p : Nat) :
    (if k.isDp = true then (unbindDp s k p).1 else (unbindOther s k p).1) = (exec s k (codeAction (dinOf CRs.none s k p))).1 := by
  rw [← decideX_eq_exec, decideX_none]
  split <;> rfl

/-! ### `keyOwnedByRunningPod` only asks, `resyncAct` only releases / reserves -/

/-- the release decision of the closure after the provider unassign, in terms of `exec ∘ codeAction` -/
theorem resyncAct_eq (s1 : State) (ip : IP) (k : Key) (r : Rec) :
    resyncAct s1 ip k r =
      if s1.provOn && r.node ≠ "" then
        if !(provUnassign s1 r.node ip).2 then (provUnassign s1 r.node ip).1
        else (exec (reserve (provUnassign s1 r.node ip).1 k k {}).1 k
          (codeAction (dinOf CRs.none (reserve (provUnassign s1 r.node ip).1 k k {}).1 k r.policy))).1
      else (exec s1 k (codeAction (dinOf CRs.none s1 k r.policy))).1 := by
  unfold resyncAct
  split
  · split
    · rfl
    · rw [← go_eq]
  · rw [← go_eq]

theorem resyncAct_shr (s1 : State) (ip : IP) (k : Key) (r : Rec) (h : Coherent s1) :
    Coherent (resyncAct s1 ip k r) ∧ Shr s1 (resyncAct s1 ip k r) := by
  rw [resyncAct_eq]
  split
  · have uq := provUnassign_quiet s1 r.node ip
    have hc2 := uq.coherent h
    split
    · exact ⟨hc2, Shr.of_quiet uq⟩
    · have hc3 := reserve_coherent _ k k {} hc2
      have s3 : Shr (provUnassign s1 r.node ip).1 (reserve (provUnassign s1 r.node ip).1 k k {}).1 := exec_shr _ k .reserveOwn
      exact ⟨exec_coherent _ _ _ hc3, ((Shr.of_quiet uq).trans s3).trans (exec_shr _ _ _)⟩
  · exact ⟨exec_coherent _ _ _ h, exec_shr _ _ _⟩

/-- one checklist entry: coherent tables stay coherent, and the step has the shape `Shr` - for every fault plan -/
theorem resyncOne_shr (s : State) (ip : IP) (r0 : Rec) (h : Coherent s) :
    Coherent (resyncOne Facts.good s ip r0) ∧ Shr s (resyncOne Facts.good s ip r0) := by
  unfold resyncOne
  simp only [good_resyncRechecks, if_true]
  split
  · exact ⟨h, Shr.refl s⟩
  · rename_i r hr
    split
    · exact ⟨h, Shr.refl s⟩
    · have pq := (podRunning_quiet Facts.good s r0.key.pod r0.key.ns r.uid).1
      have hc1 := pq.coherent h
      split
      · exact ⟨hc1, Shr.of_quiet pq⟩
      · have kq := (keyOwned_quiet Facts.good (podRunning Facts.good s r0.key.pod r0.key.ns r.uid).1 r0.key r.uid).1
        have hc2 := kq.coherent hc1
        split
        · exact ⟨hc2, (Shr.of_quiet pq).trans (Shr.of_quiet kq)⟩
        · have ra := resyncAct_shr _ ip r0.key r hc2
          exact ⟨ra.1, ((Shr.of_quiet pq).trans (Shr.of_quiet kq)).trans ra.2⟩

theorem resyncLoop_shr (snap : Tbl IP Rec) : ∀ (order : List IP) (s : State), Coherent s →
    Coherent (resyncLoop Facts.good snap s order) ∧ Shr s (resyncLoop Facts.good snap s order) := by
  intro order
  induction order with
  | nil => intro s h; exact ⟨h, Shr.refl s⟩
  | cons ip t ih =>
    intro s h
    unfold resyncLoop
    split
    · exact ih s h
    · rename_i r0 _
      have o := resyncOne_shr s ip r0 h
      have r := ih _ o.1
      exact ⟨r.1, o.2.trans r.2⟩

/-- every checklist entry is visited: from some intermediate state of the pass -/
theorem resyncLoop_visit (snap : Tbl IP Rec) : ∀ (order : List IP) (s : State), Coherent s →
    ∀ ip r0, ip ∈ order → Tbl.get snap ip = some r0 →
      ∃ t, Coherent t ∧ Shr s t ∧ Shr (resyncOne Facts.good t ip r0) (resyncLoop Facts.good snap s order) := by
  intro order
  induction order with
  | nil => intro s _ ip r0 hm; cases hm
  | cons j rest ih =>
    intro s h ip r0 hm hg
    by_cases hij : ip = j
    · subst hij
      refine ⟨s, h, Shr.refl s, ?_⟩
      unfold resyncLoop
      rw [hg]
      exact (resyncLoop_shr snap rest _ (resyncOne_shr s ip r0 h).1).2
    · have hm' : ip ∈ rest := by
        rcases List.mem_cons.mp hm with e | e
        · exact absurd e hij
        · exact e
      unfold resyncLoop
      split
      · exact ih s h ip r0 hm' hg
      · rename_i rj _
        have o := resyncOne_shr s j rj h
        obtain ⟨t, ht, st, sf⟩ := ih _ o.1 ip r0 hm' hg
        exact ⟨t, ht, o.2.trans st, sf⟩

/-! ### a vanished pod is seen as not running -/

theorem podRunning_gone (s : State) (k : Key) (uid : Uid) (hv : s.vPods = s.pods) (hf : s.fault = 0)
    (hg : podGone s k) : (podRunning Facts.good s k.pod k.ns uid).2 = false := by
  unfold podGone at hg
  unfold podRunning
  split
  · rfl
  · rw [hv]
    have hm : runningMatch Facts.good uid (Tbl.get s.pods (k.ns, k.pod)) = false := by
      unfold runningMatch
      cases hp : Tbl.get s.pods (k.ns, k.pod) with
      | none => rfl
      | some p =>
        rw [hp] at hg
        simp only at hg
        simp [hg]
    simp only [hm, Bool.false_eq_true, if_false, good_apiDoubleCheck, Bool.not_true]
    have hapi : s.api.2 = false := api_ok_of_spent (Or.inl hf)
    simp only [hapi, Bool.false_eq_true, if_false]
    exact hm

theorem podGone_of_quiet {s s' : State} (q : QuietStep s s') (k : Key) (h : podGone s k) : podGone s' k := by
  unfold podGone at h ⊢
  rw [q.frame.pods]; exact h

/-- nobody runs under the key of a vanished pod, whatever uid the records carry -/
theorem keyOwnedLoop_gone (k : Key) (uid : Nat) : ∀ (l : List IP) (s : State), s.vPods = s.pods → s.fault = 0 → podGone s k →
    (keyOwnedLoop Facts.good k uid l s).2 = false := by
  intro l
  induction l with
  | nil => intro s _ _ _; rfl
  | cons ip t ih =>
    intro s hv hf hg
    unfold keyOwnedLoop
    split
    · exact ih s hv hf hg
    · rename_i r _
      split
      · exact ih s hv hf hg
      · split
        · exact ih s hv hf hg
        · split
          · exact ih s hv hf hg
          · have hrun := podRunning_gone s k r.uid hv hf hg
            have pq := (podRunning_quiet Facts.good s k.pod k.ns r.uid).1
            rw [hrun]
            simp only [Bool.false_eq_true, if_false]
            exact ih _ (by rw [pq.frame.vPods, pq.frame.pods]; exact hv) (by rw [pq.frame.fault]; exact hf)
              (podGone_of_quiet pq k hg)

theorem keyOwned_gone (s : State) (k : Key) (uid : Nat) (hv : s.vPods = s.pods) (hf : s.fault = 0) (hg : podGone s k) :
    (keyOwnedByRunningPod Facts.good s k uid).2 = false := by
  unfold keyOwnedByRunningPod
  split
  · exact keyOwnedLoop_gone k uid _ s hv hf hg
  · rfl

theorem provUnassign_ok (s : State) (node : String) (ip : IP) (hp : s.pfault = 0) : (provUnassign s node ip).2 = true := by
  unfold provUnassign
  split
  · rfl
  · simp [hp]

theorem namesPod_ne_prefix (k : Key) (hn : namesPod k) : k ≠ k.poolPrefix := by
  intro e
  have := poolPrefix_pod k
  rw [← e] at this
  exact hn.2.1 this

/-- the closure for a record whose pod is gone, no call failing: a record that still carries the key afterwards is one
    `unbindNoneDpPod` decided to keep - with the policy STORED in the re-read record -/
theorem resyncOne_gone (t : State) (ip : IP) (r0 : Rec) (hc : Coherent t) (hf : t.fault = 0) (hpf : t.pfault = 0)
    (hv : t.vPods = t.pods) (hn : namesPod r0.key) (hg : podGone t r0.key)
    (r1 : Rec) (h1 : Tbl.get (resyncOne Facts.good t ip r0).alloc ip = some r1) (hk : r1.key = r0.key) :
    r0.key.isDp = false ∧ docKeeps (dinOf CRs.none t r0.key r1.policy) = true := by
  -- the decision step from a state `s2` that still holds the record
  have tail : ∀ (s2 : State) (pol : Nat), Coherent s2 → s2.fault = 0 → s2.vApps = t.vApps →
      (∃ r2, Tbl.get s2.alloc ip = some r2 ∧ r2.key = r0.key ∧ r2.policy = pol) →
      Tbl.get (exec s2 r0.key (codeAction (dinOf CRs.none s2 r0.key pol))).1.alloc ip = some r1 →
      r0.key.isDp = false ∧ docKeeps (dinOf CRs.none t r0.key r1.policy) = true := by
    intro s2 pol hc2 hf2 hv2 ⟨r2, g2, k2, p2⟩ hres
    have hsp : FaultSpent s2 := Or.inl hf2
    cases hact : codeAction (dinOf CRs.none s2 r0.key pol) with
    | release =>
      rw [hact] at hres
      exact absurd hk ((releaseIP_done s2 r0.key hc2 hsp).2.2.2 ip r1 hres).2
    | reservePrefix =>
      rw [hact] at hres
      exact absurd hk ((reserve_done s2 r0.key r0.key.poolPrefix {} (namesPod_ne_prefix _ hn) hc2 hsp).2.2.2 ip r1 hres)
    | reserveOwn =>
      rw [hact] at hres
      obtain ⟨r, g, p, _⟩ := reserve_recs s2 r0.key r0.key {} ip r1 hres
      rw [g2] at g; cases g
      have hpol : r1.policy = pol := p.trans p2
      cases hd : r0.key.isDp with
      | true =>
        exfalso
        unfold codeAction at hact
        rw [dinOf_isDp, hd] at hact
        simp only [if_true] at hact
        unfold codeActionDp at hact
        split at hact
        · cases hact
        · split at hact
          · split at hact <;> cases hact
          · split at hact
            · cases hact
            · split at hact
              · cases hact
              · split at hact <;> cases hact
      | false =>
        refine ⟨rfl, ?_⟩
        rw [hpol, ← docKeeps_other_congr CRs.none t s2 r0.key pol hd hv2]
        apply codeActionOther_keeps _ (by rw [dinOf_isDp]; exact hd)
        unfold codeAction at hact
        rw [dinOf_isDp, hd] at hact
        simp only [Bool.false_eq_true, if_false] at hact
        rw [hact]; exact fun e => by cases e
    | keep =>
      rw [hact] at hres
      simp only [exec] at hres
      rw [g2] at hres; cases hres
      cases hd : r0.key.isDp with
      | true =>
        exfalso
        unfold codeAction at hact
        rw [dinOf_isDp, hd] at hact
        simp only [if_true] at hact
        have hkp : (dinOf CRs.none s2 r0.key pol).keyIsPrefix = false := by
          rw [dinOf_keyIsPrefix]
          have := namesPod_ne_prefix _ hn
          simpa using this
        unfold codeActionDp at hact
        rw [hkp] at hact
        split at hact
        · cases hact
        · split at hact
          · simp at hact
          · split at hact
            · cases hact
            · split at hact
              · cases hact
              · simp at hact
      | false =>
        refine ⟨rfl, ?_⟩
        rw [p2, ← docKeeps_other_congr CRs.none t s2 r0.key pol hd hv2]
        apply codeActionOther_keeps _ (by rw [dinOf_isDp]; exact hd)
        unfold codeAction at hact
        rw [dinOf_isDp, hd] at hact
        simp only [Bool.false_eq_true, if_false] at hact
        rw [hact]; exact fun e => by cases e
    | fail c =>
      rw [hact] at hres
      simp only [exec] at hres
      rw [g2] at hres; cases hres
      cases hd : r0.key.isDp with
      | true =>
        exfalso
        unfold codeAction at hact
        rw [dinOf_isDp, hd] at hact
        simp only [if_true] at hact
        unfold codeActionDp at hact
        split at hact
        · cases hact
        · split at hact
          · split at hact <;> cases hact
          · split at hact
            · cases hact
            · split at hact
              · cases hact
              · split at hact <;> cases hact
      | false =>
        refine ⟨rfl, ?_⟩
        rw [p2, ← docKeeps_other_congr CRs.none t s2 r0.key pol hd hv2]
        apply codeActionOther_keeps _ (by rw [dinOf_isDp]; exact hd)
        unfold codeAction at hact
        rw [dinOf_isDp, hd] at hact
        simp only [Bool.false_eq_true, if_false] at hact
        rw [hact]; exact fun e => by cases e
  unfold resyncOne at h1
  simp only [good_resyncRechecks, if_true] at h1
  split at h1
  · rename_i hnone
    rw [hnone] at h1; cases h1
  · rename_i r hr
    split at h1
    · rename_i hne
      rw [hr] at h1; cases h1
      exact absurd hk (by simpa using hne)
    · rename_i hke
      have hke' : r.key = r0.key := by simpa using hke
      have pq := (podRunning_quiet Facts.good t r0.key.pod r0.key.ns r.uid).1
      have hrun := podRunning_gone t r0.key r.uid hv hf hg
      have hc1 := pq.coherent hc
      have hf1 : (podRunning Facts.good t r0.key.pod r0.key.ns r.uid).1.fault = 0 := by rw [pq.frame.fault]; exact hf
      rw [hrun] at h1
      simp only [Bool.false_eq_true, if_false] at h1
      have kq := (keyOwned_quiet Facts.good (podRunning Facts.good t r0.key.pod r0.key.ns r.uid).1 r0.key r.uid).1
      have hown := keyOwned_gone (podRunning Facts.good t r0.key.pod r0.key.ns r.uid).1 r0.key r.uid
        (by rw [pq.frame.vPods, pq.frame.pods]; exact hv) hf1 (podGone_of_quiet pq _ hg)
      rw [hown] at h1
      simp only [Bool.false_eq_true, if_false] at h1
      have q2 := pq.trans kq
      have hc2 := kq.coherent hc1
      have hf2 : (keyOwnedByRunningPod Facts.good (podRunning Facts.good t r0.key.pod r0.key.ns r.uid).1 r0.key r.uid).1.fault = 0 := by
        rw [q2.frame.fault]; exact hf
      have hg2 : Tbl.get (keyOwnedByRunningPod Facts.good (podRunning Facts.good t r0.key.pod r0.key.ns r.uid).1 r0.key r.uid).1.alloc ip = some r := by
        rw [q2.alloc]; exact hr
      rw [resyncAct_eq] at h1
      split at h1
      · have uq := provUnassign_quiet (keyOwnedByRunningPod Facts.good (podRunning Facts.good t r0.key.pod r0.key.ns r.uid).1 r0.key r.uid).1 r.node ip
        have hok := provUnassign_ok (keyOwnedByRunningPod Facts.good (podRunning Facts.good t r0.key.pod r0.key.ns r.uid).1 r0.key r.uid).1 r.node ip
          (by rw [q2.frame.pfault]; exact hpf)
        rw [hok] at h1
        simp only [Bool.not_true, Bool.false_eq_true, if_false] at h1
        have hc3 := uq.coherent hc2
        have rc := reserve_chg (provUnassign (keyOwnedByRunningPod Facts.good (podRunning Facts.good t r0.key.pod r0.key.ns r.uid).1 r0.key r.uid).1 r.node ip).1 r0.key r0.key {}
        have hg3 : Tbl.get (provUnassign (keyOwnedByRunningPod Facts.good (podRunning Facts.good t r0.key.pod r0.key.ns r.uid).1 r0.key r.uid).1 r.node ip).1.alloc ip = some r := by
          rw [uq.alloc]; exact hg2
        obtain ⟨r3, g3⟩ := reserve_keeps _ r0.key r0.key {} ip r hg3
        obtain ⟨r', g', p', k'⟩ := reserve_recs _ r0.key r0.key {} ip r3 g3
        rw [hg3] at g'; cases g'
        have k3 : r3.key = r0.key := by
          rcases k' with k' | ⟨_, k'⟩
          · rw [k']; exact hke'
          · exact k'
        exact tail _ r.policy (reserve_coherent _ _ _ _ hc3)
          (by rw [rc.frame.fault, uq.frame.fault]; exact hf2)
          (by rw [rc.frame.vApps, uq.frame.vApps, q2.frame.vApps])
          ⟨r3, g3, k3, p'⟩ h1
      · exact tail _ r.policy hc2 hf2 q2.frame.vApps ⟨r, hg2, hke', rfl⟩ h1

/-! ### the whole pass -/

theorem get_filter_of_get {t : Tbl IP Rec} (hn : (Tbl.keys t).Nodup) (p : IP × Rec → Bool) {ip : IP} {r : Rec}
    (h : Tbl.get t ip = some r) (hp : p (ip, r) = true) : Tbl.get (List.filter p t) ip = some r :=
  Tbl.get_of_mem_nodup (Tbl.nodup_keys_filter p hn) (Tbl.mem_filter_of_get p h hp)

/-- after one resync pass in which no call fails, started with the pod lister in sync: a record that still names a pod
    which is gone (deleted or finished) is kept by the documented policy evaluated with its STORED policy - or its
    stored policy is `never` -/
theorem quiescent_core (s : State) (order : List IP) (hc : Coherent s) (hf : s.fault = 0) (hpf : s.pfault = 0)
    (hv : s.vPods = s.pods) (hadm : (resync Facts.good s order).2.res = .ok) :
    ∀ ip r', Tbl.get (resync Facts.good s order).1.alloc ip = some r' → namesPod r'.key → podGone s r'.key →
      docKeeps (dinOf CRs.none (resync Facts.good s order).1 r'.key r'.policy) = true ∨ r'.policy = 2 := by
  intro ip r' h' hn hg
  unfold resync at h' hadm ⊢
  dsimp only at h' hadm ⊢
  split at hadm
  · simp [Out.bad] at hadm
  · rename_i hgood
    have hgood' := hgood
    simp only [Bool.not_eq_true, Bool.not_eq_false', Bool.and_eq_true] at hgood'
    rw [if_neg hgood] at h' ⊢
    dsimp only at h' ⊢
    by_cases hp2 : r'.policy = 2
    · exact Or.inr hp2
    · left
      have lp := resyncLoop_shr (s.alloc.filter (fun e => inChecklist e.2)) order s hc
      obtain ⟨r, g, p, kk⟩ := lp.2.recs ip r' h'
      have hkey : r'.key = r.key := by
        rcases kk with kk | kk
        · exact kk
        · exact absurd kk hn.2.1
      have hin : inChecklist r = true := by
        unfold inChecklist
        rw [← hkey, ← p]
        have h1 : r'.key ≠ Key.empty := hn.1
        have h2 : r'.key.pod ≠ "" := hn.2.1
        have h3 : r'.key.app ≠ "" := hn.2.2
        simp [h1, h2, h3, hp2]
      have hsnap : Tbl.get (s.alloc.filter (fun e => inChecklist e.2)) ip = some r :=
        get_filter_of_get hc.allocNodup _ g hin
      have hmem : ip ∈ order := by
        have hw := hgood'.1.2
        rw [List.all_eq_true] at hw
        have : ip ∈ (s.alloc.filter (fun e => inChecklist e.2)).map (·.1) :=
          List.mem_map.mpr ⟨(ip, r), Tbl.get_mem hsnap, rfl⟩
        have := hw ip this
        simpa using this
      obtain ⟨t, ht, st, sf⟩ := resyncLoop_visit _ order s hc ip r hmem hsnap
      obtain ⟨r1, g1, p1, k1⟩ := sf.recs ip r' h'
      have hk1 : r1.key = r.key := by
        rcases k1 with k1 | k1
        · rw [← k1]; exact hkey
        · exact absurd k1 hn.2.1
      have hn' : namesPod r.key := by rw [← hkey]; exact hn
      have hg' : podGone t r.key := by
        unfold podGone at hg ⊢
        rw [st.frame.pods, ← hkey]; exact hg
      have res := resyncOne_gone t ip r ht (by rw [st.frame.fault]; exact hf) (by rw [st.frame.pfault]; exact hpf)
        (by rw [st.frame.vPods, st.frame.pods]; exact hv) hn' hg' r1 g1 hk1
      rw [hkey, p1]
      rw [docKeeps_other_congr CRs.none t _ r.key r1.policy res.1 (by rw [lp.2.frame.vApps, st.frame.vApps])]
      exact res.2

end Galaxy.Plugin.C03
