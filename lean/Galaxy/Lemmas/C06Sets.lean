/-
  C06 lemmas, part 2: the subnet sets of the filter as predicates -
  what `NodeSubnetsByIPRanges` and the owned-address intersection of `getSubnet` contain.
-/
import Galaxy.Lemmas.C06Facts

namespace Galaxy.Plugin.C06
open Galaxy Galaxy.Plugin

theorem mem_sinter (a b : List Subnet) (x : Subnet) : x ∈ sinter a b ↔ x ∈ a ∧ x ∈ b := by
  simp [sinter]

theorem mem_sinsert (l : List Subnet) (y x : Subnet) : x ∈ sinsert l y ↔ x ∈ l ∨ x = y := by
  unfold sinsert
  split
  · rename_i h
    have hy : y ∈ l := by simpa using h
    constructor
    · exact Or.inl
    · rintro (h | h)
      · exact h
      · exact h ▸ hy
  · simp

theorem mem_sunion (a b : List Subnet) (x : Subnet) : x ∈ sunion a b ↔ x ∈ a ∨ x ∈ b := by
  unfold sunion
  induction b generalizing a with
  | nil => simp
  | cons y t ih =>
    simp only [List.foldl_cons, List.mem_cons]
    rw [ih, mem_sinsert]
    constructor
    · rintro ((h | h) | h)
      · exact Or.inl h
      · exact Or.inr (Or.inl h)
      · exact Or.inr (Or.inr h)
    · rintro (h | h | h)
      · exact Or.inl (Or.inl h)
      · exact Or.inl (Or.inr h)
      · exact Or.inr h

theorem mem_foldl_sunion (l : List Pool) (init : List Subnet) (x : Subnet) :
    x ∈ l.foldl (fun acc p => sunion acc p.nodeSubnets) init ↔ x ∈ init ∨ ∃ p, p ∈ l ∧ x ∈ p.nodeSubnets := by
  induction l generalizing init with
  | nil => simp
  | cons q t ih =>
    simp only [List.foldl_cons, List.mem_cons]
    rw [ih, mem_sunion]
    constructor
    · rintro ((h | h) | ⟨p, hp, hx⟩)
      · exact Or.inl h
      · exact Or.inr ⟨q, Or.inl rfl, h⟩
      · exact Or.inr ⟨p, Or.inr hp, hx⟩
    · rintro (h | ⟨p, (hp | hp), hx⟩)
      · exact Or.inl (Or.inl h)
      · subst hp; exact Or.inl (Or.inr hx)
      · exact Or.inr ⟨p, hp, hx⟩

theorem poolOf_mem {ps : List Pool} {ip : IP} {p : Pool} (h : poolOf ps ip = some p) : p ∈ ps ∧ p.has ip = true := by
  unfold poolOf at h
  exact ⟨List.mem_of_find?_eq_some h, by simpa using List.find?_some h⟩

/-- `hasSubnet`: the pool the address hangs off lists the subnet -/
theorem hasSubnet_iff (s : State) (ip : IP) (sn : Subnet) :
    hasSubnet s ip sn = true ↔ ∃ p, poolOf s.pools ip = some p ∧ sn ∈ p.nodeSubnets := by
  unfold hasSubnet subnetsOf
  cases h : poolOf s.pools ip with
  | none => simp
  | some p => simp

theorem mem_subnetsOf (s : State) (ip : IP) (sn : Subnet) : sn ∈ subnetsOf s.pools ip ↔ hasSubnet s ip sn = true := by
  simp [hasSubnet]

/-- the union of the node subnets of the pools of the addresses -/
theorem mem_poolSubnets (s : State) (ips : List IP) (sn : Subnet) :
    sn ∈ poolSubnets s ips ↔ ∃ ip, ip ∈ ips ∧ hasSubnet s ip sn = true := by
  unfold poolSubnets
  rw [mem_foldl_sunion]
  simp only [List.not_mem_nil, false_or, List.mem_filter, List.any_eq_true, decide_eq_true_eq]
  constructor
  · rintro ⟨p, ⟨_, ip, hip, hp⟩, hx⟩
    exact ⟨ip, hip, (hasSubnet_iff s ip sn).mpr ⟨p, hp, hx⟩⟩
  · rintro ⟨ip, hip, h⟩
    obtain ⟨p, hp, hx⟩ := (hasSubnet_iff s ip sn).mp h
    exact ⟨p, ⟨(poolOf_mem hp).1, ip, hip, hp⟩, hx⟩

theorem freeIn_iff (s : State) (sn : Subnet) (rs : Ranges) :
    FreeIn s sn rs ↔ sn ∈ poolSubnets s ((enumRanges rs).filter (fun ip => s.free.contains ip)) := by
  rw [mem_poolSubnets]
  unfold FreeIn
  constructor
  · rintro ⟨ip, h1, h2, h3⟩
    exact ⟨ip, by simp [h1, h2], h3⟩
  · rintro ⟨ip, h1, h3⟩
    simp only [List.mem_filter, List.contains_eq_mem, decide_eq_true_eq] at h1
    exact ⟨ip, h1.1, h1.2, h3⟩

theorem freeIn_nonempty {s : State} {sn : Subnet} {rs : Ranges} (h : FreeIn s sn rs) :
    ((enumRanges rs).filter (fun ip => s.free.contains ip)).isEmpty = false := by
  obtain ⟨ip, h1, h2, _⟩ := h
  cases hh : (List.filter (fun ip => s.free.contains ip) (enumRanges rs)) with
  | nil =>
    have : ip ∈ List.filter (fun ip => s.free.contains ip) (enumRanges rs) := by simp [h1, h2]
    rw [hh] at this; cases this
  | cons _ _ => rfl

/-- the loop of `NodeSubnetsByIPRanges` after its first iteration: running intersection -/
theorem mem_nsbrGo_rest (s : State) (sn : Subnet) : ∀ (rss : List Ranges) (acc : List Subnet),
    sn ∈ nsbrGo true s rss false acc ↔ sn ∈ acc ∧ ∀ rs, rs ∈ rss → FreeIn s sn rs := by
  intro rss
  induction rss with
  | nil => intro acc; simp [nsbrGo]
  | cons rs t ih =>
    intro acc
    unfold nsbrGo
    simp only [if_true, Bool.false_eq_true, if_false, List.mem_cons, forall_eq_or_imp]
    split
    · rename_i he
      constructor
      · intro h; cases h
      · rintro ⟨_, hf, _⟩
        rw [freeIn_nonempty hf] at he; cases he
    · rw [ih, mem_sinter, ← freeIn_iff]
      constructor
      · rintro ⟨⟨h1, h2⟩, h3⟩; exact ⟨h1, h2, h3⟩
      · rintro ⟨h1, h2, h3⟩; exact ⟨⟨h1, h2⟩, h3⟩

/-- `NodeSubnetsByIPRanges(ranges)`, `ranges` non-empty: the subnets listed, for EVERY range list, by the pool of
    some free address of that list -/
theorem mem_nodeSubnetsByRanges_cons (s : State) (sn : Subnet) (rs : Ranges) (t : List Ranges) :
    sn ∈ nodeSubnetsByRanges s (rs :: t) ↔ ∀ r, r ∈ rs :: t → FreeIn s sn r := by
  rw [← nodeSubnetsByRangesP_true]
  unfold nodeSubnetsByRangesP
  simp only [List.isEmpty_cons, Bool.false_eq_true, if_false]
  unfold nsbrGo
  simp only [if_true, List.mem_cons, forall_eq_or_imp]
  split
  · rename_i he
    constructor
    · intro h; cases h
    · rintro ⟨hf, _⟩
      rw [freeIn_nonempty hf] at he; cases he
  · rw [mem_nsbrGo_rest, ← freeIn_iff]

/-- `NodeSubnetsByIPRanges(nil)`: the subnets listed by the pool of some free address -/
theorem mem_nodeSubnetsByRanges_nil (s : State) (sn : Subnet) :
    sn ∈ nodeSubnetsByRanges s [] ↔ ∃ ip, ip ∈ s.free ∧ hasSubnet s ip sn = true := by
  rw [← nodeSubnetsByRangesP_true]
  unfold nodeSubnetsByRangesP
  simp only [List.isEmpty_nil, if_true]
  exact mem_poolSubnets s s.free sn

/-- `NodeSubnetsByIPRanges` in the vocabulary of the property -/
theorem mem_nodeSubnetsByRanges (s : State) (sn : Subnet) (rss : List Ranges) :
    sn ∈ nodeSubnetsByRanges s rss ↔ FreeRoutable s sn rss := by
  unfold FreeRoutable
  cases rss with
  | nil => simp [mem_nodeSubnetsByRanges_nil]
  | cons rs t => rw [mem_nodeSubnetsByRanges_cons]; simp

theorem mem_foldl_sinter (s : State) (sn : Subnet) : ∀ (l : List IP) (acc : List Subnet),
    sn ∈ l.foldl (fun a j => sinter a (subnetsOf s.pools j)) acc ↔
      sn ∈ acc ∧ ∀ ip, ip ∈ l → hasSubnet s ip sn = true := by
  intro l
  induction l with
  | nil => intro acc; simp
  | cons x t ih =>
    intro acc
    simp only [List.foldl_cons, List.mem_cons, forall_eq_or_imp]
    rw [ih, mem_sinter, mem_subnetsOf]
    constructor
    · rintro ⟨⟨h1, h2⟩, h3⟩; exact ⟨h1, h2, h3⟩
    · rintro ⟨h1, h2, h3⟩; exact ⟨⟨h1, h2⟩, h3⟩

/-- the intersection of the node subnets of the owned addresses (at least one) -/
theorem mem_allocatedSubnets (s : State) (sn : Subnet) (l : List IP) (hne : l ≠ []) :
    sn ∈ allocatedSubnets s l ↔ ∀ ip, ip ∈ l → hasSubnet s ip sn = true := by
  cases l with
  | nil => exact absurd rfl hne
  | cons x t =>
    unfold allocatedSubnets
    rw [mem_foldl_sinter, mem_subnetsOf]
    simp

end Galaxy.Plugin.C06
