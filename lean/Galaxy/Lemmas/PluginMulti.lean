/-
  M4-core proofs, part 5: `AllocateInSubnetsAndIPRange` (all picks are created in the store first, rolled back on
  the first failure, then written to memory) and `ConfigurePool`.
-/
import Galaxy.Lemmas.PluginLoops

namespace Galaxy.Plugin
open Galaxy

/-! ### picks -/

theorem pickRanges_spec (s : State) (n : Subnet) (rss : List (List (Nat × Nat))) :
    ∀ acc res, pickRanges s n rss acc = some res → (∀ x, x ∈ acc → x ∈ s.free) → acc.Nodup →
      (∀ x, x ∈ res → x ∈ s.free) ∧ res.Nodup := by
  induction rss with
  | nil =>
    intro acc res h ha hn
    simp [pickRanges] at h; subst h; exact ⟨ha, hn⟩
  | cons rs t ih =>
    intro acc res h ha hn
    unfold pickRanges at h
    split at h
    · cases h
    · rename_i ip hf
      have hp := List.find?_some hf
      simp only [Bool.and_eq_true, Bool.not_eq_eq_eq_not, Bool.not_true, List.contains_eq_mem,
        decide_eq_true_eq, decide_eq_false_iff_not] at hp
      apply ih (acc ++ [ip]) res h
      · intro x hx
        rcases List.mem_append.mp hx with hx | hx
        · exact ha x hx
        · simp at hx; subst hx; exact hp.1.1
      · rw [List.nodup_append]
        refine ⟨hn, by simp, ?_⟩
        intro a ha' b hb
        simp at hb; subst hb
        intro e; subst e; exact hp.2 ha'

/-! ### deleteAll -/

theorem deleteAll_step : ∀ (l : List IP) (s : State), StoreStep s (deleteAll s l) := by
  intro l
  induction l with
  | nil => intro s; exact ⟨Frame.refl s, rfl, rfl⟩
  | cons ip t ih =>
    intro s
    unfold deleteAll
    have h1 := stDelete_step s ip
    have h2 := ih (stDelete s ip).1
    exact ⟨h1.frame.trans h2.frame, h2.alloc.trans h1.alloc, h2.free.trans h1.free⟩

theorem stDelete_get_of_spent (s : State) (ip j : IP) (h : FaultSpent s) :
    Tbl.get (stDelete s ip).1.store j = if ip = j then none else Tbl.get s.store j := by
  cases hg : Tbl.get s.store ip with
  | none =>
    have : (stDelete s ip).1.store = s.store := by
      unfold stDelete; dsimp only
      split
      · rfl
      · split
        · rfl
        · rename_i h2; simp [hg] at h2
    rw [this]
    by_cases hj : ip = j
    · subst hj; simp [hg]
    · simp [hj]
  | some v =>
    have hok := stDelete_ok_of_spent s ip h (by simp [hg])
    rw [(stDelete_store s ip).1 hok, Tbl.get_erase]

theorem deleteAll_get : ∀ (l : List IP) (s : State), FaultSpent s → ∀ j,
    Tbl.get (deleteAll s l).store j = if j ∈ l then none else Tbl.get s.store j := by
  intro l
  induction l with
  | nil => intro s _ j; simp [deleteAll]
  | cons ip t ih =>
    intro s h j
    unfold deleteAll
    rw [ih _ (stDelete_spent s ip h) j, stDelete_get_of_spent s ip j h]
    by_cases hj : ip = j
    · subst hj; simp
    · have : j ≠ ip := fun e => hj e.symm
      simp [hj, this]

/-! ### memAllocAll -/

theorem memAllocAll_frame (r : Rec) : ∀ (l : List IP) (s : State), Frame s (memAllocAll s r l) := by
  intro l
  induction l with
  | nil => intro s; exact Frame.refl s
  | cons ip t ih => intro s; unfold memAllocAll; exact (memAlloc_frame s ip r).trans (ih _)

theorem memAllocAll_store (r : Rec) : ∀ (l : List IP) (s : State), (memAllocAll s r l).store = s.store := by
  intro l
  induction l with
  | nil => intro s; rfl
  | cons ip t ih => intro s; unfold memAllocAll; rw [ih]; rfl

theorem memAllocAll_get (r : Rec) : ∀ (l : List IP) (s : State) (j : IP),
    Tbl.get (memAllocAll s r l).alloc j = if j ∈ l then some r else Tbl.get s.alloc j := by
  intro l
  induction l with
  | nil => intro s j; simp [memAllocAll]
  | cons ip t ih =>
    intro s j
    unfold memAllocAll
    rw [ih]
    by_cases hj : j ∈ t
    · simp [hj]
    · by_cases hij : ip = j
      · subst hij; simp [hj]
      · have : j ≠ ip := fun e => hij e.symm
        simp [hj, hij, this]

theorem memAllocAll_free (r : Rec) : ∀ (l : List IP) (s : State) (j : IP),
    j ∈ (memAllocAll s r l).free ↔ j ∈ s.free ∧ j ∉ l := by
  intro l
  induction l with
  | nil => intro s j; simp [memAllocAll]
  | cons ip t ih =>
    intro s j
    unfold memAllocAll
    rw [ih]
    simp only [memAlloc_free, List.mem_filter, decide_eq_true_eq, List.mem_cons, not_or]
    constructor
    · rintro ⟨⟨h1, h2⟩, h3⟩; exact ⟨h1, h2, h3⟩
    · rintro ⟨h1, h2, h3⟩; exact ⟨⟨h1, h2⟩, h3⟩

/-! ### key lists stay duplicate free -/

theorem stCreate_storeNodup (s : State) (ip : IP) (r : Rec) (h : (Tbl.keys s.store).Nodup) :
    (Tbl.keys (stCreate s ip r).1.store).Nodup := by
  cases hb : (stCreate s ip r).2 with
  | true => rw [(stCreate_store s ip r).1 hb]; exact Tbl.nodup_keys_set _ _ h
  | false => rw [(stCreate_store s ip r).2 hb]; exact h

theorem stDelete_storeNodup (s : State) (ip : IP) (h : (Tbl.keys s.store).Nodup) :
    (Tbl.keys (stDelete s ip).1.store).Nodup := by
  cases hb : (stDelete s ip).2 with
  | true => rw [(stDelete_store s ip).1 hb]; exact Tbl.nodup_keys_erase _ h
  | false => rw [(stDelete_store s ip).2 hb]; exact h

theorem deleteAll_storeNodup : ∀ (l : List IP) (s : State), (Tbl.keys s.store).Nodup →
    (Tbl.keys (deleteAll s l).store).Nodup := by
  intro l
  induction l with
  | nil => intro s h; exact h
  | cons ip t ih => intro s h; unfold deleteAll; exact ih _ (stDelete_storeNodup s ip h)

theorem createAll_storeNodup (r : Rec) : ∀ (todo done : List IP) (s : State), (Tbl.keys s.store).Nodup →
    (Tbl.keys (createAll s r done todo).1.store).Nodup := by
  intro todo
  induction todo with
  | nil => intro done s h; exact h
  | cons ip t ih =>
    intro done s h
    unfold createAll
    dsimp only
    split
    · exact deleteAll_storeNodup _ _ (stCreate_storeNodup s ip r h)
    · exact ih _ _ (stCreate_storeNodup s ip r h)

theorem memAllocAll_allocNodup (r : Rec) : ∀ (l : List IP) (s : State), (Tbl.keys s.alloc).Nodup →
    (Tbl.keys (memAllocAll s r l).alloc).Nodup := by
  intro l
  induction l with
  | nil => intro s h; exact h
  | cons ip t ih => intro s h; unfold memAllocAll; exact ih _ (Tbl.nodup_keys_set _ _ h)

theorem stCreate_crashMode (s : State) (ip : IP) (r : Rec) : (stCreate s ip r).1.crashMode = s.crashMode := by
  unfold stCreate; dsimp only; split
  · rfl
  · split <;> rfl

theorem stCreate_store_other (s : State) (ip j : IP) (r : Rec) (h : ip ≠ j) :
    Tbl.get (stCreate s ip r).1.store j = Tbl.get s.store j := by
  cases hb : (stCreate s ip r).2 with
  | true => rw [(stCreate_store s ip r).1 hb, Tbl.get_set_ne _ _ h]
  | false => rw [(stCreate_store s ip r).2 hb]

theorem stDelete_store_other (s : State) (ip j : IP) (h : ip ≠ j) :
    Tbl.get (stDelete s ip).1.store j = Tbl.get s.store j := by
  cases hb : (stDelete s ip).2 with
  | true => rw [(stDelete_store s ip).1 hb, Tbl.get_erase_ne _ h]
  | false => rw [(stDelete_store s ip).2 hb]

/-- whatever fails: the rollback touches the store at the listed addresses only -/
theorem deleteAll_store_other : ∀ (l : List IP) (s : State) (j : IP), j ∉ l →
    Tbl.get (deleteAll s l).store j = Tbl.get s.store j := by
  intro l
  induction l with
  | nil => intro s j _; rfl
  | cons ip t ih =>
    intro s j hj
    unfold deleteAll
    have h1 : ip ≠ j := fun e => hj (by simp [e])
    rw [ih _ j (fun hm => hj (by simp [hm])), stDelete_store_other s ip j h1]

/-! ### createAll -/

/-- the state while the picks are being created: memory untouched, the store holds `r` at the addresses done -/
structure Mid (s0 s : State) (r : Rec) (done : List IP) : Prop where
  step : StoreStep s0 s
  store : ∀ j, Tbl.get s.store j = if j ∈ done then some r else Tbl.get s0.store j

theorem createAll_spec (s0 : State) (r : Rec) : ∀ (todo done : List IP) (s : State),
    Mid s0 s r done → (∀ j, j ∈ todo → Tbl.get s0.store j = none ∧ j ∉ done) → todo.Nodup →
    ((createAll s r done todo).2 = true → Mid s0 (createAll s r done todo).1 r (done ++ todo)) ∧
    ((createAll s r done todo).2 = false → s.crashMode = false → (∀ j, j ∈ done → Tbl.get s0.store j = none) →
      StoreStep s0 (createAll s r done todo).1 ∧
      ∀ j, Tbl.get (createAll s r done todo).1.store j = Tbl.get s0.store j) := by
  intro todo
  induction todo with
  | nil =>
    intro done s hm _ _
    simp only [createAll, List.append_nil]
    exact ⟨fun _ => hm, fun h => (by cases h)⟩
  | cons ip t ih =>
    intro done s hm hT hN
    have hN' : ip ∉ t ∧ t.Nodup := by simpa using hN
    have hip := hT ip (by simp)
    have hstore : Tbl.get s.store ip = none := by rw [hm.store ip]; simp [hip.2, hip.1]
    have st := stCreate_step s ip r
    have ss := stCreate_store s ip r
    unfold createAll
    dsimp only
    split
    · -- the create failed: roll back
      rename_i hc
      have hc' : (stCreate s ip r).2 = false := by simpa using hc
      refine ⟨fun h => (by cases h), fun _ hcm hdone => ?_⟩
      have hsp := stCreate_fail_spent s ip r hstore hc' hcm
      have d1 := deleteAll_step done (stCreate s ip r).1
      refine ⟨⟨(hm.step.frame.trans st.frame).trans d1.frame, by rw [d1.alloc, st.alloc, hm.step.alloc],
        by rw [d1.free, st.free, hm.step.free]⟩, fun j => ?_⟩
      rw [deleteAll_get done _ hsp j, ss.2 hc', hm.store j]
      by_cases hj : j ∈ done
      · simp [hj, hdone j hj]
      · simp [hj]
    · rename_i hc
      have hc' : (stCreate s ip r).2 = true := by simpa using hc
      have hm' : Mid s0 (stCreate s ip r).1 r (done ++ [ip]) := by
        refine ⟨⟨hm.step.frame.trans st.frame, by rw [st.alloc, hm.step.alloc], by rw [st.free, hm.step.free]⟩, fun j => ?_⟩
        rw [ss.1 hc', Tbl.get_set, hm.store j]
        by_cases hij : ip = j
        · subst hij; simp
        · have : j ≠ ip := fun e => hij e.symm
          simp [hij, this]
      have hT' : ∀ j, j ∈ t → Tbl.get s0.store j = none ∧ j ∉ done ++ [ip] := by
        intro j hj
        have := hT j (by simp [hj])
        refine ⟨this.1, ?_⟩
        simp only [List.mem_append, List.mem_singleton, not_or]
        exact ⟨this.2, fun e => hN'.1 (e ▸ hj)⟩
      have := ih (done ++ [ip]) (stCreate s ip r).1 hm' hT' hN'.2
      refine ⟨fun h => ?_, fun h hcm hdone => ?_⟩
      · have := this.1 h
        simpa [List.append_assoc] using this
      · apply this.2 h (by rw [stCreate_crashMode]; exact hcm)
        intro j hj
        rcases List.mem_append.mp hj with hj | hj
        · exact hdone j hj
        · simp at hj; subst hj; exact hip.1

/-- whatever fails (a crash plan included): memory is untouched and the store changes at the picked addresses only -/
theorem createAll_persist (r : Rec) : ∀ (todo done : List IP) (s : State),
    StoreStep s (createAll s r done todo).1 ∧
    ∀ j, j ∉ done → j ∉ todo → Tbl.get (createAll s r done todo).1.store j = Tbl.get s.store j := by
  intro todo
  induction todo with
  | nil => intro done s; exact ⟨⟨Frame.refl s, rfl, rfl⟩, fun _ _ _ => rfl⟩
  | cons ip t ih =>
    intro done s
    have st := stCreate_step s ip r
    unfold createAll
    dsimp only
    split
    · have d := deleteAll_step done (stCreate s ip r).1
      refine ⟨⟨st.frame.trans d.frame, d.alloc.trans st.alloc, d.free.trans st.free⟩, fun j hd ht => ?_⟩
      rw [deleteAll_store_other done _ j hd, stCreate_store_other s ip j r (fun e => ht (by simp [e]))]
    · have r2 := ih (done ++ [ip]) (stCreate s ip r).1
      refine ⟨⟨st.frame.trans r2.1.frame, r2.1.alloc.trans st.alloc, r2.1.free.trans st.free⟩, fun j hd ht => ?_⟩
      have hne : ip ≠ j := fun e => ht (by simp [e])
      rw [r2.2 j (by simp only [List.mem_append, List.mem_singleton, not_or]; exact ⟨hd, fun e => hne e.symm⟩)
        (fun hm => ht (by simp [hm])), stCreate_store_other s ip j r hne]

/-! ### AllocateInSubnetsAndIPRange -/

theorem allocateInSubnetsAndRanges_coherent (s : State) (key : Key) (n : Subnet) (rss : List (List (Nat × Nat)))
    (a : Attr) (ch : Option IP) (h : Coherent s) (hcm : s.crashMode = false ∨ (allocateInSubnetsAndRanges s key n rss a ch).2 = .ok) :
    Coherent (allocateInSubnetsAndRanges s key n rss a ch).1 := by
  revert hcm
  unfold allocateInSubnetsAndRanges
  split
  · intro _; exact allocateInSubnet_coherent s key n a ch h
  · split
    · intro _; exact h
    · rename_i picks hp
      intro hcm
      obtain ⟨hfree, hnd⟩ := pickRanges_spec s n rss [] picks hp (by simp) (by simp)
      have hm0 : Mid s s (mkRec key a s.clock) [] := ⟨⟨Frame.refl s, rfl, rfl⟩, fun j => by simp⟩
      have hT : ∀ j, j ∈ picks → Tbl.get s.store j = none ∧ j ∉ ([] : List IP) := fun j hj =>
        ⟨by rw [h.agree]; exact h.disjoint j (hfree j hj), by simp⟩
      have sp := createAll_spec s (mkRec key a s.clock) picks [] s hm0 hT hnd
      dsimp only
      split
      · rename_i hc
        have hc' : (createAll s (mkRec key a s.clock) [] picks).2 = false := by simpa using hc
        have hcm' : s.crashMode = false := by
          rcases hcm with hcm | hcm
          · exact hcm
          · simp [hc] at hcm
        obtain ⟨st, hs⟩ := sp.2 hc' hcm' (by simp)
        exact ⟨fun j => by rw [hs j, st.alloc]; exact h.agree j,
          fun j hj => by rw [st.alloc]; rw [st.free] at hj; exact h.disjoint j hj,
          fun j r hj => by rw [st.frame.pools]; rw [st.alloc] at hj; exact h.allocConf j r hj,
          fun j hj => by rw [st.frame.pools]; rw [st.free] at hj; exact h.freeConf j hj,
          by rw [st.alloc]; exact h.allocNodup, createAll_storeNodup _ _ _ _ h.storeNodup⟩
      · rename_i hc
        have hc' : (createAll s (mkRec key a s.clock) [] picks).2 = true := by simpa using hc
        have hm := sp.1 hc'
        simp only [List.nil_append] at hm
        have fr := memAllocAll_frame (mkRec key a s.clock) picks (createAll s (mkRec key a s.clock) [] picks).1
        refine ⟨fun j => ?_, fun j hj => ?_, fun j r hj => ?_, fun j hj => ?_,
          memAllocAll_allocNodup _ _ _ (by rw [hm.step.alloc]; exact h.allocNodup),
          by rw [memAllocAll_store]; exact createAll_storeNodup _ _ _ _ h.storeNodup⟩
        · rw [memAllocAll_store, memAllocAll_get, hm.store j, hm.step.alloc, h.agree]
        · rw [memAllocAll_free, hm.step.free] at hj
          rw [memAllocAll_get, hm.step.alloc]; simp [hj.2]; exact h.disjoint j hj.1
        · rw [fr.pools, hm.step.frame.pools]
          rw [memAllocAll_get, hm.step.alloc] at hj
          by_cases hjp : j ∈ picks
          · exact h.freeConf j (hfree j hjp)
          · simp [hjp] at hj; exact h.allocConf j r hj
        · rw [fr.pools, hm.step.frame.pools]
          rw [memAllocAll_free, hm.step.free] at hj
          exact h.freeConf j hj.1

theorem allocateInSubnetsAndRanges_chg (s : State) (key : Key) (n : Subnet) (rss : List (List (Nat × Nat)))
    (a : Attr) (ch : Option IP) (h : Coherent s) :
    Chg isFree (hasKeyUid key a.uid) s (allocateInSubnetsAndRanges s key n rss a ch).1 := by
  unfold allocateInSubnetsAndRanges
  split
  · exact allocateInSubnet_chg s key n a ch h
  · split
    · exact Chg.refl _ _ s
    · rename_i picks hp
      obtain ⟨hfree, hnd⟩ := pickRanges_spec s n rss [] picks hp (by simp) (by simp)
      have hm0 : Mid s s (mkRec key a s.clock) [] := ⟨⟨Frame.refl s, rfl, rfl⟩, fun j => by simp⟩
      have hT : ∀ j, j ∈ picks → Tbl.get s.store j = none ∧ j ∉ ([] : List IP) := fun j hj =>
        ⟨by rw [h.agree]; exact h.disjoint j (hfree j hj), by simp⟩
      have sp := createAll_spec s (mkRec key a s.clock) picks [] s hm0 hT hnd
      dsimp only
      split
      · have st := (createAll_persist (mkRec key a s.clock) picks [] s).1
        exact Chg.of_alloc_eq st.frame st.alloc
      · rename_i hc
        have hc' : (createAll s (mkRec key a s.clock) [] picks).2 = true := by simpa using hc
        have hm := sp.1 hc'
        have fr := memAllocAll_frame (mkRec key a s.clock) picks (createAll s (mkRec key a s.clock) [] picks).1
        refine ⟨hm.step.frame.trans fr, fun j => ?_⟩
        rw [memAllocAll_get, hm.step.alloc]
        by_cases hjp : j ∈ picks
        · right
          exact ⟨h.disjoint j (hfree j hjp), ⟨mkRec key a s.clock, by simp [hjp], rfl, rfl⟩⟩
        · left; simp [hjp]

/-- whatever fails (a crash plan included): an address that is allocated in memory keeps its store object, and memory
    changes only by the allocation itself -/
theorem allocateInSubnetsAndRanges_persist (s : State) (key : Key) (n : Subnet) (rss : List (List (Nat × Nat)))
    (a : Attr) (ch : Option IP) (h : Coherent s) (j : IP) (r0 : Rec) (hj : Tbl.get s.alloc j = some r0) :
    Tbl.get (allocateInSubnetsAndRanges s key n rss a ch).1.store j = Tbl.get s.store j := by
  have hnf : j ∉ s.free := fun hm => by rw [h.disjoint j hm] at hj; cases hj
  unfold allocateInSubnetsAndRanges
  split
  · -- single address: AllocateInSubnet
    unfold allocateInSubnet
    dsimp only
    split
    · rfl
    · split
      · rfl
      · rename_i ip
        split
        · rfl
        · rename_i hin
          have hin' : ip ∈ s.free := by
            have : ip ∈ s.free.filter (fun ip => hasSubnet s ip n) := by simpa using hin
            exact (List.mem_filter.mp this).1
          have hne : ip ≠ j := fun e => hnf (e ▸ hin')
          split
          · exact stCreate_store_other s ip j _ hne
          · show Tbl.get (stCreate s ip _).1.store j = _
            exact stCreate_store_other s ip j _ hne
  · split
    · rfl
    · rename_i picks hp
      obtain ⟨hfree, _⟩ := pickRanges_spec s n rss [] picks hp (by simp) (by simp)
      have hnp : j ∉ picks := fun hm => hnf (hfree j hm)
      have cp := (createAll_persist (mkRec key a s.clock) picks [] s).2 j (by simp) hnp
      dsimp only
      split
      · exact cp
      · rw [memAllocAll_store]; exact cp

end Galaxy.Plugin
