/-
  Helper lemmas for M9 `Lockset`: the inductive invariant behind `disciplined_raceFree`
  and the bridge from the access-table check to the per-thread discipline.  Core Lean only.
-/
import Galaxy.Model.Lockset

namespace Galaxy.Lockset

/-- the invariant of every reachable state of a disciplined program:
    (okAll)  every thread's remaining program is disciplined from the locks it holds NOW,
    (mutex)  a lock held exclusively by one thread is not held (either way) by any other thread -/
structure Inv (g : Loc → Guard) (s : State) : Prop where
  okAll : ∀ (i : Nat) (t : Thread), s[i]? = some t → ok g t.ex t.sh t.rest = true
  mutex : ∀ (i j : Nat) (ti tj : Thread) (l : Lock), s[i]? = some ti → s[j]? = some tj → i ≠ j → l ∈ ti.ex → l ∉ tj.ex ∧ l ∉ tj.sh

theorem exFree_get {s : State} {l : Lock} (h : exFree s l = true) {j : Nat} {t : Thread}
    (ht : s[j]? = some t) : l ∉ t.ex := by
  have hm : t ∈ s := List.mem_of_getElem? ht
  have := (List.all_eq_true.mp h) t hm
  simpa using this

theorem shFree_get {s : State} {l : Lock} (h : shFree s l = true) {j : Nat} {t : Thread}
    (ht : s[j]? = some t) : l ∉ t.sh := by
  have hm : t ∈ s := List.mem_of_getElem? ht
  have := (List.all_eq_true.mp h) t hm
  simpa using this

theorem get_set_self {s : State} {i : Nat} {t t' : Thread} (h : s[i]? = some t) :
    (s.set i t')[i]? = some t' := by
  have hi : i < s.length := by
    rcases Nat.lt_or_ge i s.length with h' | h'
    · exact h'
    · rw [List.getElem?_eq_none h'] at h; cases h
  simp [hi]

theorem get_set_ne {s : State} {i j : Nat} {t' : Thread} (h : i ≠ j) :
    (s.set i t')[j]? = s[j]? := by
  simp [h]

/-- replacing thread `i` by `t'` keeps the invariant when `t'` is disciplined from its own lock sets,
    every newly held exclusive lock was free, and every newly held shared lock was not exclusively held -/
theorem inv_set {g : Loc → Guard} {s : State} {i : Nat} {t t' : Thread}
    (hinv : Inv g s) (hi : s[i]? = some t)
    (hok : ok g t'.ex t'.sh t'.rest = true)
    (hex : ∀ l, l ∈ t'.ex → l ∈ t.ex ∨ (exFree s l = true ∧ shFree s l = true))
    (hsh : ∀ l, l ∈ t'.sh → l ∈ t.sh ∨ exFree s l = true) :
    Inv g (s.set i t') := by
  constructor
  · intro j u hu
    by_cases hij : i = j
    · subst hij
      rw [get_set_self hi] at hu
      cases hu
      exact hok
    · rw [get_set_ne hij] at hu
      exact hinv.okAll j u hu
  · intro a b ta tb l ha hb hab hl
    by_cases hai : i = a
    · subst hai
      rw [get_set_self hi] at ha
      cases ha
      have hbi : i ≠ b := hab
      rw [get_set_ne hbi] at hb
      rcases hex l hl with h1 | ⟨h1, h2⟩
      · exact hinv.mutex i b t tb l hi hb hab h1
      · exact ⟨exFree_get h1 hb, shFree_get h2 hb⟩
    · rw [get_set_ne hai] at ha
      by_cases hbi : i = b
      · subst hbi
        rw [get_set_self hi] at hb
        cases hb
        have hold := hinv.mutex a i ta t l ha hi hab hl
        constructor
        · intro hc
          rcases hex l hc with h1 | ⟨h1, _⟩
          · exact hold.1 h1
          · exact exFree_get h1 ha hl
        · intro hc
          rcases hsh l hc with h1 | h1
          · exact hold.2 h1
          · exact exFree_get h1 ha hl
      · rw [get_set_ne hbi] at hb
        exact hinv.mutex a b ta tb l ha hb hab hl

theorem inv_fire {g : Loc → Guard} {s : State} {i : Nat} {t t' : Thread}
    (hinv : Inv g s) (hi : s[i]? = some t) (hf : fire s t = some t') : Inv g (s.set i t') := by
  have hokt := hinv.okAll i t hi
  unfold fire at hf
  split at hf
  · cases hf
  · rename_i l r hr
    split at hf
    · rename_i hc
      cases hf
      simp only [Bool.and_eq_true] at hc
      refine inv_set hinv hi ?_ ?_ ?_
      · rw [hr] at hokt; simpa [ok] using hokt
      · intro l' hl'
        simp only [List.mem_cons] at hl'
        rcases hl' with h | h
        · subst h; exact Or.inr hc
        · exact Or.inl h
      · intro l' hl'; exact Or.inl hl'
    · cases hf
  · rename_i l r hr
    split at hf
    · cases hf
      refine inv_set hinv hi ?_ ?_ ?_
      · rw [hr] at hokt; simpa [ok] using hokt
      · intro l' hl'; exact Or.inl (List.mem_of_mem_erase hl')
      · intro l' hl'; exact Or.inl hl'
    · cases hf
  · rename_i l r hr
    split at hf
    · rename_i hc
      cases hf
      refine inv_set hinv hi ?_ ?_ ?_
      · rw [hr] at hokt; simpa [ok] using hokt
      · intro l' hl'; exact Or.inl hl'
      · intro l' hl'
        simp only [List.mem_cons] at hl'
        rcases hl' with h | h
        · subst h; exact Or.inr hc
        · exact Or.inl h
    · cases hf
  · rename_i l r hr
    split at hf
    · cases hf
      refine inv_set hinv hi ?_ ?_ ?_
      · rw [hr] at hokt; simpa [ok] using hokt
      · intro l' hl'; exact Or.inl hl'
      · intro l' hl'; exact Or.inl (List.mem_of_mem_erase hl')
    · cases hf
  · rename_i x r hr
    cases hf
    refine inv_set hinv hi ?_ ?_ ?_
    · rw [hr] at hokt
      simp only [ok, Bool.and_eq_true] at hokt
      exact hokt.2
    · intro l' hl'; exact Or.inl hl'
    · intro l' hl'; exact Or.inl hl'
  · rename_i x r hr
    cases hf
    refine inv_set hinv hi ?_ ?_ ?_
    · rw [hr] at hokt
      simp only [ok, Bool.and_eq_true] at hokt
      exact hokt.2
    · intro l' hl'; exact Or.inl hl'
    · intro l' hl'; exact Or.inl hl'

theorem inv_step {g : Loc → Guard} {s s' : State} {i : Nat}
    (hinv : Inv g s) (hs : step s i = some s') : Inv g s' := by
  unfold step at hs
  split at hs
  · cases hs
  · rename_i t hi
    split at hs
    · cases hs
    · rename_i t' hf
      cases hs
      exact inv_fire hinv hi hf

theorem inv_run {g : Loc → Guard} (sched : List Nat) :
    ∀ {s s' : State}, Inv g s → run s sched = some s' → Inv g s' := by
  induction sched with
  | nil =>
    intro s s' hinv hr
    simp only [run] at hr
    cases hr
    exact hinv
  | cons i is ih =>
    intro s s' hinv hr
    simp only [run] at hr
    split at hr
    · cases hr
    · rename_i s1 hs1
      exact ih (inv_step hinv hs1) hr

theorem inv_init {g : Loc → Guard} {ps : List (List Action)} (h : Disciplined g ps) :
    Inv g (init ps) := by
  constructor
  · intro i t ht
    have hm : t ∈ init ps := List.mem_of_getElem? ht
    simp only [init, List.mem_map] at hm
    obtain ⟨p, hp, rfl⟩ := hm
    exact h p hp
  · intro i j ti tj l hi hj _ hl
    have hm : ti ∈ init ps := List.mem_of_getElem? hi
    simp only [init, List.mem_map] at hm
    obtain ⟨p, _, rfl⟩ := hm
    simp at hl

theorem nextAccess_rest {t : Thread} {x : Loc} {w : Bool} (h : nextAccess t = some (x, w)) :
    ∃ r, t.rest = (if w then Action.wr x else Action.rd x) :: r := by
  unfold nextAccess at h
  split at h
  · rename_i y r hr
    cases h
    exact ⟨r, by simp [hr]⟩
  · rename_i y r hr
    cases h
    exact ⟨r, by simp [hr]⟩
  · cases h

/-- a disciplined thread about to access `x` holds `x`'s guard (if `x` is lock-guarded at all) at least shared -/
theorem ok_access_holds {g : Loc → Guard} {t : Thread} {x : Loc} {w : Bool} {l : Lock}
    (hn : nextAccess t = some (x, w)) (hok : ok g t.ex t.sh t.rest = true) (hg : g x = .lock l) :
    l ∈ t.ex ∨ l ∈ t.sh := by
  obtain ⟨r, hr⟩ := nextAccess_rest hn
  rw [hr] at hok
  cases w <;> simp [ok, hg] at hok
  · rcases hok.1 with h | h
    · exact Or.inl h
    · exact Or.inr h
  · exact Or.inl hok.1

/-- a disciplined thread about to WRITE `x`: `x` is lock-guarded and the thread holds the guard exclusively -/
theorem ok_write_holds {g : Loc → Guard} {t : Thread} {x : Loc}
    (hn : nextAccess t = some (x, true)) (hok : ok g t.ex t.sh t.rest = true) :
    ∃ l, g x = .lock l ∧ l ∈ t.ex := by
  obtain ⟨r, hr⟩ := nextAccess_rest hn
  rw [hr] at hok
  simp only [if_true, ok, Bool.and_eq_true] at hok
  cases hg : g x with
  | lock l =>
    rw [hg] at hok
    exact ⟨l, rfl, by simpa using hok.1⟩
  | frozen => rw [hg] at hok; simp at hok
  | unknown => rw [hg] at hok; simp at hok

theorem inv_no_race {g : Loc → Guard} {s : State} (hinv : Inv g s) : ¬ Race s := by
  rintro ⟨i, j, ti, tj, x, wi, wj, hij, hi, hj, hni, hnj, hw⟩
  have hoki := hinv.okAll i ti hi
  have hokj := hinv.okAll j tj hj
  cases wi with
  | true =>
    obtain ⟨l, hg, hl⟩ := ok_write_holds hni hoki
    have hm := hinv.mutex i j ti tj l hi hj hij hl
    rcases ok_access_holds hnj hokj hg with h | h
    · exact hm.1 h
    · exact hm.2 h
  | false =>
    have hwj : wj = true := by simpa using hw
    subst hwj
    obtain ⟨l, hg, hl⟩ := ok_write_holds hnj hokj
    have hm := hinv.mutex j i tj ti l hj hi (Ne.symm hij) hl
    rcases ok_access_holds hni hoki hg with h | h
    · exact hm.1 h
    · exact hm.2 h

/-! ### from the table check to the per-thread discipline -/

theorem mem_checked_ok {t : Table} (h : accessesOk t = true) {a : Access} (ha : a ∈ checked t) :
    accessOk t a = true :=
  (List.all_eq_true.mp h) a ha

/-- if the table passes the check, every program that conforms to the table is disciplined
    with respect to the table's guard map -/
theorem ok_of_conforms {t : Table} (h : accessesOk t = true) (p : List Action) :
    ∀ ex sh, conforms t ex sh p = true → ok (guardOf t.guards) ex sh p = true := by
  induction p with
  | nil => intro ex sh _; rfl
  | cons a r ih =>
    intro ex sh hc
    cases a with
    | acq l => simp only [conforms] at hc; simp only [ok]; exact ih _ _ hc
    | rel l => simp only [conforms] at hc; simp only [ok]; exact ih _ _ hc
    | racq l => simp only [conforms] at hc; simp only [ok]; exact ih _ _ hc
    | rrel l => simp only [conforms] at hc; simp only [ok]; exact ih _ _ hc
    | rd x =>
      simp only [conforms, Bool.and_eq_true, List.any_eq_true] at hc
      obtain ⟨⟨a, ha, hcond⟩, hrest⟩ := hc
      simp only [beq_iff_eq, List.all_eq_true] at hcond
      obtain ⟨⟨hf, hk⟩, hheld⟩ := hcond
      have haok := mem_checked_ok h ha
      simp only [ok, Bool.and_eq_true]
      refine ⟨?_, ih _ _ hrest⟩
      unfold accessOk at haok
      rw [hf] at haok
      have hk' : a.kind = Kind.read := by
        cases hkk : a.kind <;> simp [hkk] at hk ⊢
      rw [hk'] at haok
      cases hg : guardOf t.guards x with
      | lock l =>
        rw [hg] at haok
        simp only [Bool.or_eq_true, List.contains_iff_mem] at haok ⊢
        rcases haok with h1 | h1
        · have := hheld _ h1
          simp only [List.contains_iff_mem] at this
          exact Or.inl this
        · have := hheld _ h1
          simpa using this
      | frozen => rfl
      | unknown => rw [hg] at haok; simp at haok
    | wr x =>
      simp only [conforms, Bool.and_eq_true, List.any_eq_true] at hc
      obtain ⟨⟨a, ha, hcond⟩, hrest⟩ := hc
      simp only [beq_iff_eq, List.all_eq_true] at hcond
      obtain ⟨⟨hf, hk⟩, hheld⟩ := hcond
      have haok := mem_checked_ok h ha
      simp only [ok, Bool.and_eq_true]
      refine ⟨?_, ih _ _ hrest⟩
      unfold accessOk at haok
      rw [hf] at haok
      have hk' : a.kind = Kind.write := by
        cases hkk : a.kind <;> simp [hkk] at hk ⊢
      rw [hk'] at haok
      cases hg : guardOf t.guards x with
      | lock l =>
        rw [hg] at haok
        simp only [List.contains_iff_mem] at haok ⊢
        have := hheld _ haok
        simpa using this
      | frozen => rw [hg] at haok; simp at haok
      | unknown => rw [hg] at haok; simp at haok

end Galaxy.Lockset
