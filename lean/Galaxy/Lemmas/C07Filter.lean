/-
  C07 proofs, part 3: Filter cut at the allocation (`getSubnet = applyDecision ∘ decide7`), the count argument of
  `getAvailableSubnet` (a fresh allocation is decided only when the pool has fewer members than the size read), and
  the pool API (`preLoop`, `preFinish`, `apiPool`).
-/
import Galaxy.Lemmas.C07Moves
import Galaxy.Lemmas.PluginFilter

namespace Galaxy.PluginC07
open Galaxy Galaxy.Plugin

/-! ### the fact-parameterised Filter is the core Filter when the facts are the good ones -/

theorem getAvailableSubnet7_good (s : State) (k : Key) (policy replicas : Nat) (sized : Bool)
    (rss : List (List (Nat × Nat))) :
    getAvailableSubnet7 Facts.good s k policy replicas sized rss = getAvailableSubnet s k policy replicas sized rss := by
  unfold getAvailableSubnet7 getAvailableSubnet
  simp [Facts.good]

theorem getSubnetCont_split (s : State) (pod : Pod) (ch : Choice) (rss : List (List (Nat × Nat))) (ha : Bool)
    (al : List Subnet) :
    getSubnetCont s pod ch rss ha al = applyDecision s pod ch (decideCont Facts.good s pod rss ha al) := by
  unfold getSubnetCont decideCont
  rw [getAvailableSubnet7_good]
  simp only [replicasOf, Facts.good, Bool.true_and]
  by_cases hpol : policyOf pod ≠ 0 ∧ (!supportReserve (keyOf pod) (policyOf pod)) = true
  · rw [if_pos hpol, if_pos hpol]; rfl
  · rw [if_neg hpol, if_neg hpol]
    generalize getAvailableSubnet s (keyOf pod) (policyOf pod)
      (if (keyOf pod).isDp = true then getDpReplicas s (keyOf pod) else (0, false)).1
      (if (keyOf pod).isDp = true then getDpReplicas s (keyOf pod) else (0, false)).2 rss = g
    cases g with
    | error c => rfl
    | ok p =>
      obtain ⟨set0, resv⟩ := p
      dsimp only
      by_cases hc : ((resv || (if (keyOf pod).isDp = true then getDpReplicas s (keyOf pod) else (0, false)).2) &&
          !(if ha = true then sinter set0 al else set0).isEmpty) = true
      · rw [if_pos hc, if_pos hc]
        generalize sminStr (if ha = true then sinter set0 al else set0) = m
        cases m <;> rfl
      · rw [if_neg hc, if_neg hc]; rfl

theorem getSubnet_split (s : State) (pod : Pod) (ch : Choice) :
    getSubnet s pod ch = applyDecision s pod ch (decide7 Facts.good s pod ch) := by
  unfold getSubnet decide7
  by_cases h1 : pod.ranges.isEmpty = true
  · rw [if_pos h1, if_pos h1]
    generalize byKeyAndRanges s (keyOf pod) pod.ranges = infos
    cases infos with
    | nil => exact getSubnetCont_split s pod ch _ _ _
    | cons a t =>
      dsimp only
      generalize pickFirst (a :: t) ch.first = pf
      cases pf <;> rfl
  · rw [if_neg h1, if_neg h1]
    by_cases h2 : (unfoundRanges (byKeyAndRanges s (keyOf pod) pod.ranges) pod.ranges).isEmpty = true
    · rw [if_pos h2, if_pos h2]; rfl
    · rw [if_neg h2, if_neg h2]; exact getSubnetCont_split s pod ch _ _ _

theorem filter7_good (s : State) (ns name : String) (nodes : List String) (ch : Choice) :
    filter7 Facts.good s ns name nodes ch = Plugin.filter s ns name nodes ch := by
  unfold filter7 Plugin.filter
  generalize Tbl.get s.pods (ns, name) = op
  cases op with
  | none => rfl
  | some pod =>
    dsimp only
    by_cases hw : (!pod.wants) = true
    · rw [if_pos hw, if_pos hw]
    · rw [if_neg hw, if_neg hw, ← getSubnet_split]
      unfold filterFinish
      generalize getSubnet s pod ch = g
      obtain ⟨g1, g2⟩ := g
      cases g2 with
      | error e => cases e <;> rfl
      | ok set => rfl

theorem stepB_good (F : Plugin.Facts) (s : State) (m : Move) : stepB Facts.good F s m = step F s m := by
  unfold stepB
  split
  · rw [filter7_good]; rfl
  · rfl

theorem nextB_good (F : Plugin.Facts) (s : State) (m : Move) : nextB Facts.good F s m = next F s m := by
  unfold nextB next
  rw [stepB_good]
  rfl

/-! ### sets of node subnets -/

theorem sinsert_ne_nil (l : List Subnet) (x : Subnet) : sinsert l x ≠ [] := by
  unfold sinsert
  split
  · rename_i h
    intro e; rw [e] at h; simp at h
  · simp

theorem sinsert_ne_nil_of (l : List Subnet) (x : Subnet) (_ : l ≠ []) : sinsert l x ≠ [] := sinsert_ne_nil l x

theorem sunion_ne_nil_left : ∀ (b a : List Subnet), a ≠ [] → sunion a b ≠ [] := by
  intro b
  induction b with
  | nil => intro a h; exact h
  | cons x t ih =>
    intro a _
    show sunion (sinsert a x) t ≠ []
    exact ih _ (sinsert_ne_nil a x)

theorem sunion_ne_nil_right (a b : List Subnet) (h : b ≠ []) : sunion a b ≠ [] := by
  cases b with
  | nil => exact absurd rfl h
  | cons x t =>
    show sunion (sinsert a x) t ≠ []
    exact sunion_ne_nil_left t _ (sinsert_ne_nil a x)

theorem foldUnion_ne_nil_acc {α : Type} (f : α → List Subnet) :
    ∀ (l : List α) (acc : List Subnet), acc ≠ [] → l.foldl (fun acc e => sunion acc (f e)) acc ≠ [] := by
  intro l
  induction l with
  | nil => intro acc h; exact h
  | cons e t ih => intro acc h; exact ih _ (sunion_ne_nil_left _ _ h)

theorem foldUnion_ne_nil {α : Type} (f : α → List Subnet) :
    ∀ (l : List α) (acc : List Subnet), (∃ e, e ∈ l ∧ f e ≠ []) → l.foldl (fun acc e => sunion acc (f e)) acc ≠ [] := by
  intro l
  induction l with
  | nil => intro acc h; obtain ⟨e, he, _⟩ := h; cases he
  | cons e t ih =>
    intro acc h
    obtain ⟨e', he', hf⟩ := h
    rcases List.mem_cons.mp he' with h1 | h1
    · subst h1
      exact foldUnion_ne_nil_acc f t _ (sunion_ne_nil_right _ _ hf)
    · exact ih _ ⟨e', h1, hf⟩

/-! ### the count argument -/

/-- every pool of the configuration has a node subnet (`FloatingIPPool.UnmarshalJSON` rejects a pool without) -/
def WFPools (ps : List Pool) : Prop := ∀ p, p ∈ ps → p.nodeSubnets ≠ []

/-- every allocated address hangs off a pool with a node subnet -/
theorem routable_of_coherent (s : State) (h : Coherent s) (wf : WFPools s.pools) (e : IP × Rec) (he : e ∈ s.alloc) :
    subnetsOf s.pools e.1 ≠ [] := by
  have hk : e.1 ∈ Tbl.keys s.alloc := List.mem_map.mpr ⟨e, he, rfl⟩
  have hs := Tbl.get_isSome_of_mem_keys hk
  obtain ⟨r, hr⟩ := Option.isSome_iff_exists.mp hs
  have hc := h.allocConf e.1 r hr
  unfold configured at hc
  obtain ⟨p, hp, hhas⟩ := List.any_eq_true.mp hc
  unfold subnetsOf poolOf
  cases hf : List.find? (fun p => p.has e.1) s.pools with
  | none =>
    have := List.find?_eq_none.mp hf p hp
    simp [hhas] at this
  | some q =>
    dsimp only
    exact wf q (List.mem_of_find?_eq_some hf)

theorem poolPrefix_eq_poolKey (k : Key) (h : k.pool ≠ "") : k.poolPrefix = poolKey k.pool := by
  unfold Key.poolPrefix poolKey
  simp [h]

/-- `getAvailableSubnet` (good facts) answers "take a fresh address" for a sized pool only when the pool has fewer
    members than the size it was given: every member that is not the bare prefix counts, and no member is the bare
    prefix (else the answer would have been "re-key a reserved one") -/
theorem gas7_fresh (s : State) (k : Key) (policy z : Nat) (rss : List (List (Nat × Nat))) (set0 : List Subnet)
    (hk : k.isDp = true) (hpool : k.pool ≠ "") (hpol : policy ≠ 0)
    (hrt : ∀ e, e ∈ s.alloc → subnetsOf s.pools e.1 ≠ [])
    (h : getAvailableSubnet7 Facts.good s k policy z true rss = .ok (set0, false)) :
    cnt s k.pool + 1 ≤ z := by
  unfold getAvailableSubnet7 at h
  have hpol' : (policy != 0) = true := by simpa using hpol
  simp only [hk, hpol', Bool.and_self, ↓reduceIte, Facts.good, Bool.true_and, Bool.true_or] at h
  split at h
  · cases h
  · split at h
    · cases h
    · split at h
      · cases h
      · rename_i hne hused hunused
        have hfold : List.foldl (fun acc (e : IP × Rec) => sunion acc (subnetsOf s.pools e.1)) []
            (List.filter (fun e => decide (e.2.key = k.poolPrefix))
              (List.filter (fun e => e.2.key.hasPrefix k.poolPrefix) s.alloc)) = [] := by
          cases hx : List.foldl (fun acc (e : IP × Rec) => sunion acc (subnetsOf s.pools e.1)) []
            (List.filter (fun e => decide (e.2.key = k.poolPrefix))
              (List.filter (fun e => e.2.key.hasPrefix k.poolPrefix) s.alloc)) with
          | nil => rfl
          | cons a t => rw [hx] at hunused; simp at hunused
        have hun : List.filter (fun (e : IP × Rec) => decide (e.2.key = k.poolPrefix))
            (List.filter (fun e => e.2.key.hasPrefix k.poolPrefix) s.alloc) = [] := by
          apply Classical.byContradiction
          intro hnil
          obtain ⟨e, he⟩ := List.exists_mem_of_ne_nil _ hnil
          have hmem : e ∈ s.alloc := (List.mem_filter.mp (List.mem_filter.mp he).1).1
          exact foldUnion_ne_nil (fun (e : IP × Rec) => subnetsOf s.pools e.1) _ [] ⟨e, he, hrt e hmem⟩ hfold
        have hall : List.filter (fun (e : IP × Rec) => decide (e.2.key ≠ k.poolPrefix) && true)
            (List.filter (fun e => e.2.key.hasPrefix k.poolPrefix) s.alloc) =
            List.filter (fun e => e.2.key.hasPrefix k.poolPrefix) s.alloc := by
          apply List.filter_eq_self.mpr
          intro a ha
          have := List.filter_eq_nil_iff.mp hun a ha
          simpa using this
        rw [hall] at hused
        have hc : cnt s k.pool = (List.filter (fun (e : IP × Rec) => e.2.key.hasPrefix k.poolPrefix) s.alloc).length := by
          unfold cnt countPrefix
          rw [poolPrefix_eq_poolKey k hpool]
        rw [hc]
        omega

theorem getDpReplicas_sized (s : State) (k : Key) (h : (getDpReplicas s k).2 = true) :
    k.pool ≠ "" ∧ Tbl.get s.vPoolObjs k.pool = some (getDpReplicas s k).1 := by
  unfold getDpReplicas at h ⊢
  by_cases hp : k.pool ≠ ""
  · rw [if_pos hp] at h ⊢
    cases hg : Tbl.get s.vPoolObjs k.pool with
    | none => rw [hg] at h; simp at h
    | some z => exact ⟨hp, rfl⟩
  · have hp' : k.pool = "" := by simpa using hp
    rw [if_neg hp] at h
    simp at h

theorem isDp_pool (pod : Pod) : (keyOf pod).pool = "" ∨ (keyOf pod).pool = pod.pool := by
  have hm : ∀ typ ns app p pool, (mkKey typ ns app p pool).pool = "" ∨ (mkKey typ ns app p pool).pool = pool := by
    intro typ ns app p pool
    unfold mkKey
    split
    · exact Or.inr rfl
    · split
      · exact Or.inl rfl
      · exact Or.inr rfl
  unfold keyOf
  split <;> exact hm _ _ _ _ _

theorem policyOf_pool (pod : Pod) (h : pod.pool ≠ "") : policyOf pod = 2 := by
  unfold policyOf; simp [h]

/-- what the pod's Filter has established when it decides to take a FRESH address -/
def FreshOK (s : State) (pod : Pod) : Prop :=
  (keyOf pod).isDp = true ∧ (keyOf pod).pool ≠ "" ∧ ∃ z, Tbl.get s.vPoolObjs (keyOf pod).pool = some z ∧
    ((∀ e, e ∈ s.alloc → subnetsOf s.pools e.1 ≠ []) → cnt s (keyOf pod).pool + 1 ≤ z)

theorem decideCont_fresh (s : State) (pod : Pod) (rss : List (List (Nat × Nat))) (ha : Bool) (al : List Subnet)
    (n : Subnet) (h : decideCont Facts.good s pod rss ha al = .alloc false n) : FreshOK s pod := by
  unfold decideCont at h
  by_cases hpol : policyOf pod ≠ 0 ∧ (!supportReserve (keyOf pod) (policyOf pod)) = true
  · rw [if_pos hpol] at h; cases h
  · rw [if_neg hpol] at h
    cases hg : getAvailableSubnet7 Facts.good s (keyOf pod) (policyOf pod) (replicasOf s pod).1 (replicasOf s pod).2 rss with
    | error c => rw [hg] at h; cases h
    | ok p =>
      obtain ⟨set0, resv⟩ := p
      rw [hg] at h
      dsimp only at h
      by_cases hc : ((resv || (Facts.good.allocatesWhenReserveOrSized && (replicasOf s pod).2)) &&
          !(if ha = true then sinter set0 al else set0).isEmpty) = true
      · rw [if_pos hc] at h
        cases hm : sminStr (if ha = true then sinter set0 al else set0) with
        | none => rw [hm] at h; cases h
        | some n' =>
          rw [hm] at h
          cases h
          have hsz : (replicasOf s pod).2 = true := by
            simp only [Facts.good, Bool.false_or, Bool.true_and, Bool.and_eq_true] at hc
            exact hc.1
          have hdp : (keyOf pod).isDp = true := by
            unfold replicasOf at hsz
            by_cases hd : (keyOf pod).isDp = true
            · exact hd
            · rw [if_neg hd] at hsz; cases hsz
          have hrep : replicasOf s pod = getDpReplicas s (keyOf pod) := by unfold replicasOf; rw [if_pos hdp]
          rw [hrep] at hsz hg
          obtain ⟨hpool, hget⟩ := getDpReplicas_sized s (keyOf pod) hsz
          have hpp : pod.pool ≠ "" := by
            rcases isDp_pool pod with h0 | h0
            · exact absurd h0 hpool
            · rw [← h0]; exact hpool
          have hpo : policyOf pod ≠ 0 := by rw [policyOf_pool pod hpp]; decide
          refine ⟨hdp, hpool, _, hget, fun hrt => ?_⟩
          rw [hsz] at hg
          exact gas7_fresh s (keyOf pod) (policyOf pod) _ rss set0 hdp hpool hpo hrt hg
      · rw [if_neg hc] at h; cases h

theorem decide7_fresh (s : State) (pod : Pod) (ch : Choice) (n : Subnet)
    (h : decide7 Facts.good s pod ch = .alloc false n) : FreshOK s pod := by
  unfold decide7 at h
  by_cases h1 : pod.ranges.isEmpty = true
  · rw [if_pos h1] at h
    cases hi : byKeyAndRanges s (keyOf pod) pod.ranges with
    | nil => rw [hi] at h; exact decideCont_fresh s pod _ _ _ n h
    | cons a t =>
      rw [hi] at h
      dsimp only at h
      cases hp : pickFirst (a :: t) ch.first with
      | none => rw [hp] at h; cases h
      | some ip => rw [hp] at h; cases h
  · rw [if_neg h1] at h
    by_cases h2 : (unfoundRanges (byKeyAndRanges s (keyOf pod) pod.ranges) pod.ranges).isEmpty = true
    · rw [if_pos h2] at h; cases h
    · rw [if_neg h2] at h; exact decideCont_fresh s pod _ _ _ n h

/-! ### the allocation phase of Filter -/

/-- the decision takes a fresh address for a pod of pool `P` -/
def freshFor (pod : Pod) (P : String) : Decision → Bool
  | .alloc false _ => (keyOf pod).pool == P
  | _ => false

/-- a state change that keeps the configuration and the coherence and raises pool `P` by at most `g P` -/
structure Grow7 (g : String → Nat) (s s' : State) : Prop where
  pools : s'.pools = s.pools
  coh : Coherent s → Coherent s'
  cnt : ∀ P, P ≠ "" → cntp (mP P) s'.alloc ≤ cntp (mP P) s.alloc + g P

theorem Quiet7.grow {s s' : State} (q : Quiet7 s s') (g : String → Nat) : Grow7 g s s' :=
  ⟨q.pools, q.coh, fun P hP => Nat.le_trans (q.cnt P hP) (Nat.le_add_right _ _)⟩

theorem Grow7.then_quiet {g : String → Nat} {a b c : State} (h1 : Grow7 g a b) (h2 : Quiet7 b c) : Grow7 g a c :=
  ⟨h2.pools.trans h1.pools, fun h => h2.coh (h1.coh h), fun P hP => Nat.le_trans (h2.cnt P hP) (h1.cnt P hP)⟩

theorem Quiet7.then_grow {g : String → Nat} {a b c : State} (h1 : Quiet7 a b) (h2 : Grow7 g b c) : Grow7 g a c :=
  ⟨h2.pools.trans h1.pools, fun h => h2.coh (h1.coh h), fun P hP =>
    Nat.le_trans (h2.cnt P hP) (Nat.add_le_add_right (h1.cnt P hP) _)⟩

theorem allocateDuringFilter_grow (s : State) (pod : Pod) (resv : Bool) (n : Subnet) (pick : Option IP) :
    Grow7 (fun P => if freshFor pod P (.alloc resv n) then 1 else 0) s
      (allocateDuringFilter s (keyOf pod) resv n (filterAttr pod) pick).1 := by
  refine ⟨?_, allocateDuringFilter_coherent s _ resv n _ pick, ?_⟩
  · unfold allocateDuringFilter
    split
    · exact (allocateInSubnetWithKey_chg s _ _ n _ pick).frame.pools
    · exact allocateInSubnet_pools s _ n _ pick
  · intro P _
    unfold allocateDuringFilter
    cases resv with
    | true =>
      simp only [↓reduceIte, freshFor]
      exact allocateInSubnetWithKey_cntp _ s _ _ n _ pick (by rw [mP_poolPrefix]; exact fun h => h)
    | false =>
      simp only [freshFor, Bool.false_eq_true, ↓reduceIte]
      exact allocateInSubnet_cntp (mP P) s (keyOf pod) n _ pick

theorem filterNodes_q (set : List Subnet) (nodes acc : List String) (s : State) :
    Quiet7 s (filterNodes s set nodes acc).1 := Quiet7.of_quiet (filterNodes_quiet set nodes acc s).1

/-- the second phase of Filter (allocation per decision, then the node loop) -/
theorem filterApply_grow (s : State) (pod : Pod) (ch : Choice) (nodes : List String) (d : Decision) :
    Grow7 (fun P => if freshFor pod P d then 1 else 0) s (filterFinish s nodes (applyDecision s pod ch d)).1 := by
  cases d with
  | fail r =>
    unfold applyDecision filterFinish
    cases r <;> exact (Quiet7.refl s).grow _
  | pass set =>
    unfold applyDecision filterFinish
    exact (filterNodes_q set nodes [] s).grow _
  | alloc resv n =>
    have g := allocateDuringFilter_grow s pod resv n ch.pick
    unfold applyDecision filterFinish
    dsimp only
    generalize hr : (allocateDuringFilter s (keyOf pod) resv n (filterAttr pod) ch.pick).2 = r
    cases r with
    | ok => exact g.then_quiet (filterNodes_q _ _ _ _)
    | err c => exact g
    | inadmissible => exact (Quiet7.refl s).grow _

/-- Filter as an atomic move: every pool keeps its count, except that the pool of a deployment pod whose Filter decided
    on a fresh address may gain one member - and then the decision had established `FreshOK` -/
theorem filter7_grow (s : State) (ns name : String) (nodes : List String) (ch : Choice) :
    (filter7 Facts.good s ns name nodes ch).1.pools = s.pools ∧
    (Coherent s → Coherent (filter7 Facts.good s ns name nodes ch).1) ∧
    ∀ P, P ≠ "" → cntp (mP P) (filter7 Facts.good s ns name nodes ch).1.alloc ≤ cntp (mP P) s.alloc ∨
      (∃ pod, Tbl.get s.pods (ns, name) = some pod ∧ pod.wants = true ∧ (keyOf pod).pool = P ∧ FreshOK s pod ∧
        cntp (mP P) (filter7 Facts.good s ns name nodes ch).1.alloc ≤ cntp (mP P) s.alloc + 1) := by
  unfold filter7
  cases hp : Tbl.get s.pods (ns, name) with
  | none => exact ⟨rfl, fun h => h, fun P _ => Or.inl (Nat.le_refl _)⟩
  | some pod =>
    dsimp only
    by_cases hw : (!pod.wants) = true
    · rw [if_pos hw]; exact ⟨rfl, fun h => h, fun P _ => Or.inl (Nat.le_refl _)⟩
    · rw [if_neg hw]
      have g := filterApply_grow s pod ch nodes (decide7 Facts.good s pod ch)
      refine ⟨g.pools, g.coh, fun P hP => ?_⟩
      have gc := g.cnt P hP
      by_cases hf : freshFor pod P (decide7 Facts.good s pod ch) = true
      · right
        rw [if_pos hf] at gc
        cases hd : decide7 Facts.good s pod ch with
        | fail r => rw [hd] at hf; simp [freshFor] at hf
        | pass set => rw [hd] at hf; simp [freshFor] at hf
        | alloc resv n =>
          rw [hd] at hf
          cases resv with
          | true => simp [freshFor] at hf
          | false =>
            simp only [freshFor, beq_iff_eq] at hf
            exact ⟨pod, rfl, by simpa using hw, hf, decide7_fresh s pod ch n hd, by rw [hd] at gc; exact gc⟩
      · left
        rw [if_neg hf] at gc
        exact gc

/-- Preempt as an atomic move: the same `getSubnet`, hence the same effect as Filter's -/
theorem preempt_grow (s : State) (ns name : String) (nodes : List String) (ch : Choice) :
    (Plugin.preempt s ns name nodes ch).1.pools = s.pools ∧
    (Coherent s → Coherent (Plugin.preempt s ns name nodes ch).1) ∧
    ∀ P, P ≠ "" → cntp (mP P) (Plugin.preempt s ns name nodes ch).1.alloc ≤ cntp (mP P) s.alloc ∨
      (∃ pod, Tbl.get s.pods (ns, name) = some pod ∧ policyOf pod ≠ 0 ∧ (keyOf pod).pool = P ∧ FreshOK s pod ∧
        cntp (mP P) (Plugin.preempt s ns name nodes ch).1.alloc ≤ cntp (mP P) s.alloc + 1) := by
  unfold Plugin.preempt
  cases hp : Tbl.get s.pods (ns, name) with
  | none => exact ⟨rfl, fun h => h, fun P _ => Or.inl (Nat.le_refl _)⟩
  | some pod =>
    dsimp only
    by_cases hpol : policyOf pod = 0
    · rw [if_pos hpol]; exact ⟨rfl, fun h => h, fun P _ => Or.inl (Nat.le_refl _)⟩
    · rw [if_neg hpol, getSubnet_split]
      -- the state after `getSubnet` and the node loop
      have g : ∀ d, Grow7 (fun P => if freshFor pod P d then 1 else 0) s
          (match (applyDecision s pod ch d).2 with
            | .error .inadmissible => (s, Out.bad)
            | .error _ => ((applyDecision s pod ch d).1, ({ nodes := nodes } : Out))
            | .ok set => ((filterNodes (applyDecision s pod ch d).1 set nodes []).1,
                { nodes := (filterNodes (applyDecision s pod ch d).1 set nodes []).2 })).1 := by
        intro d
        cases d with
        | fail r =>
          unfold applyDecision
          cases r <;> exact (Quiet7.refl s).grow _
        | pass set =>
          unfold applyDecision
          exact (filterNodes_q set nodes [] s).grow _
        | alloc resv n =>
          have g := allocateDuringFilter_grow s pod resv n ch.pick
          unfold applyDecision
          dsimp only
          generalize hr : (allocateDuringFilter s (keyOf pod) resv n (filterAttr pod) ch.pick).2 = r
          cases r with
          | ok => exact g.then_quiet (filterNodes_q _ _ _ _)
          | err c => exact g
          | inadmissible => exact (Quiet7.refl s).grow _
      have g := g (decide7 Facts.good s pod ch)
      refine ⟨g.pools, g.coh, fun P hP => ?_⟩
      have gc := g.cnt P hP
      by_cases hf : freshFor pod P (decide7 Facts.good s pod ch) = true
      · right
        rw [if_pos hf] at gc
        cases hd : decide7 Facts.good s pod ch with
        | fail r => rw [hd] at hf; simp [freshFor] at hf
        | pass set => rw [hd] at hf; simp [freshFor] at hf
        | alloc resv n =>
          rw [hd] at hf
          cases resv with
          | true => simp [freshFor] at hf
          | false =>
            simp only [freshFor, beq_iff_eq] at hf
            exact ⟨pod, rfl, hpol, hf, decide7_fresh s pod ch n hd, by rw [hd] at gc; exact gc⟩
      · left
        rw [if_neg hf] at gc
        exact gc

/-! ### the pool API -/

theorem preLoop_grow (pre : Key) : ∀ (need : Nat) (s : State) (subs : List Subnet) (picks : List IP) (done : Nat),
    (preLoop pre need s subs picks done).1.pools = s.pools ∧
    (Coherent s → Coherent (preLoop pre need s subs picks done).1) ∧
    ∀ m : Key → Bool, cntp m (preLoop pre need s subs picks done).1.alloc ≤ cntp m s.alloc + (if m pre then need else 0) := by
  intro need
  induction need with
  | zero =>
    intro s subs picks done
    unfold preLoop
    split <;> exact ⟨rfl, fun h => h, fun m => Nat.le_add_right _ _⟩
  | succ need ih =>
    intro s subs picks done
    unfold preLoop
    split
    · split <;> exact ⟨rfl, fun h => h, fun m => Nat.le_add_right _ _⟩
    · rename_i n rest _
      split
      · exact ⟨rfl, fun h => h, fun m => Nat.le_add_right _ _⟩
      · rename_i ip ps
        have hpools := allocateInSubnet_pools s pre n preAttr (some ip)
        have hcoh := allocateInSubnet_coherent s pre n preAttr (some ip)
        have hcnt := fun m => allocateInSubnet_cntp m s pre n preAttr (some ip)
        split
        · have r := ih (allocateInSubnet s pre n preAttr (some ip)).1 (n :: rest) ps (done + 1)
          refine ⟨r.1.trans hpools, fun h => r.2.1 (hcoh h), fun m => ?_⟩
          have h1 := r.2.2 m
          have h2 := hcnt m
          by_cases hm : m pre = true
          · simp only [hm, ↓reduceIte] at h1 h2 ⊢; omega
          · simp only [hm] at h1 h2 ⊢
            simp only [Bool.false_eq_true, ↓reduceIte, Nat.add_zero] at h1 h2 ⊢
            omega
        · exact ⟨rfl, fun h => h, fun m => Nat.le_add_right _ _⟩
        · refine ⟨hpools, hcoh, fun m => ?_⟩
          have h2 := hcnt m
          by_cases hm : m pre = true
          · simp only [hm, ↓reduceIte] at h2 ⊢; omega
          · simp only [hm] at h2 ⊢
            simp only [Bool.false_eq_true, ↓reduceIte, Nat.add_zero] at h2 ⊢
            omega

theorem mP_poolKey (P name : String) : mP P (poolKey name) = (name == P) := rfl

/-- the allocation phase of the pool API: at most `size - have_` new members, all in pool `name` -/
theorem preFinish_grow (s : State) (name : String) (size have_ : Nat) (order : List Subnet) (picks : List IP) :
    Grow7 (fun P => if name = P then size - have_ else 0) s (preFinish s name size have_ order picks).1 := by
  unfold preFinish
  split
  · exact (Quiet7.refl s).grow _
  · split
    · split <;> exact (Quiet7.refl s).grow _
    · split
      · exact (Quiet7.refl s).grow _
      · have r := preLoop_grow (poolKey name) (size - have_) s order picks 0
        have g : Grow7 (fun P => if name = P then size - have_ else 0) s
            (preLoop (poolKey name) (size - have_) s order picks 0).1 := by
          refine ⟨r.1, r.2.1, fun P _ => ?_⟩
          have := r.2.2 (mP P)
          rw [mP_poolKey] at this
          by_cases hn : name = P
          · simp only [hn, beq_self_eq_true, ↓reduceIte] at this ⊢; exact this
          · have hb : (name == P) = false := by simpa using hn
            simp only [hb, Bool.false_eq_true, ↓reduceIte, hn] at this ⊢; exact this
        split
        · exact g
        · exact g
        · exact g
        · exact (Quiet7.refl s).grow _

theorem setPoolObj_q (s : State) (name : String) (size : Nat) : Quiet7 s (setPoolObj s name size) :=
  Quiet7.of_eq rfl rfl rfl rfl

/-- the pool API as an atomic move -/
theorem apiPool_grow (s : State) (name : String) (size : Nat) (pre : Bool) (order : List Subnet) (picks : List IP)
    (fault : Nat) :
    Grow7 (fun P => if name = P ∧ pre = true then size - cntp (mP P) s.alloc else 0) s
      (apiPool s name size pre order picks fault).1 := by
  unfold apiPool
  split
  · exact (Quiet7.refl s).grow _
  · rename_i hname
    have q := (withFaults_q s fault 0).trans (setPoolObj_q (withFaults s fault 0) name size)
    split
    · exact q.grow _
    · rename_i hpre
      have hpre' : pre = true := by simpa using hpre
      have g := preFinish_grow (setPoolObj (withFaults s fault 0) name size) name size
        (cnt (setPoolObj (withFaults s fault 0) name size) name) order picks
      have hc : cnt (setPoolObj (withFaults s fault 0) name size) name = cntp (mP name) s.alloc :=
        cnt_eq _ name hname
      have g' : Grow7 (fun P => if name = P ∧ pre = true then size - cntp (mP P) s.alloc else 0) s
          (preFinish (setPoolObj (withFaults s fault 0) name size) name size
            (cnt (setPoolObj (withFaults s fault 0) name size) name) order picks).1 := by
        refine ⟨g.pools.trans q.pools, fun h => g.coh (q.coh h), fun P hP => ?_⟩
        have := g.cnt P hP
        have hq : cntp (mP P) (setPoolObj (withFaults s fault 0) name size).alloc = cntp (mP P) s.alloc := rfl
        rw [hq] at this
        simp only [hc] at this ⊢
        by_cases hn : name = P
        · subst hn
          simp only [↓reduceIte, hpre', and_self] at this ⊢
          exact this
        · simp only [hn, ↓reduceIte, false_and] at this ⊢
          exact this
      split
      · exact (Quiet7.refl s).grow _
      · exact g'

end Galaxy.PluginC07
