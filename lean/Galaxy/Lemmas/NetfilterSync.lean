/-
  `get`-level specification of EnsureBasicRule and SetupPortMappingForAllPods (M6 `ensureBasic`,
  `syncAllWith`), for every resolution of the Go map's iteration order.
-/
import Galaxy.Lemmas.NetfilterPorts

namespace Galaxy.Netfilter

open Galaxy

/-! ## EnsureBasicRule -/

/-- `EnsureRule(Append, …, basicRule)` on a rule list -/
def addBasic (rs : List Rule) : List Rule := if basicRule ∈ rs then rs else rs ++ [basicRule]

theorem mem_addBasic {rs : List Rule} {r : Rule} (h : r ∈ addBasic rs) : r ∈ rs ∨ r = basicRule := by
  unfold addBasic at h
  split at h
  · exact Or.inl h
  · rcases List.mem_append.mp h with h | h
    · exact Or.inl h
    · simp only [List.mem_cons, List.mem_nil_iff, or_false] at h; exact Or.inr h

theorem ensureBasicRules_spec : ∀ (cs : List String) (T : Table), cs.Nodup →
    (∀ c ∈ cs, Tbl.has T c = true) → Tbl.has T hostportsChain = true →
    ∃ T', ensureBasicRules T cs = (T', none) ∧
      ∀ c, Tbl.get T' c = if c ∈ cs then (Tbl.get T c).map addBasic else Tbl.get T c
  | [], T, _, _, _ => ⟨T, rfl, fun c => by simp⟩
  | c0 :: cs, T, hnd, hcs, hkh => by
    have hnd' := List.nodup_cons.mp hnd
    have hrefs : checkRefs (fun _ => true) T basicRule = none :=
      checkRefs_none (fun t ht => by rw [chainRef_basic] at ht; cases ht; exact hkh) (by simp [matchSets_basic])
    obtain ⟨rules, hrules⟩ := has_iff.mp (hcs c0 (List.mem_cons_self ..))
    -- the table after the first EnsureRule
    have hstep : ∃ T1, ensureRule false (fun _ => true) T c0 basicRule = .ok (decide (basicRule ∈ rules), T1) ∧
        Tbl.get T1 c0 = some (addBasic rules) ∧ (∀ c, c ≠ c0 → Tbl.get T1 c = Tbl.get T c) := by
      by_cases hj : basicRule ∈ rules
      · exact ⟨T, by rw [ensureRule_existing hrefs hrules hj]; simp [hj], by simp [addBasic, hj, hrules],
          fun _ _ => rfl⟩
      · exact ⟨Tbl.set T c0 (rules ++ [basicRule]), by rw [ensureRule_append hrefs hrules hj]; simp [hj],
          by simp [addBasic, hj], fun c hc => Tbl.get_set_ne _ _ (fun e => hc e.symm)⟩
    obtain ⟨T1, he, g10, g1⟩ := hstep
    have hhas : ∀ c, Tbl.has T c = true → Tbl.has T1 c = true := by
      intro c hc
      by_cases hcc : c = c0
      · subst hcc; simp [Tbl.has, g10]
      · simpa [Tbl.has, g1 c hcc] using hc
    obtain ⟨T', h', g'⟩ := ensureBasicRules_spec cs T1 hnd'.2
      (fun c hc => hhas c (hcs c (List.mem_cons_of_mem _ hc))) (hhas _ hkh)
    refine ⟨T', ?_, ?_⟩
    · show (match ensureRule false (fun _ => true) T c0 basicRule with
        | .error e => (T, some e)
        | .ok (_, T') => ensureBasicRules T' cs) = _
      rw [he]; exact h'
    · intro c
      rw [g' c]
      by_cases hcc : c = c0
      · subst hcc
        simp [hnd'.1, g10, hrules]
      · simp [hcc, g1 c hcc]

theorem basicChains_nodup : Generated.Netfilter.basicRuleChains.Nodup := by decide

theorem basicChains_facts : ∀ c ∈ Generated.Netfilter.basicRuleChains,
    c ≠ hostportsChain ∧ c ≠ markMasqChain ∧ hasPrefix hpPrefix c = false := by decide

theorem ensureBasic_spec (T : Table) (hb : ∀ c ∈ Generated.Netfilter.basicRuleChains, Tbl.has T c = true) :
    ∃ Tb, ensureBasic T = (Tb, none) ∧
      ∀ c, Tbl.get Tb c =
        if c = hostportsChain then some ((Tbl.get T hostportsChain).getD [])
        else if c ∈ Generated.Netfilter.basicRuleChains then (Tbl.get T c).map addBasic else Tbl.get T c := by
  -- after EnsureChain
  have g1 : ∀ c, Tbl.get (ensureChain T hostportsChain).2 c =
      if c = hostportsChain then some ((Tbl.get T hostportsChain).getD []) else Tbl.get T c := by
    intro c
    unfold ensureChain
    by_cases hh : Tbl.has T hostportsChain = true
    · obtain ⟨rs, hrs⟩ := has_iff.mp hh
      by_cases hc : c = hostportsChain
      · subst hc; simp [hh, hrs]
      · simp [hh, hc]
    · have hn : Tbl.get T hostportsChain = none := has_false_iff.mp (by simpa using hh)
      by_cases hc : c = hostportsChain
      · subst hc; simp [hh, hn]
      · have hne : ¬ hostportsChain = c := fun e => hc e.symm
        simp [hh, hc, Tbl.get_set, hne]
  obtain ⟨Tb, h, g⟩ := ensureBasicRules_spec Generated.Netfilter.basicRuleChains (ensureChain T hostportsChain).2
    basicChains_nodup
    (fun c hc => by
      have := (basicChains_facts c hc).1
      simpa [Tbl.has, g1, this] using hb c hc)
    (by simp [Tbl.has, g1])
  refine ⟨Tb, h, ?_⟩
  intro c
  rw [g c]
  by_cases hc : c = hostportsChain
  · subst hc
    have : hostportsChain ∉ Generated.Netfilter.basicRuleChains := by decide
    simp [this, g1]
  · simp [hc, g1]

/-! ## SetupPortMappingForAllPods -/

/-- per port: the KUBE-HOSTPORTS line and the two lines of its chain -/
def syncApps (hash : String → String) (ps : List Port) : Batch :=
  ps.flatMap (fun p => [.app hostportsChain (jumpRuleR hash p),
    .app (chainName hash p) (masqRule hash p), .app (chainName hash p) (dnatRule hash p)])

theorem appsFor_syncApps_hostports (hash : String → String) (ps : List Port) :
    appsFor hostportsChain (syncApps hash ps) = ps.map (jumpRuleR hash) := by
  induction ps with
  | nil => rfl
  | cons p ps ih =>
    simp only [syncApps, List.flatMap_cons, List.map_cons] at ih ⊢
    rw [appsFor_append, ih]
    simp [appsFor, chainName_ne_hostports]

theorem appsFor_syncApps_other (hash : String → String) (ps : List Port) {c : String} (hc : c ≠ hostportsChain) :
    appsFor c (syncApps hash ps) = hpRules hash ps c := by
  induction ps with
  | nil => rfl
  | cons p ps ih =>
    simp only [syncApps, hpRules, List.flatMap_cons] at ih ⊢
    rw [appsFor_append, ih]
    have : ¬ hostportsChain = c := fun e => hc e.symm
    by_cases h : chainName hash p = c <;> simp [appsFor, h, this]

theorem mem_hpRules {hash : String → String} {ps : List Port} {c : String} {r : Rule} (h : r ∈ hpRules hash ps c) :
    ∃ p ∈ ps, r = masqRule hash p ∨ r = dnatRule hash p := by
  simp only [hpRules, List.mem_flatMap] at h
  obtain ⟨p, hp, hr⟩ := h
  split at hr
  · simp only [List.mem_cons, List.mem_nil_iff, or_false] at hr
    exact ⟨p, hp, hr⟩
  · cases hr

theorem mem_staleChains {hash : String → String} {existing : List String} {ps : List Port} {c : String} :
    c ∈ staleChains hash existing ps ↔
      c ∈ existing ∧ c ∉ ps.map (chainName hash) ∧ hasPrefix hpPrefix c = true := by
  simp [staleChains, Generated.Netfilter.syncStaleSkipsActive, Generated.Netfilter.syncStalePrefixGuard]

theorem syncAllBatch_eq (hash : String → String) (existing : List String) (ps : List Port) :
    syncAllBatch hash existing ps =
      (markMasqChain :: hostportsChain :: (ps.map (chainName hash) ++ staleChains hash existing ps)).map .decl
        ++ ((.app markMasqChain markRule :: syncApps hash ps)
        ++ (staleChains hash existing ps).map .del) := by
  simp [syncAllBatch, when, Generated.Netfilter.syncWritesMark, Generated.Netfilter.syncDeclaresHostports,
    Generated.Netfilter.syncDeclaresChain, Generated.Netfilter.syncStaleDeclares,
    Generated.Netfilter.syncWritesJumpRule, Generated.Netfilter.syncWritesHpRules,
    Generated.Netfilter.syncStaleDeletes, markCmd_eq, masqCmd_eq, dnatCmd_eq, jumpCmd_eq, syncApps,
    Function.comp_def]

theorem syncAll_spec (hash : String → String) (order : Table → List String) (T : Table) (ps : List Port)
    (hord : ∀ T', (order T').Nodup ∧ ∀ c, c ∈ order T' ↔ Tbl.has T' c = true)
    (hb : ∀ c ∈ Generated.Netfilter.basicRuleChains, Tbl.has T c = true)
    (hstale : ∀ k rs r c, Tbl.get T k = some rs → r ∈ rs → chainRef r = some c →
      hasPrefix hpPrefix c = true → c ∉ ps.map (chainName hash) →
      (k = hostportsChain ∨ hasPrefix hpPrefix k = true)) :
    ∃ T', syncAllWith hash order T ps = (T', none) ∧
      ∀ c, Tbl.get T' c =
        if c = markMasqChain then some [markRule]
        else if c = hostportsChain then some (ps.map (jumpRuleR hash))
        else if hasPrefix hpPrefix c = true then
          (if c ∈ ps.map (chainName hash) then some (hpRules hash ps c) else none)
        else if c ∈ Generated.Netfilter.basicRuleChains then (Tbl.get T c).map addBasic
        else Tbl.get T c := by
  obtain ⟨Tb, hTb, gb⟩ := ensureBasic_spec T hb
  obtain ⟨hond, homem⟩ := hord Tb
  let stale := staleChains hash (order Tb) ps
  have hst : ∀ c, c ∈ stale ↔ (Tbl.has Tb c = true ∧ c ∉ (ps.map (chainName hash)) ∧ hasPrefix hpPrefix c = true) := by
    intro c; rw [mem_staleChains, homem]
  have hkn : hostportsChain ∉ (ps.map (chainName hash)) := fun h => by
    have := names_prefix h; rw [hostports_no_prefix] at this; cases this
  have hmn : markMasqChain ∉ (ps.map (chainName hash)) := fun h => by
    have := names_prefix h; rw [markMasq_no_prefix] at this; cases this
  have hks : hostportsChain ∉ stale := fun h => by
    have := ((hst _).mp h).2.2; rw [hostports_no_prefix] at this; cases this
  have hms : markMasqChain ∉ stale := fun h => by
    have := ((hst _).mp h).2.2; rw [markMasq_no_prefix] at this; cases this
  -- 1. chain lines
  obtain ⟨T0, h0, g0⟩ := restore_decls (fun _ => true) Tb (markMasqChain :: hostportsChain :: ((ps.map (chainName hash)) ++ stale)) (by
    intro c hc
    rcases List.mem_cons.mp hc with rfl | hc
    · exact markMasq_not_builtin
    rcases List.mem_cons.mp hc with rfl | hc
    · exact hostports_not_builtin
    rcases List.mem_append.mp hc with hc | hc
    · exact prefix_not_builtin (names_prefix hc)
    · exact prefix_not_builtin ((hst c).mp hc).2.2)
  have hdecl : ∀ c, c ∈ markMasqChain :: hostportsChain :: ((ps.map (chainName hash)) ++ stale) ↔
      (c = markMasqChain ∨ c = hostportsChain ∨ c ∈ (ps.map (chainName hash)) ∨ c ∈ stale) := by
    intro c; simp
  -- 2. appends
  have hmm0 : Tbl.has T0 markMasqChain = true := by simp [Tbl.has, g0]
  have hkh0 : Tbl.has T0 hostportsChain = true := by simp [Tbl.has, g0]
  have hn0 : ∀ p ∈ ps, Tbl.has T0 (chainName hash p) = true := by
    intro p hp
    have : chainName hash p ∈ (ps.map (chainName hash)) := List.mem_map_of_mem hp
    simp [Tbl.has, g0, this]
  obtain ⟨T1, h1, g1⟩ := restore_apps (fun _ => true) T0 (.app markMasqChain markRule :: syncApps hash ps) (by
    intro cmd hcmd
    rcases List.mem_cons.mp hcmd with rfl | hcmd
    · exact ⟨_, _, rfl, hmm0, by simp [chainRef_mark], by simp [matchSets_mark]⟩
    · simp only [syncApps, List.mem_flatMap, List.mem_cons, List.mem_nil_iff, or_false] at hcmd
      obtain ⟨p, hp, h | h | h⟩ := hcmd
      · refine ⟨_, _, h, hkh0, ?_, by simp [matchSets_jumpR]⟩
        intro t ht; rw [chainRef_jumpR] at ht; cases ht; exact hn0 p hp
      · refine ⟨_, _, h, hn0 p hp, ?_, by simp [matchSets_masq]⟩
        intro t ht; rw [chainRef_masq] at ht; cases ht; exact hmm0
      · refine ⟨_, _, h, hn0 p hp, ?_, by simp [matchSets_dnat]⟩
        intro t ht; rw [chainRef_dnat] at ht; cases ht)
  -- what T1 holds
  have hhpmm : hpRules hash ps markMasqChain = [] := hpRules_not_mem hmn
  have gT1 : ∀ c, Tbl.get T1 c =
      if c = markMasqChain then some [markRule]
      else if c = hostportsChain then some (ps.map (jumpRuleR hash))
      else if c ∈ (ps.map (chainName hash)) then some (hpRules hash ps c)
      else if c ∈ stale then some []
      else Tbl.get Tb c := by
    intro c
    rw [g1 c, g0 c]
    by_cases hc1 : c = markMasqChain
    · subst hc1
      simp [appsFor, appsFor_syncApps_other hash ps markMasq_ne_hostports, hhpmm]
    · have hne1 : ¬ markMasqChain = c := fun e => hc1 e.symm
      by_cases hc2 : c = hostportsChain
      · subst hc2
        simp [appsFor, hne1, appsFor_syncApps_hostports, hc1]
      · by_cases hc3 : c ∈ (ps.map (chainName hash))
        · simp [hc1, hc2, hc3, appsFor, hne1, appsFor_syncApps_other hash ps hc2]
        · by_cases hc4 : c ∈ stale
          · simp [hc1, hc2, hc3, hc4, appsFor, hne1, appsFor_syncApps_other hash ps hc2, hpRules_not_mem hc3]
          · simp [hc1, hc2, hc3, hc4, appsFor, hne1, appsFor_syncApps_other hash ps hc2, hpRules_not_mem hc3]
  -- 3. deletions
  have hstnd : stale.Nodup := List.Nodup.sublist List.filter_sublist hond
  obtain ⟨T2, h2, g2⟩ := restore_dels (fun _ => true) T1 stale hstnd (by
    intro d hd
    obtain ⟨hdh, hdn, hdp⟩ := (hst d).mp hd
    have hd1 : d ≠ markMasqChain := fun e => hms (e ▸ hd)
    have hd2 : d ≠ hostportsChain := fun e => hks (e ▸ hd)
    refine ⟨by rw [gT1]; simp [hd1, hd2, hdn, hd], prefix_not_builtin hdp, ?_⟩
    rw [referenced_false_iff]
    intro k rs r hk hr hc
    rw [gT1 k] at hk
    by_cases hk1 : k = markMasqChain
    · simp only [hk1, if_true] at hk; cases hk
      simp only [List.mem_cons, List.mem_nil_iff, or_false] at hr
      subst hr; rw [chainRef_mark] at hc; cases hc
    by_cases hk2 : k = hostportsChain
    · simp only [hk1, hk2, if_true, if_false] at hk; cases hk
      obtain ⟨p, hp, rfl⟩ := List.mem_map.mp hr
      rw [chainRef_jumpR] at hc; cases hc
      exact hdn (List.mem_map_of_mem hp)
    by_cases hk3 : k ∈ (ps.map (chainName hash))
    · simp only [hk1, hk2, hk3, if_true, if_false] at hk; cases hk
      obtain ⟨p, _, h | h⟩ := mem_hpRules hr
      · subst h; rw [chainRef_masq] at hc; cases hc; exact hd1 rfl
      · subst h; rw [chainRef_dnat] at hc; cases hc
    by_cases hk4 : k ∈ stale
    · simp only [hk1, hk2, hk3, hk4, if_true, if_false] at hk; cases hk; cases hr
    · simp only [hk1, hk2, hk3, hk4, if_false] at hk
      -- k is a chain of Tb that the batch did not declare
      have hkTb : Tbl.has Tb k = true := has_iff.mpr ⟨rs, hk⟩
      rw [gb k] at hk
      simp only [hk2, if_false] at hk
      have hrT : ∃ rs0, Tbl.get T k = some rs0 ∧ (r ∈ rs0 ∨ r = basicRule) := by
        by_cases hkb : k ∈ Generated.Netfilter.basicRuleChains
        · simp only [hkb, if_true] at hk
          cases hg : Tbl.get T k with
          | none => rw [hg] at hk; cases hk
          | some rs0 =>
            rw [hg] at hk; simp only [Option.map_some] at hk; cases hk
            exact ⟨rs0, rfl, mem_addBasic hr⟩
        · simp only [hkb, if_false] at hk
          exact ⟨rs, hk, Or.inl hr⟩
      obtain ⟨rs0, hg, hr0 | hr0⟩ := hrT
      · rcases hstale k rs0 r d hg hr0 hc hdp hdn with e | e
        · exact hk2 e
        · by_cases hkn' : k ∈ (ps.map (chainName hash))
          · exact hk3 hkn'
          · exact hk4 ((hst k).mpr ⟨hkTb, hkn', e⟩)
      · subst hr0; rw [chainRef_basic] at hc; cases hc; exact hd2 rfl)
  refine ⟨T2, ?_, ?_⟩
  · have hbatch : restoreIn (fun _ => true) Tb (syncAllBatch hash (order Tb) ps) = .ok T2 := by
      rw [syncAllBatch_eq, restoreIn_append_ok _ h0, restoreIn_append_ok _ h1]; exact h2
    simp [syncAllWith, Generated.Netfilter.syncEnsuresBasicFirst, hTb, commit, hbatch]
  · intro c
    rw [g2 c]
    by_cases hc1 : c = markMasqChain
    · subst hc1; simp [hms, gT1]
    by_cases hc2 : c = hostportsChain
    · subst hc2; simp [hks, gT1, hc1]
    by_cases hcp : hasPrefix hpPrefix c = true
    · by_cases hc3 : c ∈ (ps.map (chainName hash))
      · have : c ∉ stale := fun h => ((hst c).mp h).2.1 hc3
        simp [this, gT1, hc1, hc2, hcp, hc3]
      · by_cases hc4 : c ∈ stale
        · simp [hc4, hc1, hc2, hcp, hc3]
        · have hno : Tbl.has Tb c = false := by
            cases hh : Tbl.has Tb c with
            | false => rfl
            | true => exact absurd ((hst c).mpr ⟨hh, hc3, hcp⟩) hc4
          simp [hc4, gT1, hc1, hc2, hcp, hc3, has_false_iff.mp hno]
    · have hc3 : c ∉ (ps.map (chainName hash)) := fun h => hcp (names_prefix h)
      have hc4 : c ∉ stale := fun h => hcp ((hst c).mp h).2.2
      simp [hc4, gT1, hc1, hc2, hcp, hc3, gb]

/-! ## the enumeration the driver uses is one admissible map order -/

theorem nodup_eraseDups_aux : ∀ (n : Nat) (l : List String), l.length ≤ n → l.eraseDups.Nodup
  | _, [], _ => by simp
  | 0, a :: as, h => by simp at h
  | n + 1, a :: as, h => by
    rw [List.eraseDups_cons, List.nodup_cons]
    refine ⟨?_, nodup_eraseDups_aux n _ ?_⟩
    · intro hm
      have := List.mem_eraseDups.mp hm
      simp at this
    · have h1 : (List.filter (fun b => !b == a) as).length ≤ as.length := List.length_filter_le _ _
      simp only [List.length_cons] at h
      omega

theorem chainList_admissible (T : Table) :
    (chainList T).Nodup ∧ ∀ c, c ∈ chainList T ↔ Tbl.has T c = true := by
  refine ⟨nodup_eraseDups_aux _ _ (Nat.le_refl _), ?_⟩
  intro c
  unfold chainList
  rw [List.mem_eraseDups, mem_keys_iff, has_iff]

end Galaxy.Netfilter
