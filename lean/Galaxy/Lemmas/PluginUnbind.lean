/-
  M4-core proofs, part 7: provider calls and the unbind family (`unbindNoneDpPod`, `unbindDpPod`, `unbind`).
-/
import Galaxy.Lemmas.PluginConf

namespace Galaxy.Plugin
open Galaxy

/-- the new value carries no pod uid (released, or reserved with an empty attribute) -/
def uidZero : Option Rec → Prop := fun n => ∀ r, n = some r → r.uid = 0

theorem isFree_uidZero (n : Option Rec) (h : isFree n) : uidZero n := by
  intro r hr; rw [h] at hr; cases hr

theorem hasKeyUid_uidZero (k : Key) (n : Option Rec) (h : hasKeyUid k 0 n) : uidZero n := by
  intro r hr; obtain ⟨r', h1, _, h3⟩ := h; rw [h1] at hr; cases hr; exact h3

/-- a step that touches neither memory table nor the store (provider calls, call counting) -/
structure QuietStep (s s' : State) : Prop where
  frame : Frame s s'
  alloc : s'.alloc = s.alloc
  free : s'.free = s.free
  store : s'.store = s.store

theorem QuietStep.refl (s : State) : QuietStep s s := ⟨Frame.refl s, rfl, rfl, rfl⟩

theorem QuietStep.trans {a b c : State} (h1 : QuietStep a b) (h2 : QuietStep b c) : QuietStep a c :=
  ⟨h1.frame.trans h2.frame, h2.alloc.trans h1.alloc, h2.free.trans h1.free, h2.store.trans h1.store⟩

theorem QuietStep.coherent {s s' : State} (q : QuietStep s s') (h : Coherent s) : Coherent s' :=
  coherent_of_eq h q.frame.pools q.alloc q.store q.free

theorem QuietStep.chg {old new : Option Rec → Prop} {s s' : State} (q : QuietStep s s') : Chg old new s s' :=
  Chg.of_alloc_eq q.frame q.alloc

theorem api_quiet (s : State) : QuietStep s s.api.1 := ⟨api_frame s, rfl, rfl, rfl⟩

/-- the provider requests a step appended to the log -/
def Logged (s s' : State) (l : List PCall) : Prop := s'.plog = s.plog ++ l

def isUnassignOf (ip : IP) : PCall → Prop
  | .unassign _ j _ => j = ip
  | _ => False

/-- every UnAssign request appended by the step is for an address in `ips` -/
def UnassignsWithin (s s' : State) (ips : IP → Prop) : Prop :=
  ∃ l, Logged s s' l ∧ ∀ c, c ∈ l → ∀ node ip ok, c = PCall.unassign node ip ok → ips ip

theorem UnassignsWithin.refl (s : State) (ips : IP → Prop) : UnassignsWithin s s ips :=
  ⟨[], by simp [Logged], by simp⟩

theorem UnassignsWithin.of_plog_eq {s s' : State} (ips : IP → Prop) (h : s'.plog = s.plog) : UnassignsWithin s s' ips :=
  ⟨[], by simp [Logged, h], by simp⟩

theorem UnassignsWithin.trans {a b c : State} {ips : IP → Prop} (h1 : UnassignsWithin a b ips)
    (h2 : UnassignsWithin b c ips) : UnassignsWithin a c ips := by
  obtain ⟨l1, e1, p1⟩ := h1
  obtain ⟨l2, e2, p2⟩ := h2
  refine ⟨l1 ++ l2, by simp [Logged] at *; rw [e2, e1, List.append_assoc], fun c hc => ?_⟩
  rcases List.mem_append.mp hc with h | h
  · exact p1 c h
  · exact p2 c h

theorem UnassignsWithin.mono {s s' : State} {ips ips' : IP → Prop} (h : UnassignsWithin s s' ips)
    (hi : ∀ ip, ips ip → ips' ip) : UnassignsWithin s s' ips' := by
  obtain ⟨l, e, p⟩ := h
  exact ⟨l, e, fun c hc node ip ok hce => hi ip (p c hc node ip ok hce)⟩

theorem provUnassign_quiet (s : State) (node : String) (ip : IP) : QuietStep s (provUnassign s node ip).1 := by
  unfold provUnassign
  split
  · exact QuietStep.refl s
  · split
    · exact QuietStep.refl s
    · exact ⟨⟨rfl, rfl, rfl, rfl, rfl, rfl, rfl, rfl, rfl, rfl, rfl, rfl, rfl, rfl, Nat.le_refl _, rfl⟩, rfl, rfl, rfl⟩

theorem provUnassign_log (s : State) (node : String) (ip : IP) :
    UnassignsWithin s (provUnassign s node ip).1 (fun j => j = ip) := by
  unfold provUnassign
  split
  · exact UnassignsWithin.refl s _
  · split
    · exact UnassignsWithin.refl s _
    · exact ⟨[.unassign node ip (!(s.pcalls + 1 == s.pfault))], rfl, fun c hc n j ok hce => by
        simp at hc; rw [hc] at hce; cases hce; rfl⟩

theorem provAssign_quiet (s : State) (node : String) (ip : IP) : QuietStep s (provAssign s node ip).1 := by
  unfold provAssign
  split
  · exact QuietStep.refl s
  · split
    · exact QuietStep.refl s
    · exact ⟨⟨rfl, rfl, rfl, rfl, rfl, rfl, rfl, rfl, rfl, rfl, rfl, rfl, rfl, rfl, Nat.le_refl _, rfl⟩, rfl, rfl, rfl⟩

theorem provAssign_log (s : State) (node : String) (ip : IP) (ips : IP → Prop) :
    UnassignsWithin s (provAssign s node ip).1 ips := by
  unfold provAssign
  split
  · exact UnassignsWithin.refl s _
  · split
    · exact UnassignsWithin.refl s _
    · exact ⟨[.assign node ip (!(s.pcalls + 1 == s.pfault))], rfl, fun c hc n j ok hce => by
        simp at hc; rw [hc] at hce; cases hce⟩

theorem unassignAll_quiet : ∀ (l : List IP) (s : State), QuietStep s (unassignAll s l).1 := by
  intro l
  induction l with
  | nil => intro s; exact QuietStep.refl s
  | cons ip t ih =>
    intro s
    unfold unassignAll
    dsimp only
    have q := provUnassign_quiet s (((Tbl.get s.alloc ip).map (·.node)).getD "") ip
    split
    · exact q
    · exact q.trans (ih _)

theorem unassignAll_log : ∀ (l : List IP) (s : State), UnassignsWithin s (unassignAll s l).1 (fun j => j ∈ l) := by
  intro l
  induction l with
  | nil => intro s; exact UnassignsWithin.refl s _
  | cons ip t ih =>
    intro s
    unfold unassignAll
    dsimp only
    have q := (provUnassign_log s (((Tbl.get s.alloc ip).map (·.node)).getD "") ip).mono
      (ips' := fun j => j ∈ ip :: t) (fun j hj => by simp [hj])
    split
    · exact q
    · exact q.trans ((ih _).mono (fun j hj => by simp [hj]))

/-! ### the store-touching steps do not log provider requests -/

theorem StoreStep.plog_of {s s' : State} (_ : StoreStep s s') (h : s'.plog = s.plog) (ips : IP → Prop) :
    UnassignsWithin s s' ips := UnassignsWithin.of_plog_eq ips h

theorem api_plog (s : State) : s.api.1.plog = s.plog := rfl

theorem stCreate_plog (s : State) (ip : IP) (r : Rec) : (stCreate s ip r).1.plog = s.plog := by
  unfold stCreate; dsimp only; split
  · rfl
  · split <;> rfl

theorem stUpdate_plog (s : State) (ip : IP) (r : Rec) : (stUpdate s ip r).1.plog = s.plog := by
  unfold stUpdate; dsimp only; split
  · rfl
  · split
    · rfl
    · split <;> rfl

theorem stDelete_plog (s : State) (ip : IP) : (stDelete s ip).1.plog = s.plog := by
  unfold stDelete; dsimp only; split
  · rfl
  · split <;> rfl

theorem reserveLoop_plog (oldK newK : Key) (a : Attr) : ∀ (ips : List IP) (s : State),
    (reserveLoop s oldK newK a ips).1.plog = s.plog := by
  intro ips
  induction ips with
  | nil => intro s; rfl
  | cons ip t ih =>
    intro s
    unfold reserveLoop
    split
    · exact ih s
    · dsimp only
      split
      · exact ih s
      · split
        · exact ih s
        · split
          · exact stUpdate_plog _ _ _
          · rw [ih]; exact stUpdate_plog _ _ _

theorem releaseIPsLoop_plog (key : Key) : ∀ (ips : List IP) (s : State),
    (releaseIPsLoop s key ips).1.plog = s.plog := by
  intro ips
  induction ips with
  | nil => intro s; rfl
  | cons ip t ih =>
    intro s
    unfold releaseIPsLoop
    split
    · exact ih s
    · dsimp only
      split
      · exact ih s
      · split
        · exact stDelete_plog _ _
        · rw [ih]; exact stDelete_plog _ _

theorem reserve_plog (s : State) (o n : Key) (a : Attr) : (reserve s o n a).1.plog = s.plog := reserveLoop_plog o n a _ s
theorem releaseIP_plog (s : State) (k : Key) : (releaseIP s k).1.plog = s.plog := releaseIPsLoop_plog k _ s

/-! ### unbindNoneDpPod / unbindDpPod -/

theorem releaseIP_chgZ (s : State) (k : Key) : Chg (hasKey k) uidZero s (releaseIP s k).1 :=
  (releaseIP_chg s k).mono (fun _ h => h) isFree_uidZero

theorem reserve_chgZ (s : State) (k k' : Key) : Chg (hasKey k) uidZero s (reserve s k k' {}).1 :=
  (reserve_chg s k k' {}).mono (fun _ h => h) (hasKeyUid_uidZero k')

theorem unbindOther_coherent (s : State) (k : Key) (policy : Nat) (h : Coherent s) :
    Coherent (unbindOther s k policy).1 := by
  unfold unbindOther
  split
  · exact releaseIP_coherent s k h
  · split
    · exact reserve_coherent s k k {} h
    · split
      · split
        · exact h
        · split
          · exact releaseIP_coherent s k h
          · split
            · exact h
            · split
              · exact releaseIP_coherent s k h
              · exact reserve_coherent s k k {} h
      · exact h

theorem unbindOther_chg (s : State) (k : Key) (policy : Nat) : Chg (hasKey k) uidZero s (unbindOther s k policy).1 := by
  unfold unbindOther
  split
  · exact releaseIP_chgZ s k
  · split
    · exact reserve_chgZ s k k
    · split
      · split
        · exact Chg.refl _ _ s
        · split
          · exact releaseIP_chgZ s k
          · split
            · exact Chg.refl _ _ s
            · split
              · exact releaseIP_chgZ s k
              · exact reserve_chgZ s k k
      · exact Chg.refl _ _ s

theorem unbindOther_plog (s : State) (k : Key) (policy : Nat) : (unbindOther s k policy).1.plog = s.plog := by
  unfold unbindOther
  split
  · exact releaseIP_plog s k
  · split
    · exact reserve_plog s k k {}
    · split
      · split
        · rfl
        · split
          · exact releaseIP_plog s k
          · split
            · rfl
            · split
              · exact releaseIP_plog s k
              · exact reserve_plog s k k {}
      · rfl

theorem unbindDp_coherent (s : State) (k : Key) (policy : Nat) (h : Coherent s) :
    Coherent (unbindDp s k policy).1 := by
  unfold unbindDp
  dsimp only
  split
  · exact releaseIP_coherent s k h
  · split
    · split
      · exact reserve_coherent s k _ {} h
      · exact h
    · split
      · exact releaseIP_coherent s k h
      · split
        · exact releaseIP_coherent s k h
        · split
          · exact reserve_coherent s k _ {} h
          · exact h

theorem unbindDp_chg (s : State) (k : Key) (policy : Nat) : Chg (hasKey k) uidZero s (unbindDp s k policy).1 := by
  unfold unbindDp
  dsimp only
  split
  · exact releaseIP_chgZ s k
  · split
    · split
      · exact reserve_chgZ s k _
      · exact Chg.refl _ _ s
    · split
      · exact releaseIP_chgZ s k
      · split
        · exact releaseIP_chgZ s k
        · split
          · exact reserve_chgZ s k _
          · exact Chg.refl _ _ s

theorem unbindDp_plog (s : State) (k : Key) (policy : Nat) : (unbindDp s k policy).1.plog = s.plog := by
  unfold unbindDp
  dsimp only
  split
  · exact releaseIP_plog s k
  · split
    · split
      · exact reserve_plog s k _ {}
      · rfl
    · split
      · exact releaseIP_plog s k
      · split
        · exact releaseIP_plog s k
        · split
          · exact reserve_plog s k _ {}
          · rfl

end Galaxy.Plugin
