/-
  M4-core proofs, part 4: the loops of the IPAM (ReserveIP, ReleaseIPs, multi-range allocation, ConfigurePool).
-/
import Galaxy.Lemmas.PluginIpam

namespace Galaxy.Plugin
open Galaxy

theorem frame_setAlloc (s : State) (t : Tbl IP Rec) : Frame s { s with alloc := t } :=
  ⟨rfl, rfl, rfl, rfl, rfl, rfl, rfl, rfl, rfl, rfl, rfl, rfl, rfl, rfl, Nat.le_refl _, rfl⟩

theorem reserveLoop_coherent (oldK newK : Key) (a : Attr) (ips : List IP) :
    ∀ s, Coherent s → Coherent (reserveLoop s oldK newK a ips).1 := by
  induction ips with
  | nil => intro s h; exact h
  | cons ip t ih =>
    intro s h
    unfold reserveLoop
    split
    · exact ih s h
    · rename_i r hr
      dsimp only
      split
      · exact ih s h
      · split
        · exact ih s h
        · have st := stUpdate_step s ip (r.assign newK { a with policy := r.policy } s.clock)
          have ss := stUpdate_store s ip (r.assign newK { a with policy := r.policy } s.clock)
          split
          · rename_i hc
            have hc' : (stUpdate s ip (r.assign newK { a with policy := r.policy } s.clock)).2 = false := by simpa using hc
            exact coherent_of_eq h st.frame.pools st.alloc (ss.2 hc') st.free
          · rename_i hc
            have hc' : (stUpdate s ip (r.assign newK { a with policy := r.policy } s.clock)).2 = true := by simpa using hc
            apply ih
            exact coherent_set ip r (r.assign newK { a with policy := r.policy } s.clock) h hr
              (by simp [st.frame.pools]) (by simp [st.alloc]) (by simp [ss.1 hc']) (by simp [st.free])

theorem reserveLoop_chg (oldK newK : Key) (a : Attr) (ips : List IP) :
    ∀ s, Chg (hasKey oldK) (hasKeyUid newK a.uid) s (reserveLoop s oldK newK a ips).1 := by
  induction ips with
  | nil => intro s; exact Chg.refl _ _ s
  | cons ip t ih =>
    intro s
    unfold reserveLoop
    split
    · exact ih s
    · rename_i r hr
      dsimp only
      split
      · exact ih s
      · rename_i hk
        have hk' : r.key = oldK := by simpa using hk
        split
        · exact ih s
        · have st := stUpdate_step s ip (r.assign newK { a with policy := r.policy } s.clock)
          split
          · exact Chg.of_alloc_eq st.frame st.alloc
          · refine Chg.trans ?_ (ih _)
            exact Chg.single ip s.alloc (st.frame.trans (frame_setAlloc _ _)) (fun j hj => by simp [st.alloc, hj])
              ⟨r, hr, hk'⟩ ⟨r.assign newK { a with policy := r.policy } s.clock, by simp [st.alloc], rfl, rfl⟩

theorem reserve_coherent (s : State) (oldK newK : Key) (a : Attr) (h : Coherent s) :
    Coherent (reserve s oldK newK a).1 := reserveLoop_coherent oldK newK a _ s h

theorem reserve_chg (s : State) (oldK newK : Key) (a : Attr) :
    Chg (hasKey oldK) (hasKeyUid newK a.uid) s (reserve s oldK newK a).1 := reserveLoop_chg oldK newK a _ s

theorem releaseIPsLoop_coherent (key : Key) (ips : List IP) :
    ∀ s, Coherent s → Coherent (releaseIPsLoop s key ips).1 := by
  induction ips with
  | nil => intro s h; exact h
  | cons ip t ih =>
    intro s h
    unfold releaseIPsLoop
    split
    · exact ih s h
    · rename_i r hr
      dsimp only
      split
      · exact ih s h
      · have st := stDelete_step s ip
        have ss := stDelete_store s ip
        split
        · rename_i hc
          have hc' : (stDelete s ip).2 = false := by simpa using hc
          exact coherent_of_eq h st.frame.pools st.alloc (ss.2 hc') st.free
        · rename_i hc
          have hc' : (stDelete s ip).2 = true := by simpa using hc
          apply ih
          exact coherent_erase ip r h hr (by simp [st.frame.pools]) (by simp [st.alloc]) (by simp [ss.1 hc'])
            (by simp [st.free])

theorem releaseIPsLoop_chg (key : Key) (ips : List IP) :
    ∀ s, Chg (hasKey key) isFree s (releaseIPsLoop s key ips).1 := by
  induction ips with
  | nil => intro s; exact Chg.refl _ _ s
  | cons ip t ih =>
    intro s
    unfold releaseIPsLoop
    split
    · exact ih s
    · rename_i r hr
      dsimp only
      split
      · exact ih s
      · rename_i hk
        have hk' : r.key = key := by simpa using hk
        have st := stDelete_step s ip
        split
        · exact Chg.of_alloc_eq st.frame st.alloc
        · refine Chg.trans ?_ (ih _)
          exact Chg.single ip s.alloc (st.frame.trans (memFree_frame _ _)) (fun j hj => by simp [st.alloc, hj])
            ⟨r, hr, hk'⟩ (by simp [isFree, st.alloc])

theorem releaseIP_coherent (s : State) (key : Key) (h : Coherent s) : Coherent (releaseIP s key).1 :=
  releaseIPsLoop_coherent key _ s h

theorem releaseIP_chg (s : State) (key : Key) : Chg (hasKey key) isFree s (releaseIP s key).1 :=
  releaseIPsLoop_chg key _ s

end Galaxy.Plugin
