/-
  M4-core proofs, part 17: the documented-policy clause of the crash theorem (C05 second sentence, "no leaked IP").
  Imports c03c02's resync analysis (Lemmas/C03Resync.lean: `quiescent_core`); kept apart from PluginCrash.lean so that
  the latter does not depend on another work package.
-/
import Galaxy.Lemmas.PluginCrash
import Galaxy.Lemmas.C03Resync

namespace Galaxy.Plugin
open Galaxy Galaxy.Plugin.C03

/-- (iii) of the crash theorem: after crash + restart + one fault-free resync pass (admissible order), every record that
    still names a pod which does not exist or has finished is one the documented policy keeps when evaluated with the
    record's STORED policy, or its stored policy is `never` - exactly Props/C03 `quiescent_no_orphan`, now for the state
    after a crash at any point of any move.  (The pending delete / finish events were lost in the crash: nothing is
    assumed about them.) -/
theorem crash_restart_resync_no_orphan (c : Conf) (ms : List Move) (hok : allAssumed facts (init c) ms = true)
    (m : Move) (hm : assumed (run facts (init c) ms) m = true) (k j : Nat) (order : List IP)
    (hadm : (step facts (crashAt facts k j (run facts (init c) ms) m) (.resync order 0 0)).2.res = .ok) :
    ∀ ip r, Tbl.get (step facts (crashAt facts k j (run facts (init c) ms) m) (.resync order 0 0)).1.alloc ip = some r →
      namesPod r.key → podGone (crashAt facts k j (run facts (init c) ms) m) r.key →
      docKeeps (dinOf CRs.none (step facts (crashAt facts k j (run facts (init c) ms) m) (.resync order 0 0)).1 r.key r.policy) = true ∨
        r.policy = 2 := by
  have hf : facts = Facts.good := by decide
  rw [hf] at hok hm hadm ⊢
  have h1 := inv_crashAt _ m k j (inv_run ms _ (inv_init c) hok) hm
  have hs := crashAt_synced Facts.good (run Facts.good (init c) ms) m k j
  intro ip r hg hn hgone
  exact quiescent_core (withFaults (crashAt Facts.good k j (run Facts.good (init c) ms) m) 0 0) order
    (inv_withFaults _ 0 0 h1).coh rfl rfl hs.1 hadm ip r hg hn hgone

end Galaxy.Plugin
