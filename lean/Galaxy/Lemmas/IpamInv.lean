/-
  The history-level invariant `Inv` (MemOK + PInv): what holds for addresses WITH pending watch events.
  Part 1: local transitions of one address, new events of one address, the central lemma `pat_local`.
-/
import Galaxy.Lemmas.IpamC08

namespace Galaxy.Ipam
open Tbl

/-! ## shapes of pending-event lists -/

theorem lastIsU_append_allU {l N : List Event} (hN : N ≠ []) (hU : ∀ x ∈ N, x.assign = false) : lastIsU (l ++ N) = true := by
  unfold lastIsU
  have h1 : (l ++ N).getLast? = N.getLast? := by
    rw [List.getLast?_append]
    cases hg : N.getLast? with
    | none => exact absurd (List.getLast?_eq_none_iff.mp hg) hN
    | some x => simp
  rw [h1]
  cases hg : N.getLast? with
  | none => exact absurd (List.getLast?_eq_none_iff.mp hg) hN
  | some x => simp [hU x (List.mem_of_getLast? hg)]

theorem lastIsU_allA {l : List Event} (h : ∀ x ∈ l, x.assign = true) : lastIsU l = false := by
  unfold lastIsU
  cases hg : l.getLast? with
  | none => rfl
  | some x => simp [h x (List.mem_of_getLast? hg)]

theorem lastIsU_cons_cons (e e' : Event) (t : List Event) : lastIsU (e :: e' :: t) = lastIsU (e' :: t) := by
  unfold lastIsU
  simp [List.getLast?_cons_cons]

/-! ## one address: what a mutator can do to (cache entry, store entry) -/

def coreEq (a b : Rec) : Prop := a.key = b.key ∧ a.policy = b.policy ∧ a.node = b.node ∧ a.uid = b.uid

/-- unchanged / created (store had nothing; both get the same ordinary record) / updated (labels kept, same new owner) -/
inductive Loc (a st a' st' : Option Rec) : Prop
  | id : a' = a → st' = st → Loc a st a' st'
  | create (r : Rec) : st = none → a' = some r → st' = some r → r.reserved = false → Loc a st a' st'
  | update (r r0 r' r0' : Rec) : a = some r → st = some r0 → a' = some r' → st' = some r0' →
      r'.reserved = r.reserved → r0'.reserved = r0.reserved → coreEq r' r0' → Loc a st a' st'

/-- … or deleted -/
inductive LocD (a st a' st' : Option Rec) : Prop
  | loc : Loc a st a' st' → LocD a st a' st'
  | delete (r r0 : Rec) : a = some r → st = some r0 → a' = none → st' = none → LocD a st a' st'

/-- the watch events a change st ↦ st' of one address' store entry causes -/
structure NewEv (ip : IP) (st st' : Option Rec) (N : List Event) : Prop where
  dels : ∀ x ∈ N, x.assign = false → (∃ r0, st = some r0 ∧ r0.reserved = true) ∧ st' = none
  adds : ∀ x ∈ N, x.assign = true → ∃ r, st' = some r ∧ r.reserved = true ∧ st = none ∧ x = addEvent ip r
  hasDel : ∀ r0, st = some r0 → r0.reserved = true → st' = none → ∃ x ∈ N, x.assign = false
  hasAdd : ∀ r, st' = some r → r.reserved = true → st = none → ∃ x ∈ N, x.assign = true

theorem newEv_storeEvents (before after : Store) (ip : IP) :
    NewEv ip (before.get ip) (after.get ip) ((storeEvents before after).filter (fun e => e.ip == ip)) := by
  constructor
  · intro x hx ha
    simp only [List.mem_filter, beq_iff_eq] at hx
    obtain ⟨r, h1, h2, h3⟩ := storeEvents_del hx.1 ha
    rw [hx.2] at h1 h3
    exact ⟨⟨r, h1, h2⟩, h3⟩
  · intro x hx ha
    simp only [List.mem_filter, beq_iff_eq] at hx
    obtain ⟨r, h1, h2, h3, h4⟩ := storeEvents_add hx.1 ha
    rw [hx.2] at h1 h3 h4
    exact ⟨r, h1, h2, h3, h4⟩
  · intro r0 h1 h2 h3
    exact ⟨delEvent ip r0, List.mem_filter.mpr ⟨storeEvents_vanish h1 h3 h2, by simp [delEvent]⟩, rfl⟩
  · intro r h1 h2 h3
    exact ⟨addEvent ip r, List.mem_filter.mpr ⟨storeEvents_appear h3 h1 h2, by simp [addEvent]⟩, rfl⟩

theorem NewEv.nil_of {ip : IP} {st st' : Option Rec} {N : List Event} (h : NewEv ip st st' N)
    (hnd : ¬ ((∃ r0, st = some r0 ∧ r0.reserved = true) ∧ st' = none))
    (hna : ¬ (∃ r, st' = some r ∧ r.reserved = true ∧ st = none)) : N = [] := by
  apply List.eq_nil_iff_forall_not_mem.mpr
  intro x hx
  cases hxa : x.assign with
  | false => exact hnd (h.dels x hx hxa)
  | true =>
    obtain ⟨r, h1, h2, h3, _⟩ := h.adds x hx hxa
    exact hna ⟨r, h1, h2, h3⟩

theorem NewEv.allU_of {ip : IP} {st st' : Option Rec} {N : List Event} (h : NewEv ip st st' N) {r0 : Rec}
    (h1 : st = some r0) (h2 : r0.reserved = true) (h3 : st' = none) : N ≠ [] ∧ ∀ x ∈ N, x.assign = false := by
  obtain ⟨x, hx, _⟩ := h.hasDel r0 h1 h2 h3
  refine ⟨fun hn => (by rw [hn] at hx; cases hx), ?_⟩
  intro y hy
  cases hya : y.assign with
  | false => rfl
  | true =>
    obtain ⟨r, k1, _⟩ := h.adds y hy hya
    rw [h3] at k1; cases k1

theorem NewEv.allA_of {ip : IP} {st st' : Option Rec} {N : List Event} (h : NewEv ip st st' N) {r : Rec}
    (h1 : st' = some r) (h2 : r.reserved = true) (h3 : st = none) : N ≠ [] ∧ ∀ x ∈ N, x = addEvent ip r := by
  obtain ⟨x, hx, _⟩ := h.hasAdd r h1 h2 h3
  refine ⟨fun hn => (by rw [hn] at hx; cases hx), ?_⟩
  intro y hy
  cases hya : y.assign with
  | false =>
    obtain ⟨⟨r0, k1, _⟩, _⟩ := h.dels y hy hya
    rw [h3] at k1; cases k1
  | true =>
    obtain ⟨r', k1, _, _, k4⟩ := h.adds y hy hya
    rw [h1] at k1
    cases k1
    exact k4

/-! ## the central lemma: one local transition + its events preserve the per-address invariant -/

theorem optEq_of_core {r r0 r' r0' : Rec} (h : optEq (some r) (some r0)) (h1 : r'.reserved = r.reserved)
    (h2 : r0'.reserved = r0.reserved) (hc : coreEq r' r0') : optEq (some r') (some r0') := by
  simp only [optEq, recEq] at h ⊢
  exact ⟨hc.1, hc.2.1, hc.2.2.1, hc.2.2.2, by rw [h1, h2]; exact h.2.2.2.2⟩

theorem pat_nil {c : Bool} {a st : Option Rec} : PAt c [] a st ↔ (c = true → optEq a st) := by
  simp [PAt]

theorem pat_lastU {c : Bool} {l : List Event} {a st : Option Rec} (hl : l ≠ []) (hu : lastIsU l = true) :
    PAt c l a st ↔ ((∀ r0, st = some r0 → r0.reserved = false) ∧ (c = true → SU a st)) := by
  simp [PAt, hl, hu]

theorem pat_addShape {c : Bool} {l : List Event} {a st : Option Rec} (hl : l ≠ []) (hu : lastIsU l = false) :
    PAt c l a st ↔ ∃ e r0, (∀ x ∈ l, x = e) ∧ st = some r0 ∧ r0.reserved = true ∧
        (c = true → (a = none ∧ recEq (eventRec e 0) r0) ∨ optEq a st) := by
  simp [PAt, hl, hu]

/-- after a delete the invariant holds with the delete events appended -/
theorem pat_gone {c : Bool} {l N : List Event} (hN : N ≠ []) (hU : ∀ x ∈ N, x.assign = false) :
    PAt c (l ++ N) none none := by
  have hne : l ++ N ≠ [] := by simp [hN]
  rw [pat_lastU hne (lastIsU_append_allU hN hU)]
  exact ⟨fun r0 h => (by cases h), fun _ => Or.inl ⟨rfl, fun r h => (by cases h)⟩⟩

theorem pat_local {ip : IP} {c : Bool} {l N : List Event} {a st a' st' : Option Rec} (h : PAt c l a st)
    (hloc : LocD a st a' st') (hN : NewEv ip st st' N) : PAt c (l ++ N) a' st' := by
  cases hloc with
  | loc hl =>
    cases hl with
    | id h1 h2 =>
      subst h1; subst h2
      have : N = [] := hN.nil_of
        (by rintro ⟨⟨r0, k1, _⟩, k3⟩; rw [k3] at k1; cases k1)
        (by rintro ⟨r, k1, _, k3⟩; rw [k3] at k1; cases k1)
      rw [this, List.append_nil]; exact h
    | create r h1 h2 h3 h4 =>
      subst h1; subst h2; subst h3
      have : N = [] := hN.nil_of (by rintro ⟨_, k3⟩; cases k3)
        (by rintro ⟨r', k1, k2, _⟩; cases k1; rw [h4] at k2; cases k2)
      rw [this, List.append_nil]
      by_cases hl : l = []
      · subst hl; rw [pat_nil]; exact fun _ => optEq_refl _
      · by_cases hu : lastIsU l = true
        · rw [pat_lastU hl hu]
          refine ⟨fun r0 k => (by cases k; exact h4), fun _ => Or.inr ⟨optEq_refl _, fun r' k => (by cases k; exact h4)⟩⟩
        · have hu' : lastIsU l = false := by simpa using hu
          rw [pat_addShape hl hu'] at h
          obtain ⟨_, _, _, k, _⟩ := h
          cases k
    | update r r0 r' r0' h1 h2 h3 h4 h5 h6 h7 =>
      subst h1; subst h2; subst h3; subst h4
      have : N = [] := hN.nil_of (by rintro ⟨_, k3⟩; cases k3) (by rintro ⟨_, _, _, k3⟩; cases k3)
      rw [this, List.append_nil]
      by_cases hl : l = []
      · subst hl; rw [pat_nil] at h ⊢
        exact fun hc => optEq_of_core (h hc) h5 h6 h7
      · by_cases hu : lastIsU l = true
        · rw [pat_lastU hl hu] at h ⊢
          refine ⟨fun x k => (by cases k; rw [h6]; exact h.1 r0 rfl), fun hc => ?_⟩
          rcases h.2 hc with ⟨k, _⟩ | ⟨k1, k2⟩
          · cases k
          · exact Or.inr ⟨optEq_of_core k1 h5 h6 h7, fun x k => (by cases k; rw [h5]; exact k2 r rfl)⟩
        · have hu' : lastIsU l = false := by simpa using hu
          rw [pat_addShape hl hu'] at h ⊢
          obtain ⟨e, x0, k1, k2, k3, k4⟩ := h
          cases k2
          refine ⟨e, r0', k1, rfl, by rw [h6]; exact k3, fun hc => ?_⟩
          rcases k4 hc with ⟨k, _⟩ | k
          · cases k
          · exact Or.inr (optEq_of_core k h5 h6 h7)
  | delete r r0 h1 h2 h3 h4 =>
    subst h1; subst h2; subst h3; subst h4
    by_cases hr : r0.reserved = true
    · obtain ⟨k1, k2⟩ := hN.allU_of rfl hr rfl
      exact pat_gone k1 k2
    · have : N = [] := hN.nil_of (by rintro ⟨⟨x, k1, k2⟩, _⟩; cases k1; exact hr k2) (by rintro ⟨_, k1, _⟩; cases k1)
      rw [this, List.append_nil]
      by_cases hl : l = []
      · subst hl; rw [pat_nil]; exact fun _ => trivial
      · by_cases hu : lastIsU l = true
        · rw [pat_lastU hl hu]
          exact ⟨fun x k => (by cases k), fun _ => Or.inl ⟨rfl, fun x k => (by cases k)⟩⟩
        · have hu' : lastIsU l = false := by simpa using hu
          rw [pat_addShape hl hu'] at h
          obtain ⟨_, x0, _, k2, k3, _⟩ := h
          cases k2
          exact absurd k3 hr

end Galaxy.Ipam
