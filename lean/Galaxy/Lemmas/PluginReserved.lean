/-
  M4-core proofs, part 17: the pod-level clause of C09.  An address an administrator has reserved (a labelled FloatingIP
  object created by hand), or one that is absent from the current configuration, never appears in the binding
  annotation of a live pod; and a reservation stays in force - in memory and in the store, record unchanged - whatever
  the plugin does (Filter, preempt, Bind, delete events, resync in any order and split in any way, Release requests,
  pod-IP sync, injected faults), until the administrator withdraws it or a reload drops the address.

  `State.admin` is the ground truth "the administrator has reserved this address": `admin_step` shows that only the two
  administrator moves and a (re)configuration change it; the plugin's own code never reads or writes it.
  (The window between the creation of the labelled object and the arrival of its watch event is the IPAM-level model's
  subject - Props/C09 on M3; here the object and its event are one move.)
-/
import Galaxy.Lemmas.PluginCrash

namespace Galaxy.Plugin
open Galaxy

theorem getSubnet_admin (s : State) (pod : Pod) (ch : Choice) (hc : Coherent s) : (getSubnet s pod ch).1.admin = s.admin := by
  rcases getSubnet_state s pod ch with e | ⟨resv, n, e⟩
  · rw [e]
  · rw [e]; exact (allocateDuringFilter_chg s (keyOf pod) resv n _ ch.pick hc).frame.admin

theorem filter_admin (s : State) (ns name : String) (nodes : List String) (ch : Choice) (hc : Coherent s) :
    (filter s ns name nodes ch).1.admin = s.admin := by
  unfold filter
  split
  · rfl
  · rename_i pod _
    split
    · rfl
    · dsimp only
      have key := getSubnet_admin s pod ch hc
      split
      · rfl
      · exact key
      · rename_i set _
        exact ((filterNodes_quiet set nodes [] (getSubnet s pod ch).1).1.frame.admin).trans key

theorem preempt_admin (s : State) (ns name : String) (nodes : List String) (ch : Choice) (hc : Coherent s) :
    (preempt s ns name nodes ch).1.admin = s.admin := by
  unfold preempt
  split
  · rfl
  · rename_i pod _
    split
    · rfl
    · have key := getSubnet_admin s pod ch hc
      split
      · rfl
      · exact key
      · rename_i set _
        exact ((filterNodes_quiet set nodes [] (getSubnet s pod ch).1).1.frame.admin).trans key

/-- regenerated from resync.go: `fetchChecklist` skips a record whose key has no pod name before it enters the
    checklist - the model's `inChecklist` (an administrator's reservation key has no pod name: `inChecklist_not_admin`) -/
theorem fact_resync_examines_pod_keys_only : Generated.Plugin.resyncSkipsKeysWithoutPodName = true := by decide

/-- the moves that may change the set of reservations: the administrator's two, and a (re)configuration -/
def Move.touchesAdmin : Move → Bool
  | .adminReserve .. | .adminUnreserve .. | .reload .. | .restart => true
  | _ => false

/-- no other move changes the reservations -/
theorem admin_step (s : State) (m : Move) (h : Inv s) (ha : assumed s m = true) (hm : m.touchesAdmin = false) :
    (step Facts.good s m).1.admin = s.admin := by
  have h0 : ∀ f pf, Inv (withFaults s f pf) := fun f pf => inv_withFaults s f pf h
  cases m with
  | createPod ns name kind app pool policy ranges wants => simp only [step]; split <;> rfl
  | deletePod ns name => simp only [step]; split <;> rfl
  | finishPod ns name =>
    simp only [step]; split
    · rfl
    · split <;> rfl
  | runPod ns name =>
    simp only [step]; split
    · rfl
    · split <;> rfl
  | markTerminating ns name fault => exact (markTerminating_spec s ns name fault h).2.2
  | scale kind ns app n => rfl
  | deleteApp kind ns app => rfl
  | setPool name size => simp only [step]; cases size <;> rfl
  | listerSync pods apps => simp only [step]; split <;> split <;> rfl
  | fipSync => rfl
  | dropEvent i => simp only [step]; split <;> rfl
  | filter ns name nodes ch fault => exact filter_admin _ ns name nodes ch (h0 fault 0).coh
  | preempt ns name nodes ch fault => exact preempt_admin _ ns name nodes ch (h0 fault 0).coh
  | bind ns name uid node ch f pf =>
    exact (bind_spec (withFaults s f pf) ns name uid node ch (h0 f pf) (assumed_bind ha)).2.2.2
  | deliver i f pf => exact (deliver_spec _ i (h0 f pf)).2.1.2
  | resync order f pf => exact (resync_spec _ order (h0 f pf)).2.1.2
  | resyncSnap => rfl
  | resyncRec ip f pf =>
    simp only [step]
    split
    · rfl
    · rename_i r0 _
      split
      · rfl
      · rename_i hin
        have hin' : inChecklist r0 = true := by simpa using hin
        exact (resyncOne_spec _ ip r0 (h0 f pf) (inChecklist_not_admin r0 hin')).2.1.admin
  | syncPodIPs f => exact (syncPodIPs_spec _ (h0 f 0)).2.1.2
  | apiRelease ip k f pf => exact (apiRelease_spec _ ip k (h0 f pf) (assumed_apiRelease ha)).2.1.2
  | adminReserve ip text policy => cases hm
  | adminUnreserve ip => cases hm
  | reload pools fault => cases hm
  | restart => cases hm

theorem admin_next (s : State) (m : Move) (h : Inv s) (ha : assumed s m = true) (hm : m.touchesAdmin = false) :
    (next Facts.good s m).admin = s.admin := by
  unfold next
  dsimp only
  split
  · rfl
  · exact admin_step s m h ha hm

/-- a reservation in force: the address is allocated - memory and store - to the reservation's record, which carries
    the administrator's key (no pod's key) -/
theorem inv_reservation_kept {s : State} (h : Inv s) (ip : IP) (r : Rec) (hr : Tbl.get s.admin ip = some r) :
    Tbl.get s.alloc ip = some r ∧ Tbl.get s.store ip = some r ∧ r.key.isAdmin = true ∧ ip ∉ s.free := by
  obtain ⟨h1, h2⟩ := h.safe.admin ip r hr
  refine ⟨h1, by rw [h.coh.agree]; exact h1, h2, fun hf => ?_⟩
  have := h.coh.disjoint ip hf
  rw [h1] at this; cases this

theorem inv_reserved_not_handed {s : State} (h : Inv s) (q : Pod) (hq : LiveBound s.pods q) (hd : HInfo)
    (hm : hd ∈ q.handed) : Tbl.get s.admin hd.ip = none := by
  cases hg : Tbl.get s.admin hd.ip with
  | none => rfl
  | some r =>
    exfalso
    obtain ⟨h1, h2⟩ := h.safe.admin hd.ip r hg
    obtain ⟨r', g1, g2, _⟩ := h.safe.own q hq hd hm
    rw [h1] at g1; cases g1
    rw [g2, keyOf_not_admin] at h2; cases h2

/-- C09, pod-level clause (1): after every history within the property's scope, no address in the binding annotation of
    a live pod is one an administrator has reserved. -/
theorem reserved_never_in_annotation (c : Conf) (ms : List Move) (hok : allAssumed facts (init c) ms = true)
    (q : Pod) (hq : LiveBound (run facts (init c) ms).pods q) (hd : HInfo) (hm : hd ∈ q.handed) :
    Tbl.get (run facts (init c) ms).admin hd.ip = none := by
  have hf : facts = Facts.good := by decide
  rw [hf] at hok hq ⊢
  exact inv_reserved_not_handed (inv_run ms _ (inv_init c) hok) q hq hd hm

/-- C09, pod-level clause (2): ... nor one that is absent from the current configuration. -/
theorem unconfigured_never_in_annotation (c : Conf) (ms : List Move) (hok : allAssumed facts (init c) ms = true)
    (q : Pod) (hq : LiveBound (run facts (init c) ms).pods q) (hd : HInfo) (hm : hd ∈ q.handed) :
    configured (run facts (init c) ms).pools hd.ip = true := by
  have hf : facts = Facts.good := by decide
  rw [hf] at hok hq ⊢
  have h := inv_run ms _ (inv_init c) hok
  obtain ⟨r, g1, _, _⟩ := h.safe.own q hq hd hm
  exact h.coh.allocConf _ r g1

/-- a reservation stays in force: its record is in memory and in the store, unchanged, after every history -/
theorem reservation_kept (c : Conf) (ms : List Move) (hok : allAssumed facts (init c) ms = true) (ip : IP) (r : Rec)
    (hr : Tbl.get (run facts (init c) ms).admin ip = some r) :
    Tbl.get (run facts (init c) ms).alloc ip = some r ∧ Tbl.get (run facts (init c) ms).store ip = some r ∧
      r.key.isAdmin = true ∧ ip ∉ (run facts (init c) ms).free := by
  have hf : facts = Facts.good := by decide
  rw [hf] at hok hr ⊢
  exact inv_reservation_kept (inv_run ms _ (inv_init c) hok) ip r hr

/-- ... and only the administrator or a (re)configuration ends it: every other move, whatever its arguments, choices and
    faults, leaves the set of reservations as it was -/
theorem reservation_outlives_plugin_moves (c : Conf) (ms : List Move) (hok : allAssumed facts (init c) ms = true)
    (m : Move) (ha : assumed (run facts (init c) ms) m = true) (hm : m.touchesAdmin = false) :
    (next facts (run facts (init c) ms) m).admin = (run facts (init c) ms).admin := by
  have hf : facts = Facts.good := by decide
  rw [hf] at hok ha ⊢
  exact admin_next _ m (inv_run ms _ (inv_init c) hok) ha hm

/-- a crash at any point of any move, the restart and a resync pass keep the reservations in force too -/
theorem crash_keeps_reservations (c : Conf) (ms : List Move) (hok : allAssumed facts (init c) ms = true)
    (m : Move) (hm : assumed (run facts (init c) ms) m = true) (k j : Nat) (order : List IP) (ip : IP) (r : Rec)
    (hr : Tbl.get (step facts (crashAt facts k j (run facts (init c) ms) m) (.resync order 0 0)).1.admin ip = some r) :
    Tbl.get (step facts (crashAt facts k j (run facts (init c) ms) m) (.resync order 0 0)).1.alloc ip = some r ∧
    Tbl.get (step facts (crashAt facts k j (run facts (init c) ms) m) (.resync order 0 0)).1.store ip = some r := by
  have hf : facts = Facts.good := by decide
  rw [hf] at hok hm hr ⊢
  have h0 := inv_run ms _ (inv_init c) hok
  have h1 := inv_crashAt _ m k j h0 hm
  have h2 := inv_step _ (.resync order 0 0) h1 rfl
  have := inv_reservation_kept h2 ip r hr
  exact ⟨this.1, this.2.1⟩

/-! ### the statements are not vacuous -/

def resvPool : Pool :=
  { nodeSubnets := [⟨168362240, 24⟩], ranges := [(168427522, 168427523)], gateway := 168427521, bits := 24, vlan := 0 }
def resvConf : Conf := { pools := [resvPool], nodes := [("n1", 168362245)], provider := true }

/-- the administrator reserves .2; a pod is created, filtered and bound: it gets .3; resync, a Release request for the
    reserved address under a pod's key and a restart follow -/
def resvHistory : List Move := [
  .adminReserve 168427522 "reserved-for-node" 2,
  .scale .sts "ns1" "a" 1,
  .createPod "ns1" "a-0" .sts "a" "" 0 [] true,
  .listerSync true true,
  .filter "ns1" "a-0" ["n1"] {} 0,
  .bind "ns1" "a-0" 1 "n1" { pick := some 168427523 } 0 0,
  .resync [168427523] 0 0,
  .apiRelease 168427522 (mkKey "sts_" "ns1" "a" "a-0" "") 0 0,
  .restart]

set_option maxRecDepth 100000 in
/-- the history is within scope, the reservation is in force at its end, and a live pod holds the other address (so
    the premises of the theorems above are satisfiable and their conclusions say something) -/
theorem reserved_example :
    allAssumed facts (init resvConf) resvHistory = true ∧
    ((run facts (init resvConf) resvHistory).admin.get 168427522).isSome = true ∧
    ((run facts (init resvConf) resvHistory).alloc.get 168427522).map (·.key) = some (adminKey "reserved-for-node") ∧
    ((run facts (init resvConf) resvHistory).pods.get ("ns1", "a-0")).map (·.ips) = some [168427523] := by decide

set_option maxRecDepth 100000 in
/-- with both addresses reserved a Bind finds nothing ("not-enough-ip"); once the administrator withdraws one
    reservation that address is allocatable again (the reservation, not something else, kept it away from pods) -/
theorem unreserved_example :
    ((run facts (init resvConf) [.adminReserve 168427522 "x" 2, .adminReserve 168427523 "y" 2,
      .createPod "ns1" "a-0" .sts "a" "" 0 [] true, .listerSync true true,
      .bind "ns1" "a-0" 1 "n1" { pick := some 168427522 } 0 0]).pods.get ("ns1", "a-0")).map (·.ips) = some [] ∧
    ((run facts (init resvConf) [.adminReserve 168427522 "x" 2, .adminReserve 168427523 "y" 2,
      .createPod "ns1" "a-0" .sts "a" "" 0 [] true, .listerSync true true,
      .bind "ns1" "a-0" 1 "n1" { pick := some 168427522 } 0 0, .adminUnreserve 168427522,
      .bind "ns1" "a-0" 1 "n1" { pick := some 168427522 } 0 0]).pods.get ("ns1", "a-0")).map (·.ips)
      = some [168427522] := by decide

end Galaxy.Plugin
