/-
  C07 proofs, part 2: the moves of the core model that can NOT raise a pool's member count (`Quiet7`): API truth,
  lister syncs, event delivery (unbind), resync, API release, and a bind that does not allocate for a pool pod.
  Each also keeps the configuration and the coherence of the IPAM tables (needed by the count argument of Filter).
-/
import Galaxy.Lemmas.C07Count
import Galaxy.Lemmas.PluginResync
import Galaxy.Lemmas.PluginBind

namespace Galaxy.PluginC07
open Galaxy Galaxy.Plugin

/-- a state change that keeps the configuration, keeps the IPAM tables coherent and raises no pool's count -/
structure Quiet7 (s s' : State) : Prop where
  pools : s'.pools = s.pools
  coh : Coherent s → Coherent s'
  cnt : ∀ P, P ≠ "" → cntp (mP P) s'.alloc ≤ cntp (mP P) s.alloc

theorem Quiet7.refl (s : State) : Quiet7 s s := ⟨rfl, fun h => h, fun _ _ => Nat.le_refl _⟩

theorem Quiet7.trans {a b c : State} (h1 : Quiet7 a b) (h2 : Quiet7 b c) : Quiet7 a c :=
  ⟨h2.pools.trans h1.pools, fun h => h2.coh (h1.coh h), fun P hP => Nat.le_trans (h2.cnt P hP) (h1.cnt P hP)⟩

theorem Quiet7.of_eq {s s' : State} (hp : s'.pools = s.pools) (ha : s'.alloc = s.alloc) (hs : s'.store = s.store)
    (hf : s'.free = s.free) : Quiet7 s s' :=
  ⟨hp, fun h => coherent_of_eq h hp ha hs hf, fun _ _ => by rw [ha]; exact Nat.le_refl _⟩

theorem Quiet7.of_quiet {s s' : State} (q : QuietStep s s') : Quiet7 s s' :=
  Quiet7.of_eq q.frame.pools q.alloc q.store q.free

theorem withFaults_q (s : State) (f pf : Nat) : Quiet7 s (withFaults s f pf) := Quiet7.of_eq rfl rfl rfl rfl

/-- `Quiet7` for the pools that satisfy `S` only -/
structure Quiet7On (S : String → Prop) (s s' : State) : Prop where
  pools : s'.pools = s.pools
  coh : Coherent s → Coherent s'
  cnt : ∀ P, P ≠ "" → S P → cntp (mP P) s'.alloc ≤ cntp (mP P) s.alloc

theorem Quiet7.on {s s' : State} (q : Quiet7 s s') (S : String → Prop) : Quiet7On S s s' :=
  ⟨q.pools, q.coh, fun P hP _ => q.cnt P hP⟩

theorem Quiet7On.trans {S : String → Prop} {a b c : State} (h1 : Quiet7On S a b) (h2 : Quiet7On S b c) : Quiet7On S a c :=
  ⟨h2.pools.trans h1.pools, fun h => h2.coh (h1.coh h), fun P hP hS => Nat.le_trans (h2.cnt P hP hS) (h1.cnt P hP hS)⟩

theorem Quiet7On.all {s s' : State} (q : Quiet7On (fun _ => True) s s') : Quiet7 s s' :=
  ⟨q.pools, q.coh, fun P hP => q.cnt P hP trivial⟩

/-! ### unbind, deliver -/

theorem unbindDp_q (s : State) (k : Key) (policy : Nat) : Quiet7 s (unbindDp s k policy).1 :=
  ⟨(unbindDp_chg s k policy).frame.pools, unbindDp_coherent s k policy, fun P _ => unbindDp_cntp P s k policy⟩

theorem unbindOther_q (s : State) (k : Key) (policy : Nat) : Quiet7 s (unbindOther s k policy).1 :=
  ⟨(unbindOther_chg s k policy).frame.pools, unbindOther_coherent s k policy, fun P _ => unbindOther_cntp _ s k policy⟩

theorem reserveSelf_q (s : State) (k : Key) : Quiet7 s (reserve s k k {}).1 :=
  ⟨(reserve_chg s k k {}).frame.pools, reserve_coherent s k k {}, fun P _ => reserve_cntp _ s k k {} (fun h => h)⟩

theorem release_q (s : State) (k : Key) (ip : IP) : Quiet7 s (release s k ip).1 :=
  ⟨(release_chg s k ip).frame.pools, release_coherent s k ip, fun P _ => release_cntp _ s k ip⟩

theorem unbind_q (F : Plugin.Facts) (s : State) (pod : Pod) : Quiet7 s (unbind F s pod).1 := by
  unfold unbind
  try dsimp only
  split
  · exact Quiet7.refl s
  · have u := Quiet7.of_quiet (unassignAll_quiet (ipsOfKey s (keyOf pod)) s)
    split
    · exact u
    · split
      · exact u.trans (unbindDp_q _ _ _)
      · exact u.trans (unbindOther_q _ _ _)

theorem deliver_q (F : Plugin.Facts) (s : State) (i : Nat) : Quiet7 s (deliver F s i).1 := by
  unfold deliver
  split
  · exact Quiet7.refl s
  · rename_i e _
    dsimp only
    have h1 : Quiet7 s { s with events := s.events.eraseIdx i } := Quiet7.of_eq rfl rfl rfl rfl
    have h2 := h1.trans (unbind_q F { s with events := s.events.eraseIdx i } e.pod)
    split
    · exact h2
    · split
      · exact h2
      · exact h2.trans (Quiet7.of_eq rfl rfl rfl rfl)

/-! ### resync -/

theorem resyncAct_q (s : State) (ip : IP) (k : Key) (r : Rec) : Quiet7 s (resyncAct s ip k r) := by
  unfold resyncAct
  split
  · have pu := Quiet7.of_quiet (provUnassign_quiet s r.node ip)
    split
    · exact pu
    · have rs := pu.trans (reserveSelf_q _ k)
      split
      · exact rs.trans (unbindDp_q _ _ _)
      · exact rs.trans (unbindOther_q _ _ _)
  · split
    · exact unbindDp_q _ _ _
    · exact unbindOther_q _ _ _

theorem resyncOne_q (F : Plugin.Facts) (s : State) (ip : IP) (r0 : Rec) : Quiet7 s (resyncOne F s ip r0) := by
  unfold resyncOne
  split
  · exact Quiet7.refl s
  · rename_i r _
    split
    · exact Quiet7.refl s
    · have pr := Quiet7.of_quiet (podRunning_quiet F s r0.key.pod r0.key.ns r.uid).1
      split
      · exact pr
      · have ko := pr.trans (Quiet7.of_quiet (keyOwned_quiet F (podRunning F s r0.key.pod r0.key.ns r.uid).1 r0.key r.uid).1)
        split
        · exact ko
        · exact ko.trans (resyncAct_q _ ip r0.key r)

theorem resyncLoop_q (F : Plugin.Facts) (snap : Tbl IP Rec) : ∀ (l : List IP) (s : State), Quiet7 s (resyncLoop F snap s l) := by
  intro l
  induction l with
  | nil => intro s; exact Quiet7.refl s
  | cons ip t ih =>
    intro s
    unfold resyncLoop
    split
    · exact ih s
    · exact (resyncOne_q F s ip _).trans (ih _)

theorem resync_q (F : Plugin.Facts) (s : State) (order : List IP) : Quiet7 s (resync F s order).1 := by
  unfold resync
  dsimp only
  split
  · exact Quiet7.refl s
  · exact resyncLoop_q F _ order s

/-! ### API release -/

theorem releasePre_q (s : State) (node : String) (ip : IP) (k : Key) : Quiet7 s (releasePre s node ip k).1 := by
  unfold releasePre
  split
  · have pu := Quiet7.of_quiet (provUnassign_quiet s node ip)
    split
    · exact pu
    · exact pu.trans (reserveSelf_q _ k)
  · exact Quiet7.refl s

theorem releaseAct_q (F : Plugin.Facts) (s : State) (ip : IP) (k : Key) (uid : Nat) (node : String) :
    Quiet7 s (releaseAct F s ip k uid node).1 := by
  unfold releaseAct
  have ko := Quiet7.of_quiet (keyOwned_quiet F s k uid).1
  split
  · exact ko
  · have rp := ko.trans (releasePre_q (keyOwnedByRunningPod F s k uid).1 node ip k)
    split
    · exact rp.trans (release_q _ k ip)
    · exact rp

theorem apiRelease_q (F : Plugin.Facts) (s : State) (ip : IP) (k : Key) : Quiet7 s (apiRelease F s ip k).1 := by
  unfold apiRelease
  split
  · exact Quiet7.refl s
  · have pr := Quiet7.of_quiet (podRunning_quiet F s k.pod k.ns (((Tbl.get s.alloc ip).map (·.uid)).getD 0)).1
    split
    · exact pr
    · exact pr.trans (releaseAct_q F _ ip k _ _)

/-! ### bind -/

theorem bindLoop_q (k : Key) (node : String) (a : Attr) (found : List IP) :
    ∀ (l : List IP) (s : State), Quiet7 s (bindLoop s k node a found l).1 := by
  intro l
  induction l with
  | nil => intro s; exact Quiet7.refl s
  | cons ip t ih =>
    intro s
    unfold bindLoop
    dsimp only
    have pa := Quiet7.of_quiet (provAssign_quiet s node ip)
    split
    · exact pa
    · split
      · have ua : Quiet7 (provAssign s node ip).1 (updateAttr (provAssign s node ip).1 k ip a).1 :=
          ⟨(updateAttr_chg _ k ip a).frame.pools, updateAttr_coherent _ k ip a, fun P _ => updateAttr_cntp _ _ k ip a⟩
        split
        · exact (pa.trans ua).trans (ih _)
        · exact pa.trans ua
      · exact pa.trans (ih _)

theorem bindCommit_q (s : State) (pod : Pod) (ns name : String) (uid : Nat) (node : String) (ips : List IP) :
    Quiet7 s (bindCommit s pod ns name uid node ips).1 := by
  unfold bindCommit
  split
  · split <;> exact Quiet7.of_eq rfl rfl rfl rfl
  · split
    · split <;> exact Quiet7.of_eq rfl rfl rfl rfl
    · split <;> exact Quiet7.of_eq rfl rfl rfl rfl

/-- the allocation step of Bind allocates nothing when the key owns an address for every request -/
def bindAllocates (infos : List (Option IP)) (pod : Pod) : Bool :=
  !(unfoundRanges infos pod.ranges).isEmpty || infos.isEmpty

theorem allocateInSubnet_pools (s : State) (key : Key) (n : Subnet) (a : Attr) (ch : Option IP) :
    (allocateInSubnet s key n a ch).1.pools = s.pools := by
  unfold allocateInSubnet
  dsimp only
  split
  · rfl
  · split
    · rfl
    · rename_i ip
      split
      · rfl
      · have st := stCreate_step s ip (mkRec key a s.clock)
        split
        · exact st.frame.pools
        · exact st.frame.pools

theorem createAll_pools (r : Rec) : ∀ (todo done : List IP) (s : State), (createAll s r done todo).1.pools = s.pools := by
  intro todo
  induction todo with
  | nil => intro done s; rfl
  | cons ip t ih =>
    intro done s
    unfold createAll
    dsimp only
    have st := stCreate_step s ip r
    split
    · rw [(deleteAll_step done _).frame.pools, st.frame.pools]
    · rw [ih, st.frame.pools]

theorem allocateInSubnetsAndRanges_pools (s : State) (key : Key) (n : Subnet) (rss : List (List (Nat × Nat))) (a : Attr)
    (ch : Option IP) : (allocateInSubnetsAndRanges s key n rss a ch).1.pools = s.pools := by
  unfold allocateInSubnetsAndRanges
  split
  · exact allocateInSubnet_pools s key n a ch
  · split
    · rfl
    · dsimp only
      split
      · exact createAll_pools _ _ _ _
      · rw [(memAllocAll_frame _ _ _).pools]; exact createAll_pools _ _ _ _

/-- the allocation step of Bind: nothing for a pod that owns its addresses, an address outside every pool for a pod
    without pool annotation -/
theorem bindAlloc_q (s : State) (pod : Pod) (node : String) (policy : Nat) (infos : List (Option IP)) (pick : Option IP)
    (hinfos : infos = byKeyAndRanges s (keyOf pod) pod.ranges ∨ (pod.ranges.isEmpty = true ∧ ¬ infos.isEmpty = true))
    (hcm : s.crashMode = false) (S : String → Prop)
    (h : bindAllocates infos pod = false ∨ ∀ P, P ≠ "" → S P → (keyOf pod).pool ≠ P) :
    Quiet7On S s (bindAlloc s pod node { policy := policy, node := node, uid := pod.uid } infos pick).1 := by
  refine ⟨?_, fun hc => (bindAlloc_spec s pod node policy infos pick hc hinfos).coherent (Or.inl hcm), ?_⟩
  · unfold bindAlloc
    split
    · have qq := (queryNodeSubnet_quiet s node).1
      split
      · exact qq.frame.pools
      · exact (allocateInSubnetsAndRanges_pools _ _ _ _ _ _).trans qq.frame.pools
    · rfl
  · intro P hP hS
    unfold bindAlloc
    split
    · rename_i hcond
      have qq := (queryNodeSubnet_quiet s node).1
      split
      · rw [qq.alloc]; exact Nat.le_refl _
      · rename_i n _
        rcases h with h | h
        · exfalso
          unfold bindAllocates at h
          rw [h] at hcond
          exact absurd hcond (by decide)
        · have hm : mP P (keyOf pod) = false := by
            unfold mP; simpa using h P hP hS
          have := allocateInSubnetsAndRanges_cntp (mP P) (queryNodeSubnet s node).1 (keyOf pod) n
            (unfoundRanges infos pod.ranges) { policy := policy, node := node, uid := pod.uid } pick hm
          rw [qq.alloc] at this
          exact this
    · exact Nat.le_refl _

/-- side condition of the `_partial` theorems at a bind: for a pod with a pool annotation the bind finds an address
    under the pod's key for every request (the preceding Filter allocated it), i.e. it allocates nothing itself -/
def bindOK (s : State) (ns name : String) (ch : Choice) : Bool :=
  match s.vPods.get (ns, name) with
  | none => true
  | some pod =>
    match bindInfos s pod ch with
    | none => true
    | some infos => !bindAllocates infos pod || (keyOf pod).pool == ""

theorem bindInfos_shape (s : State) (pod : Pod) (ch : Choice) (infos : List (Option IP)) (h : bindInfos s pod ch = some infos) :
    infos = byKeyAndRanges s (keyOf pod) pod.ranges ∨ (pod.ranges.isEmpty = true ∧ ¬ infos.isEmpty = true) := by
  unfold bindInfos at h
  split at h
  · rename_i hc
    right
    simp only [Bool.and_eq_true] at hc
    refine ⟨hc.1, ?_⟩
    cases hp : pickFirst (byKeyAndRanges s (keyOf pod) pod.ranges) ch.first with
    | none => rw [hp] at h; simp at h
    | some ip => rw [hp] at h; simp at h; subst h; simp
  · left; simpa using h.symm

theorem bindCommitX_q (s : State) (pod : Pod) (ns name : String) (uid : Nat) (node : String) (ips : List IP) :
    Quiet7 s (bindCommitX s pod ns name uid node ips).1 := by
  unfold bindCommitX
  split
  · exact Quiet7.of_quiet (api_quiet s)
  · exact bindCommit_q s pod ns name uid node ips

/-- the end of Bind, whatever the apiserver answers to the Binding call and whichever reaction the code has -/
theorem bindFinish_q (F : Plugin.Facts) (s : State) (pod : Pod) (ns name : String) (uid : Nat) (node : String)
    (ips : List IP) (ans : BindAnswer) : Quiet7 s (bindFinish F s pod ns name uid node ips ans).1 := by
  have qx := bindCommitX_q s pod ns name uid node ips
  have qq : Quiet7 s (queueRelease (bindCommitX s pod ns name uid node ips).1 pod) :=
    qx.trans (Quiet7.of_eq rfl rfl rfl rfl)
  unfold bindFinish
  split
  · exact Quiet7.of_quiet (api_quiet s)
  · exact qx
  · exact qx
  · split
    · exact qx
    · exact qq
  · split
    · dsimp only
      split
      · exact qx
      · exact qq
    · exact qx

/-- Bind leaves the count of every pool in `S` alone, provided it allocates nothing or the pod's key is in none of
    the pools of `S` -/
theorem bind_on (F : Plugin.Facts) (s : State) (ns name : String) (uid : Nat) (node : String) (ch : Choice)
    (hcm : s.crashMode = false) (S : String → Prop)
    (hok : bindOK s ns name ch = true ∨
      ∀ pod, Tbl.get s.vPods (ns, name) = some pod → ∀ P, P ≠ "" → S P → (keyOf pod).pool ≠ P) :
    Quiet7On S s (Plugin.bind F s ns name uid node ch).1 := by
  have same : Quiet7On S s s := (Quiet7.refl s).on S
  unfold Plugin.bind
  split
  · exact same
  · rename_i pod hpod
    split
    · exact same
    · split
      · exact same
      · split
        · exact same
        · rename_i infos hinf
          split
          · exact same
          · have hcond : bindAllocates infos pod = false ∨ ∀ P, P ≠ "" → S P → (keyOf pod).pool ≠ P := by
              rcases hok with hok | hok
              · unfold bindOK at hok
                rw [hpod] at hok
                simp only [hinf] at hok
                rcases Bool.or_eq_true_iff.mp hok with h | h
                · left; simpa using h
                · right
                  intro P hP _ e
                  have h0 : (keyOf pod).pool = "" := by simpa using h
                  exact hP (e.symm.trans h0)
              · exact Or.inr (hok pod hpod)
            have ba := bindAlloc_q s pod node (policyOf pod) infos ch.pick (bindInfos_shape s pod ch infos hinf) hcm S hcond
            split
            · exact same
            · exact ba
            · have bl := ba.trans ((bindLoop_q (keyOf pod) node { policy := policyOf pod, node := node, uid := pod.uid }
                (infos.filterMap id) ((bindAlloc s pod node { policy := policyOf pod, node := node, uid := pod.uid } infos
                  ch.pick).2.2.filterMap id) (bindAlloc s pod node { policy := policyOf pod, node := node, uid := pod.uid } infos
                  ch.pick).1).on S)
              split
              · exact bl.trans ((bindFinish_q F _ pod ns name uid node _ ch.answer).on S)
              · exact bl

theorem bind_q (F : Plugin.Facts) (s : State) (ns name : String) (uid : Nat) (node : String) (ch : Choice)
    (hcm : s.crashMode = false) (hok : bindOK s ns name ch = true) : Quiet7 s (Plugin.bind F s ns name uid node ch).1 :=
  (bind_on F s ns name uid node ch hcm (fun _ => True) (Or.inl hok)).all

end Galaxy.PluginC07
