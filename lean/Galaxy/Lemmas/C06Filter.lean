/-
  C06 lemmas, part 6: what a successful `getSubnet` / `Filter` means.
-/
import Galaxy.Lemmas.C06Alloc

namespace Galaxy.Plugin.C06
open Galaxy Galaxy.Plugin

/-- the attributes Filter stores with an address it allocates (`allocateDuringFilter`) -/
def fAttr (pod : Pod) : Attr := { policy := policyOf pod, node := "", uid := pod.uid }

/-- the request part of the pod's key is its pool annotation -/
theorem keyOf_pool (pod : Pod) : (keyOf pod).pool = pod.pool := by
  unfold keyOf
  cases pod.kind <;> simp only [mkKey] <;> split <;> (try split) <;> simp_all [Key.empty]

theorem sized_policy (s : State) (pod : Pod) (h : (getDpReplicas s (keyOf pod)).2 = true) : policyOf pod = 2 := by
  have hp : (keyOf pod).pool ≠ "" := by
    intro e
    unfold getDpReplicas at h
    simp [e] at h
  rw [keyOf_pool] at hp
  simp [policyOf, hp]

theorem isEmpty_eq_nil {α : Type} {l : List α} (h : l.isEmpty = true) : l = [] := by
  cases l with
  | nil => rfl
  | cons _ _ => cases h

/-- `getAvailableSubnet` without a reservation is `NodeSubnetsByIPRanges` -/
theorem getAvailableSubnet_plain (s : State) (k : Key) (policy replicas : Nat) (sized : Bool) (rss : List Ranges)
    (set0 : List Subnet) (h : getAvailableSubnet s k policy replicas sized rss = .ok (set0, false)) :
    set0 = nodeSubnetsByRanges s rss := by
  unfold getAvailableSubnet at h
  dsimp only at h
  split at h
  · split at h
    · cases h
    · split at h
      · cases h
      · split at h
        · cases h
        · cases h; rfl
  · cases h; rfl

/-- … with a reservation, or for a deployment with a release policy, no ranges are requested -/
theorem getAvailableSubnet_norange (s : State) (k : Key) (policy replicas : Nat) (sized : Bool) (rss : List Ranges)
    (set0 : List Subnet) (resv : Bool) (h : getAvailableSubnet s k policy replicas sized rss = .ok (set0, resv))
    (hc : resv = true ∨ (k.isDp = true ∧ policy ≠ 0)) : rss = [] := by
  unfold getAvailableSubnet at h
  dsimp only at h
  split at h
  · split at h
    · cases h
    · rename_i hr
      exact isEmpty_eq_nil (by simpa using hr)
  · rename_i hd
    rcases hc with hc | hc
    · cases h; cases hc
    · simp [hc.1, hc.2] at hd

/-- for a default-policy pod the second half of `getSubnet` neither fails nor allocates -/
theorem getSubnetCont_default (s : State) (pod : Pod) (ch : Choice) (rss : List Ranges) (hasAlloc : Bool)
    (allocated : List Subnet) (hp : policyOf pod = 0) :
    getSubnetCont s pod ch rss hasAlloc allocated =
      (s, .ok (if hasAlloc then sinter (nodeSubnetsByRanges s rss) allocated else nodeSubnetsByRanges s rss)) := by
  have hs : (if (keyOf pod).isDp then getDpReplicas s (keyOf pod) else (0, false)).2 = false := by
    split
    · cases hh : (getDpReplicas s (keyOf pod)).2 with
      | false => rfl
      | true => have := sized_policy s pod hh; omega
    · rfl
  have ha : ∀ r z, getAvailableSubnet s (keyOf pod) 0 r z rss = .ok (nodeSubnetsByRanges s rss, false) := by
    intro r z; simp [getAvailableSubnet]
  unfold getSubnetCont
  simp only [hp, hs, ha]
  simp

/-- the outcomes of the second half of `getSubnet` when it answers a subnet set -/
theorem sminStr_none : ∀ l : List Subnet, sminStr l = none → l = [] := by
  intro l
  cases l with
  | nil => intro _; rfl
  | cons x t =>
    intro hl
    unfold sminStr at hl
    split at hl
    · cases hl
    · split at hl <;> cases hl

theorem getSubnetCont_cases (s : State) (pod : Pod) (ch : Choice) (rss : List Ranges) (hasAlloc : Bool)
    (allocated : List Subnet) (g : State) (set : List Subnet)
    (h : getSubnetCont s pod ch rss hasAlloc allocated = (g, .ok set)) :
    (g = s ∧ set = []) ∨
    (g = s ∧ set = (if hasAlloc then sinter (nodeSubnetsByRanges s rss) allocated else nodeSubnetsByRanges s rss)) ∨
    (∃ n resv, rss = [] ∧ set = [n] ∧ allocateDuringFilter s (keyOf pod) resv n (fAttr pod) ch.pick = (g, .ok)) := by
  unfold getSubnetCont at h
  have hzdef : ∀ z, z = (if (keyOf pod).isDp = true then getDpReplicas s (keyOf pod) else (0, false)) →
      z.2 = true → (keyOf pod).isDp = true ∧ policyOf pod = 2 := by
    intro z hz hz2
    subst hz
    cases hd : (keyOf pod).isDp with
    | false => simp [hd] at hz2
    | true =>
      simp only [hd, if_true] at hz2
      exact ⟨rfl, sized_policy s pod hz2⟩
  generalize hz : (if (keyOf pod).isDp = true then getDpReplicas s (keyOf pod) else (0, false)) = z at h
  have hzs := hzdef z hz.symm
  by_cases hpol : policyOf pod ≠ 0 ∧ (!supportReserve (keyOf pod) (policyOf pod)) = true
  · rw [if_pos hpol] at h; simp at h
  · rw [if_neg hpol] at h
    cases hav : getAvailableSubnet s (keyOf pod) (policyOf pod) z.1 z.2 rss with
    | error c => simp only [hav] at h; simp at h
    | ok pr =>
      obtain ⟨set0, resv⟩ := pr
      simp only [hav] at h
      generalize hS : (if hasAlloc = true then sinter set0 allocated else set0) = S at h
      by_cases hcond : ((resv || z.2) && !S.isEmpty) = true
      · rw [if_pos hcond] at h
        simp only [Bool.and_eq_true, Bool.or_eq_true] at hcond
        cases hmin : sminStr S with
        | none =>
          have := sminStr_none S hmin
          rw [this] at hcond; simp at hcond
        | some n =>
          simp only [hmin] at h
          generalize hA : allocateDuringFilter s (keyOf pod) resv n
            { policy := policyOf pod, node := "", uid := pod.uid } ch.pick = A at h
          cases hres : A.2 with
          | ok =>
            simp only [hres] at h
            injection h with h1 h2; injection h2 with h2
            right; right
            refine ⟨n, resv, ?_, h2.symm, ?_⟩
            · rcases hcond.1 with hr | hz2
              · exact getAvailableSubnet_norange _ _ _ _ _ _ _ _ hav (Or.inl hr)
              · have := hzs hz2
                exact getAvailableSubnet_norange _ _ _ _ _ _ _ _ hav (Or.inr ⟨this.1, by omega⟩)
            · show allocateDuringFilter s (keyOf pod) resv n (fAttr pod) ch.pick = (g, .ok)
              unfold fAttr
              rw [hA, ← h1]
              exact Prod.ext rfl hres
          | err c => simp only [hres] at h; simp at h
          | inadmissible => simp only [hres] at h; simp at h
      · rw [if_neg hcond] at h
        injection h with h1 h2; injection h2 with h2
        subst h1
        by_cases he : S.isEmpty = true
        · left; exact ⟨rfl, by rw [← h2]; exact isEmpty_eq_nil he⟩
        · right; left
          refine ⟨rfl, ?_⟩
          have hr : resv = false := by
            cases resv with
            | false => rfl
            | true => exfalso; apply hcond; simp [he]
          subst hr
          rw [← h2, ← hS, getAvailableSubnet_plain _ _ _ _ _ _ _ hav]

/-! ### getSubnet -/

theorem pickFirst_mem {infos : List (Option IP)} {first : Option IP} {ip : IP} (h : pickFirst infos first = some ip) :
    some ip ∈ infos := by
  unfold pickFirst at h
  split at h
  · split at h
    · cases h; rename_i hc; simpa using hc
    · cases h
  · split at h
    · cases h; simp
    · cases h

theorem byKeyAndRanges_nil (s : State) (k : Key) : byKeyAndRanges s k [] = (ipsOfKey s k).map some := by
  simp [byKeyAndRanges]

theorem held_nil (s : State) (pod : Pod) (hr : pod.ranges = []) : held s pod = ipsOfKey s (keyOf pod) := by
  unfold held
  rw [hr, byKeyAndRanges_nil]
  induction ipsOfKey s (keyOf pod) with
  | nil => rfl
  | cons x t ih => simp [ih]

/-- the range lists of the request for which the pod's key owns nothing yet -/
def unfound (s : State) (pod : Pod) : List Ranges := unfoundRanges (byKeyAndRanges s (keyOf pod) pod.ranges) pod.ranges

/-- what Filter offers a pod for which it neither allocates nor reuses a single address without ranges -/
def offered (s : State) (pod : Pod) : List Subnet :=
  if (held s pod).isEmpty then nodeSubnetsByRanges s (unfound s pod)
  else sinter (nodeSubnetsByRanges s (unfound s pod)) (allocatedSubnets s (held s pod))

/-- the ways `getSubnet` answers a subnet set -/
inductive GS (s : State) (pod : Pod) (ch : Choice) (g : State) (set : List Subnet) : Prop
  /-- no ranges requested, the key owns addresses: the node subnets of one of them (map order) -/
  | reuse (ip : IP) (hr : pod.ranges = []) (hip : ip ∈ ipsOfKey s (keyOf pod)) (hg : g = s)
      (hs : set = subnetsOf s.pools ip)
  /-- every requested range list has an owned address: the intersection of their pools' node subnets -/
  | allFound (hr : pod.ranges ≠ []) (hu : unfound s pod = []) (hg : g = s) (hs : set = allocatedSubnets s (held s pod))
  /-- nothing is offered -/
  | nothing (hg : g = s) (hs : set = [])
  /-- available subnets for the range lists without an owned address (all of the request, or none requested),
      intersected with the owned addresses' subnets -/
  | avail (hh : pod.ranges = [] → ipsOfKey s (keyOf pod) = []) (hu : pod.ranges ≠ [] → unfound s pod ≠ [])
      (hg : g = s) (hs : set = offered s pod)
  /-- an address was allocated during the filter (reserved address of the deployment / sized pool) -/
  | during (n : Subnet) (resv : Bool) (hr : pod.ranges = []) (hh : ipsOfKey s (keyOf pod) = []) (hs : set = [n])
      (ha : allocateDuringFilter s (keyOf pod) resv n (fAttr pod) ch.pick = (g, .ok))

theorem getSubnet_cases (s : State) (pod : Pod) (ch : Choice) (g : State) (set : List Subnet)
    (h : getSubnet s pod ch = (g, .ok set)) : GS s pod ch g set := by
  unfold getSubnet at h
  split at h
  · rename_i hre
    have hr : pod.ranges = [] := isEmpty_eq_nil hre
    split at h
    · rename_i hinfos
      have hk : ipsOfKey s (keyOf pod) = [] := by
        rw [hr, byKeyAndRanges_nil] at hinfos
        simpa using hinfos
      have hheld : held s pod = [] := by rw [held_nil s pod hr, hk]
      have hunf : unfound s pod = [] := by
        unfold unfound; rw [hr]; simp [unfoundRanges]
      rcases getSubnetCont_cases s pod ch [] false [] g set h with ⟨hg, hs⟩ | ⟨hg, hs⟩ | ⟨n, resv, _, hs, ha⟩
      · exact .nothing hg hs
      · refine .avail (fun _ => hk) (fun hne => absurd hr hne) hg ?_
        rw [hs]; unfold offered; simp [hheld, hunf]
      · exact .during n resv hr hk hs ha
    · split at h
      · cases h
      · rename_i ip hp
        injection h with h1 h2; injection h2 with h2
        have := pickFirst_mem hp
        rw [hr, byKeyAndRanges_nil] at this
        have hip : ip ∈ ipsOfKey s (keyOf pod) := by simpa using this
        exact .reuse ip hr hip h1.symm h2.symm
  · rename_i hre
    have hr : pod.ranges ≠ [] := fun e => hre (by rw [e]; rfl)
    split at h
    · rename_i hu
      injection h with h1 h2; injection h2 with h2
      exact .allFound hr (isEmpty_eq_nil hu) h1.symm h2.symm
    · rename_i hu
      have hu' : unfound s pod ≠ [] := fun e => hu (by unfold unfound at e; rw [e]; rfl)
      rcases getSubnetCont_cases s pod ch _ _ _ g set h with ⟨hg, hs⟩ | ⟨hg, hs⟩ | ⟨n, resv, he, _, _⟩
      · exact .nothing hg hs
      · refine .avail (fun e => absurd e hr) (fun _ => hu') hg ?_
        rw [hs]; unfold offered unfound held
        cases hh : (List.filterMap id (byKeyAndRanges s (keyOf pod) pod.ranges)).isEmpty <;> simp
      · exact absurd he hu'

/-- for a default-policy pod that requests ranges, `getSubnet` is a function of the IPAM state alone -/
theorem getSubnet_default_ranges (s : State) (pod : Pod) (ch : Choice) (hp : policyOf pod = 0) (hr : pod.ranges ≠ []) :
    getSubnet s pod ch = (s, .ok (if unfound s pod = [] then allocatedSubnets s (held s pod) else offered s pod)) := by
  have hre : pod.ranges.isEmpty = false := by
    cases h : pod.ranges with
    | nil => exact absurd h hr
    | cons _ _ => rfl
  unfold getSubnet
  simp only [hre, Bool.false_eq_true, if_false]
  by_cases hu : unfound s pod = []
  · have : (unfoundRanges (byKeyAndRanges s (keyOf pod) pod.ranges) pod.ranges).isEmpty = true := by
      unfold unfound at hu; rw [hu]; rfl
    simp only [this, if_true, hu]
    rfl
  · have : (unfoundRanges (byKeyAndRanges s (keyOf pod) pod.ranges) pod.ranges).isEmpty = false := by
      cases hh : unfoundRanges (byKeyAndRanges s (keyOf pod) pod.ranges) pod.ranges with
      | nil => exact absurd hh hu
      | cons _ _ => rfl
    simp only [this, Bool.false_eq_true, if_false, hu]
    rw [getSubnetCont_default _ _ _ _ _ _ hp]
    unfold offered unfound held
    cases hh : (List.filterMap id (byKeyAndRanges s (keyOf pod) pod.ranges)).isEmpty <;> simp

/-- for a default-policy pod without ranges that owns nothing, likewise -/
theorem getSubnet_default_fresh (s : State) (pod : Pod) (ch : Choice) (hp : policyOf pod = 0) (hr : pod.ranges = [])
    (hk : ipsOfKey s (keyOf pod) = []) : getSubnet s pod ch = (s, .ok (nodeSubnetsByRanges s [])) := by
  unfold getSubnet
  simp only [hr, List.isEmpty_nil, if_true, byKeyAndRanges_nil, hk, List.map_nil]
  rw [getSubnetCont_default _ _ _ _ _ _ hp]
  simp

/-! ### the node loop of Filter -/

/-- the state differs from `s` in the node-subnet cache only -/
def CacheOnly (s s' : State) : Prop := ∃ c, s' = { s with nodeCache := c }

theorem CacheOnly.refl (s : State) : CacheOnly s s := ⟨s.nodeCache, rfl⟩

theorem CacheOnly.trans {a b c : State} (h1 : CacheOnly a b) (h2 : CacheOnly b c) : CacheOnly a c := by
  obtain ⟨x, rfl⟩ := h1
  obtain ⟨y, rfl⟩ := h2
  exact ⟨y, rfl⟩

theorem getNodeSubnet_spec (s : State) (n : String) (hc : CacheOK s) :
    CacheOnly s (getNodeSubnet s n).1 ∧ CacheOK (getNodeSubnet s n).1 ∧
      (getNodeSubnet s n).2 = nodeSubnetOfNode s n ∧
      (∀ m sn, Tbl.get s.nodeCache m = some sn → Tbl.get (getNodeSubnet s n).1.nodeCache m = some sn) ∧
      (∀ sn, nodeSubnetOfNode s n = some sn → Tbl.get (getNodeSubnet s n).1.nodeCache n = some sn) := by
  unfold getNodeSubnet
  split
  · rename_i sn hsn
    exact ⟨CacheOnly.refl s, hc, (hc n sn hsn).symm, fun _ _ h => h, fun sn' h => by rw [hc n sn hsn] at h; rw [← h]; exact hsn⟩
  · rename_i hmiss
    split
    · rename_i hn
      refine ⟨CacheOnly.refl s, hc, by simp [nodeSubnetOfNode, hn], fun _ _ h => h, fun sn' h => ?_⟩
      simp [nodeSubnetOfNode, hn] at h
    · rename_i nip hn
      split
      · rename_i hsub
        refine ⟨CacheOnly.refl s, hc, by simp [nodeSubnetOfNode, hn, hsub], fun _ _ h => h, fun sn' h => ?_⟩
        simp [nodeSubnetOfNode, hn, hsub] at h
      · rename_i sn hsub
        refine ⟨⟨_, rfl⟩, ?_, by simp [nodeSubnetOfNode, hn, hsub], fun m sn' h => ?_, fun sn' h => ?_⟩
        · intro m sn' h
          show nodeSubnetOfNode s m = some sn'
          have h' : Tbl.get (Tbl.set s.nodeCache n sn) m = some sn' := h
          rw [Tbl.get_set] at h'
          by_cases e : n = m
          · subst e; simp at h'; subst h'; simp [nodeSubnetOfNode, hn, hsub]
          · simp [e] at h'; exact hc m sn' h'
        · show Tbl.get (Tbl.set s.nodeCache n sn) m = some sn'
          rw [Tbl.get_set]
          by_cases e : n = m
          · subst e; rw [hmiss] at h; cases h
          · simp [e]; exact h
        · show Tbl.get (Tbl.set s.nodeCache n sn) n = some sn'
          simp [nodeSubnetOfNode, hn, hsub] at h
          simp [h]

theorem nodeSubnetOfNode_cacheOnly {s s' : State} (h : CacheOnly s s') (n : String) :
    nodeSubnetOfNode s' n = nodeSubnetOfNode s n := by
  obtain ⟨c, rfl⟩ := h; rfl

/-- the node loop of Filter: a node passes iff nodeSubnet(node) is in the set; passing nodes are cached -/
theorem filterNodes_spec (set : List Subnet) : ∀ (nodes acc : List String) (s : State), CacheOK s →
    CacheOnly s (filterNodes s set nodes acc).1 ∧ CacheOK (filterNodes s set nodes acc).1 ∧
    (∀ n, n ∈ (filterNodes s set nodes acc).2 ↔
      n ∈ acc ∨ (n ∈ nodes ∧ ∃ sn, nodeSubnetOfNode s n = some sn ∧ sn ∈ set)) ∧
    (∀ m sn, Tbl.get s.nodeCache m = some sn → Tbl.get (filterNodes s set nodes acc).1.nodeCache m = some sn) ∧
    (∀ n sn, n ∈ nodes → nodeSubnetOfNode s n = some sn →
      Tbl.get (filterNodes s set nodes acc).1.nodeCache n = some sn) := by
  intro nodes
  induction nodes with
  | nil =>
    intro acc s hc
    exact ⟨CacheOnly.refl s, hc, fun n => by simp [filterNodes], fun _ _ h => h, fun _ _ h => by cases h⟩
  | cons x t ih =>
    intro acc s hc
    obtain ⟨g1, g2, g3, g4, g5⟩ := getNodeSubnet_spec s x hc
    unfold filterNodes
    dsimp only
    have key : ∀ acc', CacheOnly s (filterNodes (getNodeSubnet s x).1 set t acc').1 ∧
        CacheOK (filterNodes (getNodeSubnet s x).1 set t acc').1 ∧
        (∀ n, n ∈ (filterNodes (getNodeSubnet s x).1 set t acc').2 ↔
          n ∈ acc' ∨ (n ∈ t ∧ ∃ sn, nodeSubnetOfNode s n = some sn ∧ sn ∈ set)) ∧
        (∀ m sn, Tbl.get s.nodeCache m = some sn →
          Tbl.get (filterNodes (getNodeSubnet s x).1 set t acc').1.nodeCache m = some sn) ∧
        (∀ n sn, n ∈ x :: t → nodeSubnetOfNode s n = some sn →
          Tbl.get (filterNodes (getNodeSubnet s x).1 set t acc').1.nodeCache n = some sn) := by
      intro acc'
      obtain ⟨i1, i2, i3, i4, i5⟩ := ih acc' _ g2
      refine ⟨g1.trans i1, i2, fun n => ?_, fun m sn h => i4 m sn (g4 m sn h), fun n sn hn hsn => ?_⟩
      · rw [i3]; simp only [nodeSubnetOfNode_cacheOnly g1]
      · rcases List.mem_cons.mp hn with e | hm
        · subst e; exact i4 _ _ (g5 sn hsn)
        · exact i5 n sn hm (by rw [nodeSubnetOfNode_cacheOnly g1]; exact hsn)
    rw [g3]
    cases hx : nodeSubnetOfNode s x with
    | none =>
      obtain ⟨k1, k2, k3, k4, k5⟩ := key acc
      refine ⟨k1, k2, fun n => ?_, k4, k5⟩
      rw [k3]
      constructor
      · rintro (h | ⟨h, r⟩)
        · exact Or.inl h
        · exact Or.inr ⟨List.mem_cons_of_mem _ h, r⟩
      · rintro (h | ⟨h, sn, r1, r2⟩)
        · exact Or.inl h
        · rcases List.mem_cons.mp h with e | hm
          · subst e; rw [hx] at r1; cases r1
          · exact Or.inr ⟨hm, sn, r1, r2⟩
    | some sn =>
      dsimp only
      by_cases hin : set.contains sn = true
      · simp only [hin, if_true]
        obtain ⟨k1, k2, k3, k4, k5⟩ := key (acc ++ [x])
        refine ⟨k1, k2, fun n => ?_, k4, k5⟩
        rw [k3]
        constructor
        · rintro (h | ⟨h, r⟩)
          · rcases List.mem_append.mp h with h | h
            · exact Or.inl h
            · simp at h; subst h
              exact Or.inr ⟨by simp, sn, hx, by simpa using hin⟩
          · exact Or.inr ⟨List.mem_cons_of_mem _ h, r⟩
        · rintro (h | ⟨h, sn', r1, r2⟩)
          · exact Or.inl (List.mem_append.mpr (Or.inl h))
          · rcases List.mem_cons.mp h with e | hm
            · subst e; exact Or.inl (List.mem_append.mpr (Or.inr (by simp)))
            · exact Or.inr ⟨hm, sn', r1, r2⟩
      · have hin' : set.contains sn = false := by simpa using hin
        simp only [hin', Bool.false_eq_true, if_false]
        obtain ⟨k1, k2, k3, k4, k5⟩ := key acc
        refine ⟨k1, k2, fun n => ?_, k4, k5⟩
        rw [k3]
        constructor
        · rintro (h | ⟨h, r⟩)
          · exact Or.inl h
          · exact Or.inr ⟨List.mem_cons_of_mem _ h, r⟩
        · rintro (h | ⟨h, sn', r1, r2⟩)
          · exact Or.inl h
          · rcases List.mem_cons.mp h with e | hm
            · subst e; rw [hx] at r1; cases r1
              exact absurd (by simpa using r2) hin
            · exact Or.inr ⟨hm, sn', r1, r2⟩

end Galaxy.Plugin.C06
