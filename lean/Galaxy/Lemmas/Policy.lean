/-
  Lemmas about model M7 (Galaxy.Policy), part 1: component lemmas
    * compiled directions = API defaulting;
    * membership in the compiled ipsets ↔ selector semantics of the API;
    * port templates ↔ port list semantics;
    * walk of a compiled policy chain ↔ "some rule matches".
-/
import Galaxy.Model.Policy

namespace Galaxy.Policy

/-! ### directions -/

theorem any_dir_or (ts : List Dir) (h : ts ≠ []) :
    (ts.any (· == Dir.ingress) || ts.any (· == Dir.egress)) = true := by
  cases ts with
  | nil => exact absurd rfl h
  | cons d t => cases d <;> simp

theorem any_beq_dir (ts : List Dir) (d : Dir) : ts.any (· == d) = ts.contains d := by
  induction ts with
  | nil => rfl
  | cons x t ih =>
    simp only [List.any_cons, List.contains_cons, ih]
    cases x <;> cases d <;> first | rfl | simp

theorem compIngress_eq (p : NetPol) : compIngress p = affectsIngress p := by
  unfold compIngress compDirs affectsIngress
  by_cases h : p.types = []
  · simp [h, Galaxy.Generated.Policy.defaultIngress]
  · have := any_dir_or p.types h
    simp only [h, if_false, ← any_beq_dir]
    cases hi : p.types.any (· == Dir.ingress) <;> cases he : p.types.any (· == Dir.egress) <;> simp_all

theorem compEgress_eq (p : NetPol) : compEgress p = affectsEgress p := by
  unfold compEgress compDirs affectsEgress
  by_cases h : p.types = []
  · cases hE : p.egress <;> simp [h, Galaxy.Generated.Policy.defaultEgress]
  · have := any_dir_or p.types h
    simp only [h, if_false, ← any_beq_dir]
    cases hi : p.types.any (· == Dir.ingress) <;> cases he : p.types.any (· == Dir.egress) <;> simp_all

theorem comp_some_dir (p : NetPol) : (compIngress p || compEgress p) = true := by
  unfold compIngress compEgress compDirs
  by_cases h : p.types = []
  · simp [h, Galaxy.Generated.Policy.defaultIngress]
  · have := any_dir_or p.types h
    cases hi : p.types.any (· == Dir.ingress) <;> cases he : p.types.any (· == Dir.egress) <;> simp_all

theorem beq_comm' {α : Type} [DecidableEq α] (a b : α) : (a == b) = (b == a) := by
  rw [Bool.eq_iff_iff, beq_iff_eq, beq_iff_eq]; exact eq_comm

theorem selectedBy_eq (p : NetPol) (q : Pod) : selectedBy p q = selects p q := by
  unfold selectedBy selects
  rw [beq_comm' p.ns q.ns]

/-! ### ipset membership -/

/-- membership test of a hash:ip set -/
def ipHas (es : List Entry) (a : IP) : Bool :=
  es.any (fun e => match e with | .ip b => b == a | .net c false => c.len == 32 && c.net == a | _ => false)

theorem has_hashIP (n : SetName) (es : List Entry) (a : IP) : (⟨n, .hashIP, es⟩ : IpSet).has a = ipHas es a := rfl
theorem has_hashNet (n : SetName) (es : List Entry) (a : IP) : (⟨n, .hashNet, es⟩ : IpSet).has a = netMatch es a := rfl

theorem ipHas_entriesOf (pods : List Pod) (a : IP) :
    ipHas (entriesOf pods) a = pods.any (fun q => q.ip == some a) := by
  induction pods with
  | nil => rfl
  | cons q t ih =>
    simp only [ipHas, entriesOf] at ih ⊢
    cases hq : q.ip <;> simp [List.filterMap_cons, hq, ih]

theorem ipHas_flatMap {α : Type} (l : List α) (g : α → List Entry) (a : IP) :
    ipHas (l.flatMap g) a = l.any (fun x => ipHas (g x) a) := by
  simp [ipHas, List.any_flatMap]

/-- what the hash:ip set of a rule contains -/
def ruleIpHas (c : Cluster) (r : Rule) (a : IP) : Bool :=
  r.peers.any (fun p => p.isIpKind && ipHas (peerIpEntries c p) a)

/-- what the hash:net set of a rule contains -/
def ruleNetHas (r : Rule) (a : IP) : Bool :=
  netMatch ((r.peers.filter (fun p => !p.isIpKind)).flatMap peerNetEntries) a

theorem netMatch_nil (a : IP) : netMatch [] a = false := rfl

theorem setHas_nil (n : SetName) (a : IP) : setHas [] n a = false := rfl

theorem setHas_append (s t : List IpSet) (n : SetName) (a : IP) :
    setHas (s ++ t) n a = (setHas s n a || setHas t n a) := by simp [setHas, List.any_append]

theorem setHas_ruleSets (c : Cluster) (kIp kNet : SetKind) (hk : kIp ≠ kNet) (h : String) (i : Nat) (r : Rule)
    (k : SetKind) (j : Nat) (h' : String) (a : IP) :
    setHas (ruleSets c kIp kNet h i r) ⟨k, j, h'⟩ a =
      (decide (i = j) && decide (h = h') &&
        ((decide (k = kIp) && ruleIpHas c r a) || (decide (k = kNet) && ruleNetHas r a))) := by
  have hip : r.peers.any Peer.isIpKind = false → ruleIpHas c r a = false := by
    intro h0
    simp only [ruleIpHas, List.any_eq_false] at h0 ⊢
    intro p hp; simp [h0 p hp]
  have hnet : r.peers.any (fun p => !p.isIpKind) = false → ruleNetHas r a = false := by
    intro h0
    have : r.peers.filter (fun p => !p.isIpKind) = [] := by
      rw [List.filter_eq_nil_iff]; intro p hp
      have := (List.any_eq_false.mp h0) p hp; simpa using this
    simp [ruleNetHas, this, netMatch_nil]
  unfold ruleSets ruleIpEntries ruleNetEntries
  cases h1 : r.peers.any Peer.isIpKind <;> cases h2 : r.peers.any (fun p => !p.isIpKind)
  all_goals
    simp only [if_true, if_false, Bool.false_eq_true]
    simp only [setHas, List.any_cons, List.any_nil, List.nil_append, List.cons_append, List.append_nil,
      has_hashIP, has_hashNet, Bool.or_false]
  · simp [hip h1, hnet h2]
  · by_cases e1 : i = j <;> by_cases e2 : h = h' <;> by_cases e3 : k = kIp <;> by_cases e4 : k = kNet <;>
      simp_all [ruleNetHas, SetName.mk.injEq, eq_comm (a := kIp) (b := k), eq_comm (a := kNet) (b := k), eq_comm (a := kNet) (b := kIp)]
  · by_cases e1 : i = j <;> by_cases e2 : h = h' <;> by_cases e3 : k = kIp <;> by_cases e4 : k = kNet <;>
      simp_all [ruleIpHas, ipHas_flatMap, List.any_filter, SetName.mk.injEq, eq_comm (a := kIp) (b := k), eq_comm (a := kNet) (b := k), eq_comm (a := kNet) (b := kIp)]
  · by_cases e1 : i = j <;> by_cases e2 : h = h' <;> by_cases e3 : k = kIp <;> by_cases e4 : k = kNet <;>
      simp_all [ruleIpHas, ruleNetHas, ipHas_flatMap, List.any_filter, SetName.mk.injEq, eq_comm (a := kIp) (b := k), eq_comm (a := kNet) (b := k), eq_comm (a := kNet) (b := kIp)]

theorem setHas_flatMap {α : Type} (l : List α) (g : α → List IpSet) (n : SetName) (a : IP) :
    setHas (l.flatMap g) n a = l.any (fun x => setHas (g x) n a) := by
  simp [setHas, List.any_flatMap]

theorem setHas_rulesSets (c : Cluster) (kIp kNet : SetKind) (hk : kIp ≠ kNet) (h : String) (rs : List Rule)
    (k : SetKind) (j : Nat) (h' : String) (a : IP) :
    setHas (rulesSets c kIp kNet h rs) ⟨k, j, h'⟩ a =
      rs.zipIdx.any (fun x => decide (x.2 = j) && decide (h = h') &&
        ((decide (k = kIp) && ruleIpHas c x.1 a) || (decide (k = kNet) && ruleNetHas x.1 a))) := by
  unfold rulesSets
  rw [setHas_flatMap]
  congr; funext x
  exact setHas_ruleSets c kIp kNet hk h x.2 x.1 k j h' a

/-- the index of an element of `zipIdx` determines it -/
theorem zipIdx_any_idx {α : Type} (l : List α) (r : α) (j : Nat) (hm : (r, j) ∈ l.zipIdx) (f : α → Bool) :
    l.zipIdx.any (fun x => decide (x.2 = j) && f x.1) = f r := by
  rw [Bool.eq_iff_iff, List.any_eq_true]
  constructor
  · rintro ⟨x, hx, h⟩
    simp only [Bool.and_eq_true, decide_eq_true_eq] at h
    have h1 := List.mem_zipIdx_iff_getElem?.mp hx
    have h2 := List.mem_zipIdx_iff_getElem?.mp hm
    simp only at h2
    rw [h.1, h2] at h1
    have : r = x.1 := by simpa using h1
    rw [this]; exact h.2
  · intro h
    exact ⟨(r, j), hm, by simp [h]⟩

theorem setHas_policySets (c : Cluster) (p : NetPol) (k : SetKind) (j : Nat) (h' : String) (a : IP) :
    setHas (policySets c p) ⟨k, j, h'⟩ a =
      (((compIngress p || compEgress p) && decide (k = .sel) && decide (j = 0) && decide (p.hash = h') &&
          ipHas (entriesOf (podsBySelector c (some p.ns) p.podSel)) a) ||
       (compIngress p && p.ingress.zipIdx.any (fun x => decide (x.2 = j) && decide (p.hash = h') &&
          ((decide (k = .sip) && ruleIpHas c x.1 a) || (decide (k = .snet) && ruleNetHas x.1 a)))) ||
       (compEgress p && p.egress.zipIdx.any (fun x => decide (x.2 = j) && decide (p.hash = h') &&
          ((decide (k = .dip) && ruleIpHas c x.1 a) || (decide (k = .dnet) && ruleNetHas x.1 a))))) := by
  unfold policySets
  rw [setHas_append, setHas_append]
  congr 1
  · congr 1
    · cases hd : (compIngress p || compEgress p)
      · simp [setHas_nil]
      · simp only [if_true, setHas, List.any_cons, List.any_nil, Bool.or_false, has_hashIP, selSetName]
        by_cases e1 : k = .sel <;> by_cases e2 : j = 0 <;> by_cases e3 : p.hash = h' <;>
          simp_all [SetName.mk.injEq, eq_comm (a := SetKind.sel) (b := k), eq_comm (a := 0) (b := j)]
    · cases hd : compIngress p
      · simp [setHas_nil]
      · simp only [if_true, Bool.true_and]
        exact setHas_rulesSets c .sip .snet (by decide) p.hash p.ingress k j h' a
  · cases hd : compEgress p
    · simp [setHas_nil]
    · simp only [if_true, Bool.true_and]
      exact setHas_rulesSets c .dip .dnet (by decide) p.hash p.egress k j h' a

theorem setHas_compileSets (c : Cluster) (ps : List NetPol) (n : SetName) (a : IP) :
    setHas (compileSets c ps) n a = ps.any (fun p => setHas (policySets c p) n a) := by
  unfold compileSets; exact setHas_flatMap ps (policySets c) n a

/-- injectivity of the name hash on the policies at hand -/
theorem hash_inj {ps : List NetPol} (hn : (ps.map (·.hash)).Nodup) {p X : NetPol} (hp : p ∈ ps) (hX : X ∈ ps)
    (he : p.hash = X.hash) : p = X := by
  induction ps with
  | nil => cases hp
  | cons y t ih =>
    simp only [List.map_cons, List.nodup_cons, List.mem_map, not_exists, not_and] at hn
    rcases List.mem_cons.mp hp with rfl | hp' <;> rcases List.mem_cons.mp hX with rfl | hX'
    · rfl
    · exact absurd he.symm (hn.1 X hX')
    · exact absurd he (hn.1 p hp')
    · exact ih hn.2 hp' hX'

/-- a predicate that pins the policy by its hash collapses `ps.any` to the policy itself -/
theorem any_hash {ps : List NetPol} (hn : (ps.map (·.hash)).Nodup) {X : NetPol} (hX : X ∈ ps) (f : NetPol → Bool) :
    ps.any (fun p => decide (p.hash = X.hash) && f p) = f X := by
  rw [Bool.eq_iff_iff, List.any_eq_true]
  constructor
  · rintro ⟨p, hp, h⟩
    simp only [Bool.and_eq_true, decide_eq_true_eq] at h
    rw [← hash_inj hn hp hX h.1]; exact h.2
  · intro h; exact ⟨X, hX, by simp [h]⟩

theorem any_false' {α : Type} (l : List α) : l.any (fun _ => false) = false := by
  induction l <;> simp_all

theorem setHas_sel (c : Cluster) {ps : List NetPol} (hn : (ps.map (·.hash)).Nodup) {X : NetPol} (hX : X ∈ ps)
    (a : IP) :
    setHas (compileSets c ps) (selSetName X) a = c.pods.any (fun q => q.ip == some a && selects X q) := by
  rw [setHas_compileSets]
  have : (fun p => setHas (policySets c p) (selSetName X) a) =
      (fun p => decide (p.hash = X.hash) && ipHas (entriesOf (podsBySelector c (some p.ns) p.podSel)) a) := by
    funext p
    rw [selSetName, setHas_policySets]
    simp [comp_some_dir p, any_false']
  rw [this, any_hash hn hX, ipHas_entriesOf]
  unfold podsBySelector selects
  rw [List.any_filter]
  congr; funext q
  simp [Bool.and_comm]

theorem setHas_sip (c : Cluster) {ps : List NetPol} (hn : (ps.map (·.hash)).Nodup) {X : NetPol} (hX : X ∈ ps)
    (hc : compIngress X = true) {r : Rule} {j : Nat} (hm : (r, j) ∈ X.ingress.zipIdx) (a : IP) :
    setHas (compileSets c ps) ⟨.sip, j, X.hash⟩ a = ruleIpHas c r a := by
  rw [setHas_compileSets]
  have : (fun p => setHas (policySets c p) ⟨.sip, j, X.hash⟩ a) =
      (fun p => decide (p.hash = X.hash) &&
        (compIngress p && p.ingress.zipIdx.any (fun x => decide (x.2 = j) && ruleIpHas c x.1 a))) := by
    funext p
    rw [setHas_policySets]
    by_cases e : p.hash = X.hash <;> simp [e, any_false']
  rw [this, any_hash hn hX, hc, Bool.true_and]
  exact zipIdx_any_idx _ r j hm (fun r => ruleIpHas c r a)

theorem setHas_snet (c : Cluster) {ps : List NetPol} (hn : (ps.map (·.hash)).Nodup) {X : NetPol} (hX : X ∈ ps)
    (hc : compIngress X = true) {r : Rule} {j : Nat} (hm : (r, j) ∈ X.ingress.zipIdx) (a : IP) :
    setHas (compileSets c ps) ⟨.snet, j, X.hash⟩ a = ruleNetHas r a := by
  rw [setHas_compileSets]
  have : (fun p => setHas (policySets c p) ⟨.snet, j, X.hash⟩ a) =
      (fun p => decide (p.hash = X.hash) &&
        (compIngress p && p.ingress.zipIdx.any (fun x => decide (x.2 = j) && ruleNetHas x.1 a))) := by
    funext p
    rw [setHas_policySets]
    by_cases e : p.hash = X.hash <;> simp [e, any_false']
  rw [this, any_hash hn hX, hc, Bool.true_and]
  exact zipIdx_any_idx _ r j hm (fun r => ruleNetHas r a)

theorem setHas_dip (c : Cluster) {ps : List NetPol} (hn : (ps.map (·.hash)).Nodup) {X : NetPol} (hX : X ∈ ps)
    (hc : compEgress X = true) {r : Rule} {j : Nat} (hm : (r, j) ∈ X.egress.zipIdx) (a : IP) :
    setHas (compileSets c ps) ⟨.dip, j, X.hash⟩ a = ruleIpHas c r a := by
  rw [setHas_compileSets]
  have : (fun p => setHas (policySets c p) ⟨.dip, j, X.hash⟩ a) =
      (fun p => decide (p.hash = X.hash) &&
        (compEgress p && p.egress.zipIdx.any (fun x => decide (x.2 = j) && ruleIpHas c x.1 a))) := by
    funext p
    rw [setHas_policySets]
    by_cases e : p.hash = X.hash <;> simp [e, any_false']
  rw [this, any_hash hn hX, hc, Bool.true_and]
  exact zipIdx_any_idx _ r j hm (fun r => ruleIpHas c r a)

theorem setHas_dnet (c : Cluster) {ps : List NetPol} (hn : (ps.map (·.hash)).Nodup) {X : NetPol} (hX : X ∈ ps)
    (hc : compEgress X = true) {r : Rule} {j : Nat} (hm : (r, j) ∈ X.egress.zipIdx) (a : IP) :
    setHas (compileSets c ps) ⟨.dnet, j, X.hash⟩ a = ruleNetHas r a := by
  rw [setHas_compileSets]
  have : (fun p => setHas (policySets c p) ⟨.dnet, j, X.hash⟩ a) =
      (fun p => decide (p.hash = X.hash) &&
        (compEgress p && p.egress.zipIdx.any (fun x => decide (x.2 = j) && ruleNetHas x.1 a))) := by
    funext p
    rw [setHas_policySets]
    by_cases e : p.hash = X.hash <;> simp [e, any_false']
  rw [this, any_hash hn hX, hc, Bool.true_and]
  exact zipIdx_any_idx _ r j hm (fun r => ruleNetHas r a)

/-! ### set membership ↔ selector semantics of the API (inside the fragment) -/

theorem inCidr_masked (a : IP) (c : Cidr) : inCidr a c.masked = inCidr a c := by
  simp [inCidr, Cidr.masked, Nat.mul_div_cancel, Nat.two_pow_pos]

theorem any_congr' {α : Type} {l : List α} {f g : α → Bool} (h : ∀ x ∈ l, f x = g x) : l.any f = l.any g := by
  induction l with
  | nil => rfl
  | cons x t ih =>
    simp only [List.any_cons]
    rw [h x (List.mem_cons_self ..), ih (fun y hy => h y (List.mem_cons_of_mem _ hy))]

theorem all_congr' {α : Type} {l : List α} {f g : α → Bool} (h : ∀ x ∈ l, f x = g x) : l.all f = l.all g := by
  induction l with
  | nil => rfl
  | cons x t ih =>
    simp only [List.all_cons]
    rw [h x (List.mem_cons_self ..), ih (fun y hy => h y (List.mem_cons_of_mem _ hy))]

/-- namespaceSelector peer: the compiled set is exactly the API meaning -/
theorem ipHas_nss (c : Cluster) (ns : String) (s : Selector) (a : IP) :
    ipHas (peerIpEntries c (.nss s)) a = peerMatches c ns a (.nss s) := by
  simp only [peerIpEntries, ipHas_entriesOf, podsByNsSelector, peerMatches, nsMatches]
  rw [Bool.eq_iff_iff]
  simp only [List.any_eq_true, List.mem_flatMap, List.mem_filter, Bool.and_eq_true, beq_iff_eq]
  constructor
  · rintro ⟨q, ⟨n, ⟨hn, hm⟩, hq, hqn⟩, hip⟩
    exact ⟨q, hq, hip, n, hn, hqn.symm, hm⟩
  · rintro ⟨q, hq, hip, n, hn, hqn, hm⟩
    exact ⟨q, ⟨n, ⟨hn, hm⟩, hq, hqn.symm⟩, hip⟩

/-- podSelector peer when every pod the selector matches lives in the policy's namespace -/
theorem ipHas_pods (c : Cluster) (ns : String) (s : Selector) (a : IP)
    (h1 : c.pods.all (fun q => !(s.matches q.labels) || q.ns == ns) = true) :
    ipHas (peerIpEntries c (.pods s)) a = peerMatches c ns a (.pods s) := by
  simp only [peerIpEntries, ipHas_entriesOf, podsBySelector, peerMatches, List.any_filter, Bool.true_and]
  apply any_congr'
  intro q hq
  have := (List.all_eq_true.mp h1) q hq
  cases hm : s.matches q.labels
  · simp
  · simp only [hm, Bool.not_true, Bool.false_or] at this
    simp [this, Bool.and_comm]

/-- peer with both selectors when every pod the pod selector matches lives in a namespace the namespace selector
    matches -/
theorem ipHas_both (c : Cluster) (ns : String) (n s : Selector) (a : IP)
    (h1 : c.pods.all (fun q => !(s.matches q.labels) || nsMatches c n q.ns) = true) :
    ipHas (peerIpEntries c (.both n s)) a = peerMatches c ns a (.both n s) := by
  simp only [peerIpEntries, ipHas_entriesOf, podsBySelector, peerMatches, List.any_filter, Bool.true_and]
  apply any_congr'
  intro q hq
  have := (List.all_eq_true.mp h1) q hq
  cases hm : s.matches q.labels
  · simp
  · simp only [hm, Bool.not_true, Bool.false_or] at this
    simp [this, Bool.and_comm]

theorem ruleIpHas_eq (c : Cluster) (p : NetPol) (r : Rule) (hok : r.peers.all (peerOK c p) = true) (a : IP) :
    ruleIpHas c r a = r.peers.any (fun x => x.isIpKind && peerMatches c p.ns a x) := by
  unfold ruleIpHas
  apply any_congr'
  intro x hx
  have hx' := (List.all_eq_true.mp hok) x hx
  cases x with
  | nss s => rw [ipHas_nss c p.ns]
  | pods s => rw [ipHas_pods c p.ns s a (by simpa [peerOK] using hx')]
  | both n s => rw [ipHas_both c p.ns n s a (by simpa [peerOK] using hx')]
  | block cd ex => simp [Peer.isIpKind]

def blockEntries (b : Cidr × List Cidr) : List Entry :=
  Entry.net b.1.masked false :: b.2.map (fun e => Entry.net e.masked true)

def blockMatch (a : IP) (b : Cidr × List Cidr) : Bool := inCidr a b.1 && b.2.all (fun e => !inCidr a e)

theorem netEntries_blocks (peers : List Peer) :
    (peers.filter (fun p => !p.isIpKind)).flatMap peerNetEntries = (Peer.blocks peers).flatMap blockEntries := by
  induction peers with
  | nil => rfl
  | cons x t ih => cases x <;> simp_all [Peer.isIpKind, Peer.blocks, peerNetEntries, blockEntries]

theorem any_blocks (c : Cluster) (ns : String) (a : IP) (peers : List Peer) :
    peers.any (fun x => !x.isIpKind && peerMatches c ns a x) = (Peer.blocks peers).any (blockMatch a) := by
  induction peers with
  | nil => rfl
  | cons x t ih => cases x <;> simp_all [Peer.isIpKind, Peer.blocks, peerMatches, blockMatch]

theorem masked_len (c : Cidr) : c.masked.len = c.len := rfl

theorem div_pow_of_le {a b k1 k2 : Nat} (hk : k1 ≤ k2) (h : a / 2 ^ k1 = b / 2 ^ k1) : a / 2 ^ k2 = b / 2 ^ k2 := by
  have e : 2 ^ k2 = 2 ^ k1 * 2 ^ (k2 - k1) := by rw [← Nat.pow_add, Nat.add_sub_cancel' hk]
  rw [e, ← Nat.div_div_eq_div_mul, ← Nat.div_div_eq_div_mul, h]

/-- an address in two CIDRs makes them overlap -/
theorem overlap_of_common (a : IP) (e c : Cidr) (h1 : inCidr a e = true) (h2 : inCidr a c = true) :
    cidrOverlap e c = true := by
  simp only [inCidr, beq_iff_eq] at h1 h2
  simp only [cidrOverlap, inCidr, Bool.or_eq_true, beq_iff_eq]
  by_cases hl : e.len ≤ c.len
  · -- c is at least as specific: compare at e's granularity
    right
    have hk : 32 - c.len ≤ 32 - e.len := Nat.sub_le_sub_left hl 32
    rw [← div_pow_of_le hk h2, h1]
  · left
    have hk : 32 - e.len ≤ 32 - c.len := Nat.sub_le_sub_left (Nat.le_of_lt (Nat.lt_of_not_le hl)) 32
    rw [← div_pow_of_le hk h1, h2]

theorem mem_blockEntries (bs : List (Cidr × List Cidr)) (x : Entry) :
    x ∈ bs.flatMap blockEntries ↔
      ∃ b ∈ bs, x = Entry.net b.1.masked false ∨ ∃ e ∈ b.2, x = Entry.net e.masked true := by
  simp only [List.mem_flatMap, blockEntries, List.mem_cons, List.mem_map]
  constructor
  · rintro ⟨b, hb, h | ⟨e, he, rfl⟩⟩
    · exact ⟨b, hb, Or.inl h⟩
    · exact ⟨b, hb, Or.inr ⟨e, he, rfl⟩⟩
  · rintro ⟨b, hb, h | ⟨e, he, rfl⟩⟩
    · exact ⟨b, hb, Or.inl h⟩
    · exact ⟨b, hb, Or.inr ⟨e, he, rfl⟩⟩

/-- the shared hash:net set of a rule is faithful under `netOK` -/
theorem netMatch_blocks (a : IP) (bs : List (Cidr × List Cidr))
    (h : bs.all (fun b => b.2.all (fun e => decide (b.1.len < e.len) &&
      bs.all (fun b' => b' == b || !cidrOverlap e b'.1))) = true) :
    netMatch (bs.flatMap blockEntries) a = bs.any (blockMatch a) := by
  have hok : ∀ b ∈ bs, ∀ e ∈ b.2, b.1.len < e.len ∧ ∀ b' ∈ bs, b' = b ∨ cidrOverlap e b'.1 = false := by
    intro b hb e he
    have := (List.all_eq_true.mp ((List.all_eq_true.mp h) b hb)) e he
    simp only [Bool.and_eq_true, decide_eq_true_eq, List.all_eq_true, Bool.or_eq_true, beq_iff_eq,
      Bool.not_eq_true'] at this
    exact this
  rw [Bool.eq_iff_iff]
  unfold netMatch
  simp only [List.any_eq_true, List.all_eq_true]
  constructor
  · rintro ⟨x, hx, hm⟩
    obtain ⟨b, hb, hx' | ⟨e, _, hx'⟩⟩ := (mem_blockEntries bs x).mp hx
    · subst hx'
      simp only [Bool.and_eq_true, List.all_eq_true, inCidr_masked, masked_len] at hm
      refine ⟨b, hb, ?_⟩
      simp only [blockMatch, Bool.and_eq_true, List.all_eq_true, Bool.not_eq_true']
      refine ⟨hm.1, fun e he => ?_⟩
      have := hm.2 (Entry.net e.masked true) ((mem_blockEntries bs _).mpr ⟨b, hb, Or.inr ⟨e, he, rfl⟩⟩)
      simp only [inCidr_masked, masked_len, Bool.not_eq_true', Bool.and_eq_false_iff, decide_eq_false_iff_not] at this
      rcases this with h1 | h1
      · exact h1
      · have h2 : ¬ b.1.len ≤ e.len := of_decide_eq_false h1
        exact absurd (Nat.le_of_lt (hok b hb e he).1) h2
    · subst hx'; simp at hm
  · rintro ⟨b, hb, hm⟩
    simp only [blockMatch, Bool.and_eq_true, List.all_eq_true, Bool.not_eq_true'] at hm
    refine ⟨Entry.net b.1.masked false, (mem_blockEntries bs _).mpr ⟨b, hb, Or.inl rfl⟩, ?_⟩
    simp only [Bool.and_eq_true, List.all_eq_true, inCidr_masked, masked_len]
    refine ⟨hm.1, fun y hy => ?_⟩
    obtain ⟨b', hb', hy' | ⟨e, he, hy'⟩⟩ := (mem_blockEntries bs y).mp hy
    · subst hy'; rfl
    · subst hy'
      simp only [inCidr_masked, masked_len, Bool.not_eq_true', Bool.and_eq_false_iff]
      left
      cases hc : inCidr a e
      · rfl
      · exfalso
        rcases (hok b' hb' e he).2 b hb with heq | hno
        · subst heq; rw [hm.2 e he] at hc; cases hc
        · rw [overlap_of_common a e b.1 hc hm.1] at hno; cases hno

theorem ruleNetHas_eq (c : Cluster) (ns : String) (r : Rule) (hnet : netOK r = true) (a : IP) :
    ruleNetHas r a = r.peers.any (fun x => !x.isIpKind && peerMatches c ns a x) := by
  rw [ruleNetHas, netEntries_blocks, any_blocks]
  exact netMatch_blocks a _ hnet

theorem any_split_kind (peers : List Peer) (f : Peer → Bool) :
    peers.any f = (peers.any (fun x => x.isIpKind && f x) || peers.any (fun x => !x.isIpKind && f x)) := by
  induction peers with
  | nil => rfl
  | cons x t ih =>
    simp only [List.any_cons, ih]
    cases x.isIpKind <;> cases f x <;> simp [Bool.or_comm, Bool.or_left_comm]

/-- the two sets of a rule together contain exactly the addresses some peer of the rule matches (API semantics) -/
theorem peers_match_eq (c : Cluster) (p : NetPol) (r : Rule) (hok : r.peers.all (peerOK c p) = true)
    (hnet : netOK r = true) (a : IP) :
    (ruleIpHas c r a || ruleNetHas r a) = r.peers.any (peerMatches c p.ns a) := by
  rw [ruleIpHas_eq c p r hok, ruleNetHas_eq c p.ns r hnet, ← any_split_kind]

/-! ### ports -/

/-- what the three rule templates of writePolicyChainRules match, as a function of the two port lists -/
def portTpl (tcp udp : List Nat) (f : Flow) : Bool :=
  (decide (tcp ≠ []) && (f.proto == Proto.tcp && tcp.contains f.dport)) ||
  (decide (udp ≠ []) && (f.proto == Proto.udp && udp.contains f.dport)) ||
  (decide (tcp = []) && decide (udp = []))

def tcpOf (ports : List Port) : List Nat := ports.filterMap (fun p => if p.proto = Proto.tcp then p.port else none)
def udpOf (ports : List Port) : List Nat := ports.filterMap (fun p => if p.proto = Proto.tcp then none else p.port)

theorem mem_tcpOf (ports : List Port) (d : Nat) :
    d ∈ tcpOf ports ↔ ∃ pt ∈ ports, pt.proto = Proto.tcp ∧ pt.port = some d := by
  simp only [tcpOf, List.mem_filterMap]
  constructor
  · rintro ⟨pt, hpt, h⟩
    by_cases e : pt.proto = Proto.tcp
    · simp only [e, if_true] at h; exact ⟨pt, hpt, e, h⟩
    · simp [e] at h
  · rintro ⟨pt, hpt, e, h⟩
    exact ⟨pt, hpt, by simp [e, h]⟩

theorem mem_udpOf (ports : List Port) (d : Nat) :
    d ∈ udpOf ports ↔ ∃ pt ∈ ports, pt.proto = Proto.udp ∧ pt.port = some d := by
  simp only [udpOf, List.mem_filterMap]
  constructor
  · rintro ⟨pt, hpt, h⟩
    by_cases e : pt.proto = Proto.tcp
    · simp [e] at h
    · simp only [e, if_false] at h
      refine ⟨pt, hpt, ?_, h⟩
      cases hp : pt.proto
      · exact absurd hp e
      · rfl
  · rintro ⟨pt, hpt, e, h⟩
    exact ⟨pt, hpt, by simp [e, h]⟩

theorem ne_nil_of_mem' {α : Type} {l : List α} {x : α} (h : x ∈ l) : l ≠ [] := by
  intro e; rw [e] at h; cases h

/-- every port entry numbered: the templates mean exactly the API port list -/
theorem portTpl_eq (ports : List Port) (h : ports.all (fun pt => pt.port.isSome) = true) (f : Flow) :
    portTpl (tcpOf ports) (udpOf ports) f = portMatches ports f := by
  have hnum : ∀ pt ∈ ports, ∃ n, pt.port = some n := by
    intro pt hpt
    have := (List.all_eq_true.mp h) pt hpt
    cases hp : pt.port with
    | none => simp [hp] at this
    | some n => exact ⟨n, rfl⟩
  cases ports with
  | nil => simp [portTpl, portMatches, tcpOf, udpOf]
  | cons p0 t =>
    have hne : ¬ (tcpOf (p0 :: t) = [] ∧ udpOf (p0 :: t) = []) := by
      obtain ⟨n, hn⟩ := hnum p0 (List.mem_cons_self ..)
      rintro ⟨h1, h2⟩
      cases hp : p0.proto
      · have : n ∈ tcpOf (p0 :: t) := (mem_tcpOf _ n).mpr ⟨p0, List.mem_cons_self .., hp, hn⟩
        rw [h1] at this; cases this
      · have : n ∈ udpOf (p0 :: t) := (mem_udpOf _ n).mpr ⟨p0, List.mem_cons_self .., hp, hn⟩
        rw [h2] at this; cases this
    generalize p0 :: t = ports at *
    rw [Bool.eq_iff_iff]
    simp only [portTpl, portMatches, Bool.or_eq_true, Bool.and_eq_true, decide_eq_true_eq, beq_iff_eq,
      List.contains_iff_mem, List.any_eq_true, mem_tcpOf, mem_udpOf, List.isEmpty_iff]
    constructor
    · rintro ((⟨_, hpr, pt, hpt, h1, h2⟩ | ⟨_, hpr, pt, hpt, h1, h2⟩) | h3)
      · exact Or.inr ⟨pt, hpt, by rw [h1, hpr], Or.inr h2⟩
      · exact Or.inr ⟨pt, hpt, by rw [h1, hpr], Or.inr h2⟩
      · exact absurd h3 hne
    · rintro (h0 | ⟨pt, hpt, hproto, hport⟩)
      · exfalso; apply hne; subst h0; simp [tcpOf, udpOf]
      · obtain ⟨n, hn⟩ := hnum pt hpt
        have hport' : pt.port = some f.dport := by
          rcases hport with h | h
          · rw [hn] at h; cases h
          · exact h
        cases hf : f.proto
        · refine Or.inl (Or.inl ⟨ne_nil_of_mem' ((mem_tcpOf _ _).mpr ⟨pt, hpt, by rw [hproto, hf], hport'⟩), rfl,
            pt, hpt, by rw [hproto, hf], hport'⟩)
        · refine Or.inl (Or.inr ⟨ne_nil_of_mem' ((mem_udpOf _ _).mpr ⟨pt, hpt, by rw [hproto, hf], hport'⟩), rfl,
            pt, hpt, by rw [hproto, hf], hport'⟩)

theorem tcpPorts_eq (r : Rule) : tcpPorts r = tcpOf r.ports := rfl
theorem udpPorts_eq (r : Rule) : udpPorts r = udpOf r.ports := rfl

/-! ### policy chains -/

theorem any_any_and {α β : Type} (l : List α) (m : List β) (A : α → Bool) (B : β → Bool) (P : Bool) :
    l.any (fun s => m.any (fun d => A s && B d && P)) = (l.any A && m.any B && P) := by
  induction l with
  | nil => simp
  | cons x t ih =>
    have hm : m.any (fun d => A x && B d && P) = (A x && m.any B && P) := by
      induction m with
      | nil => simp
      | cons y u ihm => simp only [List.any_cons, ihm]; cases A x <;> cases B y <;> cases P <;> simp
    simp only [List.any_cons, ih, hm]
    cases A x <;> cases m.any B <;> cases P <;> simp

/-! chunks of a port list -/

theorem mem_chunksOf (n : Nat) (hn : 0 < n) (x : Nat) : ∀ (fuel : Nat) (l : List Nat), l.length ≤ fuel →
    ((∃ ch ∈ chunksOf n fuel l, x ∈ ch) ↔ x ∈ l) := by
  intro fuel
  induction fuel with
  | zero =>
    intro l hl
    have : l = [] := List.length_eq_zero_iff.mp (Nat.le_zero.mp hl)
    subst this; simp [chunksOf]
  | succ fuel ih =>
    intro l hl
    by_cases he : l = []
    · subst he; simp [chunksOf]
    · simp only [chunksOf, he, if_false, List.mem_cons, exists_eq_or_imp]
      have hlen : (l.drop n).length ≤ fuel := by
        have : 0 < l.length := List.length_pos_iff.mpr he
        simp only [List.length_drop]; omega
      rw [ih (l.drop n) hlen]
      constructor
      · rintro (h | h)
        · exact List.mem_of_mem_take h
        · exact List.mem_of_mem_drop h
      · intro h
        rw [← List.take_append_drop n l] at h
        exact List.mem_append.mp h

theorem chunksOf_length (n : Nat) : ∀ (fuel : Nat) (l : List Nat), ∀ ch ∈ chunksOf n fuel l, ch.length ≤ n := by
  intro fuel
  induction fuel with
  | zero => intro l ch h; simp [chunksOf] at h
  | succ fuel ih =>
    intro l ch h
    by_cases he : l = []
    · subst he; simp [chunksOf] at h
    · simp only [chunksOf, he, if_false, List.mem_cons] at h
      rcases h with rfl | h
      · exact List.length_take_le n l
      · exact ih _ ch h

/-- the chunks of a port list together hold exactly its ports (and `chunk = 0`, the old single rule, too) -/
theorem portChunks_contains (n : Nat) (ports : List Nat) (x : Nat) :
    (portChunks n ports).any (fun ps => ps.contains x) = ports.contains x := by
  unfold portChunks
  by_cases h0 : n = 0
  · simp only [h0, if_true]
    cases ports <;> simp
  · simp only [h0, if_false]
    rw [Bool.eq_iff_iff, List.any_eq_true]
    simp only [List.contains_iff_mem]
    exact mem_chunksOf n (Nat.pos_of_ne_zero h0) x ports.length ports (Nat.le_refl _)

theorem portRules_any (sets : List IpSet) (f : Flow) (cm : String) (s d : SetName) (p : Proto) (chunks : List (List Nat)) :
    (chunks.map (fun ps => (⟨[.comment cm, .proto p, .setSrc s, .setDst d, .dports ps], .accept⟩ : PRule))).any
        (PRule.matches sets f) =
      ((f.proto == p) && setHas sets s f.src && setHas sets d f.dst && chunks.any (fun ps => ps.contains f.dport)) := by
  induction chunks with
  | nil => simp
  | cons ch rest ih =>
    simp only [List.map_cons, List.any_cons, ih]
    simp only [PRule.matches, List.all_cons, List.all_nil, Mt.holds, Bool.and_true, Bool.true_and]
    cases (f.proto == p) <;> cases setHas sets s f.src <;> cases setHas sets d f.dst <;> simp

/-- which flows the rules writePolicyChainRules emits for one (rule, direction) match — whatever the chunk size -/
theorem tplRulesWith_any (n : Nat) (sets : List IpSet) (f : Flow) (cm : String) (s d : SetName) (tcp udp : List Nat) :
    (tplRulesWith n cm s d tcp udp).any (PRule.matches sets f) =
      (setHas sets s f.src && setHas sets d f.dst && portTpl tcp udp f) := by
  unfold tplRulesWith
  rw [List.any_append, List.any_append, portRules_any, portRules_any, portChunks_contains, portChunks_contains]
  unfold portTpl
  cases hs : setHas sets s f.src <;> cases hd : setHas sets d f.dst <;> cases hp : f.proto <;>
    cases tcp <;> cases udp <;> simp [PRule.matches, Mt.holds, hs, hd, hp]

theorem chainRules_any (sets : List IpSet) (f : Flow) (cm : String) (srcs dsts : List SetName) (tcp udp : List Nat) :
    (chainRules cm srcs dsts tcp udp).any (PRule.matches sets f) =
      (srcs.any (fun s => setHas sets s f.src) && dsts.any (fun d => setHas sets d f.dst) && portTpl tcp udp f) := by
  unfold chainRules
  have : ∀ s d, (tplRules cm s d tcp udp).any (PRule.matches sets f) =
      (setHas sets s f.src && setHas sets d f.dst && portTpl tcp udp f) :=
    fun s d => tplRulesWith_any _ sets f cm s d tcp udp
  simp only [List.any_flatMap, this]
  exact any_any_and srcs dsts _ _ _

theorem tplRulesWith_mem (n : Nat) (cm : String) (s d : SetName) (tcp udp : List Nat) (r : PRule)
    (hr : r ∈ tplRulesWith n cm s d tcp udp) :
    r.tgt = Tgt.accept ∧ (r.ms = [.comment cm, .protoAll, .setSrc s, .setDst d]) ∨
    r.tgt = Tgt.accept ∧ (∃ p ps, r.ms = [.comment cm, .proto p, .setSrc s, .setDst d, .dports ps] ∧
      (ps ∈ portChunks n tcp ∨ ps ∈ portChunks n udp)) := by
  simp only [tplRulesWith, List.mem_append, List.mem_map] at hr
  rcases hr with (⟨ps, hps, rfl⟩ | ⟨ps, hps, rfl⟩) | hr
  · exact Or.inr ⟨rfl, _, ps, rfl, Or.inl hps⟩
  · exact Or.inr ⟨rfl, _, ps, rfl, Or.inr hps⟩
  · split at hr
    · simp at hr; subst hr; exact Or.inl ⟨rfl, rfl⟩
    · cases hr

/-- with the chunk loop of the current source no emitted rule exceeds the multiport limit -/
theorem tplRules_portsOK (cm : String) (s d : SetName) (tcp udp : List Nat) :
    ∀ r ∈ tplRules cm s d tcp udp, r.portsOK = true := by
  intro r hr
  have hc : 0 < G.multiportChunk ∧ G.multiportChunk ≤ multiportMax := by decide
  rcases tplRulesWith_mem _ cm s d tcp udp r hr with ⟨_, hm⟩ | ⟨_, p, ps, hm, hps⟩
  · simp [PRule.portsOK, hm]
  · have hlen : ps.length ≤ G.multiportChunk := by
      have h0 : G.multiportChunk ≠ 0 := Nat.pos_iff_ne_zero.mp hc.1
      rcases hps with h | h <;> (simp only [portChunks, h0, if_false] at h; exact chunksOf_length _ _ _ ps h)
    simp only [PRule.portsOK, hm, List.all_cons, List.all_nil, Bool.and_true, Bool.true_and, decide_eq_true_eq]
    exact Nat.le_trans hlen hc.2

theorem chainRules_tgt (cm : String) (srcs dsts : List SetName) (tcp udp : List Nat) :
    ∀ r ∈ chainRules cm srcs dsts tcp udp, r.tgt = Tgt.accept := by
  intro r hr
  simp only [chainRules, tplRules, List.mem_flatMap] at hr
  obtain ⟨s, _, d, _, h⟩ := hr
  rcases tplRulesWith_mem _ cm s d tcp udp r h with h | h <;> exact h.1

/-- a chain whose rules all ACCEPT: accept iff some rule matches, otherwise fall through -/
theorem evalRules_allAccept (call : Chain → Outcome) (sets : List IpSet) (f : Flow) (rs : List PRule)
    (h : ∀ r ∈ rs, r.tgt = Tgt.accept) :
    evalRules call sets f rs = if rs.any (PRule.matches sets f) then Outcome.accept else Outcome.fall := by
  induction rs with
  | nil => rfl
  | cons r t ih =>
    have ht := ih (fun x hx => h x (List.mem_cons_of_mem _ hx))
    have hr := h r (List.mem_cons_self ..)
    simp only [evalRules, List.any_cons, hr, ht]
    by_cases hm : PRule.matches sets f r = true <;> simp [hm]

theorem zipIdx_any_fst {α : Type} (l : List α) (g : α → Bool) : l.zipIdx.any (fun x => g x.1) = l.any g := by
  have : l.any g = (l.zipIdx.map Prod.fst).any g := by rw [List.zipIdx_map_fst]
  rw [this, List.any_map]; rfl

theorem ruleIpHas_false (c : Cluster) (r : Rule) (a : IP) (h0 : r.peers.any Peer.isIpKind = false) :
    ruleIpHas c r a = false := by
  simp only [ruleIpHas, List.any_eq_false] at h0 ⊢
  intro p hp; simp [h0 p hp]

theorem ruleNetHas_false (r : Rule) (a : IP) (h0 : r.peers.any (fun p => !p.isIpKind) = false) :
    ruleNetHas r a = false := by
  have : r.peers.filter (fun p => !p.isIpKind) = [] := by
    rw [List.filter_eq_nil_iff]; intro p hp
    have := (List.any_eq_false.mp h0) p hp; simpa using this
  simp [ruleNetHas, this, netMatch_nil]

/-- the table names writeRules passes for one rule, looked up in given sets -/
theorem ruleSetNames_any (sets : List IpSet) (kIp kNet : SetKind) (h : String) (j : Nat) (r : Rule) (a : IP)
    (c : Cluster) (hip : setHas sets ⟨kIp, j, h⟩ a = ruleIpHas c r a) (hnet : setHas sets ⟨kNet, j, h⟩ a = ruleNetHas r a) :
    (ruleSetNames kIp kNet h j r).any (fun s => setHas sets s a) = (ruleIpHas c r a || ruleNetHas r a) := by
  unfold ruleSetNames
  cases h1 : r.peers.any Peer.isIpKind <;> cases h2 : r.peers.any (fun p => !p.isIpKind) <;>
    simp [hip, hnet, ruleIpHas_false c r a, ruleNetHas_false r a, h1, h2]

theorem mem_of_mem_zipIdx {α : Type} {l : List α} {r : α} {j : Nat} (h : (r, j) ∈ l.zipIdx) : r ∈ l := by
  have : r ∈ l.zipIdx.map Prod.fst := List.mem_map.mpr ⟨(r, j), h, rfl⟩
  rwa [List.zipIdx_map_fst] at this

theorem any_and_const {α : Type} (l : List α) (P : Bool) (g : α → Bool) :
    l.any (fun x => P && g x) = (P && l.any g) := by
  cases P <;> simp [any_false']

/-- one compiled rule of the fragment admits exactly what the API rule allows -/
theorem ruleAllows_of_parts (c : Cluster) (X : NetPol) (r : Rule) (hr : ruleOK c X r = true) (other : IP) (f : Flow) :
    ((ruleIpHas c r other || ruleNetHas r other) && portTpl (tcpPorts r) (udpPorts r) f) =
      ruleAllows c X.ns other f r := by
  simp only [ruleOK, Bool.and_eq_true] at hr
  obtain ⟨⟨⟨hne, hpe⟩, hnet⟩, hpo⟩ := hr
  rw [peers_match_eq c X r hpe hnet, tcpPorts_eq, udpPorts_eq, portTpl_eq r.ports hpo]
  unfold ruleAllows
  have : r.peers.isEmpty = false := by simpa using hne
  rw [this, Bool.false_or]

/-- walk of the ingress rules of a compiled policy chain ↔ "the destination is selected and some rule allows" -/
theorem ingressRules_any (c : Cluster) {ps : List NetPol} (hn : (ps.map (·.hash)).Nodup) {X : NetPol} (hX : X ∈ ps)
    (hc : compIngress X = true) (hok : X.ingress.all (ruleOK c X) = true) (f : Flow) :
    (ingressRules X).any (PRule.matches (compileSets c ps) f) =
      (setHas (compileSets c ps) (selSetName X) f.dst && X.ingress.any (ruleAllows c X.ns f.src f)) := by
  unfold ingressRules
  rw [List.any_flatMap, ← zipIdx_any_fst X.ingress, ← any_and_const]
  apply any_congr'
  rintro ⟨r, j⟩ hx
  have hr := (List.all_eq_true.mp hok) r (mem_of_mem_zipIdx hx)
  rw [chainRules_any]
  simp only [List.any_cons, List.any_nil, Bool.or_false]
  rw [ruleSetNames_any (compileSets c ps) .sip .snet X.hash j r f.src c
    (setHas_sip c hn hX hc hx f.src) (setHas_snet c hn hX hc hx f.src)]
  rw [← ruleAllows_of_parts c X r hr f.src f]
  cases (ruleIpHas c r f.src || ruleNetHas r f.src) <;> cases setHas (compileSets c ps) (selSetName X) f.dst <;> simp

/-- walk of the egress rules of a compiled policy chain ↔ "the source is selected and some rule allows" -/
theorem egressRules_any (c : Cluster) {ps : List NetPol} (hn : (ps.map (·.hash)).Nodup) {X : NetPol} (hX : X ∈ ps)
    (hc : compEgress X = true) (hok : X.egress.all (ruleOK c X) = true) (f : Flow) :
    (egressRules X).any (PRule.matches (compileSets c ps) f) =
      (setHas (compileSets c ps) (selSetName X) f.src && X.egress.any (ruleAllows c X.ns f.dst f)) := by
  unfold egressRules
  rw [List.any_flatMap, ← zipIdx_any_fst X.egress, ← any_and_const]
  apply any_congr'
  rintro ⟨r, j⟩ hx
  have hr := (List.all_eq_true.mp hok) r (mem_of_mem_zipIdx hx)
  rw [chainRules_any]
  simp only [List.any_cons, List.any_nil, Bool.or_false]
  rw [ruleSetNames_any (compileSets c ps) .dip .dnet X.hash j r f.dst c
    (setHas_dip c hn hX hc hx f.dst) (setHas_dnet c hn hX hc hx f.dst)]
  rw [← ruleAllows_of_parts c X r hr f.dst f]
  cases (ruleIpHas c r f.dst || ruleNetHas r f.dst) <;> cases setHas (compileSets c ps) (selSetName X) f.src <;> simp

end Galaxy.Policy
