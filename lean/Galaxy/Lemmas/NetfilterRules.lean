/-
  Facts about the concrete rules the port-mapping generators emit (computed through the regenerated
  templates and `normRule`): which command a template line is, where each rule jumps, that none of
  them matches on an ipset.  If a template in /repo changes shape these proofs stop checking.
-/
import Galaxy.Model.Netfilter

namespace Galaxy.Netfilter

open Galaxy.Generated.Netfilter (hpMasqLine hpDnatLine markLine jumpHeadCmd jumpHeadRestore jumpMid jumpHostIP
  jumpTail basicRuleArgs)

/-- unfold a template instance down to words and read it -/
macro "rule_simp" : tactic => `(tactic|
  simp [masqCmd, dnatCmd, markCmd, jumpCmd, masqRule, dnatRule, markRule, jumpRule, jumpRuleR, jumpArgs, basicRule,
    words, hpMasqLine, hpDnatLine, markLine, jumpHeadCmd, jumpHeadRestore, jumpMid, jumpHostIP, jumpTail, basicRuleArgs,
    lineCmd, tokStr, pieceStr, String.join, normRule, normAux, stripQuotes, startsQuote, chainName, Generated.Netfilter.hostportChainPrefix, splitEq, fixVal, isAddrOpt,
    optArity, arity1, chainRef, jumpTarget, jumpTargetAux, matchSets, matchSetsAux, isJumpOpt, builtinTargets,
    markMasqChain, hostportsChain, Generated.Netfilter.markMasqChain, Generated.Netfilter.hostportsChain, noPort])

/-- every chain name produced by `hostportChainName` carries galaxy's prefix -/
theorem chainName_prefix (hash : String → String) (p : Port) : hasPrefix hpPrefix (chainName hash p) = true := by
  simp [hasPrefix, hpPrefix, chainName, Generated.Netfilter.hostportChainPrefix]

theorem prefix_not_target {c : String} (h : hasPrefix hpPrefix c = true) : c ∉ builtinTargets := by
  intro hc
  simp only [builtinTargets, List.mem_cons, List.mem_nil_iff, or_false] at hc
  rcases hc with rfl | rfl | rfl | rfl | rfl | rfl | rfl | rfl | rfl | rfl | rfl | rfl | rfl | rfl | rfl | rfl | rfl
    | rfl | rfl | rfl | rfl | rfl | rfl | rfl | rfl | rfl | rfl <;> revert h <;> decide

theorem prefix_not_builtin {c : String} (h : hasPrefix hpPrefix c = true) : isBuiltin c = false := by
  cases hb : isBuiltin c with
  | false => rfl
  | true =>
    simp only [isBuiltin, Generated.Netfilter.builtinChains, decide_eq_true_eq, List.mem_cons, List.mem_nil_iff,
      or_false] at hb
    rcases hb with rfl | rfl | rfl | rfl | rfl <;> revert h <;> decide

theorem prefix_ne_hostports {c : String} (h : hasPrefix hpPrefix c = true) : c ≠ hostportsChain := by
  intro hc; subst hc; revert h; decide

theorem prefix_ne_markMasq {c : String} (h : hasPrefix hpPrefix c = true) : c ≠ markMasqChain := by
  intro hc; subst hc; revert h; decide

@[simp] theorem stripQuotes_chainName (hash : String → String) (p : Port) :
    stripQuotes (chainName hash p) = chainName hash p := by
  simp [stripQuotes, startsQuote, chainName, Generated.Netfilter.hostportChainPrefix]

theorem masqCmd_eq (hash : String → String) (p : Port) :
    masqCmd hash p = [.app (chainName hash p) (masqRule hash p)] := by rule_simp

theorem dnatCmd_eq (hash : String → String) (p : Port) :
    dnatCmd hash p = [.app (chainName hash p) (dnatRule hash p)] := by rule_simp

theorem markCmd_eq : markCmd = [.app markMasqChain markRule] := by rule_simp

theorem jumpCmd_eq (hash : String → String) (p : Port) :
    jumpCmd hash p = [.app hostportsChain (jumpRuleR hash p)] := by
  by_cases h : p.hostIP = "" <;> rule_simp <;> simp [h]

theorem chainRef_masq (hash : String → String) (p : Port) :
    chainRef (masqRule hash p) = some markMasqChain := by rule_simp

theorem matchSets_masq (hash : String → String) (p : Port) : matchSets (masqRule hash p) = [] := by rule_simp

theorem chainRef_mark : chainRef markRule = none := by rule_simp

theorem matchSets_mark : matchSets markRule = [] := by rule_simp

theorem chainRef_basic : chainRef basicRule = some hostportsChain := by rule_simp

theorem matchSets_basic : matchSets basicRule = [] := by rule_simp

theorem chainRef_jump (hash : String → String) (p : Port) :
    chainRef (jumpRule hash p) = some (chainName hash p) := by
  have hn := prefix_not_target (chainName_prefix hash p)
  simp only [builtinTargets, List.mem_cons, List.mem_nil_iff, or_false] at hn
  by_cases h : p.hostIP = "" <;> simp only [jumpRule, jumpArgs, h, ne_eq, not_true_eq_false, not_false_eq_true, if_true, if_false, reduceIte] <;> rule_simp <;> simpa [chainName, Generated.Netfilter.hostportChainPrefix] using hn

theorem matchSets_jump (hash : String → String) (p : Port) : matchSets (jumpRule hash p) = [] := by
  by_cases h : p.hostIP = "" <;> simp only [jumpRule, jumpArgs, h, ne_eq, not_true_eq_false, not_false_eq_true, if_true, if_false, reduceIte] <;> rule_simp

theorem chainRef_jumpR (hash : String → String) (p : Port) :
    chainRef (jumpRuleR hash p) = some (chainName hash p) := by
  have hn := prefix_not_target (chainName_prefix hash p)
  simp only [builtinTargets, List.mem_cons, List.mem_nil_iff, or_false] at hn
  by_cases h : p.hostIP = "" <;> simp only [jumpRuleR, jumpArgs, h, ne_eq, not_true_eq_false, not_false_eq_true, if_true, if_false, reduceIte] <;> rule_simp <;> simpa [chainName, Generated.Netfilter.hostportChainPrefix] using hn

theorem matchSets_jumpR (hash : String → String) (p : Port) : matchSets (jumpRuleR hash p) = [] := by
  by_cases h : p.hostIP = "" <;> simp only [jumpRuleR, jumpArgs, h, ne_eq, not_true_eq_false, not_false_eq_true, if_true, if_false, reduceIte] <;> rule_simp

theorem chainRef_dnat (hash : String → String) (p : Port) : chainRef (dnatRule hash p) = none := by rule_simp

theorem matchSets_dnat (hash : String → String) (p : Port) : matchSets (dnatRule hash p) = [] := by rule_simp

end Galaxy.Netfilter
