/-
  C10 proofs, part 4: Bind.  The allocation step with the node it stores, the assign / updateAttr loop (every AssignIP
  request finds the address unassigned or on this node; after the loop every address is assigned to the node and its
  record names the node), the commit.
-/
import Galaxy.Lemmas.C10Moves

namespace Galaxy.PluginC10
open Galaxy Galaxy.Plugin

/-! ### store update without faults -/

theorem stUpdate_ok_of (s : State) (ip : IP) (r : Rec) (hf : s.fault = 0) (hs : (Tbl.get s.store ip).isSome = true) :
    (stUpdate s ip r).2 = true := by
  unfold stUpdate
  dsimp only
  have h1 : s.api.2 = false := by simp [State.api, hf]
  have h2 : s.api.1.api.2 = false := by simp [State.api, hf]
  cases hv : Tbl.get s.store ip with
  | none => rw [hv] at hs; simp at hs
  | some v => simp [h1, h2, hv]

/-- `updateAttr` without faults on coherent tables: succeeds, replaces exactly the record of `ip` -/
theorem updateAttr_ok_spec (s : State) (key : Key) (ip : IP) (a : Attr) (r : Rec) (hc : Coherent s) (hf : s.fault = 0)
    (hg : Tbl.get s.alloc ip = some r) (hk : r.key = key) :
    (updateAttr s key ip a).2 = .ok ∧
    (updateAttr s key ip a).1.alloc = Tbl.set s.alloc ip (r.assign r.key a s.clock) := by
  have hok := stUpdate_ok_of s ip (r.assign r.key a s.clock) hf (by rw [hc.agree, hg]; rfl)
  have st := stUpdate_step s ip (r.assign r.key a s.clock)
  unfold updateAttr
  rw [hg]
  dsimp only
  have hk' : ¬ r.key ≠ key := by simpa using hk
  rw [if_neg hk']
  simp only [hok, Bool.not_true, Bool.false_eq_true, ↓reduceIte, true_and]
  rw [st.alloc]

theorem updateAttr_fault (s : State) (key : Key) (ip : IP) (a : Attr) : (updateAttr s key ip a).1.fault = s.fault :=
  (updateAttr_chg s key ip a).frame.fault

theorem provAssign_fault (s : State) (node : String) (ip : IP) : (provAssign s node ip).1.fault = s.fault :=
  (provAssign_quiet s node ip).frame.fault

/-! ### the provider entry after `provAssign` -/

theorem prov_provAssign (s : State) (node : String) (ip j : IP) (hon : s.provOn = true) :
    Tbl.get (prov (provAssign s node ip).1) j =
      if (provAssign s node ip).2 = true ∧ ip = j then some node else Tbl.get (prov s) j := by
  rcases provAssign_cases s node ip hon with ⟨e, e2⟩ | hl
  · rw [e2, e]; simp
  · unfold prov
    rw [hl, provOf_snoc, get_applyCall]
    cases (provAssign s node ip).2 with
    | false => simp
    | true =>
      dsimp only
      by_cases hij : ip = j
      · simp [hij]
      · simp [hij]

/-! ### the assign / updateAttr loop -/

/-- what the loop needs to know about the addresses it is going to assign: stored under the key, naming this node - or,
    for the ones found before the allocation step (they get `updateAttr`), no node -/
def LoopPre (s : State) (k : Key) (node : String) (found : List IP) (l : List IP) : Prop :=
  ∀ ip, ip ∈ l → ∃ r, Tbl.get s.alloc ip = some r ∧ r.key = k ∧ (r.node = node ∨ (found.contains ip = true ∧ r.node = ""))

theorem bindLoop_core (k : Key) (node : String) (a : Attr) (found : List IP)
    (hnode : node ≠ "") (han : a.node = node) (hau : a.uid ≠ 0) (hkp : k.pod ≠ "") :
    ∀ (l : List IP) (s : State), Core s → (s.fault = 0 ∨ found = []) → LoopPre s k node found l →
      Core (bindLoop s k node a found l).1 ∧
      ((bindLoop s k node a found l).2 = .ok → ∀ ip, ip ∈ l → Tbl.get (prov (bindLoop s k node a found l).1) ip = some node) ∧
      (∀ j, Tbl.get (prov s) j = some node → Tbl.get (prov (bindLoop s k node a found l).1) j = some node) := by
  intro l
  induction l with
  | nil =>
    intro s h _ _
    refine ⟨h, fun _ ip hip => ?_, fun _ hj => hj⟩
    cases hip
  | cons ip t ih =>
    intro s h hf hpre
    obtain ⟨r, hr, hrk, hrn⟩ := hpre ip (by simp)
    -- the request is admissible
    have hadm : Tbl.get (prov s) ip = none ∨ Tbl.get (prov s) ip = some node := by
      cases hp : Tbl.get (prov s) ip with
      | none => exact Or.inl rfl
      | some m =>
        right
        obtain ⟨hm, r', hr', hnm⟩ := (h.j ip).1 m hp
        rw [hr] at hr'; cases hr'
        rcases hrn with e | ⟨_, e⟩
        · rw [← hnm, e]
        · exact absurd (hnm.symm.trans e) hm
    have pq := provAssign_quiet s node ip
    have pal := provAssign_alloc s node ip
    have plog := logOK_provAssign s node ip h.on h.log hadm
    have pprov := fun j => prov_provAssign s node ip j h.on
    have pon : (provAssign s node ip).1.provOn = true := by rw [pq.frame.provOn]; exact h.on
    unfold bindLoop
    dsimp only
    by_cases hok : (provAssign s node ip).2 = true
    · rw [if_neg (by simp [hok])]
      -- the provider now has ip on node
      have hpip : Tbl.get (prov (provAssign s node ip).1) ip = some node := by rw [pprov ip]; simp [hok]
      have hkeep1 : ∀ j, Tbl.get (prov s) j = some node → Tbl.get (prov (provAssign s node ip).1) j = some node := by
        intro j hj
        rw [pprov j]
        by_cases hij : ip = j
        · rw [if_pos ⟨hok, hij⟩]
        · rw [if_neg (fun hh => hij hh.2)]; exact hj
      by_cases hfound : found.contains ip = true
      · rw [if_pos hfound]
        have hf0 : s.fault = 0 := by
          rcases hf with h0 | hnil
          · exact h0
          · rw [hnil] at hfound; simp at hfound
        have us := updateAttr_ok_spec (provAssign s node ip).1 k ip a r (pq.coherent h.coh)
          (by rw [provAssign_fault]; exact hf0) (by rw [pal]; exact hr) hrk
        have uplog := updateAttr_plog (provAssign s node ip).1 k ip a
        have ualloc : ∀ j, Tbl.get (updateAttr (provAssign s node ip).1 k ip a).1.alloc j =
            if ip = j then some (r.assign r.key a (provAssign s node ip).1.clock) else Tbl.get s.alloc j := by
          intro j
          rw [us.2, Tbl.get_set, pal]
        have uprov : prov (updateAttr (provAssign s node ip).1 k ip a).1 = prov (provAssign s node ip).1 := by
          unfold prov; rw [uplog]
        have hcore : Core (updateAttr (provAssign s node ip).1 k ip a).1 := by
          refine ⟨updateAttr_coherent _ k ip a (pq.coherent h.coh),
            by rw [(updateAttr_chg _ k ip a).frame.provOn]; exact pon, fun j => ?_, by rw [uplog]; exact plog⟩
          rw [uprov, ualloc j, pprov j]
          by_cases hij : ip = j
          · subst hij
            simp only [hok, and_self, ↓reduceIte]
            refine ⟨fun m hm => ?_, fun r' hr' hz => ?_⟩
            · cases hm
              exact ⟨hnode, _, rfl, han⟩
            · cases hr'
              rcases hz with hz | hz
              · exact absurd (by simpa [Rec.assign, hrk] using hz) hkp
              · exact absurd (by simpa [Rec.assign] using hz) hau
          · simp only [hij, and_false, ↓reduceIte]
            exact h.j j
        have hpre' : LoopPre (updateAttr (provAssign s node ip).1 k ip a).1 k node found t := by
          intro j hj
          rw [ualloc j]
          by_cases hij : ip = j
          · subst hij
            rw [if_pos rfl]
            exact ⟨r.assign r.key a (provAssign s node ip).1.clock, rfl, hrk, Or.inl han⟩
          · rw [if_neg hij]
            exact hpre j (by simp [hj])
        have r2 := ih _ hcore (hf.imp (fun h0 => by rw [updateAttr_fault, provAssign_fault]; exact h0) id) hpre'
        simp only [us.1]
        refine ⟨r2.1, fun hres j hj => ?_, fun j hj => r2.2.2 j (by rw [uprov]; exact hkeep1 j hj)⟩
        rcases List.mem_cons.mp hj with e | e
        · subst e; exact r2.2.2 _ (by rw [uprov]; exact hpip)
        · exact r2.2.1 hres j e
      · rw [if_neg hfound]
        have hrnode : r.node = node := by
          rcases hrn with e | ⟨e, _⟩
          · exact e
          · exact absurd e hfound
        have hcore : Core (provAssign s node ip).1 := by
          refine ⟨pq.coherent h.coh, pon, fun j => ?_, plog⟩
          rw [pal, pprov j]
          by_cases hij : ip = j
          · subst hij
            simp only [hok, and_self, ↓reduceIte]
            refine ⟨fun m hm => ?_, (h.j ip).2⟩
            cases hm
            exact ⟨hnode, r, hr, hrnode⟩
          · simp only [hij, and_false, ↓reduceIte]
            exact h.j j
        have hpre' : LoopPre (provAssign s node ip).1 k node found t := by
          intro j hj; rw [pal]; exact hpre j (by simp [hj])
        have r2 := ih _ hcore (hf.imp (fun h0 => by rw [provAssign_fault]; exact h0) id) hpre'
        refine ⟨r2.1, fun hres j hj => ?_, fun j hj => r2.2.2 j (hkeep1 j hj)⟩
        rcases List.mem_cons.mp hj with e | e
        · subst e; exact r2.2.2 _ hpip
        · exact r2.2.1 hres j e
    · rw [if_pos (by simp [hok])]
      have hsame : ∀ j, Tbl.get (prov (provAssign s node ip).1) j = Tbl.get (prov s) j := by
        intro j; rw [pprov j]; simp [hok]
      refine ⟨⟨pq.coherent h.coh, pon, fun j => ?_, plog⟩, fun hres => ?_, fun j hj => ?_⟩
      · rw [pal, hsame j]; exact h.j j
      · cases hres
      · rw [hsame j]; exact hj

/-! ### the allocation step, with the node it stores -/

theorem bindAlloc_ipsN (s : State) (pod : Pod) (node : String) (policy : Nat) (infos : List (Option IP)) (pick : Option IP)
    (h : Coherent s)
    (hinfos : infos = byKeyAndRanges s (keyOf pod) pod.ranges ∨ (pod.ranges.isEmpty = true ∧ ¬ infos.isEmpty = true)) :
    Chg isFree (hasKNU (keyOf pod) node pod.uid) s
      (bindAlloc s pod node { policy := policy, node := node, uid := pod.uid } infos pick).1 ∧
    ((bindAlloc s pod node { policy := policy, node := node, uid := pod.uid } infos pick).2.1 = .ok →
      ∀ ip, ip ∈ (bindAlloc s pod node { policy := policy, node := node, uid := pod.uid } infos pick).2.2.filterMap id →
        ip ∈ infos.filterMap id ∨ hasKNU (keyOf pod) node pod.uid
          (Tbl.get (bindAlloc s pod node { policy := policy, node := node, uid := pod.uid } infos pick).1.alloc ip)) := by
  unfold bindAlloc
  split
  · rename_i hcond
    have qq := queryNodeSubnet_quiet s node
    split
    · exact ⟨qq.1.chg, fun hr => by cases hr⟩
    · rename_i n _
      have hq := qq.1.coherent h
      have c := allocateInSubnetsAndRanges_chgN (queryNodeSubnet s node).1 (keyOf pod) n (unfoundRanges infos pod.ranges)
        { policy := policy, node := node, uid := pod.uid } pick hq
      have hc := allocateInSubnetsAndRanges_coherent (queryNodeSubnet s node).1 (keyOf pod) n (unfoundRanges infos pod.ranges)
        { policy := policy, node := node, uid := pod.uid } pick hq
      have ctot : Chg isFree (hasKNU (keyOf pod) node pod.uid) s
          (allocateInSubnetsAndRanges (queryNodeSubnet s node).1 (keyOf pod) n (unfoundRanges infos pod.ranges)
            { policy := policy, node := node, uid := pod.uid } pick).1 := (qq.1.chg).trans c
      refine ⟨ctot, fun hok ip hip => ?_⟩
      have hk2 := byKeyAndRanges_mem _ (hc (Or.inr hok)).allocNodup (keyOf pod) pod.ranges ip hip
      rcases ctot.recs ip with e | ⟨_, hnew⟩
      · left
        rw [e] at hk2
        have hmono : ∀ x, ownsB s (keyOf pod) x = true → ownsB (allocateInSubnetsAndRanges (queryNodeSubnet s node).1
            (keyOf pod) n (unfoundRanges infos pod.ranges) { policy := policy, node := node, uid := pod.uid } pick).1
            (keyOf pod) x = true := by
          intro x hx
          rw [ownsB_iff] at hx ⊢
          rcases ctot.recs x with e' | ⟨hfree, _⟩
          · rw [e']; exact hx
          · obtain ⟨r, hr, _⟩ := hx
            rw [hfree] at hr; cases hr
        have hfirst := byKeyAndRanges_second s _ (keyOf pod) pod.ranges hmono ip hip ((ownsB_iff s _ ip).mpr hk2)
        rcases hinfos with hi | ⟨hre, hne⟩
        · rw [hi]; exact hfirst
        · exfalso
          have hu : unfoundRanges infos pod.ranges = [] := by
            have : pod.ranges = [] := by simpa using hre
            unfold unfoundRanges; rw [this]; simp
          simp [hu, hne] at hcond
      · exact Or.inr hnew
  · exact ⟨Chg.refl _ _ s, fun _ ip hip => Or.inl hip⟩

theorem pickFirst_mem (infos : List (Option IP)) (first : Option IP) (ip : IP) (h : pickFirst infos first = some ip) :
    some ip ∈ infos := by
  unfold pickFirst at h
  split at h
  · rename_i j
    split at h
    · rename_i hc
      cases h
      simpa using hc
    · cases h
  · split at h
    · cases h; simp
    · cases h

/-- the addresses `bindInfos` hands on are addresses the key owns -/
theorem bindInfos_mem (s : State) (pod : Pod) (ch : Choice) (infos : List (Option IP)) (h : bindInfos s pod ch = some infos)
    (ip : IP) (hip : ip ∈ infos.filterMap id) : ip ∈ (byKeyAndRanges s (keyOf pod) pod.ranges).filterMap id := by
  unfold bindInfos at h
  split at h
  · cases hp : pickFirst (byKeyAndRanges s (keyOf pod) pod.ranges) ch.first with
    | none => rw [hp] at h; simp at h
    | some j =>
      rw [hp] at h
      simp only [Option.map_some, Option.some.injEq] at h
      subst h
      have : ip = j := by simpa using hip
      subst this
      simp only [List.mem_filterMap, id]
      exact ⟨some ip, pickFirst_mem _ _ _ hp, rfl⟩
  · have : infos = byKeyAndRanges s (keyOf pod) pod.ranges := by simpa using h.symm
    rw [← this]; exact hip

theorem toHInfo_ip (s : State) (ip : IP) : (toHInfo s ip).ip = ip := by
  unfold toHInfo; split <;> rfl

/-- what Bind leaves behind -/
structure BindPost (s : State) (ns name node : String) (s' : State) : Prop where
  core : Core s'
  /-- the pod table is untouched, or the pod `(ns, name)` was bound to `node` with addresses now assigned to `node` -/
  pods : s'.pods = s.pods ∨ ∃ (tp : Pod) (H : List HInfo), Tbl.get s.pods (ns, name) = some tp ∧
    s'.pods = Tbl.set s.pods (ns, name) { tp with node := node, handed := H } ∧
    ∀ hd, hd ∈ H → Tbl.get (prov s') hd.ip = some node

theorem bindCommit_eff (s : State) (pod : Pod) (ns name : String) (uid : Nat) (node : String) (ips : List IP) :
    (bindCommit s pod ns name uid node ips).1.alloc = s.alloc ∧ (bindCommit s pod ns name uid node ips).1.store = s.store ∧
    (bindCommit s pod ns name uid node ips).1.free = s.free ∧ (bindCommit s pod ns name uid node ips).1.pools = s.pools ∧
    (bindCommit s pod ns name uid node ips).1.provOn = s.provOn ∧ (bindCommit s pod ns name uid node ips).1.plog = s.plog ∧
    ((bindCommit s pod ns name uid node ips).1.pods = s.pods ∨ ∃ tp, Tbl.get s.pods (ns, name) = some tp ∧
      (bindCommit s pod ns name uid node ips).1.pods =
        Tbl.set s.pods (ns, name) { tp with node := node, handed := ips.map (toHInfo s) }) := by
  unfold bindCommit
  generalize ht : (if s.api.2 = true then s.api.1.api.1 else s.api.1) = t
  have h1 : t.alloc = s.alloc := by rw [← ht]; split <;> rfl
  have h2 : t.store = s.store := by rw [← ht]; split <;> rfl
  have h3 : t.free = s.free := by rw [← ht]; split <;> rfl
  have h4 : t.pools = s.pools := by rw [← ht]; split <;> rfl
  have h5 : t.provOn = s.provOn := by rw [← ht]; split <;> rfl
  have h6 : t.plog = s.plog := by rw [← ht]; split <;> rfl
  have h7 : t.pods = s.pods := by rw [← ht]; split <;> rfl
  split
  · exact ⟨h1, h2, h3, h4, h5, h6, Or.inl h7⟩
  · rename_i tp htp
    split
    · exact ⟨h1, h2, h3, h4, h5, h6, Or.inl h7⟩
    · refine ⟨h1, h2, h3, h4, h5, h6, Or.inr ⟨tp, by rw [← h7]; exact htp, ?_⟩⟩
      show Tbl.set t.pods (ns, name) _ = _
      rw [h7]

theorem bind_post (s : State) (ns name : String) (uid : Nat) (node : String) (ch : Choice) (h : Core s)
    (hcm : s.crashMode = false)
    (hf : s.fault = 0 ∨ bindNoReuse s ns name ch = true) (hsame : bindSameNode s ns name node = true)
    (hl : ∀ pod, Tbl.get s.vPods (ns, name) = some pod → (keyOf pod).pod ≠ "" ∧ pod.uid ≠ 0) :
    BindPost s ns name node (Plugin.bind Facts.good s ns name uid node ch).1 := by
  have same : BindPost s ns name node s := ⟨h, Or.inl rfl⟩
  unfold Plugin.bind
  split
  · exact same
  · rename_i pod hpod
    obtain ⟨hkp, hu0⟩ := hl pod hpod
    have hnode : node ≠ "" := by
      unfold bindSameNode at hsame
      simp only [Bool.and_eq_true, decide_eq_true_eq] at hsame
      exact hsame.1
    have hrecs : ∀ ip r, Tbl.get s.alloc ip = some r → r.key = keyOf pod → (r.uid = 0 ∨ r.uid = pod.uid) →
        r.node = "" ∨ r.node = node := by
      intro ip r hr hk hu
      unfold bindSameNode at hsame
      rw [hpod] at hsame
      simp only [Bool.and_eq_true, decide_eq_true_eq, List.all_eq_true, Bool.or_eq_true, beq_iff_eq, bne_iff_ne] at hsame
      have := hsame.2 (ip, r) (Tbl.get_mem hr)
      rcases this with ((h1 | h1) | h1) | h1
      · exact absurd hk (by simpa using h1)
      · rcases hu with hu | hu
        · exact absurd hu h1.1
        · exact absurd hu h1.2
      · exact Or.inl h1
      · exact Or.inr h1
    split
    · exact same
    · split
      · exact same
      · split
        · exact same
        · rename_i infos hinf
          split
          · exact same
          · rename_i hguard
            -- the UID guard passed: every record of the key belongs to this incarnation or to none
            have hguard' : ∀ ip r, Tbl.get s.alloc ip = some r → r.key = keyOf pod → r.uid = 0 ∨ r.uid = pod.uid := by
              intro ip r hr hk
              simp only [Facts.good, Bool.true_and, bindGuardIPs, ↓reduceIte, List.any_eq_true, not_exists, not_and] at hguard
              have := hguard ip (mem_ipsOfKey_of_get hr hk)
              rw [hr] at this
              simp only [Bool.and_eq_true, bne_iff_ne, ne_eq, not_and, Decidable.not_not] at this
              by_cases h0 : r.uid = 0
              · exact Or.inl h0
              · exact Or.inr (this h0)
            have hshape : infos = byKeyAndRanges s (keyOf pod) pod.ranges ∨ (pod.ranges.isEmpty = true ∧ ¬ infos.isEmpty = true) := by
              unfold bindInfos at hinf
              split at hinf
              · rename_i hc
                right
                simp only [Bool.and_eq_true] at hc
                refine ⟨hc.1, ?_⟩
                cases hp : pickFirst (byKeyAndRanges s (keyOf pod) pod.ranges) ch.first with
                | none => rw [hp] at hinf; simp at hinf
                | some ip => rw [hp] at hinf; simp at hinf; subst hinf; simp
              · left; simpa using hinf.symm
            have spec := bindAlloc_spec s pod node (policyOf pod) infos ch.pick h.coh hshape
            have bn := bindAlloc_ipsN s pod node (policyOf pod) infos ch.pick h.coh hshape
            generalize hb : bindAlloc s pod node { policy := policyOf pod, node := node, uid := pod.uid } infos ch.pick = ba at *
            have cb : Core ba.1 := by
              refine ⟨spec.coherent (Or.inl hcm), by rw [bn.1.frame.provOn]; exact h.on,
                J_of_chg h.j bn.1 spec.plog (fun ip ho => (h.j ip).unassigned_of_free ho) (fun o hn r hr hz => ?_),
                by rw [spec.plog]; exact h.log⟩
              obtain ⟨r', h1, h2, _, h4⟩ := hn
              rw [h1] at hr; cases hr
              rcases hz with hz | hz
              · exact absurd (by rw [← h2]; exact hz) hkp
              · exact absurd (h4.symm.trans hz) hu0
            have pb : BindPost s ns name node ba.1 := ⟨cb, Or.inl bn.1.frame.pods⟩
            split
            · exact same
            · exact pb
            · rename_i hres
              have hpre : LoopPre ba.1 (keyOf pod) node (infos.filterMap id) (ba.2.2.filterMap id) := by
                intro ip hip
                rcases bn.2 hres ip hip with hfound | ⟨r, hr, hk, hn, _⟩
                · obtain ⟨r, hr, hk⟩ := byKeyAndRanges_mem s h.coh.allocNodup (keyOf pod) pod.ranges ip
                    (bindInfos_mem s pod ch infos hinf ip hfound)
                  have hsame' : Tbl.get ba.1.alloc ip = some r := by
                    rcases bn.1.recs ip with e | ⟨hfree, _⟩
                    · rw [e]; exact hr
                    · rw [hfree] at hr; cases hr
                  refine ⟨r, hsame', hk, ?_⟩
                  rcases hrecs ip r hr hk (hguard' ip r hr hk) with e | e
                  · exact Or.inr ⟨by simpa using hfound, e⟩
                  · exact Or.inl e
                · exact ⟨r, hr, hk, Or.inl hn⟩
              have hf' : ba.1.fault = 0 ∨ infos.filterMap id = [] := by
                rcases hf with h0 | hnr
                · left; rw [bn.1.frame.fault]; exact h0
                · right
                  unfold bindNoReuse at hnr
                  rw [hpod] at hnr
                  simp only [hinf] at hnr
                  simpa using hnr
              have lp := bindLoop_core (keyOf pod) node { policy := policyOf pod, node := node, uid := pod.uid }
                (infos.filterMap id) hnode rfl hu0 hkp (ba.2.2.filterMap id) ba.1 cb hf' hpre
              have lspec := bindLoop_spec (keyOf pod) node { policy := policyOf pod, node := node, uid := pod.uid }
                (infos.filterMap id) (ba.2.2.filterMap id) ba.1 cb.coh
              have lpods : (bindLoop ba.1 (keyOf pod) node { policy := policyOf pod, node := node, uid := pod.uid }
                  (infos.filterMap id) (ba.2.2.filterMap id)).1.pods = s.pods :=
                lspec.2.1.frame.pods.trans bn.1.frame.pods
              generalize hbl : bindLoop ba.1 (keyOf pod) node { policy := policyOf pod, node := node, uid := pod.uid }
                  (infos.filterMap id) (ba.2.2.filterMap id) = bl at *
              split
              · rename_i hlres
                rcases bindFinish_good_state bl.1 pod ns name uid node (ba.2.2.filterMap id) ch.answer with ex | ex
                · rw [ex]
                  exact ⟨lp.1.of_eq rfl rfl rfl rfl rfl rfl, Or.inl lpods⟩
                · rw [ex]
                  have ce := bindCommit_eff bl.1 pod ns name uid node (ba.2.2.filterMap id)
                  obtain ⟨e1, e2, e3, e4, e5, e6, e7⟩ := ce
                  have cc : Core (bindCommit bl.1 pod ns name uid node (ba.2.2.filterMap id)).1 := lp.1.of_eq e4 e1 e2 e3 e5 e6
                  have hprov : prov (bindCommit bl.1 pod ns name uid node (ba.2.2.filterMap id)).1 = prov bl.1 := by
                    unfold prov; rw [e6]
                  refine ⟨cc, ?_⟩
                  rcases e7 with e7 | ⟨tp, htp, e7⟩
                  · exact Or.inl (e7.trans lpods)
                  · right
                    refine ⟨tp, (ba.2.2.filterMap id).map (toHInfo bl.1), by rw [← lpods]; exact htp, by rw [e7, lpods], ?_⟩
                    intro hd hhd
                    obtain ⟨ip, hip, rfl⟩ := List.mem_map.mp hhd
                    rw [toHInfo_ip, hprov]
                    exact lp.2.1 hlres ip hip
              · exact ⟨lp.1, Or.inl lpods⟩

end Galaxy.PluginC10
