/-
  C10 proofs, part 2: the pointwise relation between the record stored for an address and the provider's entry for it
  (`RecOK`, `J`), the changes of records the IPAM functions make WITH the node name they store (`hasKNU`), and the
  two provider primitives.
-/
import Galaxy.Lemmas.C10Log
import Galaxy.Lemmas.PluginUnbind
import Galaxy.Lemmas.PluginMulti

namespace Galaxy.PluginC10
open Galaxy Galaxy.Plugin

/-- the address is stored under key `k` with node `n` and uid `u` -/
def hasKNU (k : Key) (n : String) (u : Uid) : Option Rec → Prop := fun o => ∃ r, o = some r ∧ r.key = k ∧ r.node = n ∧ r.uid = u

/-- record `o` and provider entry `a` of one address fit together: the provider has the address assigned only to the
    node the record names ("stored node name per IP = where the provider has the IP assigned"), and a record that
    belongs to no pod (bare deployment / pool prefix) or to no incarnation (uid cleared) names no node -/
def RecOK (o : Option Rec) (a : Option String) : Prop :=
  (∀ m, a = some m → m ≠ "" ∧ ∃ r, o = some r ∧ r.node = m) ∧
  (∀ r, o = some r → (r.key.pod = "" ∨ r.uid = 0) → r.node = "")

/-- the provider's assignment table, as the call log determines it -/
def prov (s : State) : Tbl IP String := provOf s.plog

def J (s : State) : Prop := ∀ ip, RecOK (Tbl.get s.alloc ip) (Tbl.get (prov s) ip)

theorem RecOK.unassigned_of_node {o : Option Rec} {a : Option String} (h : RecOK o a) (r : Rec) (ho : o = some r)
    (hn : r.node = "") : a = none := by
  cases ha : a with
  | none => rfl
  | some m =>
    obtain ⟨hm, r', hr', hnode⟩ := h.1 m ha
    rw [ho] at hr'; cases hr'
    exact absurd (hnode.symm.trans hn) hm

theorem RecOK.unassigned_of_free {o : Option Rec} {a : Option String} (h : RecOK o a) (ho : o = none) : a = none := by
  cases ha : a with
  | none => rfl
  | some m =>
    obtain ⟨_, r', hr', _⟩ := h.1 m ha
    rw [ho] at hr'; cases hr'

/-- a new record for an unassigned address -/
theorem RecOK.of_unassigned (o : Option Rec) (h : ∀ r, o = some r → (r.key.pod = "" ∨ r.uid = 0) → r.node = "") :
    RecOK o none := by
  refine ⟨fun m hm => ?_, h⟩
  cases hm

/-! ### changes of records, with the node they store -/

theorem hasKNU_cleared (k : Key) (o : Option Rec) (h : hasKNU k "" 0 o) :
    ∀ r, o = some r → (r.key.pod = "" ∨ r.uid = 0) → r.node = "" := by
  intro r hr _
  obtain ⟨r', h1, _, h3, _⟩ := h
  rw [h1] at hr; cases hr; exact h3

theorem allocateInSubnet_chgN (s : State) (key : Key) (n : Subnet) (a : Attr) (ch : Option IP) (h : Coherent s) :
    Chg isFree (hasKNU key a.node a.uid) s (allocateInSubnet s key n a ch).1 := by
  unfold allocateInSubnet
  dsimp only
  split
  · exact Chg.refl _ _ s
  · split
    · exact Chg.refl _ _ s
    · rename_i ip
      split
      · exact Chg.refl _ _ s
      · rename_i hin
        have hin' : ip ∈ s.free := by
          have : ip ∈ s.free.filter (fun ip => hasSubnet s ip n) := by simpa using hin
          exact (List.mem_filter.mp this).1
        have st := stCreate_step s ip (mkRec key a s.clock)
        split
        · exact Chg.of_alloc_eq st.frame st.alloc
        · exact Chg.single ip s.alloc (st.frame.trans (memAlloc_frame _ _ _)) (fun j hj => by simp [st.alloc, hj])
            (h.disjoint ip hin') ⟨mkRec key a s.clock, by simp [st.alloc], rfl, rfl, rfl⟩

theorem allocateInSubnetWithKey_chgN (s : State) (oldK newK : Key) (n : Subnet) (a : Attr) (ch : Option IP) :
    Chg (hasKey oldK) (hasKNU newK a.node a.uid) s (allocateInSubnetWithKey s oldK newK n a ch).1 := by
  unfold allocateInSubnetWithKey
  dsimp only
  split
  · exact Chg.refl _ _ s
  · split
    · exact Chg.refl _ _ s
    · rename_i ip
      split
      · exact Chg.refl _ _ s
      · rename_i r hr
        split
        · exact Chg.refl _ _ s
        · rename_i hadm
          have hk : r.key = oldK := by
            simp only [Bool.not_eq_eq_eq_not, Bool.not_true, Bool.not_eq_false, Bool.and_eq_true,
              decide_eq_true_eq] at hadm
            exact hadm.1.1
          have st := stUpdate_step s ip (r.assign newK a s.clock)
          split
          · exact Chg.of_alloc_eq st.frame st.alloc
          · exact Chg.single ip s.alloc (st.frame.trans (frame_setAlloc _ _))
              (fun j hj => by simp [st.alloc, hj]) ⟨r, hr, hk⟩ ⟨r.assign newK a s.clock, by simp [st.alloc], rfl, rfl, rfl⟩

theorem updateAttr_chgN (s : State) (key : Key) (ip : IP) (a : Attr) :
    Chg (hasKey key) (hasKNU key a.node a.uid) s (updateAttr s key ip a).1 := by
  unfold updateAttr
  dsimp only
  split
  · exact Chg.refl _ _ s
  · rename_i r hr
    split
    · exact Chg.refl _ _ s
    · rename_i hk
      have hk' : r.key = key := by simpa using hk
      have st := stUpdate_step s ip (r.assign r.key a s.clock)
      split
      · exact Chg.of_alloc_eq st.frame st.alloc
      · exact Chg.single ip s.alloc (st.frame.trans (frame_setAlloc _ _))
          (fun j hj => by simp [st.alloc, hj]) ⟨r, hr, hk'⟩ ⟨r.assign r.key a s.clock, by simp [st.alloc], hk', rfl, rfl⟩

theorem reserveLoop_chgN (oldK newK : Key) (a : Attr) (ips : List IP) :
    ∀ s, Chg (hasKey oldK) (hasKNU newK a.node a.uid) s (reserveLoop s oldK newK a ips).1 := by
  induction ips with
  | nil => intro s; exact Chg.refl _ _ s
  | cons ip t ih =>
    intro s
    unfold reserveLoop
    split
    · exact ih s
    · rename_i r hr
      dsimp only
      split
      · exact ih s
      · rename_i hk
        have hk' : r.key = oldK := by simpa using hk
        split
        · exact ih s
        · have st := stUpdate_step s ip (r.assign newK { a with policy := r.policy } s.clock)
          split
          · exact Chg.of_alloc_eq st.frame st.alloc
          · refine Chg.trans ?_ (ih _)
            exact Chg.single ip s.alloc (st.frame.trans (frame_setAlloc _ _)) (fun j hj => by simp [st.alloc, hj])
              ⟨r, hr, hk'⟩ ⟨r.assign newK { a with policy := r.policy } s.clock, by simp [st.alloc], rfl, rfl, rfl⟩

theorem reserve_chgN (s : State) (oldK newK : Key) (a : Attr) :
    Chg (hasKey oldK) (hasKNU newK a.node a.uid) s (reserve s oldK newK a).1 := reserveLoop_chgN oldK newK a _ s

theorem allocateInSubnetsAndRanges_chgN (s : State) (key : Key) (n : Subnet) (rss : List (List (Nat × Nat)))
    (a : Attr) (ch : Option IP) (h : Coherent s) :
    Chg isFree (hasKNU key a.node a.uid) s (allocateInSubnetsAndRanges s key n rss a ch).1 := by
  unfold allocateInSubnetsAndRanges
  split
  · exact allocateInSubnet_chgN s key n a ch h
  · split
    · exact Chg.refl _ _ s
    · rename_i picks hp
      obtain ⟨hfree, hnd⟩ := pickRanges_spec s n rss [] picks hp (by simp) (by simp)
      have hm0 : Mid s s (mkRec key a s.clock) [] := ⟨⟨Frame.refl s, rfl, rfl⟩, fun j => by simp⟩
      have hT : ∀ j, j ∈ picks → Tbl.get s.store j = none ∧ j ∉ ([] : List IP) := fun j hj =>
        ⟨by rw [h.agree]; exact h.disjoint j (hfree j hj), by simp⟩
      have sp := createAll_spec s (mkRec key a s.clock) picks [] s hm0 hT hnd
      dsimp only
      split
      · have st := (createAll_persist (mkRec key a s.clock) picks [] s).1
        exact Chg.of_alloc_eq st.frame st.alloc
      · rename_i hc
        have hc' : (createAll s (mkRec key a s.clock) [] picks).2 = true := by simpa using hc
        have hm := sp.1 hc'
        have fr := memAllocAll_frame (mkRec key a s.clock) picks (createAll s (mkRec key a s.clock) [] picks).1
        refine ⟨hm.step.frame.trans fr, fun j => ?_⟩
        rw [memAllocAll_get, hm.step.alloc]
        by_cases hjp : j ∈ picks
        · right
          exact ⟨h.disjoint j (hfree j hjp), ⟨mkRec key a s.clock, by simp [hjp], rfl, rfl, rfl⟩⟩
        · left; simp [hjp]

/-- what unbind leaves of the records of key `k`: released, or cleared (under `k` or under its deployment / pool
    prefix) -/
def Cleared (k : Key) : Option Rec → Prop := fun o => o = none ∨ hasKNU k "" 0 o ∨ hasKNU k.poolPrefix "" 0 o

theorem releaseIP_chgC (s : State) (k : Key) : Chg (hasKey k) (Cleared k) s (releaseIP s k).1 :=
  (releaseIP_chg s k).mono (fun _ h => h) (fun _ h => Or.inl h)

theorem reserveSelf_chgC (s : State) (k : Key) : Chg (hasKey k) (Cleared k) s (reserve s k k {}).1 :=
  (reserve_chgN s k k {}).mono (fun _ h => h) (fun _ h => Or.inr (Or.inl h))

theorem reservePre_chgC (s : State) (k : Key) : Chg (hasKey k) (Cleared k) s (reserve s k k.poolPrefix {}).1 :=
  (reserve_chgN s k k.poolPrefix {}).mono (fun _ h => h) (fun _ h => Or.inr (Or.inr h))

theorem release_chgC (s : State) (k : Key) (ip : IP) : Chg (hasKey k) (Cleared k) s (release s k ip).1 :=
  (release_chg s k ip).mono (fun _ h => h) (fun _ h => Or.inl h)

theorem unbindOther_chgC (s : State) (k : Key) (policy : Nat) : Chg (hasKey k) (Cleared k) s (unbindOther s k policy).1 := by
  unfold unbindOther
  split
  · exact releaseIP_chgC s k
  · split
    · exact reserveSelf_chgC s k
    · split
      · split
        · exact Chg.refl _ _ s
        · split
          · exact releaseIP_chgC s k
          · split
            · exact Chg.refl _ _ s
            · split
              · exact releaseIP_chgC s k
              · exact reserveSelf_chgC s k
      · exact Chg.refl _ _ s

theorem unbindDp_chgC (s : State) (k : Key) (policy : Nat) : Chg (hasKey k) (Cleared k) s (unbindDp s k policy).1 := by
  unfold unbindDp
  dsimp only
  split
  · exact releaseIP_chgC s k
  · split
    · split
      · exact reservePre_chgC s k
      · exact Chg.refl _ _ s
    · split
      · exact releaseIP_chgC s k
      · split
        · exact releaseIP_chgC s k
        · split
          · exact reservePre_chgC s k
          · exact Chg.refl _ _ s

theorem cleared_ok (k : Key) (o : Option Rec) (h : Cleared k o) :
    ∀ r, o = some r → (r.key.pod = "" ∨ r.uid = 0) → r.node = "" := by
  rcases h with h | h | h
  · intro r hr; rw [h] at hr; cases hr
  · exact hasKNU_cleared _ o h
  · exact hasKNU_cleared _ o h

/-! ### `J` under changes of records (the call log untouched) -/

/-- records change only at unassigned addresses, and the new records name a node only if they belong to a pod
    incarnation -/
theorem J_of_chg {old new : Option Rec → Prop} {s s' : State} (hj : J s) (c : Chg old new s s') (hp : s'.plog = s.plog)
    (hold : ∀ ip, old (Tbl.get s.alloc ip) → Tbl.get (prov s) ip = none)
    (hnew : ∀ o, new o → ∀ r, o = some r → (r.key.pod = "" ∨ r.uid = 0) → r.node = "") : J s' := by
  intro ip
  have hpr : prov s' = prov s := by unfold prov; rw [hp]
  rw [hpr]
  rcases c.recs ip with e | ⟨ho, hn⟩
  · rw [e]; exact hj ip
  · rw [hold ip ho]
    exact RecOK.of_unassigned _ (hnew _ hn)

theorem J_of_alloc_eq {s s' : State} (hj : J s) (ha : s'.alloc = s.alloc) (hp : s'.plog = s.plog) : J s' := by
  intro ip
  unfold prov
  rw [ha, hp]; exact hj ip

/-! ### the provider primitives -/

theorem provAssign_alloc (s : State) (node : String) (ip : IP) : (provAssign s node ip).1.alloc = s.alloc :=
  (provAssign_quiet s node ip).alloc

theorem provUnassign_alloc (s : State) (node : String) (ip : IP) : (provUnassign s node ip).1.alloc = s.alloc :=
  (provUnassign_quiet s node ip).alloc

theorem J_provUnassign (s : State) (node : String) (ip : IP) (hon : s.provOn = true) (hj : J s) :
    J (provUnassign s node ip).1 := by
  rcases provUnassign_cases s node ip hon with ⟨e, _⟩ | hl
  · rw [e]; exact hj
  · intro j
    unfold prov
    rw [hl, provOf_snoc, get_applyCall, provUnassign_alloc]
    cases hok : (provUnassign s node ip).2 with
    | false => exact hj j
    | true =>
      dsimp only
      by_cases hij : ip = j
      · rw [if_pos hij]
        exact RecOK.of_unassigned _ (hj j).2
      · rw [if_neg hij]; exact hj j

/-- after a successful UnAssign the provider has the address unassigned -/
theorem prov_provUnassign_ok (s : State) (node : String) (ip : IP) (hon : s.provOn = true)
    (hok : (provUnassign s node ip).2 = true) : Tbl.get (prov (provUnassign s node ip).1) ip = none := by
  rcases provUnassign_cases s node ip hon with ⟨_, e⟩ | hl
  · rw [e] at hok; cases hok
  · unfold prov
    rw [hl, provOf_snoc, get_applyCall, hok]
    simp

theorem prov_provUnassign_other (s : State) (node : String) (ip j : IP) (hon : s.provOn = true)
    (h : Tbl.get (prov s) j = none) : Tbl.get (prov (provUnassign s node ip).1) j = none := by
  rcases provUnassign_cases s node ip hon with ⟨e, _⟩ | hl
  · rw [e]; exact h
  · unfold prov
    rw [hl, provOf_snoc, get_applyCall]
    cases (provUnassign s node ip).2 with
    | false => exact h
    | true =>
      dsimp only
      by_cases hij : ip = j
      · rw [if_pos hij]
      · rw [if_neg hij]; exact h

theorem logOK_provUnassign (s : State) (node : String) (ip : IP) (hon : s.provOn = true) (h : logOK s.plog = true) :
    logOK (provUnassign s node ip).1.plog = true := by
  rcases provUnassign_cases s node ip hon with ⟨e, _⟩ | hl
  · rw [e]; exact h
  · rw [hl, logOK_snoc, h]
    rfl

theorem logOK_provAssign (s : State) (node : String) (ip : IP) (hon : s.provOn = true) (h : logOK s.plog = true)
    (hadm : Tbl.get (prov s) ip = none ∨ Tbl.get (prov s) ip = some node) :
    logOK (provAssign s node ip).1.plog = true := by
  rcases provAssign_cases s node ip hon with ⟨e, _⟩ | hl
  · rw [e]; exact h
  · rw [hl, logOK_snoc, h]
    simp only [Bool.true_and, callOK]
    unfold prov at hadm
    rcases hadm with h0 | h0 <;> rw [h0] <;> simp

end Galaxy.PluginC10
