/-
  C07 proofs, part 4: every interleaving.  The invariant `CInv` of the two-phase model (`cstep`): the IPAM tables are
  coherent, every pool has a node subnet, every pending action that is going to add members to a pool holds the lock
  string of that pool, no lock string is held twice, and every pending action still has its budget (`Budget`: the
  count it made is still an upper bound).  Preserved by every move of `CMove` whose side condition (`callowed`)
  holds; with it the bound `cnt' ≤ max cnt (size seen)` holds for every step.
-/
import Galaxy.Lemmas.C07Conf
import Galaxy.Lemmas.PluginMain

namespace Galaxy.PluginC07
open Galaxy Galaxy.Plugin

/-! ### the moves the theorems quantify over -/

/-- pool `P` is not a sized pool and nobody is working on it: no Pool object of that name exists (API truth) and no
    pending action counts or allocates for it -/
def poolIdle (cs : CState) (P : String) : Bool :=
  (cs.base.poolObjs.get P).isNone && cs.pend.all (fun p => p.pool != P)

/-- the pod the scheduler binds belongs to no sized pool (`poolIdle`) -/
def bindUnsized (cs : CState) (ns name : String) : Bool :=
  match cs.base.vPods.get (ns, name) with
  | none => true
  | some pod => poolIdle cs (keyOf pod).pool

/-- side conditions of the atomic moves.  EVERY move of the plugin model is in the move set; four carry a condition:
    * `bind`: the bind allocates nothing for a pod with a pool annotation (`bindOK`: the pod owns an address for every
      request - what a Filter that saw the Pool object leaves behind, `filter_that_saw_pool_makes_bind_ok`), or the pod's
      pool is not a sized pool at that moment (`bindUnsized`);
    * `syncPodIPs`, `markTerminating` (UpdatePod runs `syncPodIP` for a Running pod): the pass re-creates no record of a
      pool (`syncOK`, `termOK`);
    * `reload`: every pool of the new configuration has a node subnet, and no store object orphaned by an earlier
      reload belongs to a pool (`orphanFree`); `restart`: `orphanFree`. -/
def allowed (cs : CState) : Move7 → Bool
  | .base (.reload pools _) => wfPoolsB pools && orphanFree cs.base
  | .base .restart => orphanFree cs.base
  | .base (.syncPodIPs _) => syncOK cs.base
  | .base (.markTerminating ns name _) => termOK cs.base ns name
  | .base (.bind ns name _ _ ch _ _) => bindOK cs.base ns name ch || bindUnsized cs ns name
  | _ => true

def callowed (cs : CState) : CMove → Bool
  | .plain m => allowed cs m
  | _ => true

theorem same_lock_key (P t n a : String) (hP : P ≠ "") :
    Generated.C07.filterLockKey P t n a = Generated.C07.apiLockKey P := by
  unfold Generated.C07.filterLockKey Generated.C07.apiLockKey Generated.C07.poolPrefixFn
  simp [hP]

/-! ### one atomic core move -/

/-- what one core move does to pool `P`: nothing or less; or one fresh member through the `getSubnet` of a pod of `P`
    that established `FreshOK` (Filter, Preempt); or it is a bind for a pod of `P` while `P` is not a sized pool -/
def Effect (cs : CState) (m : Move) (s' : State) (P : String) : Prop :=
  cntp (mP P) s'.alloc ≤ cntp (mP P) cs.base.alloc ∨
  (∃ pod, subnetPod cs.base m = some pod ∧ (keyOf pod).pool = P ∧ FreshOK cs.base pod ∧
    cntp (mP P) s'.alloc ≤ cntp (mP P) cs.base.alloc + 1) ∨
  (∃ ns name uid node ch f pf pod, m = .bind ns name uid node ch f pf ∧ Tbl.get cs.base.vPods (ns, name) = some pod ∧
    (keyOf pod).pool = P ∧ poolIdle cs P = true)

structure StepEff (cs : CState) (m : Move) (s' : State) : Prop where
  wf : WFPools cs.base.pools → WFPools s'.pools
  coh : Coherent s'
  eff : ∀ P, P ≠ "" → Effect cs m s' P

theorem StepEff.of_soft {cs : CState} {m : Move} {s' : State} (hc : Coherent cs.base) (q : Soft7 cs.base s') :
    StepEff cs m s' :=
  ⟨q.wf, q.coh hc, fun P hP => Or.inl (q.cnt hc P hP)⟩

theorem StepEff.of_quiet {cs : CState} {m : Move} {s' : State} (hc : Coherent cs.base) (q : Quiet7 cs.base s') :
    StepEff cs m s' := StepEff.of_soft hc q.soft

/-- the effect of one allowed core move -/
theorem stepB_effect (F : Plugin.Facts) (cs : CState) (m : Move) (hc : Coherent cs.base)
    (ha : allowed cs (.base m) = true) : StepEff cs m (stepB Facts.good F cs.base m).1 := by
  rw [stepB_good]
  generalize hs : cs.base = s at hc
  have ofq : ∀ s', Quiet7 s s' → StepEff cs m s' := fun s' q => StepEff.of_quiet (by rw [hs]; exact hc) (by rw [hs]; exact q)
  have ofs : ∀ s', Soft7 s s' → StepEff cs m s' := fun s' q => StepEff.of_soft (by rw [hs]; exact hc) (by rw [hs]; exact q)
  cases m with
  | createPod ns name kind app pool policy ranges wants =>
    apply ofq; dsimp only [step]; split <;> exact Quiet7.of_eq rfl rfl rfl rfl
  | deletePod ns name => apply ofq; dsimp only [step]; split <;> exact Quiet7.of_eq rfl rfl rfl rfl
  | finishPod ns name =>
    apply ofq; dsimp only [step]
    split
    · exact Quiet7.refl s
    · split <;> exact Quiet7.of_eq rfl rfl rfl rfl
  | runPod ns name =>
    apply ofq; dsimp only [step]
    split
    · exact Quiet7.refl s
    · split <;> exact Quiet7.of_eq rfl rfl rfl rfl
  | markTerminating ns name fault =>
    have h : termOK s ns name = true := by rw [← hs]; exact ha
    exact ofq _ (markTerminating_q F s ns name fault h)
  | scale kind ns app replicas => exact ofq _ (Quiet7.of_eq rfl rfl rfl rfl)
  | deleteApp kind ns app => exact ofq _ (Quiet7.of_eq rfl rfl rfl rfl)
  | setPool name size => apply ofq; dsimp only [step]; split <;> exact Quiet7.of_eq rfl rfl rfl rfl
  | listerSync pods apps =>
    apply ofq; dsimp only [step]
    split <;> split <;> exact Quiet7.of_eq rfl rfl rfl rfl
  | dropEvent i => apply ofq; dsimp only [step]; split <;> exact Quiet7.of_eq rfl rfl rfl rfl
  | fipSync => exact ofq _ (Quiet7.of_eq rfl rfl rfl rfl)
  | filter ns name nodes ch fault =>
    have g := filter7_grow (withFaults s fault 0) ns name nodes ch
    rw [filter7_good] at g
    refine ⟨fun h => ?_, g.2.1 ((withFaults_q s fault 0).coh hc), fun P hP => ?_⟩
    · show WFPools (Plugin.filter (withFaults s fault 0) ns name nodes ch).1.pools
      rw [g.1]; rw [hs] at h; exact h
    · rcases g.2.2 P hP with h | ⟨pod, h1, h2, h3, h4, h5⟩
      · exact Or.inl (by rw [hs]; exact h)
      · refine Or.inr (Or.inl ⟨pod, ?_, h3, by rw [hs]; exact h4, by rw [hs]; exact h5⟩)
        rw [hs]
        have h1' : Tbl.get s.pods (ns, name) = some pod := h1
        simp [subnetPod, h1', h2]
  | preempt ns name nodes ch fault =>
    have g := preempt_grow (withFaults s fault 0) ns name nodes ch
    refine ⟨fun h => ?_, g.2.1 ((withFaults_q s fault 0).coh hc), fun P hP => ?_⟩
    · show WFPools (Plugin.preempt (withFaults s fault 0) ns name nodes ch).1.pools
      rw [g.1]; rw [hs] at h; exact h
    · rcases g.2.2 P hP with h | ⟨pod, h1, h2, h3, h4, h5⟩
      · exact Or.inl (by rw [hs]; exact h)
      · refine Or.inr (Or.inl ⟨pod, ?_, h3, by rw [hs]; exact h4, by rw [hs]; exact h5⟩)
        rw [hs]
        have h1' : Tbl.get s.pods (ns, name) = some pod := h1
        simp [subnetPod, h1', h2]
  | bind ns name uid node ch fault pfault =>
    rcases Bool.or_eq_true_iff.mp ha with hok | hun
    · rw [hs] at hok
      have hok' : bindOK (withFaults s fault pfault) ns name ch = true := hok
      exact ofq _ ((withFaults_q s fault pfault).trans (bind_q F _ ns name uid node ch rfl hok'))
    · have q := bind_on F (withFaults s fault pfault) ns name uid node ch rfl
        (fun P => ∀ pod, Tbl.get s.vPods (ns, name) = some pod → (keyOf pod).pool ≠ P)
        (Or.inr (fun pod hpod P _ hS => hS pod hpod))
      refine ⟨fun h => ?_, q.coh ((withFaults_q s fault pfault).coh hc), fun P hP => ?_⟩
      · show WFPools (Plugin.bind F (withFaults s fault pfault) ns name uid node ch).1.pools
        rw [q.pools]; rw [hs] at h; exact h
      · by_cases hS : ∀ pod, Tbl.get s.vPods (ns, name) = some pod → (keyOf pod).pool ≠ P
        · exact Or.inl (by rw [hs]; exact q.cnt P hP hS)
        · have ⟨pod, hpod, hpool⟩ : ∃ pod, Tbl.get s.vPods (ns, name) = some pod ∧ (keyOf pod).pool = P := by
            apply Classical.byContradiction
            intro hn
            exact hS (fun pod hpod e => hn ⟨pod, hpod, e⟩)
          refine Or.inr (Or.inr ⟨ns, name, uid, node, ch, fault, pfault, pod, rfl, by rw [hs]; exact hpod, hpool, ?_⟩)
          unfold bindUnsized at hun
          rw [hs, hpod] at hun
          rw [← hpool]; exact hun
  | deliver i fault pfault => exact ofq _ ((withFaults_q s fault pfault).trans (deliver_q F _ i))
  | resync order fault pfault => exact ofq _ ((withFaults_q s fault pfault).trans (resync_q F _ order))
  | adminReserve ip text policy => exact ofq _ (adminReserve_q F s ip text policy)
  | adminUnreserve ip => exact ofq _ (adminUnreserve_q F s ip)
  | syncPodIPs fault =>
    have h : syncOK (withFaults s fault 0) = true := by rw [← hs]; exact ha
    exact ofq _ ((withFaults_q s fault 0).trans (syncPodIPs_q _ h))
  | apiRelease ip k fault pfault => exact ofq _ ((withFaults_q s fault pfault).trans (apiRelease_q F _ ip k))
  | reload pools fault =>
    obtain ⟨h1, h2⟩ := Bool.and_eq_true_iff.mp ha
    have h2' : orphanFree (withFaults s fault 0) = true := by rw [← hs]; exact h2
    exact ofs _ ((withFaults_q s fault 0).soft.trans (reload_soft _ pools h1 h2'))
  | restart =>
    have h2' : orphanFree (withFaults s 0 0) = true := by rw [← hs]; exact ha
    exact ofs _ ((withFaults_q s 0 0).soft.trans (restart_soft _ h2'))
  | resyncSnap => exact ofq _ (Quiet7.of_eq rfl rfl rfl rfl)
  | resyncRec ip fault pfault =>
    apply ofq
    dsimp only [step]
    split
    · exact Quiet7.refl s
    · split
      · exact Quiet7.refl s
      · exact ((withFaults_q s fault pfault).trans (resyncOne_q F _ ip _)).trans (Quiet7.of_eq rfl rfl rfl rfl)

theorem nextB_effect (F : Plugin.Facts) (cs : CState) (m : Move) (hc : Coherent cs.base)
    (ha : allowed cs (.base m) = true) : StepEff cs m (nextB Facts.good F cs.base m) := by
  unfold nextB
  split
  · exact StepEff.of_quiet hc (Quiet7.refl _)
  · exact stepB_effect F cs m hc ha

/-! ### pending actions -/

/-- the action is going to add members to its pool -/
def risky (p : Pending) : Bool :=
  match p.act with
  | .filt _ _ _ _ (.alloc false _) => true
  | .filt _ _ _ _ _ => false
  | .pre _ _ _ => true

/-- the count the action made is still an upper bound for what it is going to do -/
def Budget (s : State) (p : Pending) : Prop :=
  match p.act with
  | .filt pod _ _ seen (.alloc false _) =>
    p.pool = (keyOf pod).pool ∧ ∃ z, seen = some z ∧ cntp (mP p.pool) s.alloc + 1 ≤ z
  | .filt _ _ _ _ _ => True
  | .pre name _ have_ => p.pool = name ∧ cntp (mP name) s.alloc ≤ have_

/-- members the second phase of the action may add to pool `P` -/
def gain (p : Pending) (P : String) : Nat :=
  match p.act with
  | .filt pod _ _ _ d => if freshFor pod P d then 1 else 0
  | .pre name size have_ => if name = P then size - have_ else 0

/-- the size the action read -/
def psize (p : Pending) : Nat :=
  match p.act with
  | .filt _ _ _ seen _ => seen.getD 0
  | .pre _ size _ => size

/-- "nobody else holds my lock string" -/
def Excl (p q : Pending) : Prop := ∀ l, p.lock = some l → q.lock = some l → False

theorem Excl.symm {p q : Pending} (h : Excl p q) : Excl q p := fun l h1 h2 => h l h2 h1

structure CInv (cs : CState) : Prop where
  coh : Coherent cs.base
  wf : WFPools cs.base.pools
  lockOf : ∀ p, p ∈ cs.pend → risky p = true → p.pool ≠ "" ∧ p.lock = some (Generated.C07.apiLockKey p.pool)
  excl : cs.pend.Pairwise Excl
  budget : ∀ p, p ∈ cs.pend → Budget cs.base p

theorem budget_of_not_risky (s : State) (p : Pending) (h : risky p = false) : Budget s p := by
  unfold risky at h
  unfold Budget
  split at h <;> simp_all

theorem budget_mono (s s' : State) (p : Pending) (hb : Budget s p)
    (hc : cntp (mP p.pool) s'.alloc ≤ cntp (mP p.pool) s.alloc) : Budget s' p := by
  unfold Budget at hb ⊢
  split
  · rename_i pod _ _ seen _ hact
    rw [hact] at hb
    obtain ⟨h1, z, h2, h3⟩ := hb
    exact ⟨h1, z, h2, by omega⟩
  · trivial
  · rename_i name _ have_ hact
    rw [hact] at hb
    obtain ⟨h1, h2⟩ := hb
    refine ⟨h1, ?_⟩
    rw [h1] at hc
    omega

theorem gain_pos_risky (p : Pending) (P : String) (h : gain p P ≠ 0) : risky p = true := by
  unfold gain at h
  unfold risky
  split at h
  · rename_i pod _ _ _ d hact
    rw [hact]
    cases d with
    | fail r => simp [freshFor] at h
    | pass set => simp [freshFor] at h
    | alloc resv n =>
      cases resv with
      | true => simp [freshFor] at h
      | false => rfl
  · rename_i hact
    rw [hact]

/-- an action that may add to `P` works on `P` -/
theorem gain_pos_pool (s : State) (p : Pending) (P : String) (hb : Budget s p) (h : gain p P ≠ 0) : p.pool = P := by
  unfold gain at h
  unfold Budget at hb
  split at h
  · rename_i pod _ _ _ d hact
    rw [hact] at hb
    cases d with
    | fail r => simp [freshFor] at h
    | pass set => simp [freshFor] at h
    | alloc resv n =>
      cases resv with
      | true => simp [freshFor] at h
      | false =>
        simp only [freshFor, beq_iff_eq] at h
        dsimp only at hb
        by_cases hk : (keyOf pod).pool = P
        · rw [hb.1]; exact hk
        · simp [hk] at h
  · rename_i name _ _ hact
    rw [hact] at hb
    dsimp only at hb
    by_cases hn : name = P
    · rw [hb.1]; exact hn
    · simp [hn] at h

theorem excl_of_index {l : List Pending} (h : l.Pairwise Excl) (i j : Nat) (hij : i ≠ j) (p q : Pending)
    (hi : l[i]? = some p) (hj : l[j]? = some q) : Excl p q := by
  have hg := List.pairwise_iff_getElem.mp h
  obtain ⟨hi', hpi⟩ := List.getElem?_eq_some_iff.mp hi
  obtain ⟨hj', hqj⟩ := List.getElem?_eq_some_iff.mp hj
  rcases Nat.lt_or_gt_of_ne hij with hlt | hgt
  · have := hg i j hi' hj' hlt
    rw [hpi, hqj] at this; exact this
  · have := hg j i hj' hi' hgt
    rw [hpi, hqj] at this; exact this.symm

theorem lockFree_excl (cs : CState) (l : Option String) (hf : lockFree cs l = true) (lock : Option String)
    (hl : lock = l) (pool : String) (act : Act) : ∀ a, a ∈ cs.pend → Excl a ⟨lock, pool, act⟩ := by
  intro a ha x h1 h2
  subst hl
  dsimp only at h2
  rw [h2] at hf
  unfold lockFree at hf
  dsimp only at hf
  have := List.all_eq_true.mp hf a ha
  rw [h1] at this
  simp at this

/-- adding a pending action whose lock string nobody holds -/
theorem pairwise_add (cs : CState) (p : Pending) (h : cs.pend.Pairwise Excl) (hf : lockFree cs p.lock = true) :
    (cs.pend ++ [p]).Pairwise Excl := by
  rw [List.pairwise_append]
  refine ⟨h, List.pairwise_singleton _ _, fun a ha b hb => ?_⟩
  have : b = p := by simpa using hb
  subst this
  obtain ⟨lock, pool, act⟩ := b
  exact lockFree_excl cs lock hf lock rfl pool act a ha

theorem filterLockOf_dp (pod : Pod) (hdp : (keyOf pod).isDp = true) (hp : (keyOf pod).pool ≠ "") :
    filterLockOf Facts.good pod = some (Generated.C07.apiLockKey (keyOf pod).pool) := by
  unfold filterLockOf
  simp only [hdp, Facts.good, Bool.and_self, ↓reduceIte]
  rw [same_lock_key _ _ _ _ hp]

theorem apiLockOf_good (name : String) : apiLockOf Facts.good name = some (Generated.C07.apiLockKey name) := by
  unfold apiLockOf; simp [Facts.good]

theorem seenSize_of_fresh (s : State) (pod : Pod) (h : FreshOK s pod) :
    ∃ z, seenSize s pod = some z ∧
      ((∀ e, e ∈ s.alloc → subnetsOf s.pools e.1 ≠ []) → cnt s (keyOf pod).pool + 1 ≤ z) := by
  obtain ⟨hdp, hpool, z, hget, hb⟩ := h
  refine ⟨z, ?_, hb⟩
  unfold seenSize
  simp [hdp, hpool, hget]

theorem held_not_free (cs : CState) (p : Pending) (hp : p ∈ cs.pend) (l : String) (hl : p.lock = some l)
    (hf : lockFree cs (some l) = true) : False := by
  unfold lockFree at hf
  have := List.all_eq_true.mp hf p hp
  rw [hl] at this
  simp at this

/-- the invariant is preserved by every move whose side condition holds -/
theorem cstep_inv (F : Plugin.Facts) (cs : CState) (cm : CMove) (h : CInv cs) (ha : callowed cs cm = true) :
    CInv (cstep Facts.good F cs cm) := by
  cases cm with
  | plain m =>
    dsimp only [cstep]
    by_cases hf : lockFree cs (lockOfMove Facts.good cs.base m) = true
    · rw [if_pos hf]
      cases m with
      | base mv =>
        have e := nextB_effect F cs mv h.coh ha
        refine ⟨e.coh, e.wf h.wf, h.lockOf, h.excl, fun p hp => ?_⟩
        by_cases hr : risky p = true
        · apply budget_mono _ _ p (h.budget p hp)
          obtain ⟨hpne, hlock⟩ := h.lockOf p hp hr
          rcases e.eff p.pool hpne with hle | ⟨pod, hsp, hpool, hfresh, _⟩ | ⟨_, _, _, _, _, _, _, _, _, _, _, hidle⟩
          · exact hle
          · exfalso
            have hl : lockOfMove Facts.good cs.base (.base mv) = some (Generated.C07.apiLockKey p.pool) := by
              dsimp only [lockOfMove]
              rw [hsp]
              dsimp only
              rw [filterLockOf_dp pod hfresh.1 hfresh.2.1, hpool]
            rw [hl] at hf
            exact held_not_free cs p hp _ hlock hf
          · exfalso
            unfold poolIdle at hidle
            have := List.all_eq_true.mp (Bool.and_eq_true_iff.mp hidle).2 p hp
            simp at this
        · exact budget_of_not_risky _ p (by simpa using hr)
      | apiPool name size pre order picks fault =>
        have g := apiPool_grow cs.base name size pre order picks fault
        refine ⟨g.coh h.coh, ?_, h.lockOf, h.excl, fun p hp => ?_⟩
        · show WFPools (apiPool cs.base name size pre order picks fault).1.pools
          rw [g.pools]; exact h.wf
        · by_cases hr : risky p = true
          · apply budget_mono _ _ p (h.budget p hp)
            obtain ⟨hpne, hlock⟩ := h.lockOf p hp hr
            have hc := g.cnt p.pool hpne
            by_cases hn : name = p.pool ∧ pre = true
            · exfalso
              have hl : lockOfMove Facts.good cs.base (.apiPool name size pre order picks fault) =
                  some (Generated.C07.apiLockKey p.pool) := by
                dsimp only [lockOfMove]
                simp only [hn.2, ↓reduceIte]
                rw [apiLockOf_good, hn.1]
              rw [hl] at hf
              exact held_not_free cs p hp _ hlock hf
            · simp only [hn, ↓reduceIte, Nat.add_zero] at hc
              exact hc
          · exact budget_of_not_risky _ p (by simpa using hr)
    · rw [if_neg hf]; exact h
  | filterBegin ns name nodes ch =>
    dsimp only [cstep]
    cases hg : Tbl.get cs.base.pods (ns, name) with
    | none => exact h
    | some pod =>
      dsimp only
      by_cases hw : (!pod.wants) = true
      · rw [if_pos hw]; exact h
      · rw [if_neg hw]
        by_cases hf : (!lockFree cs (filterLockOf Facts.good pod)) = true
        · rw [if_pos hf]; exact h
        · rw [if_neg hf]
          have hfree : lockFree cs (filterLockOf Facts.good pod) = true := by simpa using hf
          refine ⟨h.coh, h.wf, fun p hp hr => ?_, ?_, fun p hp => ?_⟩
          · rcases List.mem_append.mp hp with hp | hp
            · exact h.lockOf p hp hr
            · have hpe : p = ⟨filterLockOf Facts.good pod, (keyOf pod).pool,
                  .filt pod nodes ch (seenSize cs.base pod) (decide7 Facts.good cs.base pod ch)⟩ := by simpa using hp
              subst hpe
              unfold risky at hr
              dsimp only at hr
              cases hd : decide7 Facts.good cs.base pod ch with
              | fail r => rw [hd] at hr; simp at hr
              | pass set => rw [hd] at hr; simp at hr
              | alloc resv n =>
                rw [hd] at hr
                cases resv with
                | true => simp at hr
                | false =>
                  have fr := decide7_fresh cs.base pod ch n hd
                  exact ⟨fr.2.1, filterLockOf_dp pod fr.1 fr.2.1⟩
          · exact pairwise_add cs _ h.excl hfree
          · rcases List.mem_append.mp hp with hp | hp
            · exact h.budget p hp
            · have hpe : p = ⟨filterLockOf Facts.good pod, (keyOf pod).pool,
                  .filt pod nodes ch (seenSize cs.base pod) (decide7 Facts.good cs.base pod ch)⟩ := by simpa using hp
              subst hpe
              unfold Budget
              dsimp only
              cases hd : decide7 Facts.good cs.base pod ch with
              | fail r => trivial
              | pass set => trivial
              | alloc resv n =>
                cases resv with
                | true => trivial
                | false =>
                  have fr := decide7_fresh cs.base pod ch n hd
                  obtain ⟨z, hz, hb⟩ := seenSize_of_fresh cs.base pod fr
                  refine ⟨rfl, z, hz, ?_⟩
                  have := hb (routable_of_coherent _ h.coh h.wf)
                  rw [cnt_eq _ _ fr.2.1] at this
                  exact this
  | preBegin name size =>
    dsimp only [cstep]
    by_cases hn : name = ""
    · rw [if_pos hn]; exact h
    · rw [if_neg hn]
      by_cases hf : (!lockFree cs (apiLockOf Facts.good name)) = true
      · rw [if_pos hf]; exact h
      · rw [if_neg hf]
        have hfree : lockFree cs (apiLockOf Facts.good name) = true := by simpa using hf
        have q := setPoolObj_q cs.base name size
        refine ⟨q.coh h.coh, ?_, fun p hp hr => ?_, ?_, fun p hp => ?_⟩
        · show WFPools (setPoolObj cs.base name size).pools
          rw [q.pools]; exact h.wf
        · rcases List.mem_append.mp hp with hp | hp
          · exact h.lockOf p hp hr
          · have hpe : p = ⟨apiLockOf Facts.good name, name,
                .pre name size (cnt (setPoolObj cs.base name size) name)⟩ := by simpa using hp
            subst hpe
            exact ⟨hn, apiLockOf_good name⟩
        · exact pairwise_add cs _ h.excl hfree
        · rcases List.mem_append.mp hp with hp | hp
          · exact budget_mono _ _ p (h.budget p hp) (Nat.le_refl _)
          · have hpe : p = ⟨apiLockOf Facts.good name, name,
                .pre name size (cnt (setPoolObj cs.base name size) name)⟩ := by simpa using hp
            subst hpe
            unfold Budget
            dsimp only
            refine ⟨rfl, ?_⟩
            rw [cnt_eq _ _ hn]
            exact Nat.le_refl _
  | finish j order picks =>
    dsimp only [cstep]
    cases hj : cs.pend[j]? with
    | none => exact h
    | some p =>
      dsimp only
      -- what the second phase does to the base state
      have key : ∀ (s' : State), Grow7 (gain p) (withFaults cs.base 0 0) s' →
          CInv { base := s', pend := cs.pend.eraseIdx j } := by
        intro s' g
        have g0 : Grow7 (gain p) cs.base s' := (withFaults_q cs.base 0 0).then_grow g
        refine ⟨g0.coh h.coh, ?_, fun q hq hr => h.lockOf q (List.mem_of_mem_eraseIdx hq) hr,
          List.Pairwise.sublist (List.eraseIdx_sublist _ _) h.excl, fun q hq => ?_⟩
        · show WFPools s'.pools
          rw [g0.pools]; exact h.wf
        · have hqm := List.mem_of_mem_eraseIdx hq
          by_cases hr : risky q = true
          · apply budget_mono _ _ q (h.budget q hqm)
            obtain ⟨hqne, hqlock⟩ := h.lockOf q hqm hr
            have hc := g0.cnt q.pool hqne
            by_cases hg : gain p q.pool = 0
            · rw [hg] at hc; exact hc
            · exfalso
              have hpm : p ∈ cs.pend := List.mem_of_getElem? hj
              have hpr := gain_pos_risky p q.pool hg
              have hpp := gain_pos_pool cs.base p q.pool (h.budget p hpm) hg
              obtain ⟨_, hplock⟩ := h.lockOf p hpm hpr
              obtain ⟨i, hij, hi⟩ := List.mem_eraseIdx_iff_getElem?.mp hq
              have ex := excl_of_index h.excl i j hij q p hi hj
              exact ex _ hqlock (by rw [hplock, hpp])
          · exact budget_of_not_risky _ q (by simpa using hr)
      cases hact : p.act with
      | filt pod nodes ch seen d =>
        dsimp only
        have g : Grow7 (gain p) (withFaults cs.base 0 0)
            (filterFinish (withFaults cs.base 0 0) nodes (applyDecision (withFaults cs.base 0 0) pod ch d)).1 := by
          have := filterApply_grow (withFaults cs.base 0 0) pod ch nodes d
          have hgain : gain p = fun P => if freshFor pod P d then 1 else 0 := by
            funext P; unfold gain; rw [hact]
          rw [hgain]; exact this
        split
        · exact h
        · exact key _ g
      | pre name size have_ =>
        dsimp only
        have g : Grow7 (gain p) (withFaults cs.base 0 0)
            (preFinish (withFaults cs.base 0 0) name size have_ order picks).1 := by
          have := preFinish_grow (withFaults cs.base 0 0) name size have_ order picks
          have hgain : gain p = fun P => if name = P then size - have_ else 0 := by
            funext P; unfold gain; rw [hact]
          rw [hgain]; exact this
        split
        · exact h
        · exact key _ g

/-! ### the bound -/

/-- the size in force for a step on pool `P`: what the Filter read from its Pool lister, what the pool API request
    carries, what the pending action read when it counted; 0 for every step that must not add members at all -/
def sizeSeen (cs : CState) : CMove → String → Nat
  | .plain (.base m), P =>
    match subnetPod cs.base m with
    | some pod => if (keyOf pod).pool = P then (seenSize cs.base pod).getD 0 else 0
    | none => 0
  | .plain (.apiPool name size pre _ _ _), P => if name = P ∧ pre = true then size else 0
  | .finish j _ _, P =>
    match cs.pend[j]? with
    | some p => if p.pool = P then psize p else 0
    | none => 0
  | _, _ => 0

/-- the step is a bind for a pod of pool `P` while `P` is not a sized pool: no Pool object named `P` exists and no
    action is pending on `P` (the property speaks of sized pools) -/
def unsizedBind (cs : CState) : CMove → String → Bool
  | .plain (.base (.bind ns name _ _ _ _ _)), P =>
    match cs.base.vPods.get (ns, name) with
    | some pod => (keyOf pod).pool == P && poolIdle cs P
    | none => false
  | _, _ => false

theorem finish_effect (F : Plugin.Facts) (cs : CState) (j : Nat) (order : List Subnet) (picks : List IP) (p : Pending)
    (hj : cs.pend[j]? = some p) :
    (cstep Facts.good F cs (.finish j order picks)).base = cs.base ∨
      Grow7 (gain p) cs.base (cstep Facts.good F cs (.finish j order picks)).base := by
  dsimp only [cstep]
  rw [hj]
  dsimp only
  cases hact : p.act with
  | filt pod nodes ch seen d =>
    dsimp only
    have g : Grow7 (gain p) (withFaults cs.base 0 0)
        (filterFinish (withFaults cs.base 0 0) nodes (applyDecision (withFaults cs.base 0 0) pod ch d)).1 := by
      have := filterApply_grow (withFaults cs.base 0 0) pod ch nodes d
      have hgain : gain p = fun P => if freshFor pod P d then 1 else 0 := by
        funext P; unfold gain; rw [hact]
      rw [hgain]; exact this
    split
    · exact Or.inl rfl
    · exact Or.inr ((withFaults_q cs.base 0 0).then_grow g)
  | pre name size have_ =>
    dsimp only
    have g : Grow7 (gain p) (withFaults cs.base 0 0)
        (preFinish (withFaults cs.base 0 0) name size have_ order picks).1 := by
      have := preFinish_grow (withFaults cs.base 0 0) name size have_ order picks
      have hgain : gain p = fun P => if name = P then size - have_ else 0 := by
        funext P; unfold gain; rw [hact]
      rw [hgain]; exact this
    split
    · exact Or.inl rfl
    · exact Or.inr ((withFaults_q cs.base 0 0).then_grow g)

/-- what a pending action with budget can add stays within the size it read -/
theorem budget_bound (s : State) (p : Pending) (P : String) (hb : Budget s p) (hg : gain p P ≠ 0) :
    p.pool = P ∧ cntp (mP P) s.alloc + gain p P ≤ psize p := by
  have hpool := gain_pos_pool s p P hb hg
  refine ⟨hpool, ?_⟩
  unfold Budget at hb
  unfold gain at hg ⊢
  unfold psize
  cases hact : p.act with
  | filt pod nodes ch seen d =>
    rw [hact] at hb hg
    dsimp only at hb hg ⊢
    cases d with
    | fail r => simp [freshFor] at hg
    | pass set => simp [freshFor] at hg
    | alloc resv n =>
      cases resv with
      | true => simp [freshFor] at hg
      | false =>
        dsimp only at hb
        obtain ⟨_, z, hz, hle⟩ := hb
        rw [hpool] at hle
        by_cases hk : (keyOf pod).pool = P
        · simp only [freshFor, hk, beq_self_eq_true, ↓reduceIte, hz, Option.getD_some]; exact hle
        · simp [freshFor, hk] at hg
  | pre name size have_ =>
    rw [hact] at hb hg
    dsimp only at hb hg ⊢
    obtain ⟨h1, hle⟩ := hb
    by_cases hn : name = P
    · subst hn
      simp only [↓reduceIte] at hg ⊢
      omega
    · simp [hn] at hg

theorem cstep_bound (F : Plugin.Facts) (cs : CState) (cm : CMove) (h : CInv cs) (ha : callowed cs cm = true)
    (P : String) (hP : P ≠ "") :
    unsizedBind cs cm P = true ∨
      cnt (cstep Facts.good F cs cm).base P ≤ max (cnt cs.base P) (sizeSeen cs cm P) := by
  rw [cnt_eq _ P hP, cnt_eq _ P hP]
  cases cm with
  | plain m =>
    dsimp only [cstep]
    by_cases hf : lockFree cs (lockOfMove Facts.good cs.base m) = true
    · rw [if_pos hf]
      cases m with
      | base mv =>
        have e := nextB_effect F cs mv h.coh ha
        rcases e.eff P hP with hle | ⟨pod, hsp, hpool, hfresh, hle⟩ | ⟨ns, name, uid, node, ch, f, pf, pod, rfl, hv, hpool, hidle⟩
        · exact Or.inr (Nat.le_trans hle (Nat.le_max_left _ _))
        · right
          obtain ⟨z, hz, hb⟩ := seenSize_of_fresh cs.base pod hfresh
          have hb' := hb (routable_of_coherent _ h.coh h.wf)
          rw [hpool, cnt_eq _ P hP] at hb'
          have hs : sizeSeen cs (.plain (.base mv)) P = z := by
            dsimp only [sizeSeen]
            rw [hsp]
            simp [hpool, hz]
          rw [hs]
          exact Nat.le_trans (Nat.le_trans hle hb') (Nat.le_max_right _ _)
        · left
          dsimp only [unsizedBind]
          rw [hv]
          simp [hpool, hidle]
      | apiPool name size pre order picks fault =>
        right
        have g := apiPool_grow cs.base name size pre order picks fault
        have hc := g.cnt P hP
        dsimp only [sizeSeen]
        show cntp (mP P) (apiPool cs.base name size pre order picks fault).1.alloc ≤ _
        by_cases hn : name = P ∧ pre = true
        · simp only [hn, and_self, ↓reduceIte] at hc ⊢
          omega
        · simp only [hn, ↓reduceIte, Nat.add_zero] at hc ⊢
          omega
    · rw [if_neg hf]; exact Or.inr (Nat.le_max_left _ _)
  | filterBegin ns name nodes ch =>
    have hb : (cstep Facts.good F cs (.filterBegin ns name nodes ch)).base = cs.base := by
      dsimp only [cstep]
      split
      · rfl
      · split
        · rfl
        · split <;> rfl
    rw [hb]; exact Or.inr (Nat.le_max_left _ _)
  | preBegin name size =>
    have hb : (cstep Facts.good F cs (.preBegin name size)).base.alloc = cs.base.alloc := by
      dsimp only [cstep]
      split
      · rfl
      · split <;> rfl
    rw [hb]; exact Or.inr (Nat.le_max_left _ _)
  | finish j order picks =>
    cases hj : cs.pend[j]? with
    | none =>
      have hb : (cstep Facts.good F cs (.finish j order picks)).base = cs.base := by
        dsimp only [cstep]; rw [hj]
      rw [hb]; exact Or.inr (Nat.le_max_left _ _)
    | some p =>
      rcases finish_effect F cs j order picks p hj with hb | g
      · rw [hb]; exact Or.inr (Nat.le_max_left _ _)
      · have hc := g.cnt P hP
        by_cases hg : gain p P = 0
        · rw [hg] at hc; exact Or.inr (Nat.le_trans hc (Nat.le_max_left _ _))
        · have hpm : p ∈ cs.pend := List.mem_of_getElem? hj
          obtain ⟨hpool, hle⟩ := budget_bound cs.base p P (h.budget p hpm) hg
          have hs : sizeSeen cs (.finish j order picks) P = psize p := by
            dsimp only [sizeSeen]; rw [hj]; simp [hpool]
          rw [hs]
          exact Or.inr (Nat.le_trans (Nat.le_trans hc hle) (Nat.le_max_right _ _))

/-! ### all histories -/

def callAllowed (G : Facts) (F : Plugin.Facts) : CState → List CMove → Bool
  | _, [] => true
  | cs, m :: t => callowed cs m && callAllowed G F (cstep G F cs m) t

theorem cinv_init (c : Conf) (hwf : WFPools c.pools) : CInv (cinit c) := by
  refine ⟨(inv_init c).coh, wfPools_sort _ hwf, ?_, List.Pairwise.nil, ?_⟩
  · intro p hp; simp [cinit] at hp
  · intro p hp; simp [cinit] at hp

theorem cinv_run (F : Plugin.Facts) : ∀ (ms : List CMove) (cs : CState), CInv cs →
    callAllowed Facts.good F cs ms = true → CInv (crun Facts.good F cs ms) := by
  intro ms
  induction ms with
  | nil => intro cs h _; exact h
  | cons m t ih =>
    intro cs h ha
    unfold callAllowed at ha
    obtain ⟨h1, h2⟩ := Bool.and_eq_true_iff.mp ha
    exact ih _ (cstep_inv F cs m h h1) h2

end Galaxy.PluginC07
