/-
  C07 proofs, part 4: every interleaving.  The invariant `CInv` of the two-phase model (`cstep`): the IPAM tables are
  coherent, every pool has a node subnet, every pending action that is going to add members to a pool holds the lock
  string of that pool, no lock string is held twice, and every pending action still has its budget (`Budget`: the
  count it made is still an upper bound).  Preserved by every move of `CMove` whose side condition (`callowed`)
  holds; with it the bound `cnt' ≤ max cnt (size seen)` holds for every step.
-/
import Galaxy.Lemmas.C07Filter
import Galaxy.Lemmas.PluginMain

namespace Galaxy.PluginC07
open Galaxy Galaxy.Plugin

/-! ### the moves the theorems quantify over -/

/-- reload / restart / pod-IP sync are outside the property's quantifier ("filter, bind and pool-update requests");
    a bind carries the `_partial` side condition `bindOK` -/
def allowed (s : State) : Move7 → Bool
  | .base (.reload _ _) => false
  | .base .restart => false
  | .base (.syncPodIPs _) => false
  | .base (.bind ns name _ _ ch _ _) => bindOK s ns name ch
  | _ => true

def callowed (cs : CState) : CMove → Bool
  | .plain m => allowed cs.base m
  | _ => true

theorem same_lock_key (P t n a : String) (hP : P ≠ "") :
    Generated.C07.filterLockKey P t n a = Generated.C07.apiLockKey P := by
  unfold Generated.C07.filterLockKey Generated.C07.apiLockKey Generated.C07.poolPrefixFn
  simp [hP]

/-! ### one atomic core move -/

theorem quiet_or {s s' : State} (q : Quiet7 s s') :
    s'.pools = s.pools ∧ (Coherent s → Coherent s') ∧ ∀ P, P ≠ "" → cntp (mP P) s'.alloc ≤ cntp (mP P) s.alloc :=
  ⟨q.pools, q.coh, q.cnt⟩

/-- an allowed core move other than Filter raises no pool's count -/
theorem step_quiet (F : Plugin.Facts) (s : State) (m : Move) (ha : allowed s (.base m) = true)
    (hnf : ∀ ns name nodes ch fault, m ≠ .filter ns name nodes ch fault) : Quiet7 s (step F s m).1 := by
  cases m with
  | createPod ns name kind app pool policy ranges wants =>
    dsimp only [step]; split <;> exact Quiet7.of_eq rfl rfl rfl rfl
  | deletePod ns name => dsimp only [step]; split <;> exact Quiet7.of_eq rfl rfl rfl rfl
  | finishPod ns name =>
    dsimp only [step]
    split
    · exact Quiet7.refl s
    · split <;> exact Quiet7.of_eq rfl rfl rfl rfl
  | runPod ns name =>
    dsimp only [step]
    split
    · exact Quiet7.refl s
    · split <;> exact Quiet7.of_eq rfl rfl rfl rfl
  | scale kind ns app replicas => exact Quiet7.of_eq rfl rfl rfl rfl
  | deleteApp kind ns app => exact Quiet7.of_eq rfl rfl rfl rfl
  | setPool name size => dsimp only [step]; split <;> exact Quiet7.of_eq rfl rfl rfl rfl
  | listerSync pods apps =>
    dsimp only [step]
    split <;> split <;> exact Quiet7.of_eq rfl rfl rfl rfl
  | dropEvent i => dsimp only [step]; split <;> exact Quiet7.of_eq rfl rfl rfl rfl
  | filter ns name nodes ch fault => exact absurd rfl (hnf ns name nodes ch fault)
  | bind ns name uid node ch fault pfault =>
    have hok : bindOK (withFaults s fault pfault) ns name ch = true := ha
    exact (withFaults_q s fault pfault).trans (bind_q F _ ns name uid node ch hok)
  | deliver i fault pfault => exact (withFaults_q s fault pfault).trans (deliver_q F _ i)
  | resync order fault pfault => exact (withFaults_q s fault pfault).trans (resync_q F _ order)
  | syncPodIPs fault => simp [allowed] at ha
  | apiRelease ip k fault pfault => exact (withFaults_q s fault pfault).trans (apiRelease_q F _ ip k)
  | reload pools fault => simp [allowed] at ha
  | restart => simp [allowed] at ha
  | resyncSnap => exact Quiet7.of_eq rfl rfl rfl rfl
  | resyncRec ip fault pfault =>
    dsimp only [step]
    split
    · exact Quiet7.refl s
    · exact ((withFaults_q s fault pfault).trans (resyncOne_q F _ ip _)).trans (Quiet7.of_eq rfl rfl rfl rfl)

/-- the effect of one allowed core move on configuration, coherence and pool counts -/
theorem nextB_effect (F : Plugin.Facts) (s : State) (m : Move) (ha : allowed s (.base m) = true) :
    (nextB Facts.good F s m).pools = s.pools ∧ (Coherent s → Coherent (nextB Facts.good F s m)) ∧
    ∀ P, P ≠ "" → cntp (mP P) (nextB Facts.good F s m).alloc ≤ cntp (mP P) s.alloc ∨
      (∃ ns name nodes ch fault pod, m = .filter ns name nodes ch fault ∧ Tbl.get s.pods (ns, name) = some pod ∧
        pod.wants = true ∧ (keyOf pod).pool = P ∧ FreshOK s pod ∧
        cntp (mP P) (nextB Facts.good F s m).alloc ≤ cntp (mP P) s.alloc + 1) := by
  by_cases hf : ∃ ns name nodes ch fault, m = .filter ns name nodes ch fault
  · obtain ⟨ns, name, nodes, ch, fault, rfl⟩ := hf
    have g := filter7_grow (withFaults s fault 0) ns name nodes ch
    dsimp only [nextB, stepB]
    split
    · exact ⟨rfl, fun h => h, fun P _ => Or.inl (Nat.le_refl _)⟩
    · refine ⟨g.1, fun h => g.2.1 ((withFaults_q s fault 0).coh h), fun P hP => ?_⟩
      rcases g.2.2 P hP with h | ⟨pod, h1, h2, h3, h4, h5⟩
      · exact Or.inl h
      · exact Or.inr ⟨ns, name, nodes, ch, fault, pod, rfl, h1, h2, h3, h4, h5⟩
  · have hnf : ∀ ns name nodes ch fault, m ≠ .filter ns name nodes ch fault :=
      fun ns name nodes ch fault e => hf ⟨ns, name, nodes, ch, fault, e⟩
    have q := step_quiet F s m ha hnf
    have hs : stepB Facts.good F s m = step F s m := stepB_good F s m
    unfold nextB
    rw [hs]
    split
    · exact ⟨rfl, fun h => h, fun P _ => Or.inl (Nat.le_refl _)⟩
    · exact ⟨q.pools, q.coh, fun P hP => Or.inl (q.cnt P hP)⟩

/-! ### pending actions -/

/-- the action is going to add members to its pool -/
def risky (p : Pending) : Bool :=
  match p.act with
  | .filt _ _ _ _ (.alloc false _) => true
  | .filt _ _ _ _ _ => false
  | .pre _ _ _ => true

/-- the count the action made is still an upper bound for what it is going to do -/
def Budget (s : State) (p : Pending) : Prop :=
  match p.act with
  | .filt pod _ _ seen (.alloc false _) =>
    p.pool = (keyOf pod).pool ∧ ∃ z, seen = some z ∧ cntp (mP p.pool) s.alloc + 1 ≤ z
  | .filt _ _ _ _ _ => True
  | .pre name _ have_ => p.pool = name ∧ cntp (mP name) s.alloc ≤ have_

/-- members the second phase of the action may add to pool `P` -/
def gain (p : Pending) (P : String) : Nat :=
  match p.act with
  | .filt pod _ _ _ d => if freshFor pod P d then 1 else 0
  | .pre name size have_ => if name = P then size - have_ else 0

/-- the size the action read -/
def psize (p : Pending) : Nat :=
  match p.act with
  | .filt _ _ _ seen _ => seen.getD 0
  | .pre _ size _ => size

/-- "nobody else holds my lock string" -/
def Excl (p q : Pending) : Prop := ∀ l, p.lock = some l → q.lock = some l → False

theorem Excl.symm {p q : Pending} (h : Excl p q) : Excl q p := fun l h1 h2 => h l h2 h1

structure CInv (cs : CState) : Prop where
  coh : Coherent cs.base
  wf : WFPools cs.base.pools
  lockOf : ∀ p, p ∈ cs.pend → risky p = true → p.pool ≠ "" ∧ p.lock = some (Generated.C07.apiLockKey p.pool)
  excl : cs.pend.Pairwise Excl
  budget : ∀ p, p ∈ cs.pend → Budget cs.base p

theorem budget_of_not_risky (s : State) (p : Pending) (h : risky p = false) : Budget s p := by
  unfold risky at h
  unfold Budget
  split at h <;> simp_all

theorem budget_mono (s s' : State) (p : Pending) (hb : Budget s p)
    (hc : cntp (mP p.pool) s'.alloc ≤ cntp (mP p.pool) s.alloc) : Budget s' p := by
  unfold Budget at hb ⊢
  split
  · rename_i pod _ _ seen _ hact
    rw [hact] at hb
    obtain ⟨h1, z, h2, h3⟩ := hb
    exact ⟨h1, z, h2, by omega⟩
  · trivial
  · rename_i name _ have_ hact
    rw [hact] at hb
    obtain ⟨h1, h2⟩ := hb
    refine ⟨h1, ?_⟩
    rw [h1] at hc
    omega

theorem gain_pos_risky (p : Pending) (P : String) (h : gain p P ≠ 0) : risky p = true := by
  unfold gain at h
  unfold risky
  split at h
  · rename_i pod _ _ _ d hact
    rw [hact]
    cases d with
    | fail r => simp [freshFor] at h
    | pass set => simp [freshFor] at h
    | alloc resv n =>
      cases resv with
      | true => simp [freshFor] at h
      | false => rfl
  · rename_i hact
    rw [hact]

/-- an action that may add to `P` works on `P` -/
theorem gain_pos_pool (s : State) (p : Pending) (P : String) (hb : Budget s p) (h : gain p P ≠ 0) : p.pool = P := by
  unfold gain at h
  unfold Budget at hb
  split at h
  · rename_i pod _ _ _ d hact
    rw [hact] at hb
    cases d with
    | fail r => simp [freshFor] at h
    | pass set => simp [freshFor] at h
    | alloc resv n =>
      cases resv with
      | true => simp [freshFor] at h
      | false =>
        simp only [freshFor, beq_iff_eq] at h
        dsimp only at hb
        by_cases hk : (keyOf pod).pool = P
        · rw [hb.1]; exact hk
        · simp [hk] at h
  · rename_i name _ _ hact
    rw [hact] at hb
    dsimp only at hb
    by_cases hn : name = P
    · rw [hb.1]; exact hn
    · simp [hn] at h

theorem excl_of_index {l : List Pending} (h : l.Pairwise Excl) (i j : Nat) (hij : i ≠ j) (p q : Pending)
    (hi : l[i]? = some p) (hj : l[j]? = some q) : Excl p q := by
  have hg := List.pairwise_iff_getElem.mp h
  obtain ⟨hi', hpi⟩ := List.getElem?_eq_some_iff.mp hi
  obtain ⟨hj', hqj⟩ := List.getElem?_eq_some_iff.mp hj
  rcases Nat.lt_or_gt_of_ne hij with hlt | hgt
  · have := hg i j hi' hj' hlt
    rw [hpi, hqj] at this; exact this
  · have := hg j i hj' hi' hgt
    rw [hpi, hqj] at this; exact this.symm

theorem lockFree_excl (cs : CState) (l : Option String) (hf : lockFree cs l = true) (lock : Option String)
    (hl : lock = l) (pool : String) (act : Act) : ∀ a, a ∈ cs.pend → Excl a ⟨lock, pool, act⟩ := by
  intro a ha x h1 h2
  subst hl
  dsimp only at h2
  rw [h2] at hf
  unfold lockFree at hf
  dsimp only at hf
  have := List.all_eq_true.mp hf a ha
  rw [h1] at this
  simp at this

/-- adding a pending action whose lock string nobody holds -/
theorem pairwise_add (cs : CState) (p : Pending) (h : cs.pend.Pairwise Excl) (hf : lockFree cs p.lock = true) :
    (cs.pend ++ [p]).Pairwise Excl := by
  rw [List.pairwise_append]
  refine ⟨h, List.pairwise_singleton _ _, fun a ha b hb => ?_⟩
  have : b = p := by simpa using hb
  subst this
  obtain ⟨lock, pool, act⟩ := b
  exact lockFree_excl cs lock hf lock rfl pool act a ha

theorem filterLockOf_dp (pod : Pod) (hdp : (keyOf pod).isDp = true) (hp : (keyOf pod).pool ≠ "") :
    filterLockOf Facts.good pod = some (Generated.C07.apiLockKey (keyOf pod).pool) := by
  unfold filterLockOf
  simp only [hdp, Facts.good, Bool.and_self, ↓reduceIte]
  rw [same_lock_key _ _ _ _ hp]

theorem apiLockOf_good (name : String) : apiLockOf Facts.good name = some (Generated.C07.apiLockKey name) := by
  unfold apiLockOf; simp [Facts.good]

theorem seenSize_of_fresh (s : State) (pod : Pod) (h : FreshOK s pod) :
    ∃ z, seenSize s pod = some z ∧
      ((∀ e, e ∈ s.alloc → subnetsOf s.pools e.1 ≠ []) → cnt s (keyOf pod).pool + 1 ≤ z) := by
  obtain ⟨hdp, hpool, z, hget, hb⟩ := h
  refine ⟨z, ?_, hb⟩
  unfold seenSize
  simp [hdp, hpool, hget]

theorem held_not_free (cs : CState) (p : Pending) (hp : p ∈ cs.pend) (l : String) (hl : p.lock = some l)
    (hf : lockFree cs (some l) = true) : False := by
  unfold lockFree at hf
  have := List.all_eq_true.mp hf p hp
  rw [hl] at this
  simp at this

/-- the invariant is preserved by every move whose side condition holds -/
theorem cstep_inv (F : Plugin.Facts) (cs : CState) (cm : CMove) (h : CInv cs) (ha : callowed cs cm = true) :
    CInv (cstep Facts.good F cs cm) := by
  cases cm with
  | plain m =>
    dsimp only [cstep]
    by_cases hf : lockFree cs (lockOfMove Facts.good cs.base m) = true
    · rw [if_pos hf]
      cases m with
      | base mv =>
        have e := nextB_effect F cs.base mv ha
        refine ⟨e.2.1 h.coh, ?_, h.lockOf, h.excl, fun p hp => ?_⟩
        · show WFPools (nextB Facts.good F cs.base mv).pools
          rw [e.1]; exact h.wf
        · by_cases hr : risky p = true
          · apply budget_mono _ _ p (h.budget p hp)
            obtain ⟨hpne, hlock⟩ := h.lockOf p hp hr
            rcases e.2.2 p.pool hpne with hle | ⟨ns, name, nodes, ch, fault, pod, rfl, hg, hw, hpool, hfresh, _⟩
            · exact hle
            · exfalso
              have hl : lockOfMove Facts.good cs.base (.base (.filter ns name nodes ch fault)) =
                  some (Generated.C07.apiLockKey p.pool) := by
                dsimp only [lockOfMove]
                rw [hg]
                simp only [hw, ↓reduceIte]
                rw [filterLockOf_dp pod hfresh.1 hfresh.2.1, hpool]
              rw [hl] at hf
              exact held_not_free cs p hp _ hlock hf
          · exact budget_of_not_risky _ p (by simpa using hr)
      | apiPool name size pre order picks fault =>
        have g := apiPool_grow cs.base name size pre order picks fault
        refine ⟨g.coh h.coh, ?_, h.lockOf, h.excl, fun p hp => ?_⟩
        · show WFPools (apiPool cs.base name size pre order picks fault).1.pools
          rw [g.pools]; exact h.wf
        · by_cases hr : risky p = true
          · apply budget_mono _ _ p (h.budget p hp)
            obtain ⟨hpne, hlock⟩ := h.lockOf p hp hr
            have hc := g.cnt p.pool hpne
            by_cases hn : name = p.pool ∧ pre = true
            · exfalso
              have hl : lockOfMove Facts.good cs.base (.apiPool name size pre order picks fault) =
                  some (Generated.C07.apiLockKey p.pool) := by
                dsimp only [lockOfMove]
                simp only [hn.2, ↓reduceIte]
                rw [apiLockOf_good, hn.1]
              rw [hl] at hf
              exact held_not_free cs p hp _ hlock hf
            · simp only [hn, ↓reduceIte, Nat.add_zero] at hc
              exact hc
          · exact budget_of_not_risky _ p (by simpa using hr)
    · rw [if_neg hf]; exact h
  | filterBegin ns name nodes ch =>
    dsimp only [cstep]
    cases hg : Tbl.get cs.base.pods (ns, name) with
    | none => exact h
    | some pod =>
      dsimp only
      by_cases hw : (!pod.wants) = true
      · rw [if_pos hw]; exact h
      · rw [if_neg hw]
        by_cases hf : (!lockFree cs (filterLockOf Facts.good pod)) = true
        · rw [if_pos hf]; exact h
        · rw [if_neg hf]
          have hfree : lockFree cs (filterLockOf Facts.good pod) = true := by simpa using hf
          refine ⟨h.coh, h.wf, fun p hp hr => ?_, ?_, fun p hp => ?_⟩
          · rcases List.mem_append.mp hp with hp | hp
            · exact h.lockOf p hp hr
            · have hpe : p = ⟨filterLockOf Facts.good pod, (keyOf pod).pool,
                  .filt pod nodes ch (seenSize cs.base pod) (decide7 Facts.good cs.base pod ch)⟩ := by simpa using hp
              subst hpe
              unfold risky at hr
              dsimp only at hr
              cases hd : decide7 Facts.good cs.base pod ch with
              | fail r => rw [hd] at hr; simp at hr
              | pass set => rw [hd] at hr; simp at hr
              | alloc resv n =>
                rw [hd] at hr
                cases resv with
                | true => simp at hr
                | false =>
                  have fr := decide7_fresh cs.base pod ch n hd
                  exact ⟨fr.2.1, filterLockOf_dp pod fr.1 fr.2.1⟩
          · exact pairwise_add cs _ h.excl hfree
          · rcases List.mem_append.mp hp with hp | hp
            · exact h.budget p hp
            · have hpe : p = ⟨filterLockOf Facts.good pod, (keyOf pod).pool,
                  .filt pod nodes ch (seenSize cs.base pod) (decide7 Facts.good cs.base pod ch)⟩ := by simpa using hp
              subst hpe
              unfold Budget
              dsimp only
              cases hd : decide7 Facts.good cs.base pod ch with
              | fail r => trivial
              | pass set => trivial
              | alloc resv n =>
                cases resv with
                | true => trivial
                | false =>
                  have fr := decide7_fresh cs.base pod ch n hd
                  obtain ⟨z, hz, hb⟩ := seenSize_of_fresh cs.base pod fr
                  refine ⟨rfl, z, hz, ?_⟩
                  have := hb (routable_of_coherent _ h.coh h.wf)
                  rw [cnt_eq _ _ fr.2.1] at this
                  exact this
  | preBegin name size =>
    dsimp only [cstep]
    by_cases hn : name = ""
    · rw [if_pos hn]; exact h
    · rw [if_neg hn]
      by_cases hf : (!lockFree cs (apiLockOf Facts.good name)) = true
      · rw [if_pos hf]; exact h
      · rw [if_neg hf]
        have hfree : lockFree cs (apiLockOf Facts.good name) = true := by simpa using hf
        have q := setPoolObj_q cs.base name size
        refine ⟨q.coh h.coh, ?_, fun p hp hr => ?_, ?_, fun p hp => ?_⟩
        · show WFPools (setPoolObj cs.base name size).pools
          rw [q.pools]; exact h.wf
        · rcases List.mem_append.mp hp with hp | hp
          · exact h.lockOf p hp hr
          · have hpe : p = ⟨apiLockOf Facts.good name, name,
                .pre name size (cnt (setPoolObj cs.base name size) name)⟩ := by simpa using hp
            subst hpe
            exact ⟨hn, apiLockOf_good name⟩
        · exact pairwise_add cs _ h.excl hfree
        · rcases List.mem_append.mp hp with hp | hp
          · exact budget_mono _ _ p (h.budget p hp) (Nat.le_refl _)
          · have hpe : p = ⟨apiLockOf Facts.good name, name,
                .pre name size (cnt (setPoolObj cs.base name size) name)⟩ := by simpa using hp
            subst hpe
            unfold Budget
            dsimp only
            refine ⟨rfl, ?_⟩
            rw [cnt_eq _ _ hn]
            exact Nat.le_refl _
  | finish j order picks =>
    dsimp only [cstep]
    cases hj : cs.pend[j]? with
    | none => exact h
    | some p =>
      dsimp only
      -- what the second phase does to the base state
      have key : ∀ (s' : State), Grow7 (gain p) (withFaults cs.base 0 0) s' →
          CInv { base := s', pend := cs.pend.eraseIdx j } := by
        intro s' g
        have g0 : Grow7 (gain p) cs.base s' := (withFaults_q cs.base 0 0).then_grow g
        refine ⟨g0.coh h.coh, ?_, fun q hq hr => h.lockOf q (List.mem_of_mem_eraseIdx hq) hr,
          List.Pairwise.sublist (List.eraseIdx_sublist _ _) h.excl, fun q hq => ?_⟩
        · show WFPools s'.pools
          rw [g0.pools]; exact h.wf
        · have hqm := List.mem_of_mem_eraseIdx hq
          by_cases hr : risky q = true
          · apply budget_mono _ _ q (h.budget q hqm)
            obtain ⟨hqne, hqlock⟩ := h.lockOf q hqm hr
            have hc := g0.cnt q.pool hqne
            by_cases hg : gain p q.pool = 0
            · rw [hg] at hc; exact hc
            · exfalso
              have hpm : p ∈ cs.pend := List.mem_of_getElem? hj
              have hpr := gain_pos_risky p q.pool hg
              have hpp := gain_pos_pool cs.base p q.pool (h.budget p hpm) hg
              obtain ⟨_, hplock⟩ := h.lockOf p hpm hpr
              obtain ⟨i, hij, hi⟩ := List.mem_eraseIdx_iff_getElem?.mp hq
              have ex := excl_of_index h.excl i j hij q p hi hj
              exact ex _ hqlock (by rw [hplock, hpp])
          · exact budget_of_not_risky _ q (by simpa using hr)
      cases hact : p.act with
      | filt pod nodes ch seen d =>
        dsimp only
        have g : Grow7 (gain p) (withFaults cs.base 0 0)
            (filterFinish (withFaults cs.base 0 0) nodes (applyDecision (withFaults cs.base 0 0) pod ch d)).1 := by
          have := filterApply_grow (withFaults cs.base 0 0) pod ch nodes d
          have hgain : gain p = fun P => if freshFor pod P d then 1 else 0 := by
            funext P; unfold gain; rw [hact]
          rw [hgain]; exact this
        split
        · exact h
        · exact key _ g
      | pre name size have_ =>
        dsimp only
        have g : Grow7 (gain p) (withFaults cs.base 0 0)
            (preFinish (withFaults cs.base 0 0) name size have_ order picks).1 := by
          have := preFinish_grow (withFaults cs.base 0 0) name size have_ order picks
          have hgain : gain p = fun P => if name = P then size - have_ else 0 := by
            funext P; unfold gain; rw [hact]
          rw [hgain]; exact this
        split
        · exact h
        · exact key _ g

/-! ### the bound -/

/-- the size in force for a step on pool `P`: what the Filter read from its Pool lister, what the pool API request
    carries, what the pending action read when it counted; 0 for every step that must not add members at all -/
def sizeSeen (cs : CState) : CMove → String → Nat
  | .plain (.base (.filter ns name _ _ _)), P =>
    match cs.base.pods.get (ns, name) with
    | some pod => if (keyOf pod).pool = P then (seenSize cs.base pod).getD 0 else 0
    | none => 0
  | .plain (.apiPool name size pre _ _ _), P => if name = P ∧ pre = true then size else 0
  | .finish j _ _, P =>
    match cs.pend[j]? with
    | some p => if p.pool = P then psize p else 0
    | none => 0
  | _, _ => 0

theorem finish_effect (F : Plugin.Facts) (cs : CState) (j : Nat) (order : List Subnet) (picks : List IP) (p : Pending)
    (hj : cs.pend[j]? = some p) :
    (cstep Facts.good F cs (.finish j order picks)).base = cs.base ∨
      Grow7 (gain p) cs.base (cstep Facts.good F cs (.finish j order picks)).base := by
  dsimp only [cstep]
  rw [hj]
  dsimp only
  cases hact : p.act with
  | filt pod nodes ch seen d =>
    dsimp only
    have g : Grow7 (gain p) (withFaults cs.base 0 0)
        (filterFinish (withFaults cs.base 0 0) nodes (applyDecision (withFaults cs.base 0 0) pod ch d)).1 := by
      have := filterApply_grow (withFaults cs.base 0 0) pod ch nodes d
      have hgain : gain p = fun P => if freshFor pod P d then 1 else 0 := by
        funext P; unfold gain; rw [hact]
      rw [hgain]; exact this
    split
    · exact Or.inl rfl
    · exact Or.inr ((withFaults_q cs.base 0 0).then_grow g)
  | pre name size have_ =>
    dsimp only
    have g : Grow7 (gain p) (withFaults cs.base 0 0)
        (preFinish (withFaults cs.base 0 0) name size have_ order picks).1 := by
      have := preFinish_grow (withFaults cs.base 0 0) name size have_ order picks
      have hgain : gain p = fun P => if name = P then size - have_ else 0 := by
        funext P; unfold gain; rw [hact]
      rw [hgain]; exact this
    split
    · exact Or.inl rfl
    · exact Or.inr ((withFaults_q cs.base 0 0).then_grow g)

/-- what a pending action with budget can add stays within the size it read -/
theorem budget_bound (s : State) (p : Pending) (P : String) (hb : Budget s p) (hg : gain p P ≠ 0) :
    p.pool = P ∧ cntp (mP P) s.alloc + gain p P ≤ psize p := by
  have hpool := gain_pos_pool s p P hb hg
  refine ⟨hpool, ?_⟩
  unfold Budget at hb
  unfold gain at hg ⊢
  unfold psize
  cases hact : p.act with
  | filt pod nodes ch seen d =>
    rw [hact] at hb hg
    dsimp only at hb hg ⊢
    cases d with
    | fail r => simp [freshFor] at hg
    | pass set => simp [freshFor] at hg
    | alloc resv n =>
      cases resv with
      | true => simp [freshFor] at hg
      | false =>
        dsimp only at hb
        obtain ⟨_, z, hz, hle⟩ := hb
        rw [hpool] at hle
        by_cases hk : (keyOf pod).pool = P
        · simp only [freshFor, hk, beq_self_eq_true, ↓reduceIte, hz, Option.getD_some]; exact hle
        · simp [freshFor, hk] at hg
  | pre name size have_ =>
    rw [hact] at hb hg
    dsimp only at hb hg ⊢
    obtain ⟨h1, hle⟩ := hb
    by_cases hn : name = P
    · subst hn
      simp only [↓reduceIte] at hg ⊢
      omega
    · simp [hn] at hg

theorem cstep_bound (F : Plugin.Facts) (cs : CState) (cm : CMove) (h : CInv cs) (ha : callowed cs cm = true)
    (P : String) (hP : P ≠ "") :
    cnt (cstep Facts.good F cs cm).base P ≤ max (cnt cs.base P) (sizeSeen cs cm P) := by
  rw [cnt_eq _ P hP, cnt_eq _ P hP]
  cases cm with
  | plain m =>
    dsimp only [cstep]
    by_cases hf : lockFree cs (lockOfMove Facts.good cs.base m) = true
    · rw [if_pos hf]
      cases m with
      | base mv =>
        have e := nextB_effect F cs.base mv ha
        rcases e.2.2 P hP with hle | ⟨ns, name, nodes, ch, fault, pod, rfl, hg, hw, hpool, hfresh, hle⟩
        · exact Nat.le_trans hle (Nat.le_max_left _ _)
        · obtain ⟨z, hz, hb⟩ := seenSize_of_fresh cs.base pod hfresh
          have hb' := hb (routable_of_coherent _ h.coh h.wf)
          rw [hpool, cnt_eq _ P hP] at hb'
          have hs : sizeSeen cs (.plain (.base (.filter ns name nodes ch fault))) P = z := by
            dsimp only [sizeSeen]
            rw [hg]
            simp [hpool, hz]
          rw [hs]
          exact Nat.le_trans (Nat.le_trans hle hb') (Nat.le_max_right _ _)
      | apiPool name size pre order picks fault =>
        have g := apiPool_grow cs.base name size pre order picks fault
        have hc := g.cnt P hP
        dsimp only [sizeSeen]
        show cntp (mP P) (apiPool cs.base name size pre order picks fault).1.alloc ≤ _
        by_cases hn : name = P ∧ pre = true
        · simp only [hn, and_self, ↓reduceIte] at hc ⊢
          omega
        · simp only [hn, ↓reduceIte, Nat.add_zero] at hc ⊢
          omega
    · rw [if_neg hf]; exact Nat.le_max_left _ _
  | filterBegin ns name nodes ch =>
    have hb : (cstep Facts.good F cs (.filterBegin ns name nodes ch)).base = cs.base := by
      dsimp only [cstep]
      split
      · rfl
      · split
        · rfl
        · split <;> rfl
    rw [hb]; exact Nat.le_max_left _ _
  | preBegin name size =>
    have hb : (cstep Facts.good F cs (.preBegin name size)).base.alloc = cs.base.alloc := by
      dsimp only [cstep]
      split
      · rfl
      · split <;> rfl
    rw [hb]; exact Nat.le_max_left _ _
  | finish j order picks =>
    cases hj : cs.pend[j]? with
    | none =>
      have hb : (cstep Facts.good F cs (.finish j order picks)).base = cs.base := by
        dsimp only [cstep]; rw [hj]
      rw [hb]; exact Nat.le_max_left _ _
    | some p =>
      rcases finish_effect F cs j order picks p hj with hb | g
      · rw [hb]; exact Nat.le_max_left _ _
      · have hc := g.cnt P hP
        by_cases hg : gain p P = 0
        · rw [hg] at hc; exact Nat.le_trans hc (Nat.le_max_left _ _)
        · have hpm : p ∈ cs.pend := List.mem_of_getElem? hj
          obtain ⟨hpool, hle⟩ := budget_bound cs.base p P (h.budget p hpm) hg
          have hs : sizeSeen cs (.finish j order picks) P = psize p := by
            dsimp only [sizeSeen]; rw [hj]; simp [hpool]
          rw [hs]
          exact Nat.le_trans (Nat.le_trans hc hle) (Nat.le_max_right _ _)

/-! ### all histories -/

def callAllowed (G : Facts) (F : Plugin.Facts) : CState → List CMove → Bool
  | _, [] => true
  | cs, m :: t => callowed cs m && callAllowed G F (cstep G F cs m) t

theorem wfPools_sort (ps : List Pool) (h : WFPools ps) : WFPools (sortPools ps) :=
  fun p hp => h p ((mem_sortPools p ps).mp hp)

theorem cinv_init (c : Conf) (hwf : WFPools c.pools) : CInv (cinit c) := by
  refine ⟨(inv_init c).coh, wfPools_sort _ hwf, ?_, List.Pairwise.nil, ?_⟩
  · intro p hp; simp [cinit] at hp
  · intro p hp; simp [cinit] at hp

theorem cinv_run (F : Plugin.Facts) : ∀ (ms : List CMove) (cs : CState), CInv cs →
    callAllowed Facts.good F cs ms = true → CInv (crun Facts.good F cs ms) := by
  intro ms
  induction ms with
  | nil => intro cs h _; exact h
  | cons m t ih =>
    intro cs h ha
    unfold callAllowed at ha
    obtain ⟨h1, h2⟩ := Bool.and_eq_true_iff.mp ha
    exact ih _ (cstep_inv F cs m h h1) h2

end Galaxy.PluginC07
