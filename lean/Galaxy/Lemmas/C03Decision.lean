/-
  C03 proofs, part 1: the release decision.
  * `decision_table`: the decision as coded (over the regenerated comparison expressions) equals the documented one
    for ALL inputs satisfying the callers' side conditions;
  * `unbindDp_eq_exec`, `unbindOtherX_eq_exec`: the model's decision functions (what `gxdrv_plugin` runs) carry out
    exactly `codeAction` of the inputs read from the state;
  * `unbindOtherX_none`: without custom resources the extended function IS the model's `unbindOther`.
-/
import Galaxy.Model.PluginC03
import Galaxy.Lemmas.PluginMain

namespace Galaxy.Plugin.C03
open Galaxy Galaxy.Plugin

/-! ### the regenerated comparisons, as the model writes them -/

theorem gen_scaledDown (r idx : Nat) : Generated.C03.shouldReleaseScaledDown r idx = decide (r < idx + 1) := by
  unfold Generated.C03.shouldReleaseScaledDown
  apply decide_eq_decide.mpr
  omega

theorem gen_dpNoReplicas (r : Nat) : Generated.C03.dpNoReplicas r = decide (r = 0) := by
  unfold Generated.C03.dpNoReplicas
  apply decide_eq_decide.mpr
  omega

theorem gen_dpExceeds (n r : Nat) : Generated.C03.dpExceeds n r = decide (n > r) := by
  unfold Generated.C03.dpExceeds
  apply decide_eq_decide.mpr
  omega

theorem gen_sizeLimit (u r : Nat) : Generated.C03.sizeLimitReached u r = decide (u ≥ r) := by
  unfold Generated.C03.sizeLimitReached
  apply decide_eq_decide.mpr
  omega

theorem gen_policies : Generated.C03.releasePolicyPodDelete = 0 ∧ Generated.C03.releasePolicyImmutable = 1 ∧
    Generated.C03.releasePolicyNever = 2 := by decide

/-! ### the decision table -/

theorem supported_eq_doc (i : DIn) (h : i.policy = 1 ∨ i.policy = 2) : supported i = docSupports i := by
  unfold supported docSupports
  rw [gen_policies.2.2]
  rcases h with h | h <;> rw [h] <;> cases i.isDp <;> cases i.isSts <;> cases i.numeric <;> cases i.scalable <;> rfl

/-- the decision table: for every input (key kind × policy × app / replicas / index / number of IPs under the prefix)
    the coded decision is the documented one -/
theorem decision_table (i : DIn) (hwf : i.WF) : codeAction i = docAction i := by
  obtain ⟨hp, hdp, hidx⟩ := hwf
  have hpol : i.policy = 0 ∨ i.policy = 1 ∨ i.policy = 2 := by omega
  unfold codeAction docAction
  cases hd : i.isDp with
  | true =>
    obtain ⟨hz, hn⟩ := hdp hd
    simp only [if_true]
    unfold codeActionDp docKeeps
    rw [gen_policies.1, gen_policies.2.2, gen_dpNoReplicas, gen_dpExceeds]
    have hs : docSupports i = true := by unfold docSupports; simp [hd]
    rcases hpol with h0 | h1 | h2
    · simp [h0]
    · simp only [h1, hs, hd]
      cases he : i.appExists with
      | false =>
        have := hz he
        simp [this]
      | true =>
        by_cases hr : i.replicas = 0
        · have : ¬ i.nPrefix ≤ i.replicas := by omega
          simp [hr, this]
          omega
        · by_cases hx : i.nPrefix > i.replicas
          · have : ¬ i.nPrefix ≤ i.replicas := by omega
            simp [hr, hx, this]
          · have : i.nPrefix ≤ i.replicas := by omega
            simp [hr, hx, this]
            cases i.keyIsPrefix <;> simp
    · simp [h2, hs]
      cases i.keyIsPrefix <;> simp
  | false =>
    simp only [Bool.false_eq_true, if_false]
    unfold codeActionOther docKeeps
    rw [gen_policies.1, gen_policies.2.1, gen_policies.2.2]
    rcases hpol with h0 | h1 | h2
    · simp [h0]
    · have hsup := supported_eq_doc i (Or.inl h1)
      rw [hsup]
      simp only [h1, hd]
      cases hs : docSupports i with
      | false => simp
      | true =>
        have hkind : (i.isSts || i.scalable) = true := by
          unfold docSupports at hs
          simp only [hd, h1, Bool.false_or] at hs
          cases hst : i.isSts with
          | true => simp
          | false =>
            simp only [hst, Bool.false_or] at hs ⊢
            cases i.numeric <;> simp_all
        simp only [hkind]
        cases he : i.appExists with
        | false => simp
        | true =>
          have := hidx hd h1 hs he
          cases hi : i.index with
          | none => simp [hi] at this
          | some idx =>
            simp only [gen_scaledDown]
            by_cases hlt : idx < i.replicas
            · have : ¬ i.replicas < idx + 1 := by omega
              simp [hlt, this]
            · have : i.replicas < idx + 1 := by omega
              simp [hlt, this]
    · have hsup := supported_eq_doc i (Or.inr h2)
      rw [hsup]
      simp only [h2, hd]
      cases hs : docSupports i <;> simp

/-! ### the model's functions carry out `codeAction` -/

theorem dinOf_isDp (cr : CRs) (s : State) (k : Key) (p : Nat) : (dinOf cr s k p).isDp = k.isDp := rfl
@[simp] theorem dinOf_policy (cr : CRs) (s : State) (k : Key) (p : Nat) : (dinOf cr s k p).policy = p := rfl
@[simp] theorem dinOf_isSts (cr : CRs) (s : State) (k : Key) (p : Nat) : (dinOf cr s k p).isSts = k.isSts := rfl
@[simp] theorem dinOf_scalable (cr : CRs) (s : State) (k : Key) (p : Nat) : (dinOf cr s k p).scalable = cr.scalable k.typ := rfl
@[simp] theorem dinOf_index (cr : CRs) (s : State) (k : Key) (p : Nat) : (dinOf cr s k p).index = keyIndex k := rfl
@[simp] theorem dinOf_numeric (cr : CRs) (s : State) (k : Key) (p : Nat) : (dinOf cr s k p).numeric = (podIndex k.pod).isSome := rfl
@[simp] theorem dinOf_nPrefix (cr : CRs) (s : State) (k : Key) (p : Nat) : (dinOf cr s k p).nPrefix = countPrefix s k.poolPrefix := rfl
@[simp] theorem dinOf_keyIsPrefix (cr : CRs) (s : State) (k : Key) (p : Nat) : (dinOf cr s k p).keyIsPrefix = (k == k.poolPrefix) := rfl

/-- `unbindDpPod` -/
theorem unbindDp_eq_exec (cr : CRs) (s : State) (k : Key) (policy : Nat) (hk : k.isDp = true) :
    unbindDp s k policy = exec s k (codeAction (dinOf cr s k policy)) := by
  unfold codeAction
  rw [dinOf_isDp, hk]
  simp only [if_true]
  unfold codeActionDp unbindDp
  rw [gen_policies.1, gen_policies.2.2, gen_dpNoReplicas, gen_dpExceeds]
  simp only [dinOf, hk, if_true]
  by_cases h0 : policy = 0
  · simp [h0, exec]
  · by_cases h2 : policy = 2
    · simp only [h2]
      by_cases hpre : k = k.poolPrefix
      · have : (k == k.poolPrefix) = true := by simpa using hpre
        simp [this, exec, ← hpre]
      · have : (k == k.poolPrefix) = false := by simpa using hpre
        simp [this, exec, hpre]
    · simp only [h0, h2, if_false, beq_iff_eq]
      by_cases hr : (Tbl.get s.vApps (Kind.dp, k.ns, k.app)).getD 0 = 0
      · simp [hr, exec]
      · simp only [hr, if_false, decide_false, Bool.false_eq_true]
        by_cases hx : countPrefix s k.poolPrefix > (Tbl.get s.vApps (Kind.dp, k.ns, k.app)).getD 0
        · simp [hx, exec]
        · simp only [hx, if_false, decide_false, Bool.false_eq_true]
          by_cases hpre : k = k.poolPrefix
          · have : (k == k.poolPrefix) = true := by simpa using hpre
            simp [this, exec, ← hpre]
          · have : (k == k.poolPrefix) = false := by simpa using hpre
            simp [this, exec, hpre]

theorem supportReserveX_eq (cr : CRs) (s : State) (k : Key) (policy : Nat) :
    supportReserveX cr k policy = supported (dinOf cr s k policy) := by
  unfold supportReserveX supported
  rw [gen_policies.2.2]
  have hn : (!(podIndex k.pod).isSome) = (podIndex k.pod).isNone := by cases podIndex k.pod <;> rfl
  simp only [dinOf_isDp, dinOf_isSts, dinOf_numeric, dinOf_policy, dinOf_scalable, hn]
  rfl

/-- `unbindNoneDpPod` (with custom resources) -/
theorem unbindOtherX_eq_exec (cr : CRs) (s : State) (k : Key) (policy : Nat) (hk : k.isDp = false) :
    unbindOtherX cr s k policy = exec s k (codeAction (dinOf cr s k policy)) := by
  unfold codeAction
  rw [dinOf_isDp, hk]
  simp only [Bool.false_eq_true, if_false]
  unfold codeActionOther unbindOtherX
  rw [gen_policies.1, gen_policies.2.1, gen_policies.2.2, ← supportReserveX_eq cr s k policy]
  by_cases h0 : policy = 0
  · simp [h0, exec]
  · cases hsup : supportReserveX cr k policy with
    | false => simp [h0, exec]
    | true =>
      by_cases h2 : policy = 2
      · simp [h2, exec]
      · by_cases h1 : policy = 1
        · simp only [h1]
          have hchk : (checkApp cr s k).1 = (k.isSts || cr.scalable k.typ) := by
            unfold checkApp
            cases k.isSts <;> cases cr.scalable k.typ <;> simp
          simp only [dinOf_policy, dinOf_isSts, dinOf_scalable, dinOf_index, hchk.symm]
          cases hc : (checkApp cr s k).1 with
          | false => simp [exec]
          | true =>
            have hae : (dinOf cr s k 1).appExists = ((checkApp cr s k).2).isSome := by simp [dinOf, hk]
            have hrep : (dinOf cr s k 1).replicas = ((checkApp cr s k).2).getD 0 := by simp [dinOf, hk]
            rw [hae, hrep]
            cases hr : (checkApp cr s k).2 with
            | none => simp [exec]
            | some replicas =>
              cases hi : keyIndex k with
              | none => simp [exec]
              | some idx =>
                simp only [gen_scaledDown, Option.isSome_some, Option.getD_some]
                by_cases hlt : replicas < idx + 1
                · simp [hlt, exec]
                · simp [hlt, exec]
        · simp [h0, h1, h2, exec]

/-- without custom resources the extended functions are the model's -/
theorem supportReserveX_none (k : Key) (policy : Nat) : supportReserveX CRs.none k policy = supportReserve k policy := by
  unfold supportReserveX supportReserve CRs.none
  cases k.isDp <;> cases k.isSts <;> cases (podIndex k.pod) <;> simp <;> by_cases h : policy = 2 <;> simp [h]

theorem unbindOtherX_none (s : State) (k : Key) (policy : Nat) : unbindOtherX CRs.none s k policy = unbindOther s k policy := by
  unfold unbindOtherX unbindOther
  rw [supportReserveX_none]
  by_cases h0 : policy = 0
  · simp [h0]
  · cases hsup : supportReserve k policy with
    | false => simp [h0]
    | true =>
      by_cases h2 : policy = 2
      · simp [h2]
      · by_cases h1 : policy = 1
        · simp only [h1]
          cases hs : k.isSts with
          | false => simp [checkApp, hs, CRs.none]
          | true =>
            simp only [checkApp, hs, if_true]
            cases Tbl.get s.vApps (Kind.sts, k.ns, k.app) with
            | none => simp
            | some replicas => cases keyIndex k <;> simp
        · simp [h0, h1, h2]

theorem decideX_none (s : State) (k : Key) (policy : Nat) :
    decideX CRs.none s k policy = (if k.isDp then unbindDp s k policy else unbindOther s k policy) := by
  unfold decideX
  rw [unbindOtherX_none]

/-- the decision step of `unbind` / resync carries out `codeAction` of the inputs read from the state -/
theorem decideX_eq_exec (cr : CRs) (s : State) (k : Key) (policy : Nat) :
    decideX cr s k policy = exec s k (codeAction (dinOf cr s k policy)) := by
  unfold decideX
  cases hk : k.isDp with
  | true => simp only [if_true]; exact unbindDp_eq_exec cr s k policy hk
  | false => simp only [Bool.false_eq_true, if_false]; exact unbindOtherX_eq_exec cr s k policy hk

end Galaxy.Plugin.C03
