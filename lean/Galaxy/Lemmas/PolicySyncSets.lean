/-
  Lemmas about the synchronisation part of model M7 (C15), part 4: the diff-based entry update of createIPSet.
  With the clean-up guard of the current source (`createIPSetKeepsRekeyedEntries`) one createIPSet step leaves, from
  ANY prior content of the set (distinct keys, as in a kernel set), exactly the compiled entries, options included.
-/
import Galaxy.Lemmas.PolicySyncDangling

namespace Galaxy.Policy

/-- no two entries of the list share a key with different options -/
def KeysConsistent (es : List Entry) : Prop := ∀ e ∈ es, ∀ e' ∈ es, e.key = e'.key → e = e'

theorem mem_addEntry (es : List Entry) (e y : Entry) :
    y ∈ addEntry es e ↔ y = e ∨ (y ∈ es ∧ y.key ≠ e.key) := by
  unfold addEntry
  split
  · rename_i h
    obtain ⟨x, hx, hk⟩ := List.any_eq_true.mp h
    simp only [beq_iff_eq] at hk
    simp only [List.mem_map]
    constructor
    · rintro ⟨z, hz, rfl⟩
      by_cases e1 : z.key = e.key
      · simp [e1]
      · simp only [e1, if_false]; exact Or.inr ⟨hz, e1⟩
    · rintro (rfl | ⟨hy, hne⟩)
      · exact ⟨x, hx, by simp [hk]⟩
      · exact ⟨y, hy, by simp [hne]⟩
  · rename_i h
    have hno : ∀ x ∈ es, x.key ≠ e.key := by
      intro x hx hk
      exact h (List.any_eq_true.mpr ⟨x, hx, by simp [hk]⟩)
    simp only [List.mem_append, List.mem_singleton]
    constructor
    · rintro (hy | rfl)
      · exact Or.inr ⟨hy, hno y hy⟩
      · exact Or.inl rfl
    · rintro (rfl | ⟨hy, _⟩)
      · exact Or.inr rfl
      · exact Or.inl hy

/-- the add pass: the entries actually added, plus the old ones whose key none of the added ones carries -/
theorem mem_addFold (oldEs : List Entry) (l : List Entry) (hc : KeysConsistent l) (es : List Entry) (y : Entry) :
    y ∈ l.foldl (fun es e => if oldEs.contains e then es else addEntry es e) es ↔
      (y ∈ l.filter (fun e => !oldEs.contains e)) ∨
      (y ∈ es ∧ ∀ e ∈ l.filter (fun e => !oldEs.contains e), e.key ≠ y.key) := by
  induction l generalizing es with
  | nil => simp
  | cons e rest ih =>
    have hcr : KeysConsistent rest := fun a ha b hb => hc a (List.mem_cons_of_mem _ ha) b (List.mem_cons_of_mem _ hb)
    simp only [List.foldl_cons]
    rw [ih hcr]
    by_cases ho : oldEs.contains e = true
    · simp only [ho, if_true, List.filter_cons, Bool.not_true, Bool.false_eq_true, if_false]
    · simp only [ho, Bool.false_eq_true, if_false, List.filter_cons, Bool.not_false, if_true, List.mem_cons]
      rw [mem_addEntry]
      constructor
      · rintro (h | ⟨h1 | ⟨h1, h2⟩, h3⟩)
        · exact Or.inl (Or.inr h)
        · exact Or.inl (Or.inl h1)
        · refine Or.inr ⟨h1, ?_⟩
          intro e' he'
          rcases he' with rfl | he'
          · exact fun x => h2 x.symm
          · exact h3 e' he'
      · rintro ((rfl | h) | ⟨h1, h2⟩)
        · by_cases hex : ∃ e' ∈ rest.filter (fun e => !oldEs.contains e), e'.key = y.key
          · obtain ⟨e', he', hk⟩ := hex
            have : e' = y := hc e' (List.mem_cons_of_mem _ (List.mem_filter.mp he').1) y (List.mem_cons_self ..) hk
            exact Or.inl (this ▸ he')
          · refine Or.inr ⟨Or.inl rfl, ?_⟩
            intro e' he' hk; exact hex ⟨e', he', hk⟩
        · exact Or.inl h
        · exact Or.inr ⟨Or.inr ⟨h1, fun x => h2 e (Or.inl rfl) x.symm⟩, fun e' he' => h2 e' (Or.inr he')⟩

theorem mem_delEntry (es : List Entry) (o y : Entry) : y ∈ delEntry es o ↔ y ∈ es ∧ y.key ≠ o.key := by
  simp [delEntry, List.mem_filter]

/-- the clean-up pass removes exactly the keys of the old entries it decides to delete -/
theorem mem_cleanup (keep : Bool) (new l : List Entry) (es : List Entry) (y : Entry) :
    y ∈ cleanupEntries keep new l es ↔
      y ∈ es ∧ ∀ o ∈ l, (new.contains o = false ∧ (keep && new.any (fun e => e.key == o.key)) = false) → y.key ≠ o.key := by
  unfold cleanupEntries
  induction l generalizing es with
  | nil => simp
  | cons o rest ih =>
    simp only [List.foldl_cons]
    rw [ih]
    by_cases h1 : new.contains o = true
    · simp only [h1, if_true]
      constructor
      · rintro ⟨hy, hr⟩
        refine ⟨hy, fun o' ho' hc => ?_⟩
        rcases List.mem_cons.mp ho' with rfl | h
        · rw [h1] at hc; cases hc.1
        · exact hr o' h hc
      · rintro ⟨hy, hr⟩
        exact ⟨hy, fun o' ho' hc => hr o' (List.mem_cons_of_mem _ ho') hc⟩
    · by_cases h2 : (keep && new.any (fun e => e.key == o.key)) = true
      · simp only [h1, h2, Bool.false_eq_true, if_false, if_true]
        constructor
        · rintro ⟨hy, hr⟩
          refine ⟨hy, fun o' ho' hc => ?_⟩
          rcases List.mem_cons.mp ho' with rfl | h
          · rw [h2] at hc; cases hc.2
          · exact hr o' h hc
        · rintro ⟨hy, hr⟩
          exact ⟨hy, fun o' ho' hc => hr o' (List.mem_cons_of_mem _ ho') hc⟩
      · simp only [h1, h2, Bool.false_eq_true, if_false, mem_delEntry, List.mem_cons]
        simp only [Bool.not_eq_true] at h1 h2
        constructor
        · rintro ⟨⟨hy, hk⟩, hr⟩
          refine ⟨hy, ?_⟩
          rintro o' (rfl | ho') hc
          · exact hk
          · exact hr o' ho' hc
        · rintro ⟨hy, hr⟩
          exact ⟨⟨hy, hr o (Or.inl rfl) ⟨h1, h2⟩⟩, fun o' ho' hc => hr o' (Or.inr ho') hc⟩

/-- ENTRIES EXACT (post-fix createIPSet): from any old content with distinct keys, after the add pass and the
    guarded clean-up the set holds exactly the new entries, options included -/
theorem entries_exact (new oldEs : List Entry) (hold : (oldEs.map Entry.key).Nodup) (hnew : KeysConsistent new)
    (y : Entry) : y ∈ cleanupEntries true new oldEs (addEntries new oldEs) ↔ y ∈ new := by
  rw [mem_cleanup]
  unfold addEntries
  rw [mem_addFold oldEs new hnew]
  have hadded : ∀ e, e ∈ new.filter (fun e => !oldEs.contains e) ↔ e ∈ new ∧ e ∉ oldEs := by
    intro e; simp [List.mem_filter]
  constructor
  · rintro ⟨h | ⟨hy, hno⟩, hdel⟩
    · exact ((hadded y).mp h).1
    · -- an old entry that survived both passes must be a new one
      apply Classical.byContradiction
      intro hyn
      have hnokey : ∀ e ∈ new, e.key ≠ y.key := by
        intro e he hk
        by_cases heo : e ∈ oldEs
        · have : e = y := inj_of_nodup_map Entry.key hold heo hy hk
          exact hyn (this ▸ he)
        · exact hno e ((hadded e).mpr ⟨he, heo⟩) hk
      have h1 : new.contains y = false := by
        cases hc : new.contains y
        · rfl
        · exact absurd (List.contains_iff_mem.mp hc) hyn
      have h2 : (true && new.any (fun e => e.key == y.key)) = false := by
        simp only [Bool.true_and]
        cases hc : new.any (fun e => e.key == y.key)
        · rfl
        · obtain ⟨e, he, hk⟩ := List.any_eq_true.mp hc
          exact absurd (by simpa using hk) (hnokey e he)
      exact hdel y hy ⟨h1, h2⟩ rfl
  · intro hy
    refine ⟨?_, ?_⟩
    · by_cases hyo : y ∈ oldEs
      · refine Or.inr ⟨hyo, ?_⟩
        intro e he hk
        have := (hadded e).mp he
        exact this.2 ((hnew e this.1 y hy hk) ▸ hyo)
      · exact Or.inl ((hadded y).mpr ⟨hy, hyo⟩)
    · rintro o _ ⟨_, h2⟩ hk
      simp only [Bool.true_and] at h2
      have := (List.any_eq_false.mp h2) y hy
      simp [hk] at this

theorem find_updSet_self (sets : List IpSet) (n : SetName) (f : List Entry → List Entry) (old : IpSet)
    (h : sets.find? (·.name == n) = some old) :
    (updSet sets n f).find? (·.name == n) = some { old with entries := f old.entries } := by
  induction sets with
  | nil => cases h
  | cons s t ih =>
    simp only [updSet, List.map_cons] at ih ⊢
    by_cases e : s.name = n
    · simp only [List.find?_cons, e, beq_self_eq_true] at h
      cases h
      simp [List.find?_cons, e]
    · have hb : (s.name == n) = false := by simp [e]
      simp only [List.find?_cons, hb] at h
      simp only [e, if_false, List.find?_cons, hb]
      exact ih h

/-- one createIPSet step (current source) for a set that already exists with the right type -/
theorem syncOneSet_entries_exact (sets sets' : List IpSet) (s old : IpSet)
    (hfind : sets.find? (·.name == s.name) = some old) (hold : (old.entries.map Entry.key).Nodup)
    (hnew : KeysConsistent s.entries) (h : syncOneSetWith true sets s = .ok sets') :
    ∃ es, setEntries sets' s.name = some es ∧ ∀ y, y ∈ es ↔ y ∈ s.entries := by
  unfold syncOneSetWith at h
  rw [hfind] at h
  simp only at h
  split at h
  · cases h
  · cases h
    refine ⟨_, ?_, entries_exact s.entries old.entries hold hnew⟩
    unfold setEntries
    rw [find_updSet_self sets s.name _ old hfind]
    rfl

end Galaxy.Policy
