/-
  Helper lemmas for the totality / no-panic theorems of Props/C18.lean (model M10, Galaxy/Model/Total.lean).
  Core Lean only.
-/
import Galaxy.Model.Total

namespace Galaxy.Total

/-! ### walk -/


theorem walkW_terminates (w last : Nat) (hl : last + 1 < 2 ^ w) :
    ∀ fuel first acc, first ≤ last + 1 → last + 2 - first ≤ fuel →
      walkW w last fuel first acc = some (acc + (last + 1 - first)) := by
  intro fuel
  induction fuel with
  | zero => intro first acc h1 h2; omega
  | succ n ih =>
    intro first acc h1 h2
    unfold walkW
    by_cases h : first ≤ last
    · have hm : (first + 1) % 2 ^ w = first + 1 := Nat.mod_eq_of_lt (by omega)
      rw [if_pos h, hm, ih (first + 1) (acc + 1) (by omega) (by omega)]
      congr 1; omega
    · rw [if_neg h]; congr 1; omega

theorem walkW_hangs (w last : Nat) (hl : last + 1 = 2 ^ w) :
    ∀ fuel first acc, first < 2 ^ w → walkW w last fuel first acc = none := by
  intro fuel
  induction fuel with
  | zero => intro first acc _; rfl
  | succ n ih =>
    intro first acc h
    unfold walkW
    rw [if_pos (by omega)]
    exact ih _ _ (Nat.mod_lt _ (by omega))

/-! ### pagination -/

open Galaxy.Generated.Total in
theorem pagination_eq (page size len : Int) (hs : size ≠ 0) :
    pagination page size len =
      .ok { start := pgStart page size len, stop := pgEnd (pgStart page size len) size len, size := size,
            totalPages := (len + size - 1).tdiv size, number := (pgStart page size len).tdiv size,
            count := pgEnd (pgStart page size len) size len - pgStart page size len } := by
  simp only [pagination, goDiv, pgTotalPagesDen, pgNumberDen, pgTotalPagesNum, pgNumberNum, pgSize, pgCount,
    hs, if_false, bind, Except.bind, pure, Except.pure]

open Galaxy.Generated.Total in
theorem pg_bounds (page size : Int) (len : Nat) (hm : 0 ≤ page * size) (hs : 1 ≤ size) :
    0 ≤ pgStart page size len ∧ pgStart page size len ≤ pgEnd (pgStart page size len) size len ∧
      pgEnd (pgStart page size len) size len ≤ len := by
  simp only [pgStart, pgEnd]
  split <;> split <;> omega

theorem parsePage_range (q : Query) : 0 ≤ parsePage q ∧ parsePage q ≤ 99999 := by
  cases q <;> simp only [parsePage, Generated.Total.pageDefault, Generated.Total.pageRejectValue,
    Generated.Total.pageReject, Generated.Total.pageOver, Generated.Total.pageCap]
  · omega
  · omega
  · rename_i v
    by_cases h1 : v < 0 <;> by_cases h2 : v > 99999 <;> simp [h1, h2] <;> omega

theorem parseSize_range (q : Query) : 1 ≤ parseSize q ∧ parseSize q ≤ 9999 := by
  cases q <;> simp only [parseSize, Generated.Total.sizeDefault, Generated.Total.sizeRejectValue,
    Generated.Total.sizeReject, Generated.Total.sizeOver, Generated.Total.sizeCap]
  · omega
  · omega
  · rename_i v
    by_cases h1 : v ≤ 0 <;> by_cases h2 : v > 9999 <;> simp [h1, h2] <;> omega

open Galaxy.Generated.Total in
theorem listIPsPage_eq (pq sq : Query) (len : Nat) :
    listIPsPage pq sq len =
      .ok { start := pgStart (parsePage pq) (parseSize sq) len,
            stop := pgEnd (pgStart (parsePage pq) (parseSize sq) len) (parseSize sq) len,
            size := parseSize sq,
            totalPages := ((len : Int) + parseSize sq - 1).tdiv (parseSize sq),
            number := (pgStart (parsePage pq) (parseSize sq) len).tdiv (parseSize sq),
            count := pgEnd (pgStart (parsePage pq) (parseSize sq) len) (parseSize sq) len
                      - pgStart (parsePage pq) (parseSize sq) len } := by
  have hp := parsePage_range pq
  have hs := parseSize_range sq
  have hb := pg_bounds (parsePage pq) (parseSize sq) len (Int.mul_nonneg hp.1 (by omega)) hs.1
  unfold listIPsPage
  rw [pagination_eq _ _ _ (by omega)]
  simp only [bind, Except.bind, goSliceBounds]
  rw [if_pos hb]
  rfl

/-! ### Go primitives, strings -/


theorem goIndex_ok {α : Type} (l : List α) (i : Int) (h0 : 0 ≤ i) (h1 : i < l.length) :
    ∃ a, goIndex l i = .ok a := by
  unfold goIndex
  rw [if_neg (by omega)]
  have : i.toNat < l.length := by omega
  rw [List.getElem?_eq_getElem this]
  exact ⟨_, rfl⟩

theorem goIndex_nat_ok {α : Type} (l : List α) (k : Nat) (h : k < l.length) :
    ∃ a, goIndex l (k : Int) = .ok a := goIndex_ok l k (by omega) (by omega)

theorem splitGo_length_pos (sep : Str) : ∀ (s : Str) (skip : Nat) (cur : Str) (n : Nat),
    0 < (splitGo sep s skip cur n).length := by
  intro s
  induction s with
  | nil => intro skip cur n; simp [splitGo]
  | cons c cs ih =>
    intro skip cur n
    cases skip with
    | succ k => simp only [splitGo]; exact ih _ _ _
    | zero =>
      simp only [splitGo]
      split
      · simp
      · exact ih _ _ _

theorem splitGo_length_le (sep : Str) : ∀ (s : Str) (skip : Nat) (cur : Str) (n : Nat), 1 ≤ n →
    (splitGo sep s skip cur n).length ≤ n := by
  intro s
  induction s with
  | nil => intro skip cur n h; simp [splitGo]; omega
  | cons c cs ih =>
    intro skip cur n h
    cases skip with
    | succ k => simp only [splitGo]; exact ih _ _ _ h
    | zero =>
      simp only [splitGo]
      split
      · rename_i hc
        have := ih (sep.length - 1) [] (n - 1) (by omega)
        simp only [List.length_cons]; omega
      · exact ih _ _ _ h

theorem goSplit_length_pos (s sep : Str) (h : sep ≠ []) : 0 < (goSplit s sep).length := by
  unfold goSplit
  have : sep.isEmpty = false := by cases sep <;> simp_all
  simp only [this]
  exact splitGo_length_pos _ _ _ _ _

theorem goSplitN_length_le (s sep : Str) (n : Nat) (h : sep ≠ []) : (goSplitN s sep n).length ≤ n := by
  unfold goSplitN
  have : sep.isEmpty = false := by cases sep <;> simp_all
  by_cases hn : n = 0
  · simp [hn]
  · simp only [hn, this, if_false]
    exact splitGo_length_le _ _ _ _ _ (by omega)

theorem indexFrom_single_mem (c : Char) : ∀ (s : Str) (i : Nat), c ∈ s →
    (i : Int) ≤ indexFrom [c] s i ∧ indexFrom [c] s i < (i : Int) + s.length := by
  intro s
  induction s with
  | nil => intro i h; simp at h
  | cons d ds ih =>
    intro i h
    simp only [indexFrom, List.isPrefixOf, Bool.and_true]
    by_cases hd : c = d
    · subst hd; simp; omega
    · have hm : c ∈ ds := by simpa [hd] using h
      have := ih (i + 1) hm
      have hb : (c == d) = false := by simp [hd]
      simp only [hb, List.length_cons]
      omega

theorem indexFrom_single_ne_head (c d : Char) (ds : Str) (i : Nat) (h : c ≠ d) :
    indexFrom [c] (d :: ds) i = indexFrom [c] ds (i + 1) := by
  simp [indexFrom, List.isPrefixOf, h]

/-! ### PolicyStr, parsePodIndex -/

theorem convertReleasePolicy_lt (s : String) : convertReleasePolicy s < 3 := by
  simp only [convertReleasePolicy, Generated.Total.convertPolicyCases, Generated.Total.convertPolicyDefault, List.find?]
  cases ("never" == s) <;> cases ("immutable" == s) <;> simp

theorem parseReleasePolicy_lt (const : Option Nat) (a : String) : parseReleasePolicy const a < 3 := by
  have h := convertReleasePolicy_lt a
  unfold parseReleasePolicy
  cases const with
  | none => exact h
  | some k =>
    simp only [Generated.Total.parsePolicyConstReturns]
    match k with
    | 0 => simp
    | 1 => simp
    | k + 2 => simpa using h

theorem policyStr_ok (n : Nat) (h : n < 3) : ∃ s, policyStr n = .ok s := by
  match n, h with
  | 0, _ => exact ⟨_, rfl⟩
  | 1, _ => exact ⟨_, rfl⟩
  | 2, _ => exact ⟨_, rfl⟩

theorem policyStr_panics (n : Nat) (h : 3 ≤ n) : policyStr n = .error .indexOutOfRange := by
  unfold policyStr policyStrT
  have : Generated.Total.policyStrTable[n]? = none := by
    apply List.getElem?_eq_none; simp [Generated.Total.policyStrTable]; omega
  rw [this]

theorem parsePodIndex_ok (name : Str) : ∃ r, parsePodIndex name = .ok r := by
  unfold parsePodIndex parsePodIndexG
  have hs : Generated.Total.podIndexSep.toList ≠ [] := by decide
  have hl := goSplit_length_pos name _ hs
  obtain ⟨a, ha⟩ := goIndex_ok (goSplit name Generated.Total.podIndexSep.toList)
    (((goSplit name Generated.Total.podIndexSep.toList).length : Int) - (Generated.Total.podIndexFromEnd : Nat))
    (by simp only [Generated.Total.podIndexFromEnd]; omega) (by simp only [Generated.Total.podIndexFromEnd]; omega)
  simp only [bind, Except.bind, ha]
  exact ⟨_, rfl⟩

/-! ### ParseKey -/

theorem resolvePodKey_ok (key : Str) : ∃ r, resolvePodKey key = .ok r := by
  unfold resolvePodKey resolvePodKeyG
  simp only [Generated.Total.resolveGuardLen, Generated.Total.resolveIdx]
  generalize goSplit key Generated.Total.resolveSep.toList = parts
  by_cases h : (parts.length == 4) = true
  · simp only [h, if_true]
    have h4 : parts.length = 4 := by simpa using h
    obtain ⟨a, ha⟩ := goIndex_nat_ok parts 0 (by omega)
    obtain ⟨b, hb⟩ := goIndex_nat_ok parts 2 (by omega)
    obtain ⟨c, hc⟩ := goIndex_nat_ok parts 3 (by omega)
    obtain ⟨d, hd⟩ := goIndex_nat_ok parts 1 (by omega)
    simp only [List.getD_cons_zero, List.getD_cons_succ, bind, Except.bind, ha, hb, hc, hd]
    exact ⟨_, rfl⟩
  · simp only [h]
    exact ⟨_, rfl⟩

theorem hasPrefix_length (s p : Str) (h : hasPrefix s p = true) : p.length ≤ s.length := by
  unfold hasPrefix at h
  exact (List.isPrefixOf_iff_prefix.mp h).length_le

theorem goSlice_ok (s : Str) (lo hi : Int) (h0 : 0 ≤ lo) (h1 : lo ≤ hi) (h2 : hi ≤ s.length) :
    ∃ r, goSlice s lo hi = .ok r := by
  unfold goSlice goSliceBounds
  rw [if_pos ⟨h0, h1, h2⟩]
  exact ⟨_, rfl⟩

theorem parseKey_ok (key : Str) : ∃ k, parseKey key = .ok k := by
  unfold parseKey parseKeyG
  simp only [Generated.Total.parseKeyPrefixGuard, Generated.Total.parseKeyPartsGuard,
    Generated.Total.parseKeyPartsIdx, Generated.Total.parseKeySplitN, Bool.not_true, Bool.false_or]
  by_cases hp : hasPrefix key Generated.Total.poolPrefix.toList = true
  · simp only [hp, if_true]
    obtain ⟨rest, hr⟩ := goSlice_ok key (Generated.Total.poolPrefix.toList.length : Nat) (key.length : Nat)
      (by omega) (by have := hasPrefix_length _ _ hp; omega) (by omega)
    simp only [bind, Except.bind, hr]
    by_cases h2 : ((goSplitN rest Generated.Total.parseKeySep.toList 2).length != 2) = true
    · simp only [h2, if_true]; exact ⟨_, rfl⟩
    · simp only [h2]
      have hl : (goSplitN rest Generated.Total.parseKeySep.toList 2).length = 2 := by simpa using h2
      obtain ⟨a, ha⟩ := goIndex_nat_ok (goSplitN rest Generated.Total.parseKeySep.toList 2) 0 (by omega)
      obtain ⟨b, hb⟩ := goIndex_nat_ok (goSplitN rest Generated.Total.parseKeySep.toList 2) 1 (by omega)
      obtain ⟨r, hr⟩ := resolvePodKey_ok b
      simp only [List.getD_cons_zero, List.getD_cons_succ, ha, hb, hr]
      exact ⟨_, rfl⟩
  · simp only [hp]
    obtain ⟨r, hr⟩ := resolvePodKey_ok key
    simp only [bind, Except.bind, hr]
    exact ⟨_, rfl⟩

/-! ### GetChainLines, CmdDel, UnmarshalJSON slices -/

theorem chainLine_ok (line : Str) (h : ' ' ∈ line) : ∃ k, chainLine line = .ok k := by
  unfold chainLine chainLineG
  split
  · exact ⟨_, rfl⟩
  split
  · exact ⟨_, rfl⟩
  split
  · exact ⟨_, rfl⟩
  split
  · rename_i hc
    simp only [Generated.Total.chainChecksIndex, Bool.false_and, Bool.false_eq_true, if_false]
    have hsep : Generated.Total.chainIndexSep.toList = [' '] := by decide
    have hpre : Generated.Total.chainPrefix.toList = [':'] := by decide
    simp only [Bool.and_eq_true, hpre, hasPrefix] at hc
    match line, h, hc with
    | c :: rest, h, hc =>
      have hc0 : c = ':' := by
        have := hc.1
        simp [List.isPrefixOf] at this
        exact this.symm
      subst hc0
      have hm : ' ' ∈ rest := by simpa using h
      have hi := indexFrom_single_mem ' ' rest 1 hm
      have he : goStrIndex (':' :: rest) Generated.Total.chainIndexSep.toList = indexFrom [' '] rest 1 := by
        rw [hsep]; unfold goStrIndex; exact indexFrom_single_ne_head ' ' ':' rest 0 (by decide)
      rw [he]
      obtain ⟨r, hr⟩ := goSlice_ok (':' :: rest) (Generated.Total.chainSliceLo : Nat) (indexFrom [' '] rest 1)
        (by omega) (by simp only [Generated.Total.chainSliceLo]; omega) (by simp only [List.length_cons]; omega)
      rw [hr]
      exact ⟨_, rfl⟩
  · exact ⟨_, rfl⟩

theorem cmdDelFrom_ok (n : Nat) : ∀ k, k ≤ n → ∃ l, cmdDelFrom n k = .ok l ∧ l.length = k ∧ ∀ i ∈ l, i < n := by
  intro k
  induction k with
  | zero => intro _; exact ⟨[], rfl, rfl, by simp⟩
  | succ k ih =>
    intro h
    obtain ⟨l, hl, hlen, hall⟩ := ih (by omega)
    refine ⟨k :: l, ?_, by simp [hlen], ?_⟩
    · simp only [cmdDelFrom]; rw [if_pos (by omega), hl]; rfl
    · intro i hi
      simp only [List.mem_cons] at hi
      cases hi with
      | inl h1 => omega
      | inr h1 => exact hall i h1

theorem cmdDelFrom_panics (n k : Nat) (h : n < k) : cmdDelFrom n k = .error .indexOutOfRange := by
  match k, h with
  | k + 1, h =>
    simp only [cmdDelFrom]
    by_cases hk : k < n
    · omega
    · rw [if_neg hk]

theorem unmarshalSliceG_ok (minLen lo k len : Nat) (h : lo + k ≤ minLen) :
    ∃ r, unmarshalSliceG minLen lo k len = .ok r := by
  unfold unmarshalSliceG
  by_cases hl : len < minLen
  · rw [if_pos hl]; exact ⟨_, rfl⟩
  · rw [if_neg hl]
    unfold goSliceBounds
    rw [if_pos (by omega)]
    exact ⟨_, rfl⟩

theorem unmarshalSliceG_panics (lo k len : Nat) (h : len < lo + k) :
    unmarshalSliceG 0 lo k len = .error .sliceBounds := by
  unfold unmarshalSliceG
  rw [if_neg (by omega)]
  unfold goSliceBounds
  rw [if_neg (by omega)]
  rfl

/-! ### nil elements: networks annotation, floatingip configuration, policy sync -/

theorem derefNetworks_ok (c : Bool) : ∀ nets : List (Option Str), (c = true ∨ nets.any Option.isNone = false) →
    ∃ l, derefNetworks c nets = .ok l := by
  intro nets
  induction nets with
  | nil => intro _; exact ⟨_, rfl⟩
  | cons e rest ih =>
    intro h
    cases e with
    | some n =>
      obtain ⟨l, hl⟩ := ih (by cases h with | inl h => exact .inl h | inr h => exact .inr (by simpa using h))
      exact ⟨n :: l, by simp only [derefNetworks, hl]; rfl⟩
    | none =>
      cases h with
      | inl h => subst h; simp only [derefNetworks, if_true]; exact ih (.inl rfl)
      | inr h => simp at h

theorem resolveNetworksG_ok (r c : Bool) (h : r = true ∨ c = true) (elems : List (Option Str)) :
    ∃ res, resolveNetworksG r c elems = .ok res := by
  unfold resolveNetworksG parseNetworksG
  by_cases hn : (r && elems.any Option.isNone) = true
  · simp only [hn, if_true]; exact ⟨_, rfl⟩
  · simp only [hn]
    have : c = true ∨ elems.any Option.isNone = false := by
      cases h with
      | inr h => exact .inl h
      | inl h =>
        subst h; right
        cases hh : elems.any Option.isNone with
        | false => rfl
        | true => simp [hh] at hn
    obtain ⟨l, hl⟩ := derefNetworks_ok c elems this
    show ∃ res, (derefNetworks c elems).map some = .ok res
    rw [hl]; exact ⟨_, rfl⟩

theorem nodeSubnetsLoop_ok : ∀ l : List Bool, ∃ b, nodeSubnetsLoop true l = .ok b := by
  intro l
  induction l with
  | nil => exact ⟨_, rfl⟩
  | cons p rest ih =>
    cases p with
    | true => simpa [nodeSubnetsLoop] using ih
    | false => exact ⟨false, by simp [nodeSubnetsLoop]⟩

theorem poolUnmarshalG_ok (g : ConfGuards) (h1 : g.checksRoutable = true) (h2 : g.rejectsNilNodeSubnet = true)
    (h3 : g.checksSubnet = true) (c : PoolConf) : ∃ b, poolUnmarshalG g c = .ok b := by
  obtain ⟨b, hb⟩ := nodeSubnetsLoop_ok c.nodeSubnets
  unfold poolUnmarshalG
  simp only [h1, h2, h3, if_true]
  cases g.rejectsNoSubnets <;> cases c.routable <;> cases c.nodeSubnets.isEmpty <;> cases c.gateway <;>
    cases c.subnet <;> cases b <;> simp [hb, bind, Except.bind, pure, Except.pure]

theorem decodePools_ok (g : ConfGuards) (h1 : g.checksRoutable = true) (h2 : g.rejectsNilNodeSubnet = true)
    (h3 : g.checksSubnet = true) : ∀ text : List (Option PoolConf), ∃ r, decodePools g text = .ok r := by
  intro text
  induction text with
  | nil => exact ⟨_, rfl⟩
  | cons e rest ih =>
    obtain ⟨r, hr⟩ := ih
    cases e with
    | none => exact ⟨_, by simp only [decodePools, hr, bind, Except.bind]; rfl⟩
    | some c =>
      obtain ⟨b, hb⟩ := poolUnmarshalG_ok g h1 h2 h3 c
      cases b with
      | false => exact ⟨none, by simp only [decodePools, hb, bind, Except.bind]; rfl⟩
      | true => exact ⟨_, by simp only [decodePools, hb, hr, bind, Except.bind]; rfl⟩

theorem applyConfG_ok (g : ConfGuards) (h1 : g.checksRoutable = true) (h2 : g.rejectsNilNodeSubnet = true)
    (h3 : g.checksSubnet = true) (caller cp : Bool) (h : caller = true ∨ cp = true)
    (text : List (Option PoolConf)) : ∃ b, applyConfG g caller cp text = .ok b := by
  obtain ⟨r, hr⟩ := decodePools_ok g h1 h2 h3 text
  unfold applyConfG
  simp only [hr, bind, Except.bind]
  cases r with
  | none => exact ⟨_, rfl⟩
  | some pools =>
    simp only [configurePoolG]
    cases hall : pools.all id <;> cases caller <;> cases cp <;> simp_all [pure, Except.pure]

theorem syncDirLoop_ok (g : DirGuards) (hi : g.indexGuard = true) (ht : g.tableGuard = true) (mk : Nat → SetRef)
    (r : DirRule) : ∀ (spec : List Nat) (i : Nat), ∃ l, syncDirLoop g mk (some r) spec i = .ok l := by
  intro spec
  induction spec with
  | nil => intro i; exact ⟨_, rfl⟩
  | cons hits rest ih =>
    intro i
    obtain ⟨more, hm⟩ := ih (i + 1)
    simp only [syncDirLoop, hi, ht, Bool.true_and, if_true]
    by_cases hge : i ≥ r.ipTables.length
    · simp only [hge, decide_true, if_true, bind, Except.bind, pure, Except.pure, hm]; exact ⟨_, rfl⟩
    · have hlt : i < r.ipTables.length := by omega
      simp only [hge, decide_false, Bool.false_eq_true, if_false, List.getElem?_eq_getElem hlt]
      cases r.ipTables[i] <;> simp only [bind, Except.bind, pure, Except.pure, hm] <;> exact ⟨_, rfl⟩

theorem syncDir_ok (g : DirGuards) (hn : g.nilGuard = true) (hi : g.indexGuard = true) (ht : g.tableGuard = true)
    (mk : Nat → SetRef) (rule : Option DirRule) (spec : List Nat) : ∃ l, syncDir g mk rule spec = .ok l := by
  unfold syncDir
  cases rule with
  | none => simp only [hn, Option.isNone_none, Bool.and_self, if_true]; exact ⟨_, rfl⟩
  | some r =>
    simp only [Option.isNone_some, Bool.and_false, Bool.false_eq_true, if_false]
    exact syncDirLoop_ok g hi ht mk r spec 0

theorem syncPodSet_ok (g : SyncGuards) (h1 : g.podIngressNil = true) (h2 : g.podEgressNil = true) (p : Policy)
    (hw : p.WF) : ∃ l, syncPodSet g p = .ok l := by
  unfold syncPodSet
  obtain ⟨wi, we⟩ := hw
  cases p.selectsPod with
  | false => exact ⟨_, rfl⟩
  | true =>
    simp only [Bool.not_true, Bool.false_eq_true, if_false, h1, h2]
    cases hi : p.ingressRule with
    | some r => simp only [wi r hi, if_true]; exact ⟨_, rfl⟩
    | none =>
      cases he : p.egressRule with
      | some r => simp only [we r he, if_true]; exact ⟨_, rfl⟩
      | none => exact ⟨_, rfl⟩

end Galaxy.Total
