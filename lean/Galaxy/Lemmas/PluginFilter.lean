/-
  M4-core proofs, part 10: IPAM-level steps preserve the invariant; Filter.
-/
import Galaxy.Lemmas.PluginTruth

namespace Galaxy.Plugin
open Galaxy

/-- an IPAM-level step that is coherent and safe for the live bound pods keeps the invariant -/
theorem Inv.step_of_evolves {s s' : State} (h : Inv s) (hc : Coherent s') (he : Evolves s.pods s s') : Inv s' := by
  have f := he.frame
  refine ⟨hc, ?_, ?_, ?_, ?_, ?_, ?_, ?_, by rw [f.pods]; exact h.podsNodup, by rw [f.vPods]; exact h.vPodsNodup⟩
  · rw [f.pods]; exact h.safe.evolves he
  · rw [f.pods, f.nextUid]; exact h.podsWF
  · rw [f.pods]; exact h.uidUniq
  · rw [f.pods, f.vPods, f.nextUid]; exact h.lister
  · rw [f.pods, f.events, f.nextUid]; exact h.events
  · rw [f.pods, f.vPods]; exact h.listerLive
  · rw [f.nextUid]; exact h.uidPos

/-- no live bound pod's key is a pool / deployment prefix -/
theorem Inv.not_liveKey_prefix {s : State} (h : Inv s) (k : Key) (hna : k.poolPrefix.isAdmin = false) :
    ¬ LiveKey s.pods k.poolPrefix := by
  rintro (⟨q, hq, hk⟩ | ha)
  · exact keyOf_ne_poolPrefix q (h.podsWF _ q hq.1).2.2.2 k hk
  · rw [hna] at ha; cases ha

/-- under the key of a pod of the table only that pod can be the live bound one -/
theorem Inv.newOK_of_pod {s : State} (h : Inv s) (id : String × String) (p : Pod) (hp : Tbl.get s.pods id = some p) :
    NewOKKey s.pods (keyOf p) p.uid := by
  trivial

/-- `Chg` from free / prefix-keyed records to records of pod `p` is safe -/
theorem Inv.evolves_of_chg_pod {s s' : State} (h : Inv s) (id : String × String) (p : Pod) (k0 : Key)
    (hp : Tbl.get s.pods id = some p) (hna : k0.poolPrefix.isAdmin = false)
    (c : Chg (fun o => isFree o ∨ hasKey k0.poolPrefix o) (hasKeyUid (keyOf p) p.uid) s s') : Evolves s.pods s s' := by
  apply c.evolves
  · intro o ho r hr
    rcases ho with ho | ⟨r', h1, h2⟩
    · rw [ho] at hr; cases hr
    · rw [h1] at hr; cases hr; rw [h2]; exact h.not_liveKey_prefix k0 hna
  · intro n hn r hr
    trivial

theorem allocateDuringFilter_coherent (s : State) (k : Key) (resv : Bool) (n : Subnet) (a : Attr) (pick : Option IP)
    (h : Coherent s) : Coherent (allocateDuringFilter s k resv n a pick).1 := by
  unfold allocateDuringFilter
  split
  · exact allocateInSubnetWithKey_coherent s _ _ n a pick h
  · exact allocateInSubnet_coherent s k n a pick h

theorem allocateDuringFilter_chg (s : State) (k : Key) (resv : Bool) (n : Subnet) (a : Attr) (pick : Option IP)
    (h : Coherent s) :
    Chg (fun o => isFree o ∨ hasKey k.poolPrefix o) (hasKeyUid k a.uid) s (allocateDuringFilter s k resv n a pick).1 := by
  unfold allocateDuringFilter
  split
  · exact (allocateInSubnetWithKey_chg s _ _ n a pick).mono (fun _ h => Or.inr h) (fun _ h => h)
  · exact (allocateInSubnet_chg s k n a pick h).mono (fun _ h => Or.inl h) (fun _ h => h)

/-- the state after `getSubnetCont` is the state before, or the one `allocateDuringFilter` produced -/
theorem getSubnetCont_state (s : State) (pod : Pod) (ch : Choice) (rss : List (List (Nat × Nat))) (ha : Bool)
    (al : List Subnet) :
    (getSubnetCont s pod ch rss ha al).1 = s ∨ ∃ resv n, (getSubnetCont s pod ch rss ha al).1 =
      (allocateDuringFilter s (keyOf pod) resv n { policy := policyOf pod, node := "", uid := pod.uid } ch.pick).1 := by
  unfold getSubnetCont
  repeat' split
  all_goals first | exact Or.inl rfl | exact Or.inr ⟨_, _, rfl⟩

theorem getSubnet_state (s : State) (pod : Pod) (ch : Choice) :
    (getSubnet s pod ch).1 = s ∨ ∃ resv n, (getSubnet s pod ch).1 =
      (allocateDuringFilter s (keyOf pod) resv n { policy := policyOf pod, node := "", uid := pod.uid } ch.pick).1 := by
  unfold getSubnet
  split
  · split
    · exact getSubnetCont_state s pod ch _ _ _
    · split
      · exact Or.inl rfl
      · exact Or.inl rfl
  · split
    · exact Or.inl rfl
    · exact getSubnetCont_state s pod ch _ _ _

theorem getNodeSubnet_quiet (s : State) (node : String) : QuietStep s (getNodeSubnet s node).1 := by
  unfold getNodeSubnet
  split
  · exact QuietStep.refl s
  · split
    · exact QuietStep.refl s
    · split
      · exact QuietStep.refl s
      · exact ⟨⟨rfl, rfl, rfl, rfl, rfl, rfl, rfl, rfl, rfl, rfl, rfl, rfl, rfl, rfl, Nat.le_refl _, rfl⟩, rfl, rfl, rfl⟩

theorem getNodeSubnet_plog (s : State) (node : String) : (getNodeSubnet s node).1.plog = s.plog := by
  unfold getNodeSubnet
  split
  · rfl
  · split
    · rfl
    · split <;> rfl

theorem filterNodes_quiet (set : List Subnet) : ∀ (nodes : List String) (acc : List String) (s : State),
    QuietStep s (filterNodes s set nodes acc).1 ∧ (filterNodes s set nodes acc).1.plog = s.plog := by
  intro nodes
  induction nodes with
  | nil => intro acc s; exact ⟨QuietStep.refl s, rfl⟩
  | cons n t ih =>
    intro acc s
    unfold filterNodes
    dsimp only
    have q := getNodeSubnet_quiet s n
    have pl := getNodeSubnet_plog s n
    split
    · have := ih acc (getNodeSubnet s n).1
      exact ⟨q.trans this.1, this.2.trans pl⟩
    · split
      · have := ih (acc ++ [n]) (getNodeSubnet s n).1
        exact ⟨q.trans this.1, this.2.trans pl⟩
      · have := ih acc (getNodeSubnet s n).1
        exact ⟨q.trans this.1, this.2.trans pl⟩

/-- what any state reached inside `filter` satisfies -/
theorem inv_filter_core (s : State) (ns name : String) (nodes : List String) (ch : Choice) (h : Inv s) :
    Inv (filter s ns name nodes ch).1 := by
  unfold filter
  split
  · exact h
  · rename_i pod hpod
    split
    · exact h
    · dsimp only
      have key : Inv (getSubnet s pod ch).1 := by
        rcases getSubnet_state s pod ch with e | ⟨resv, n, e⟩
        · rw [e]; exact h
        · rw [e]
          have c := allocateDuringFilter_chg s (keyOf pod) resv n { policy := policyOf pod, node := "", uid := pod.uid }
            ch.pick h.coh
          exact h.step_of_evolves (allocateDuringFilter_coherent s _ resv n _ ch.pick h.coh)
            (h.evolves_of_chg_pod (ns, name) pod (keyOf pod) hpod (keyOf_poolPrefix_not_admin pod) c)
      split
      · exact h
      · exact key
      · rename_i set _
        have q := (filterNodes_quiet set nodes [] (getSubnet s pod ch).1).1
        exact key.of_fields q.frame.pools q.alloc q.free q.store q.frame.pods q.frame.vPods q.frame.events q.frame.nextUid q.frame.admin

theorem inv_filter (s : State) (ns name : String) (nodes : List String) (ch : Choice) (fault : Nat) (h : Inv s) :
    Inv (step Facts.good s (.filter ns name nodes ch fault)).1 :=
  inv_filter_core _ ns name nodes ch (inv_withFaults s fault 0 h)

theorem inv_getSubnet (s : State) (ns name : String) (pod : Pod) (ch : Choice) (h : Inv s)
    (hpod : Tbl.get s.pods (ns, name) = some pod) : Inv (getSubnet s pod ch).1 := by
  rcases getSubnet_state s pod ch with e | ⟨resv, n, e⟩
  · rw [e]; exact h
  · rw [e]
    have c := allocateDuringFilter_chg s (keyOf pod) resv n { policy := policyOf pod, node := "", uid := pod.uid }
      ch.pick h.coh
    exact h.step_of_evolves (allocateDuringFilter_coherent s _ resv n _ ch.pick h.coh)
      (h.evolves_of_chg_pod (ns, name) pod (keyOf pod) hpod (keyOf_poolPrefix_not_admin pod) c)

theorem inv_preempt_core (s : State) (ns name : String) (nodes : List String) (ch : Choice) (h : Inv s) :
    Inv (preempt s ns name nodes ch).1 := by
  unfold preempt
  split
  · exact h
  · rename_i pod hpod
    split
    · exact h
    · have key := inv_getSubnet s ns name pod ch h hpod
      split
      · exact h
      · exact key
      · rename_i set _
        have q := (filterNodes_quiet set nodes [] (getSubnet s pod ch).1).1
        exact key.of_fields q.frame.pools q.alloc q.free q.store q.frame.pods q.frame.vPods q.frame.events q.frame.nextUid q.frame.admin

theorem inv_preempt (s : State) (ns name : String) (nodes : List String) (ch : Choice) (fault : Nat) (h : Inv s) :
    Inv (step Facts.good s (.preempt ns name nodes ch fault)).1 :=
  inv_preempt_core _ ns name nodes ch (inv_withFaults s fault 0 h)

/-- The allocation `getSubnet` may make for a pod of API truth is safe in ANY state, whatever subnet, reserve flag and
    pick it was computed with: Preempt runs `getSubnet` without the pod lock, so between its reads and this call anything
    may have happened to the pod's key - the live bound pods' records are untouched all the same (only unallocated
    addresses and records keyed by the pool / deployment prefix are taken, and they are stored with the pod's own uid). -/
theorem preempt_alloc_any_time (s : State) (ns name : String) (pod : Pod) (resv : Bool) (n : Subnet) (policy : Nat)
    (pick : Option IP) (h : Inv s) (hpod : Tbl.get s.pods (ns, name) = some pod) :
    Inv (allocateDuringFilter s (keyOf pod) resv n { policy := policy, node := "", uid := pod.uid } pick).1 := by
  have c := allocateDuringFilter_chg s (keyOf pod) resv n { policy := policy, node := "", uid := pod.uid } pick h.coh
  exact h.step_of_evolves (allocateDuringFilter_coherent s _ resv n _ pick h.coh)
    (h.evolves_of_chg_pod (ns, name) pod (keyOf pod) hpod (keyOf_poolPrefix_not_admin pod) c)

end Galaxy.Plugin
