/-
  C10 proofs, part 5: the invariant `Inv10` (the C04 invariant of the core model + `Core` + "every address of a live
  bound pod is assigned to the pod's node") through every move of the move set, lifted to histories.
-/
import Galaxy.Lemmas.C10Bind

namespace Galaxy.PluginC10
open Galaxy Galaxy.Plugin

/-! ### the provider entry of an address is stable under admissible requests that do not unassign it -/

theorem logOKFrom_append : ∀ (l1 l2 : List PCall) (a : Tbl IP String),
    logOKFrom a (l1 ++ l2) = (logOKFrom a l1 && logOKFrom (l1.foldl applyCall a) l2) := by
  intro l1
  induction l1 with
  | nil => intro l2 a; simp [logOKFrom]
  | cons x t ih => intro l2 a; simp only [List.cons_append, logOKFrom, List.foldl_cons]; rw [ih]; simp [Bool.and_assoc]

theorem foldl_stable (ip : IP) (n : String) : ∀ (l : List PCall) (a : Tbl IP String), Tbl.get a ip = some n →
    logOKFrom a l = true → (∀ c, c ∈ l → ∀ node ok, c ≠ .unassign node ip ok) →
    Tbl.get (l.foldl applyCall a) ip = some n := by
  intro l
  induction l with
  | nil => intro a h _ _; exact h
  | cons c t ih =>
    intro a h hok hnu
    simp only [logOKFrom, Bool.and_eq_true] at hok
    simp only [List.foldl_cons]
    apply ih _ _ hok.2 (fun c' hc' => hnu c' (List.mem_cons_of_mem _ hc'))
    rw [get_applyCall]
    cases c with
    | assign node j ok =>
      cases ok with
      | false => exact h
      | true =>
        dsimp only
        by_cases hj : j = ip
        · rw [if_pos hj]
          subst hj
          have := hok.1
          simp only [callOK, h, beq_iff_eq] at this
          rw [this]
        · rw [if_neg hj]; exact h
    | unassign node j ok =>
      cases ok with
      | false => exact h
      | true =>
        dsimp only
        by_cases hj : j = ip
        · exact absurd (by rw [hj]) (hnu _ (List.mem_cons_self) node true)
        · rw [if_neg hj]; exact h

/-- across a step that appended admissible requests none of which unassigns `ip` -/
theorem prov_stable (s s' : State) (l : List PCall) (hl : s'.plog = s.plog ++ l) (hok : logOK s'.plog = true) (ip : IP)
    (n : String) (h : Tbl.get (prov s) ip = some n) (hnu : ∀ c, c ∈ l → ∀ node ok, c ≠ .unassign node ip ok) :
    Tbl.get (prov s') ip = some n := by
  unfold prov provOf at h ⊢
  rw [hl, List.foldl_append]
  have : logOKFrom (s.plog.foldl applyCall []) l = true := by
    unfold logOK at hok
    rw [hl, logOKFrom_append] at hok
    exact (Bool.and_eq_true_iff.mp hok).2
  exact foldl_stable ip n l _ h this hnu

/-! ### the pod table of the moves that do not bind -/

theorem unbind_pods (F : Plugin.Facts) (s : State) (pod : Pod) : (unbind F s pod).1.pods = s.pods := by
  unfold unbind
  try dsimp only
  split
  · rfl
  · have u := (unassignAll_quiet (ipsOfKey s (keyOf pod)) s).frame.pods
    split
    · exact u
    · split
      · exact ((unbindDp_chg _ _ _).frame.pods).trans u
      · exact ((unbindOther_chg _ _ _).frame.pods).trans u

theorem deliver_pods (F : Plugin.Facts) (s : State) (i : Nat) : (deliver F s i).1.pods = s.pods := by
  unfold deliver
  split
  · rfl
  · dsimp only
    split
    · exact unbind_pods F _ _
    · split
      · exact unbind_pods F _ _
      · exact unbind_pods F _ _

theorem resyncAct_pods (s : State) (ip : IP) (k : Key) (r : Rec) : (resyncAct s ip k r).pods = s.pods := by
  unfold resyncAct
  split
  · have pu := (provUnassign_quiet s r.node ip).frame.pods
    split
    · exact pu
    · have rs := ((reserve_chg _ k k {}).frame.pods).trans pu
      split
      · exact ((unbindDp_chg _ _ _).frame.pods).trans rs
      · exact ((unbindOther_chg _ _ _).frame.pods).trans rs
  · split
    · exact (unbindDp_chg _ _ _).frame.pods
    · exact (unbindOther_chg _ _ _).frame.pods

theorem resyncOne_pods (F : Plugin.Facts) (s : State) (ip : IP) (r0 : Rec) : (resyncOne F s ip r0).pods = s.pods := by
  unfold resyncOne
  split
  · rfl
  · rename_i r _
    split
    · rfl
    · have pr := (podRunning_quiet F s r0.key.pod r0.key.ns r.uid).1.frame.pods
      split
      · exact pr
      · have ko := ((keyOwned_quiet F (podRunning F s r0.key.pod r0.key.ns r.uid).1 r0.key r.uid).1.frame.pods).trans pr
        split
        · exact ko
        · exact (resyncAct_pods _ ip r0.key r).trans ko

theorem resyncLoop_pods (F : Plugin.Facts) (snap : Tbl IP Rec) : ∀ (l : List IP) (s : State),
    (resyncLoop F snap s l).pods = s.pods := by
  intro l
  induction l with
  | nil => intro s; rfl
  | cons ip t ih =>
    intro s
    unfold resyncLoop
    split
    · exact ih s
    · exact (ih _).trans (resyncOne_pods F s ip _)

theorem resync_pods (F : Plugin.Facts) (s : State) (order : List IP) : (resync F s order).1.pods = s.pods := by
  unfold resync
  dsimp only
  split
  · rfl
  · exact resyncLoop_pods F _ order s

theorem releasePre_pods (s : State) (node : String) (ip : IP) (k : Key) : (releasePre s node ip k).1.pods = s.pods := by
  unfold releasePre
  split
  · have pu := (provUnassign_quiet s node ip).frame.pods
    split
    · exact pu
    · exact ((reserve_chg _ k k {}).frame.pods).trans pu
  · rfl

theorem releaseAct_pods (F : Plugin.Facts) (s : State) (ip : IP) (k : Key) (uid : Nat) (node : String) :
    (releaseAct F s ip k uid node).1.pods = s.pods := by
  unfold releaseAct
  have ko := (keyOwned_quiet F s k uid).1.frame.pods
  split
  · exact ko
  · generalize (keyOwnedByRunningPod F s k uid).1 = t at ko ⊢
    have rp : (releasePre t node ip k).1.pods = s.pods := by rw [releasePre_pods]; exact ko
    generalize releasePre t node ip k = x at rp ⊢
    split
    · rw [(release_chg x.1 k ip).frame.pods]; exact rp
    · exact rp

theorem apiRelease_pods (F : Plugin.Facts) (s : State) (ip : IP) (k : Key) : (apiRelease F s ip k).1.pods = s.pods := by
  unfold apiRelease
  split
  · rfl
  · have pr := (podRunning_quiet F s k.pod k.ns (((Tbl.get s.alloc ip).map (·.uid)).getD 0)).1.frame.pods
    split
    · exact pr
    · exact (releaseAct_pods F _ ip k _ _).trans pr

theorem filter_pods (s : State) (ns name : String) (nodes : List String) (ch : Choice) :
    (Plugin.filter s ns name nodes ch).1.pods = s.pods := by
  unfold Plugin.filter
  split
  · rfl
  · rename_i pod _
    split
    · rfl
    · dsimp only
      have key : (getSubnet s pod ch).1.pods = s.pods := by
        rcases getSubnet_state s pod ch with e | ⟨resv, n, e⟩
        · rw [e]
        · rw [e]
          unfold allocateDuringFilter
          split
          · exact (allocateInSubnetWithKey_chg s _ _ n _ ch.pick).frame.pods
          · have st := stCreate_step
            unfold allocateInSubnet
            dsimp only
            split
            · rfl
            · split
              · rfl
              · split
                · rfl
                · split
                  · exact (stCreate_step _ _ _).frame.pods
                  · exact (stCreate_step _ _ _).frame.pods
      split
      · rfl
      · exact key
      · rename_i set _
        exact ((filterNodes_quiet set nodes [] (getSubnet s pod ch).1).1.frame.pods).trans key

theorem getSubnet_pods (s : State) (pod : Pod) (ch : Choice) : (getSubnet s pod ch).1.pods = s.pods := by
  rcases getSubnet_state s pod ch with e | ⟨resv, n, e⟩
  · rw [e]
  · rw [e]
    unfold allocateDuringFilter
    split
    · exact (allocateInSubnetWithKey_chg s _ _ n _ ch.pick).frame.pods
    · unfold allocateInSubnet
      dsimp only
      split
      · rfl
      · split
        · rfl
        · split
          · rfl
          · split
            · exact (stCreate_step _ _ _).frame.pods
            · exact (stCreate_step _ _ _).frame.pods

theorem preempt_pods (s : State) (ns name : String) (nodes : List String) (ch : Choice) :
    (Plugin.preempt s ns name nodes ch).1.pods = s.pods := by
  unfold Plugin.preempt
  split
  · rfl
  · rename_i pod _
    split
    · rfl
    · split
      · rfl
      · exact getSubnet_pods s pod ch
      · rename_i set _
        exact ((filterNodes_quiet set nodes [] (getSubnet s pod ch).1).1.frame.pods).trans (getSubnet_pods s pod ch)

/-! ### the invariant -/

structure Inv10 (s : State) : Prop where
  base : Inv s
  core : Core s
  /-- "every IP of a bound live pod is assigned to that pod's node" -/
  bound : ∀ q, LiveBound s.pods q → ∀ hd, hd ∈ q.handed → Tbl.get (prov s) hd.ip = some q.node

/-- both sets of side conditions -/
def assumedAll (s : State) (m : Move) : Bool := assumed s m && assumed10 s m

def allAssumed10 : State → List Move → Bool
  | _, [] => true
  | s, m :: ms => assumedAll s m && allAssumed10 (next Facts.good s m) ms

theorem single_of_bool (s : State) (hc : Coherent s) (h : singleKeys s = true) : Single s := by
  intro ip1 ip2 r1 r2 h1 h2 hk hp
  unfold singleKeys at h
  have := List.all_eq_true.mp h (ip1, r1) (Tbl.get_mem h1)
  simp only [Bool.or_eq_true, beq_iff_eq, decide_eq_true_eq] at this
  rcases this with e | e
  · exact absurd e hp
  · have m1 : ip1 ∈ ipsOfKey s r1.key := mem_ipsOfKey_of_get h1 rfl
    have m2 : ip2 ∈ ipsOfKey s r1.key := mem_ipsOfKey_of_get h2 hk.symm
    match hl : ipsOfKey s r1.key, e, m1, m2 with
    | [], _, m1, _ => cases m1
    | [x], _, m1, m2 =>
      have a : ip1 = x := by simpa using m1
      have b : ip2 = x := by simpa using m2
      rw [a, b]
    | _ :: _ :: _, e, _, _ => simp at e

/-- the pods of the lister have a name and an incarnation -/
theorem lister_vals (s : State) (h : Inv s) : ∀ p, p ∈ Tbl.vals s.vPods → (keyOf p).pod ≠ "" ∧ p.uid ≠ 0 := by
  intro p hp
  obtain ⟨e, he, rfl⟩ := List.mem_map.mp hp
  have hg : Tbl.get s.vPods e.1 = some e.2 := Tbl.get_of_mem_nodup h.vPodsNodup he
  obtain ⟨_, l0, _, lwf, _⟩ := h.lister e.1 e.2 hg
  exact ⟨by rw [(keyOf_fields e.2 lwf).2]; exact lwf.2.1, l0⟩

/-- the invariant core through one move -/
theorem core_step (s : State) (m : Move) (h : Inv s) (c : Core s) (ha : assumed10 s m = true)
    (hc' : Coherent (step Facts.good s m).1) : Core (step Facts.good s m).1 := by
  cases m with
  | createPod ns name kind app pool policy ranges wants => dsimp only [step]; split <;> exact c.of_eq rfl rfl rfl rfl rfl rfl
  | deletePod ns name => dsimp only [step]; split <;> exact c.of_eq rfl rfl rfl rfl rfl rfl
  | finishPod ns name =>
    dsimp only [step]
    split
    · exact c
    · split <;> exact c.of_eq rfl rfl rfl rfl rfl rfl
  | markTerminating ns name fault =>
    dsimp only [step]
    cases hp : Tbl.get s.pods (ns, name) with
    | none => exact c
    | some p =>
      dsimp only
      obtain ⟨_, pu0, _, pwf⟩ := h.podsWF (ns, name) p hp
      split
      · exact c
      · split
        · exact c.of_eq rfl rfl rfl rfl rfl rfl
        · split
          · exact c.of_eq rfl rfl rfl rfl rfl rfl
          · split
            · have c0 : Core (withFaults { s with pods := s.pods.set (ns, name) { p with terminating := true } } fault 0) :=
                c.of_eq rfl rfl rfl rfl rfl rfl
              have hk : (keyOf { p with terminating := true }).pod ≠ "" := by
                show (keyOf p).pod ≠ ""
                rw [(keyOf_fields p pwf).2]; exact pwf.2.1
              exact (syncIPs_core { p with terminating := true } hk pu0 p.ips _ c0).1
            · exact c.of_eq rfl rfl rfl rfl rfl rfl
  | runPod ns name =>
    dsimp only [step]
    split
    · exact c
    · split <;> exact c.of_eq rfl rfl rfl rfl rfl rfl
  | scale kind ns app n => exact c.of_eq rfl rfl rfl rfl rfl rfl
  | deleteApp kind ns app => exact c.of_eq rfl rfl rfl rfl rfl rfl
  | setPool name size => dsimp only [step]; split <;> exact c.of_eq rfl rfl rfl rfl rfl rfl
  | listerSync pods apps => dsimp only [step]; split <;> split <;> exact c.of_eq rfl rfl rfl rfl rfl rfl
  | fipSync => exact c.of_eq rfl rfl rfl rfl rfl rfl
  | dropEvent i => dsimp only [step]; split <;> exact c.of_eq rfl rfl rfl rfl rfl rfl
  | filter ns name nodes ch fault =>
    exact filter_core _ ns name nodes ch (c.of_eq (s' := withFaults s fault 0) rfl rfl rfl rfl rfl rfl)
  | bind ns name uid node ch fault pfault =>
    simp only [assumed10, Bool.and_eq_true, Bool.or_eq_true, beq_iff_eq] at ha
    have c0 : Core (withFaults s fault pfault) := c.of_eq rfl rfl rfl rfl rfl rfl
    refine (bind_post (withFaults s fault pfault) ns name uid node ch c0 rfl ha.1 ha.2 (fun pod hpod => ?_)).core
    obtain ⟨_, l0, _, lwf, _⟩ := h.lister (ns, name) pod hpod
    exact ⟨by rw [(keyOf_fields pod lwf).2]; exact lwf.2.1, l0⟩
  | deliver i fault pfault => exact core_deliver _ _ i (c.of_eq (s' := withFaults s fault pfault) rfl rfl rfl rfl rfl rfl)
  | resync order fault pfault =>
    have c0 : Core (withFaults s fault pfault) := c.of_eq rfl rfl rfl rfl rfl rfl
    exact resync_core _ order c0 (single_of_alloc_eq (single_of_bool s c.coh ha) rfl)
  | syncPodIPs fault =>
    have c0 : Core (withFaults s fault 0) := c.of_eq rfl rfl rfl rfl rfl rfl
    exact (syncPods_core _ (withFaults s fault 0) (lister_vals s h) c0).1
  | apiRelease ip k fault pfault =>
    have c0 : Core (withFaults s fault pfault) := c.of_eq rfl rfl rfl rfl rfl rfl
    exact apiRelease_core _ ip k c0 (single_of_alloc_eq (single_of_bool s c.coh ha) rfl)
  | reload pools fault => simp [assumed10] at ha
  | restart =>
    have ho : s.orphans = [] := by simpa [assumed10] using ha
    have c0 : Core (withFaults s 0 0) := c.of_eq rfl rfl rfl rfl rfl rfl
    have r := restart_same (withFaults s 0 0) c0.coh ho
    show Core (restart (withFaults s 0 0)).1
    exact ⟨r.2.1, by rw [r.2.2.2.1]; exact c.on,
      fun j => by unfold prov; rw [r.1 j, r.2.2.1]; exact c.j j, by rw [r.2.2.1]; exact c.log⟩
  | resyncSnap => exact c.of_eq rfl rfl rfl rfl rfl rfl
  | resyncRec ip fault pfault =>
    dsimp only [step]
    split
    · exact c
    · rename_i r0 _
      split
      · exact c
      · have c0 : Core (withFaults s fault pfault) := c.of_eq rfl rfl rfl rfl rfl rfl
        exact (resyncOne_core _ ip r0 c0 (single_of_alloc_eq (single_of_bool s c.coh ha) rfl)).1.of_eq rfl rfl rfl rfl rfl rfl
  | preempt ns name nodes ch fault =>
    exact preempt_core _ ns name nodes ch (c.of_eq (s' := withFaults s fault 0) rfl rfl rfl rfl rfl rfl)
  | adminReserve ip text policy =>
    dsimp only [step] at hc' ⊢
    by_cases ht : text = ""
    · rw [if_pos ht]; exact c
    · rw [if_neg ht] at hc' ⊢
      by_cases hfree : (!s.free.contains ip) = true
      · rw [if_pos hfree]; exact c
      · rw [if_neg hfree] at hc' ⊢
        have hin : ip ∈ s.free := by simpa using hfree
        have hnone : Tbl.get s.alloc ip = none := c.coh.disjoint ip hin
        refine ⟨hc', c.on, fun j => ?_, c.log⟩
        show RecOK (Tbl.get (Tbl.set s.alloc ip _) j) (Tbl.get (prov s) j)
        rw [Tbl.get_set]
        by_cases hij : ip = j
        · rw [if_pos hij, ← hij, (c.j ip).unassigned_of_free hnone]
          exact RecOK.of_unassigned _ (fun r hr _ => by cases hr; rfl)
        · rw [if_neg hij]; exact c.j j
  | adminUnreserve ip =>
    dsimp only [step] at hc' ⊢
    revert hc'
    cases hr : Tbl.get s.alloc ip with
    | none => intro _; exact c
    | some r =>
      dsimp only
      intro hc'
      by_cases hres : (!(r.reserved && r.key.isAdmin)) = true
      · rw [if_pos hres]; exact c
      · rw [if_neg hres] at hc' ⊢
        have hadm : r.key.isAdmin = true := by
          cases h1 : r.reserved <;> cases h2 : r.key.isAdmin <;> simp [h1, h2] at hres ⊢
        have hpodE : r.key.pod = "" := by
          unfold Key.isAdmin at hadm
          simp only [Bool.and_eq_true, beq_iff_eq] at hadm
          exact hadm.1.2
        have hun : Tbl.get (prov s) ip = none :=
          (c.j ip).unassigned_of_node r hr ((c.j ip).2 r hr (Or.inl hpodE))
        refine ⟨hc', c.on, fun j => ?_, c.log⟩
        show RecOK (Tbl.get (Tbl.erase s.alloc ip) j) (Tbl.get (prov s) j)
        rw [Tbl.get_erase]
        by_cases hij : ip = j
        · rw [if_pos hij, ← hij, hun]
          exact RecOK.of_unassigned _ (fun r hr _ => by cases hr)
        · rw [if_neg hij]; exact c.j j

/-- where a live bound pod of the state after the move comes from: it was live and bound before, with the same node and
    addresses - or the move has just bound it and its addresses are assigned to its node -/
def Back (s s' : State) : Prop :=
  ∀ q, LiveBound s'.pods q →
    (∃ q0, LiveBound s.pods q0 ∧ q0.node = q.node ∧ q0.handed = q.handed) ∨
    (∀ hd, hd ∈ q.handed → Tbl.get (prov s') hd.ip = some q.node)

theorem Back.of_pods_eq {s s' : State} (h : s'.pods = s.pods) : Back s s' := by
  intro q hq
  rw [h] at hq
  exact Or.inl ⟨q, hq, rfl, rfl⟩

/-- re-writing a pod without touching phase, node and binding annotation -/
theorem Back.of_set_same {s s' : State} {id : String × String} {p p' : Pod} (hp : Tbl.get s.pods id = some p)
    (hpid : p.id = id) (he : s'.pods = Tbl.set s.pods id p') (hf : p'.finished = p.finished) (hn : p'.node = p.node)
    (hh : p'.handed = p.handed) : Back s s' := by
  intro q hq
  rw [he] at hq
  by_cases hid : q.id = id
  · have hqe := liveBound_set_self hq hid
    refine Or.inl ⟨p, ⟨by rw [hpid]; exact hp, ?_, ?_⟩, by rw [hqe, hn], by rw [hqe, hh]⟩
    · have := hq.2.1; rw [hqe, hf] at this; exact this
    · have := hq.2.2; rw [hqe, hh] at this; exact this
  · exact Or.inl ⟨q, liveBound_of_set_ne hq hid, rfl, rfl⟩

theorem back_step (s : State) (m : Move) (h : Inv s) (c : Core s) (ha : assumed10 s m = true) :
    Back s (step Facts.good s m).1 := by
  cases m with
  | createPod ns name kind app pool policy ranges wants =>
    dsimp only [step]
    split
    · exact Back.of_pods_eq rfl
    · intro q hq
      by_cases hid : q.id = (ns, name)
      · have := liveBound_set_self hq hid
        exact absurd (by rw [this]; rfl) hq.2.2
      · exact Or.inl ⟨q, liveBound_of_set_ne hq hid, rfl, rfl⟩
  | deletePod ns name =>
    dsimp only [step]
    split
    · exact Back.of_pods_eq rfl
    · intro q hq
      exact Or.inl ⟨q, liveBound_of_erase hq, rfl, rfl⟩
  | finishPod ns name =>
    dsimp only [step]
    split
    · exact Back.of_pods_eq rfl
    · split
      · exact Back.of_pods_eq rfl
      · intro q hq
        by_cases hid : q.id = (ns, name)
        · have := liveBound_set_self hq hid
          have hfin := hq.2.1
          rw [this] at hfin
          simp [Pod.finished] at hfin
        · exact Or.inl ⟨q, liveBound_of_set_ne hq hid, rfl, rfl⟩
  | markTerminating ns name fault =>
    dsimp only [step]
    cases hp : Tbl.get s.pods (ns, name) with
    | none => exact Back.of_pods_eq rfl
    | some p =>
      dsimp only
      obtain ⟨pid, pu0, _, pwf⟩ := h.podsWF (ns, name) p hp
      split
      · exact Back.of_pods_eq rfl
      · split
        · exact Back.of_set_same hp pid rfl rfl rfl rfl
        · split
          · exact Back.of_set_same hp pid rfl rfl rfl rfl
          · split
            · have c0 : Core (withFaults { s with pods := s.pods.set (ns, name) { p with terminating := true } } fault 0) :=
                c.of_eq rfl rfl rfl rfl rfl rfl
              have hk : (keyOf { p with terminating := true }).pod ≠ "" := by
                show (keyOf p).pod ≠ ""
                rw [(keyOf_fields p pwf).2]; exact pwf.2.1
              exact Back.of_set_same hp pid (syncIPs_core { p with terminating := true } hk pu0 p.ips _ c0).2.1 rfl rfl rfl
            · exact Back.of_set_same hp pid rfl rfl rfl rfl
  | runPod ns name =>
    dsimp only [step]
    split
    · exact Back.of_pods_eq rfl
    · rename_i p hp
      split
      · exact Back.of_pods_eq rfl
      · rename_i hguard
        intro q hq
        by_cases hid : q.id = (ns, name)
        · have hqe := liveBound_set_self hq hid
          have hpid := (h.podsWF (ns, name) p hp).1
          have hph : p.phase = .pending := by
            have : ¬ (p.phase ≠ .pending) := fun hx => hguard (Or.inl hx)
            simpa using this
          refine Or.inl ⟨p, ⟨by rw [hpid]; exact hp, by simp [Pod.finished, hph], ?_⟩, by rw [hqe], by rw [hqe]⟩
          have := hq.2.2
          rw [hqe] at this
          exact this
        · exact Or.inl ⟨q, liveBound_of_set_ne hq hid, rfl, rfl⟩
  | scale kind ns app n => exact Back.of_pods_eq rfl
  | deleteApp kind ns app => exact Back.of_pods_eq rfl
  | setPool name size => dsimp only [step]; split <;> exact Back.of_pods_eq rfl
  | listerSync pods apps => dsimp only [step]; split <;> split <;> exact Back.of_pods_eq rfl
  | fipSync => exact Back.of_pods_eq rfl
  | dropEvent i => dsimp only [step]; split <;> exact Back.of_pods_eq rfl
  | filter ns name nodes ch fault => exact Back.of_pods_eq (filter_pods (withFaults s fault 0) ns name nodes ch)
  | bind ns name uid node ch fault pfault =>
    simp only [assumed10, Bool.and_eq_true, Bool.or_eq_true, beq_iff_eq] at ha
    have c0 : Core (withFaults s fault pfault) := c.of_eq rfl rfl rfl rfl rfl rfl
    have bp := bind_post (withFaults s fault pfault) ns name uid node ch c0 rfl ha.1 ha.2 (fun pod hpod => by
      obtain ⟨_, l0, _, lwf, _⟩ := h.lister (ns, name) pod hpod
      exact ⟨by rw [(keyOf_fields pod lwf).2]; exact lwf.2.1, l0⟩)
    rcases bp.pods with e | ⟨tp, H, htp, e, hprov⟩
    · exact Back.of_pods_eq e
    · intro q hq
      have hq' : LiveBound (Tbl.set s.pods (ns, name) { tp with node := node, handed := H }) q := by
        have : (step Facts.good s (.bind ns name uid node ch fault pfault)).1.pods =
            Tbl.set s.pods (ns, name) { tp with node := node, handed := H } := e
        rw [this] at hq; exact hq
      by_cases hid : q.id = (ns, name)
      · right
        have := liveBound_set_self hq' hid
        rw [this]
        exact hprov
      · exact Or.inl ⟨q, liveBound_of_set_ne hq' hid, rfl, rfl⟩
  | deliver i fault pfault => exact Back.of_pods_eq (deliver_pods _ (withFaults s fault pfault) i)
  | resync order fault pfault => exact Back.of_pods_eq (resync_pods _ (withFaults s fault pfault) order)
  | syncPodIPs fault =>
    have c0 : Core (withFaults s fault 0) := c.of_eq rfl rfl rfl rfl rfl rfl
    exact Back.of_pods_eq (syncPods_core _ (withFaults s fault 0) (lister_vals s h) c0).2.1
  | apiRelease ip k fault pfault => exact Back.of_pods_eq (apiRelease_pods _ (withFaults s fault pfault) ip k)
  | reload pools fault => simp [assumed10] at ha
  | restart =>
    have ho : s.orphans = [] := by simpa [assumed10] using ha
    have c0 : Core (withFaults s 0 0) := c.of_eq rfl rfl rfl rfl rfl rfl
    exact Back.of_pods_eq (restart_same (withFaults s 0 0) c0.coh ho).2.2.2.2
  | resyncSnap => exact Back.of_pods_eq rfl
  | resyncRec ip fault pfault =>
    dsimp only [step]
    split
    · exact Back.of_pods_eq rfl
    · split
      · exact Back.of_pods_eq rfl
      · exact Back.of_pods_eq (resyncOne_pods _ (withFaults s fault pfault) ip _)
  | preempt ns name nodes ch fault => exact Back.of_pods_eq (preempt_pods (withFaults s fault 0) ns name nodes ch)
  | adminReserve ip text policy =>
    dsimp only [step]
    split
    · exact Back.of_pods_eq rfl
    · split <;> exact Back.of_pods_eq rfl
  | adminUnreserve ip =>
    dsimp only [step]
    split
    · exact Back.of_pods_eq rfl
    · split <;> exact Back.of_pods_eq rfl

theorem inv10_step (s : State) (m : Move) (h : Inv10 s) (ha : assumedAll s m = true) :
    Inv10 (step Facts.good s m).1 := by
  obtain ⟨ha1, ha2⟩ := Bool.and_eq_true_iff.mp ha
  have b' := inv_step s m h.base ha1
  have c' := core_step s m h.base h.core ha2 b'.coh
  refine ⟨b', c', fun q hq hd hhd => ?_⟩
  rcases back_step s m h.base h.core ha2 q hq with ⟨q0, hq0, hn, hh⟩ | hnew
  · have h0 := h.bound q0 hq0 hd (by rw [hh]; exact hhd)
    rw [hn] at h0
    obtain ⟨l, hl, hun⟩ := unassign_step s m h.base ha1
    refine prov_stable s _ l hl c'.log hd.ip q.node h0 (fun cl hcl node ok hce => ?_)
    have := hun cl hcl node hd.ip ok hce
    exact this ⟨q0, hq0, by simp only [Pod.ips, List.mem_map]; exact ⟨hd, by rw [hh]; exact hhd, rfl⟩⟩
  · exact hnew hd hhd

theorem inv10_next (s : State) (m : Move) (h : Inv10 s) (ha : assumedAll s m = true) : Inv10 (next Facts.good s m) := by
  unfold next
  dsimp only
  split
  · exact h
  · exact inv10_step s m h ha

theorem inv10_init (c : Conf) (hp : c.provider = true) : Inv10 (init c) := by
  refine ⟨inv_init c, ⟨(inv_init c).coh, hp, fun ip => ?_, rfl⟩, fun q hq => ?_⟩
  · exact ⟨fun m hm => by simp [prov, provOf, init] at hm, fun r hr => by simp [init] at hr⟩
  · have := hq.1
    simp [init] at this

theorem inv10_run : ∀ (ms : List Move) (s : State), Inv10 s → allAssumed10 s ms = true → Inv10 (run Facts.good s ms) := by
  intro ms
  induction ms with
  | nil => intro s h _; exact h
  | cons m t ih =>
    intro s h ha
    unfold allAssumed10 at ha
    obtain ⟨h1, h2⟩ := Bool.and_eq_true_iff.mp ha
    exact ih _ (inv10_next s m h h1) h2

end Galaxy.PluginC10
