/-
  Lemmas about model M7 (Galaxy.Policy), part 2: the walk over a compiled table
    * chain lookups in `compiledTable`;
    * GLX-PLCY-* chain  ↔ "some rule of the policy matches";
    * GLX-POD-* chain   ↔ API verdict for the pod (inside the fragment);
    * GLX-INGRESS / GLX-EGRESS ↔ the pod whose address the packet carries;
    * assembly for the three built-in chains.
-/
import Galaxy.Lemmas.Policy

namespace Galaxy.Policy

/-! ### table lookups -/

theorem get_append {κ α : Type} [DecidableEq κ] (A B : Tbl κ α) (k : κ) :
    Tbl.get (A ++ B) k = match Tbl.get A k with | some v => some v | none => Tbl.get B k := by
  induction A with
  | nil => rfl
  | cons x t ih =>
    obtain ⟨k', v⟩ := x
    by_cases h : k' = k <;> simp [Tbl.get, h, ih]

theorem get_map_none {β κ α : Type} [DecidableEq κ] (l : List β) (key : β → κ) (val : β → α) (k : κ)
    (h : ∀ x ∈ l, key x ≠ k) : Tbl.get (l.map (fun x => (key x, val x))) k = none := by
  induction l with
  | nil => rfl
  | cons x t ih =>
    have := h x (List.mem_cons_self ..)
    simp [Tbl.get, this, ih (fun y hy => h y (List.mem_cons_of_mem _ hy))]

theorem get_map_some {β κ α : Type} [DecidableEq κ] (l : List β) (key : β → κ) (val : β → α) (X : β) (hX : X ∈ l)
    (h : ∀ y ∈ l, key y = key X → y = X) : Tbl.get (l.map (fun x => (key x, val x))) (key X) = some (val X) := by
  induction l with
  | nil => cases hX
  | cons x t ih =>
    by_cases e : key x = key X
    · have := h x (List.mem_cons_self ..) e
      simp [Tbl.get, this]
    · have hX' : X ∈ t := by
        rcases List.mem_cons.mp hX with rfl | h'
        · exact absurd rfl e
        · exact h'
      simp [Tbl.get, e, ih hX' (fun y hy => h y (List.mem_cons_of_mem _ hy))]

theorem inj_of_nodup_map {α β : Type} (g : α → β) {l : List α} (hn : (l.map g).Nodup) {x y : α} (hx : x ∈ l)
    (hy : y ∈ l) (he : g x = g y) : x = y := by
  induction l with
  | nil => cases hx
  | cons z t ih =>
    simp only [List.map_cons, List.nodup_cons, List.mem_map, not_exists, not_and] at hn
    rcases List.mem_cons.mp hx with rfl | hx' <;> rcases List.mem_cons.mp hy with rfl | hy'
    · rfl
    · exact absurd he.symm (hn.1 y hy')
    · exact absurd he (hn.1 x hx')
    · exact ih hn.2 hx' hy'

/-- distinct pod addresses: an address names at most one pod -/
theorem ip_inj {pods : List Pod} (hn : (pods.filterMap (·.ip)).Nodup) {x y : Pod} (hx : x ∈ pods) (hy : y ∈ pods)
    {a : IP} (h1 : x.ip = some a) (h2 : y.ip = some a) : x = y := by
  induction pods with
  | nil => cases hx
  | cons z t ih =>
    have hmem : ∀ w ∈ t, w.ip = some a → a ∈ t.filterMap (·.ip) := fun w hw hwa => List.mem_filterMap.mpr ⟨w, hw, hwa⟩
    rcases List.mem_cons.mp hx with rfl | hx' <;> rcases List.mem_cons.mp hy with rfl | hy'
    · rfl
    · simp only [List.filterMap_cons, h1, List.nodup_cons] at hn
      exact absurd (hmem y hy' h2) hn.1
    · simp only [List.filterMap_cons, h2, List.nodup_cons] at hn
      exact absurd (hmem x hx' h1) hn.1
    · cases hz : z.ip with
      | none => simp only [List.filterMap_cons, hz] at hn; exact ih hn hx' hy'
      | some b => simp only [List.filterMap_cons, hz, List.nodup_cons] at hn; exact ih hn.2 hx' hy'

theorem evalChain_succ (sets : List IpSet) (tbl : Table) (f : Flow) (n : Nat) (c : Chain) :
    evalChain sets tbl f (n + 1) c =
      match Tbl.get tbl c with
      | none => Outcome.drop
      | some rs => evalRules (evalChain sets tbl f n) sets f rs := rfl

/-- the base part of the compiled table (built-in chains and the two GLX hook chains) -/
def baseTable (ps : List NetPol) (act : List Pod) : Table :=
  if act = [] then
    [(Chain.forward, []), (Chain.input, []), (Chain.output, [])]
  else
    [(Chain.forward, [⟨[], .jump .glxEgress⟩, ⟨[], .jump .glxIngress⟩]),
     (Chain.input, [⟨[], .jump .glxEgress⟩]),
     (Chain.output, [⟨[], .jump .glxIngress⟩]),
     (Chain.glxIngress, (act.filter (hookedIngress ps)).flatMap (hookRule true)),
     (Chain.glxEgress, (act.filter (hookedEgress ps)).flatMap (hookRule false))]

theorem compiledTable_eq (c : Cluster) (ps : List NetPol) (node : String) :
    compiledTable c ps node =
      baseTable ps (activePods c ps node) ++
      (activePods c ps node).map (fun q => (Chain.pod q.hash, podChain ps q)) ++
      ps.map (fun p => (Chain.plcy p.hash, policyChain p)) := rfl

theorem get_base_plcy (ps : List NetPol) (act : List Pod) (h : String) : Tbl.get (baseTable ps act) (Chain.plcy h) = none := by
  unfold baseTable; split <;> simp [Tbl.get]

theorem get_base_pod (ps : List NetPol) (act : List Pod) (h : String) : Tbl.get (baseTable ps act) (Chain.pod h) = none := by
  unfold baseTable; split <;> simp [Tbl.get]

theorem get_plcy (c : Cluster) {ps : List NetPol} (node : String) (hn : (ps.map (·.hash)).Nodup) {X : NetPol} (hX : X ∈ ps) :
    Tbl.get (compiledTable c ps node) (Chain.plcy X.hash) = some (policyChain X) := by
  rw [compiledTable_eq, get_append, get_append, get_base_plcy]
  simp only
  rw [get_map_none _ (fun q : Pod => Chain.pod q.hash) _ _ (by intro x _; simp)]
  simp only
  exact get_map_some ps (fun p => Chain.plcy p.hash) policyChain X hX
    (fun y hy he => hash_inj hn hy hX (by simpa using he))

theorem get_pod (c : Cluster) (ps : List NetPol) (node : String) (hn : (c.pods.map (·.hash)).Nodup) {q : Pod}
    (hq : q ∈ activePods c ps node) :
    Tbl.get (compiledTable c ps node) (Chain.pod q.hash) = some (podChain ps q) := by
  rw [compiledTable_eq, get_append, get_append, get_base_pod]
  simp only
  have hsub : ∀ y ∈ activePods c ps node, y ∈ c.pods := fun y hy => (List.mem_filter.mp hy).1
  rw [get_map_some (activePods c ps node) (fun q : Pod => Chain.pod q.hash) (podChain ps) q hq
    (fun y hy he => inj_of_nodup_map (·.hash) hn (hsub y hy) (hsub q hq) (by simpa using he))]

/-! ### chain evaluation -/

theorem policyChain_tgt (X : NetPol) : ∀ r ∈ policyChain X, r.tgt = Tgt.accept := by
  intro r hr
  simp only [policyChain, List.mem_append] at hr
  rcases hr with h | h <;> split at h
  · simp only [ingressRules, List.mem_flatMap] at h
    obtain ⟨x, _, hx⟩ := h; exact chainRules_tgt _ _ _ _ _ r hx
  · cases h
  · simp only [egressRules, List.mem_flatMap] at h
    obtain ⟨x, _, hx⟩ := h; exact chainRules_tgt _ _ _ _ _ r hx
  · cases h

/-- the current source never emits a rule iptables refuses for its number of ports -/
theorem overLimit_false (ps : List NetPol) : overLimit ps = false := by
  unfold overLimit
  rw [List.any_eq_false]
  intro p _
  simp only [List.any_eq_true, not_exists, not_and, Bool.not_eq_true', Bool.not_eq_false]
  intro r hr
  simp only [policyChain, List.mem_append] at hr
  rcases hr with h | h <;> split at h
  · simp only [ingressRules, List.mem_flatMap, chainRules] at h
    obtain ⟨x, _, s, _, d, _, h⟩ := h; exact tplRules_portsOK _ _ _ _ _ r h
  · cases h
  · simp only [egressRules, List.mem_flatMap, chainRules] at h
    obtain ⟨x, _, s, _, d, _, h⟩ := h; exact tplRules_portsOK _ _ _ _ _ r h
  · cases h

/-- GLX-PLCY-<hash of X>: accept iff some rule of the compiled policy matches, otherwise return -/
theorem evalChain_plcy (c : Cluster) {ps : List NetPol} (node : String) (hn : (ps.map (·.hash)).Nodup) {X : NetPol}
    (hX : X ∈ ps) (sets : List IpSet) (f : Flow) (n : Nat) :
    evalChain sets (compiledTable c ps node) f (n + 1) (Chain.plcy X.hash) =
      if (policyChain X).any (PRule.matches sets f) then Outcome.accept else Outcome.fall := by
  rw [evalChain_succ, get_plcy c node hn hX]
  exact evalRules_allAccept _ sets f _ (policyChain_tgt X)

/-- the jumps of a pod chain followed by its final DROP -/
theorem evalRules_jumps (call : Chain → Outcome) (sets : List IpSet) (f : Flow) (cm : String) (l : List NetPol)
    (h : ∀ p ∈ l, call (Chain.plcy p.hash) = Outcome.accept ∨ call (Chain.plcy p.hash) = Outcome.fall) :
    evalRules call sets f (l.map (fun p => (⟨[.comment cm], .jump (.plcy p.hash)⟩ : PRule)) ++ [⟨[.comment cm], .drop⟩]) =
      if l.any (fun p => call (Chain.plcy p.hash) == Outcome.accept) then Outcome.accept else Outcome.drop := by
  induction l with
  | nil => simp [evalRules, PRule.matches, Mt.holds]
  | cons p t ih =>
    have ht := ih (fun x hx => h x (List.mem_cons_of_mem _ hx))
    simp only [List.map_cons, List.cons_append, evalRules, PRule.matches, List.all_cons, List.all_nil, Mt.holds,
      Bool.and_self, if_true, List.any_cons]
    rcases h p (List.mem_cons_self ..) with e | e
    · simp [e]
    · simp [e, ht]

theorem evalRules_skip (call : Chain → Outcome) (sets : List IpSet) (f : Flow) (r : PRule) (rs : List PRule)
    (h : r.matches sets f = false) : evalRules call sets f (r :: rs) = evalRules call sets f rs := by
  simp [evalRules, h]

/-- GLX-POD-<hash of q>: accept iff the chain of some selecting policy accepts, otherwise DROP -/
theorem evalChain_pod (c : Cluster) {ps : List NetPol} (node : String) (hnp : (c.pods.map (·.hash)).Nodup)
    (hn : (ps.map (·.hash)).Nodup) {q : Pod} (hq : q ∈ activePods c ps node) (sets : List IpSet) (f : Flow) (n : Nat) :
    evalChain sets (compiledTable c ps node) f (n + 2) (Chain.pod q.hash) =
      if ps.any (fun X => selects X q && (policyChain X).any (PRule.matches sets f)) then Outcome.accept
      else Outcome.drop := by
  rw [evalChain_succ, get_pod c ps node hnp hq]
  simp only [podChain]
  rw [evalRules_skip _ _ _ _ _ (by simp [PRule.matches, Mt.holds])]
  have hsel : ∀ p ∈ ps.filter (fun p => (compIngress p || compEgress p) && selectedBy p q), p ∈ ps :=
    fun p hp => (List.mem_filter.mp hp).1
  rw [evalRules_jumps]
  · have e : (ps.filter (fun p => (compIngress p || compEgress p) && selectedBy p q)).any
        (fun p => evalChain sets (compiledTable c ps node) f (n + 1) (Chain.plcy p.hash) == Outcome.accept) =
        ps.any (fun X => selects X q && (policyChain X).any (PRule.matches sets f)) := by
      rw [List.any_filter]
      apply any_congr'
      intro X hX
      rw [evalChain_plcy c node hn hX, comp_some_dir, Bool.true_and, selectedBy_eq]
      cases (policyChain X).any (PRule.matches sets f) <;> simp
    rw [e]
  · intro p hp
    rw [evalChain_plcy c node hn (hsel p hp)]
    cases (policyChain p).any (PRule.matches sets f) <;> simp

theorem inCidr_32 (a b : IP) : inCidr a ⟨b, 32⟩ = (a == b) := by simp [inCidr]

/-- GLX-INGRESS / GLX-EGRESS: no pod with the packet's address → fall through -/
theorem evalRules_hooks_none (call : Chain → Outcome) (sets : List IpSet) (f : Flow) (ing : Bool) (l : List Pod)
    (h : ∀ q ∈ l, q.ip ≠ some (if ing then f.dst else f.src)) :
    evalRules call sets f (l.flatMap (hookRule ing)) = Outcome.fall := by
  induction l with
  | nil => rfl
  | cons q t ih =>
    have ht := ih (fun x hx => h x (List.mem_cons_of_mem _ hx))
    have hq := h q (List.mem_cons_self ..)
    rw [List.flatMap_cons]
    cases hip : q.ip with
    | none => simpa [hookRule, hip] using ht
    | some a =>
      have hne : ¬ (if ing then f.dst else f.src) = a := fun e => hq (by rw [hip, e])
      cases ing <;>
        simp_all [hookRule, hip, evalRules, PRule.matches, Mt.holds, inCidr_32]

/-- GLX-INGRESS / GLX-EGRESS: the pod carrying the packet's address decides (its chain never falls through) -/
theorem evalRules_hooks_some (call : Chain → Outcome) (sets : List IpSet) (f : Flow) (ing : Bool) (l : List Pod)
    (q : Pod) (hq : q ∈ l) (hip : q.ip = some (if ing then f.dst else f.src))
    (huniq : ∀ q' ∈ l, q'.ip = some (if ing then f.dst else f.src) → q' = q)
    (hnf : call (Chain.pod q.hash) ≠ Outcome.fall) :
    evalRules call sets f (l.flatMap (hookRule ing)) = call (Chain.pod q.hash) := by
  induction l with
  | nil => cases hq
  | cons x t ih =>
    rw [List.flatMap_cons]
    by_cases hx : x.ip = some (if ing then f.dst else f.src)
    · have := huniq x (List.mem_cons_self ..) hx
      subst this
      cases ing <;> (
        simp only [hookRule, hx, List.cons_append, List.nil_append, evalRules, PRule.matches, List.all_cons, List.all_nil,
          Mt.holds, inCidr_32, Bool.and_true, beq_self_eq_true, if_true, Bool.false_eq_true, if_false]
        all_goals (cases hc : call (Chain.pod x.hash) <;> simp_all))
    · have hq' : q ∈ t := by
        rcases List.mem_cons.mp hq with rfl | h'
        · exact absurd hip hx
        · exact h'
      have ht := ih hq' (fun q' h' => huniq q' (List.mem_cons_of_mem _ h'))
      cases hxi : x.ip with
      | none => simpa [hookRule, hxi] using ht
      | some a =>
        have hne : ¬ (if ing then f.dst else f.src) = a := fun e => hx (by rw [hxi, e])
        cases ing <;>
          simp_all [hookRule, hxi, evalRules, PRule.matches, Mt.holds, inCidr_32]

/-! ### pod chains inside the fragment -/

theorem hookedIngress_eq (ps : List NetPol) (q : Pod) : hookedIngress ps q = isolatedIngress ps q := by
  unfold hookedIngress isolatedIngress
  apply any_congr'; intro p _; rw [compIngress_eq, selectedBy_eq]

theorem hookedEgress_eq (ps : List NetPol) (q : Pod) : hookedEgress ps q = isolatedEgress ps q := by
  unfold hookedEgress isolatedEgress
  apply any_congr'; intro p _; rw [compEgress_eq, selectedBy_eq]

theorem policyChain_any (X : NetPol) (sets : List IpSet) (f : Flow) :
    (policyChain X).any (PRule.matches sets f) =
      ((compIngress X && (ingressRules X).any (PRule.matches sets f)) ||
       (compEgress X && (egressRules X).any (PRule.matches sets f))) := by
  unfold policyChain
  cases compIngress X <;> cases compEgress X <;> simp [List.any_append]

/-- chain of an ingress-isolated pod that is not egress-isolated = API ingress verdict -/
theorem podVerdict_ingress (c : Cluster) {ps : List NetPol} (hn : (ps.map (·.hash)).Nodup)
    (hpol : ps.all (polOK c) = true) {q : Pod} (hq : q ∈ c.pods) (f : Flow) (hip : q.ip = some f.dst)
    (hiso : isolatedIngress ps q = true) (hone : isolatedEgress ps q = false) :
    ps.any (fun X => selects X q && (policyChain X).any (PRule.matches (compileSets c ps) f)) =
      ingressAllowed c ps q f := by
  unfold ingressAllowed
  rw [hiso]; simp only [Bool.not_true, Bool.false_or]
  apply any_congr'
  intro X hX
  cases hs : selects X q
  · simp
  · have hce : compEgress X = false := by
      rw [compEgress_eq]
      cases he : affectsEgress X
      · rfl
      · have : isolatedEgress ps q = true := List.any_eq_true.mpr ⟨X, hX, by simp [he, hs]⟩
        rw [hone] at this; cases this
    have hok := (List.all_eq_true.mp hpol) X hX
    simp only [polOK, Bool.and_eq_true] at hok
    rw [policyChain_any, hce]
    simp only [Bool.false_and, Bool.or_false, Bool.true_and, Bool.and_true]
    cases hci : compIngress X
    · rw [← compIngress_eq, hci]; simp
    · rw [ingressRules_any c hn hX hci hok.1, setHas_sel c hn hX, ← compIngress_eq, hci]
      have : c.pods.any (fun q' => q'.ip == some f.dst && selects X q') = true :=
        List.any_eq_true.mpr ⟨q, hq, by simp [hip, hs]⟩
      simp [this]

/-- chain of an egress-isolated pod that is not ingress-isolated = API egress verdict -/
theorem podVerdict_egress (c : Cluster) {ps : List NetPol} (hn : (ps.map (·.hash)).Nodup)
    (hpol : ps.all (polOK c) = true) {q : Pod} (hq : q ∈ c.pods) (f : Flow) (hip : q.ip = some f.src)
    (hiso : isolatedEgress ps q = true) (hone : isolatedIngress ps q = false) :
    ps.any (fun X => selects X q && (policyChain X).any (PRule.matches (compileSets c ps) f)) =
      egressAllowed c ps q f := by
  unfold egressAllowed
  rw [hiso]; simp only [Bool.not_true, Bool.false_or]
  apply any_congr'
  intro X hX
  cases hs : selects X q
  · simp
  · have hci : compIngress X = false := by
      rw [compIngress_eq]
      cases he : affectsIngress X
      · rfl
      · have : isolatedIngress ps q = true := List.any_eq_true.mpr ⟨X, hX, by simp [he, hs]⟩
        rw [hone] at this; cases this
    have hok := (List.all_eq_true.mp hpol) X hX
    simp only [polOK, Bool.and_eq_true] at hok
    rw [policyChain_any, hci]
    simp only [Bool.false_and, Bool.false_or, Bool.true_and, Bool.and_true]
    cases hce : compEgress X
    · rw [← compEgress_eq, hce]; simp
    · rw [egressRules_any c hn hX hce hok.2, setHas_sel c hn hX, ← compEgress_eq, hce]
      have : c.pods.any (fun q' => q'.ip == some f.src && selects X q') = true :=
        List.any_eq_true.mpr ⟨q, hq, by simp [hip, hs]⟩
      simp [this]

/-! ### GLX-EGRESS / GLX-INGRESS and the assembly -/

/-- the cluster-level part of `inFragment`, unpacked -/
structure Frag (c : Cluster) (ps : List NetPol) (node : String) : Prop where
  ips : (c.pods.filterMap (·.ip)).Nodup
  podHashes : (c.pods.map (·.hash)).Nodup
  polHashes : (ps.map (·.hash)).Nodup
  pols : ps.all (polOK c) = true
  one : ∀ q ∈ c.pods, q.node = node → ¬ (isolatedIngress ps q = true ∧ isolatedEgress ps q = true)

theorem frag_of {c : Cluster} {ps : List NetPol} {node : String} {f : Flow}
    (h : (wfCluster c ps && ps.all (polOK c) && oneDirection c ps node && flowOK c ps node f) = true) :
    Frag c ps node ∧ flowOK c ps node f = true := by
  simp only [wfCluster, oneDirection, Bool.and_eq_true, decide_eq_true_eq, List.all_eq_true] at h
  obtain ⟨⟨⟨⟨⟨h1, h2⟩, h3⟩, h4⟩, h5⟩, h6⟩ := h
  refine ⟨⟨h1, h2, h3, List.all_eq_true.mpr h4, ?_⟩, h6⟩
  intro q hq hnode hboth
  have := h5 q hq
  simp [hnode, hboth.1, hboth.2] at this

theorem mem_act {c : Cluster} {ps : List NetPol} {node : String} {q : Pod} (hq : q ∈ c.pods) (hnode : q.node = node)
    {a : IP} (hip : q.ip = some a) (hiso : (isolatedIngress ps q || isolatedEgress ps q) = true) :
    q ∈ activePods c ps node := by
  unfold activePods
  rw [List.mem_filter]
  refine ⟨hq, ?_⟩
  rw [hookedIngress_eq, hookedEgress_eq, hiso]
  simp [hnode, hip]

theorem act_sub {c : Cluster} {ps : List NetPol} {node : String} {q : Pod} (h : q ∈ activePods c ps node) :
    q ∈ c.pods ∧ q.node = node := by
  have := List.mem_filter.mp h
  refine ⟨this.1, ?_⟩
  have h2 := this.2
  simp only [Bool.and_eq_true, beq_iff_eq] at h2
  exact h2.1.1

theorem get_base_of_ne (c : Cluster) (ps : List NetPol) (node : String) (hact : activePods c ps node ≠ []) (k : Chain)
    (hk : k = .forward ∨ k = .input ∨ k = .output ∨ k = .glxIngress ∨ k = .glxEgress) :
    Tbl.get (compiledTable c ps node) k =
      Tbl.get [(Chain.forward, [⟨[], .jump .glxEgress⟩, ⟨[], .jump .glxIngress⟩]),
        (Chain.input, [⟨[], .jump .glxEgress⟩]),
        (Chain.output, [⟨[], .jump .glxIngress⟩]),
        (Chain.glxIngress, ((activePods c ps node).filter (hookedIngress ps)).flatMap (hookRule true)),
        (Chain.glxEgress, ((activePods c ps node).filter (hookedEgress ps)).flatMap (hookRule false))] k := by
  rw [compiledTable_eq, get_append, get_append]
  unfold baseTable
  rw [if_neg hact]
  rcases hk with rfl | rfl | rfl | rfl | rfl <;> simp [Tbl.get]

theorem get_base_of_nil (c : Cluster) (ps : List NetPol) (node : String) (hact : activePods c ps node = []) (h : Hook) :
    Tbl.get (compiledTable c ps node) h.chain = some [] := by
  rw [compiledTable_eq, get_append, get_append]
  unfold baseTable
  rw [if_pos hact]
  cases h <;> simp [Tbl.get, Hook.chain]

/-- GLX-EGRESS when the source is an egress-isolated pod of this node: its API egress verdict, terminally -/
theorem egressChain_some {c : Cluster} {ps : List NetPol} {node : String} (F : Frag c ps node) (f : Flow) {q : Pod}
    (hq : q ∈ c.pods) (hnode : q.node = node) (hip : q.ip = some f.src) (hiso : isolatedEgress ps q = true) :
    evalChain (compileSets c ps) (compiledTable c ps node) f 3 Chain.glxEgress =
      if egressAllowed c ps q f then Outcome.accept else Outcome.drop := by
  have hqa : q ∈ activePods c ps node := mem_act hq hnode hip (by simp [hiso])
  have hact : activePods c ps node ≠ [] := fun e => by rw [e] at hqa; cases hqa
  have hone : isolatedIngress ps q = false := by
    cases hi : isolatedIngress ps q
    · rfl
    · exact absurd ⟨hi, hiso⟩ (F.one q hq hnode)
  have hpod : evalChain (compileSets c ps) (compiledTable c ps node) f 2 (Chain.pod q.hash) =
      if egressAllowed c ps q f then Outcome.accept else Outcome.drop := by
    rw [evalChain_pod c node F.podHashes F.polHashes hqa, podVerdict_egress c F.polHashes F.pols hq f hip hiso hone]
  rw [evalChain_succ, get_base_of_ne c ps node hact _ (by simp)]
  simp only [Tbl.get, if_true, reduceCtorEq, if_false]
  rw [evalRules_hooks_some _ _ f false _ q (List.mem_filter.mpr ⟨hqa, by rw [hookedEgress_eq, hiso]⟩) (by simpa using hip)]
  · exact hpod
  · intro q' hq' hip'
    have := act_sub (List.mem_filter.mp hq').1
    exact ip_inj F.ips this.1 hq (by simpa using hip') hip
  · rw [hpod]; split <;> simp

/-- GLX-INGRESS when the destination is an ingress-isolated pod of this node: its API ingress verdict -/
theorem ingressChain_some {c : Cluster} {ps : List NetPol} {node : String} (F : Frag c ps node) (f : Flow) {q : Pod}
    (hq : q ∈ c.pods) (hnode : q.node = node) (hip : q.ip = some f.dst) (hiso : isolatedIngress ps q = true) :
    evalChain (compileSets c ps) (compiledTable c ps node) f 3 Chain.glxIngress =
      if ingressAllowed c ps q f then Outcome.accept else Outcome.drop := by
  have hqa : q ∈ activePods c ps node := mem_act hq hnode hip (by simp [hiso])
  have hact : activePods c ps node ≠ [] := fun e => by rw [e] at hqa; cases hqa
  have hone : isolatedEgress ps q = false := by
    cases hi : isolatedEgress ps q
    · rfl
    · exact absurd ⟨hiso, hi⟩ (F.one q hq hnode)
  have hpod : evalChain (compileSets c ps) (compiledTable c ps node) f 2 (Chain.pod q.hash) =
      if ingressAllowed c ps q f then Outcome.accept else Outcome.drop := by
    rw [evalChain_pod c node F.podHashes F.polHashes hqa, podVerdict_ingress c F.polHashes F.pols hq f hip hiso hone]
  rw [evalChain_succ, get_base_of_ne c ps node hact _ (by simp)]
  simp only [Tbl.get, if_true, reduceCtorEq, if_false]
  rw [evalRules_hooks_some _ _ f true _ q (List.mem_filter.mpr ⟨hqa, by rw [hookedIngress_eq, hiso]⟩) (by simpa using hip)]
  · exact hpod
  · intro q' hq' hip'
    have := act_sub (List.mem_filter.mp hq').1
    exact ip_inj F.ips this.1 hq (by simpa using hip') hip
  · rw [hpod]; split <;> simp

theorem egressChain_none {c : Cluster} {ps : List NetPol} {node : String} (f : Flow)
    (hact : activePods c ps node ≠ []) (h : srcEgressIsolatedHere c ps node f = false) :
    evalChain (compileSets c ps) (compiledTable c ps node) f 3 Chain.glxEgress = Outcome.fall := by
  rw [evalChain_succ, get_base_of_ne c ps node hact _ (by simp)]
  simp only [Tbl.get, if_true, reduceCtorEq, if_false]
  apply evalRules_hooks_none
  intro q hq hip
  have hm := List.mem_filter.mp hq
  have hs := act_sub hm.1
  have : srcEgressIsolatedHere c ps node f = true :=
    List.any_eq_true.mpr ⟨q, hs.1, by rw [← hookedEgress_eq, hm.2]; simpa [hs.2] using hip⟩
  rw [h] at this; cases this

theorem ingressChain_none {c : Cluster} {ps : List NetPol} {node : String} (f : Flow)
    (hact : activePods c ps node ≠ []) (h : dstIngressIsolatedHere c ps node f = false) :
    evalChain (compileSets c ps) (compiledTable c ps node) f 3 Chain.glxIngress = Outcome.fall := by
  rw [evalChain_succ, get_base_of_ne c ps node hact _ (by simp)]
  simp only [Tbl.get, if_true, reduceCtorEq, if_false]
  apply evalRules_hooks_none
  intro q hq hip
  have hm := List.mem_filter.mp hq
  have hs := act_sub hm.1
  have : dstIngressIsolatedHere c ps node f = true :=
    List.any_eq_true.mpr ⟨q, hs.1, by rw [← hookedIngress_eq, hm.2]; simpa [hs.2] using hip⟩
  rw [h] at this; cases this

/-! the two halves of `k8sAllowsOn` -/

def egPart (node : String) (c : Cluster) (ps : List NetPol) (f : Flow) : Bool :=
  c.pods.all (fun q => !(q.node == node && q.ip == some f.src) || egressAllowed c ps q f)
def inPart (node : String) (c : Cluster) (ps : List NetPol) (f : Flow) : Bool :=
  c.pods.all (fun q => !(q.node == node && q.ip == some f.dst) || ingressAllowed c ps q f)

theorem k8sAllowsOn_parts (node : String) (c : Cluster) (ps : List NetPol) (f : Flow) :
    k8sAllowsOn node c ps f = (egPart node c ps f && inPart node c ps f) := rfl

theorem egPart_none {c : Cluster} {ps : List NetPol} {node : String} {f : Flow}
    (h : srcEgressIsolatedHere c ps node f = false) : egPart node c ps f = true := by
  rw [egPart, List.all_eq_true]
  intro q hq
  cases hl : (q.node == node && q.ip == some f.src)
  · simp
  · have : isolatedEgress ps q = false := by
      cases hi : isolatedEgress ps q
      · rfl
      · have : srcEgressIsolatedHere c ps node f = true := List.any_eq_true.mpr ⟨q, hq, by rw [hl, hi]; rfl⟩
        rw [h] at this; cases this
    simp [egressAllowed, this]

theorem inPart_none {c : Cluster} {ps : List NetPol} {node : String} {f : Flow}
    (h : dstIngressIsolatedHere c ps node f = false) : inPart node c ps f = true := by
  rw [inPart, List.all_eq_true]
  intro q hq
  cases hl : (q.node == node && q.ip == some f.dst)
  · simp
  · have : isolatedIngress ps q = false := by
      cases hi : isolatedIngress ps q
      · rfl
      · have : dstIngressIsolatedHere c ps node f = true := List.any_eq_true.mpr ⟨q, hq, by rw [hl, hi]; rfl⟩
        rw [h] at this; cases this
    simp [ingressAllowed, this]

theorem egPart_some {c : Cluster} {ps : List NetPol} {node : String} (F : Frag c ps node) {f : Flow} {q : Pod}
    (hq : q ∈ c.pods) (hnode : q.node = node) (hip : q.ip = some f.src) :
    egPart node c ps f = egressAllowed c ps q f := by
  rw [egPart, Bool.eq_iff_iff, List.all_eq_true]
  constructor
  · intro h; have := h q hq; simpa [hnode, hip] using this
  · intro h q' hq'
    cases hl : (q'.node == node && q'.ip == some f.src)
    · simp
    · simp only [Bool.and_eq_true, beq_iff_eq] at hl
      have : q' = q := ip_inj F.ips hq' hq hl.2 hip
      rw [this]; simp [h]

theorem inPart_some {c : Cluster} {ps : List NetPol} {node : String} (F : Frag c ps node) {f : Flow} {q : Pod}
    (hq : q ∈ c.pods) (hnode : q.node = node) (hip : q.ip = some f.dst) :
    inPart node c ps f = ingressAllowed c ps q f := by
  rw [inPart, Bool.eq_iff_iff, List.all_eq_true]
  constructor
  · intro h; have := h q hq; simpa [hnode, hip] using this
  · intro h q' hq'
    cases hl : (q'.node == node && q'.ip == some f.dst)
    · simp
    · simp only [Bool.and_eq_true, beq_iff_eq] at hl
      have : q' = q := ip_inj F.ips hq' hq hl.2 hip
      rw [this]; simp [h]

theorem walk_of_base {c : Cluster} {ps : List NetPol} {node : String} (f : Flow) (hact : activePods c ps node ≠ []) :
    walk (compileSets c ps) (compiledTable c ps node) f =
      match f.hook with
      | .forward =>
        (match evalChain (compileSets c ps) (compiledTable c ps node) f 3 Chain.glxEgress with
         | .drop => Verdict.drop
         | .accept => Verdict.accept
         | .fall => (match evalChain (compileSets c ps) (compiledTable c ps node) f 3 Chain.glxIngress with
           | .drop => Verdict.drop
           | _ => Verdict.accept))
      | .input =>
        (match evalChain (compileSets c ps) (compiledTable c ps node) f 3 Chain.glxEgress with
         | .drop => Verdict.drop
         | _ => Verdict.accept)
      | .output =>
        (match evalChain (compileSets c ps) (compiledTable c ps node) f 3 Chain.glxIngress with
         | .drop => Verdict.drop
         | _ => Verdict.accept) := by
  unfold walk
  cases hh : f.hook
  · rw [Hook.chain, get_base_of_ne c ps node hact _ (by simp)]
    simp only [Tbl.get, if_true, Option.getD_some, evalRules, PRule.matches, List.all_nil]
    cases evalChain (compileSets c ps) (compiledTable c ps node) f 3 Chain.glxEgress <;>
      cases evalChain (compileSets c ps) (compiledTable c ps node) f 3 Chain.glxIngress <;> rfl
  · rw [Hook.chain, get_base_of_ne c ps node hact _ (by simp)]
    simp only [Tbl.get, if_true, reduceCtorEq, if_false, Option.getD_some, evalRules, PRule.matches, List.all_nil]
    cases evalChain (compileSets c ps) (compiledTable c ps node) f 3 Chain.glxEgress <;> rfl
  · rw [Hook.chain, get_base_of_ne c ps node hact _ (by simp)]
    simp only [Tbl.get, if_true, reduceCtorEq, if_false, Option.getD_some, evalRules, PRule.matches, List.all_nil]
    cases evalChain (compileSets c ps) (compiledTable c ps node) f 3 Chain.glxIngress <;> rfl

/-- MAIN LEMMA: inside the fragment the walk over the compiled sets and table accepts exactly what the API
    semantics (the part this node enforces) allows. -/
theorem walk_fragment {c : Cluster} {ps : List NetPol} {node : String} {f : Flow}
    (h : inFragment c ps node f = true) :
    walk (compileSets c ps) (compileTable c ps node) f = Verdict.accept ↔ k8sAllowsOn node c ps f = true := by
  have hct : compileTable c ps node = compiledTable c ps node := by simp [compileTable, overLimit_false ps]
  rw [hct]
  obtain ⟨F, hflow⟩ := frag_of h
  rw [k8sAllowsOn_parts]
  by_cases hact : activePods c ps node = []
  · have hs : srcEgressIsolatedHere c ps node f = false := by
      cases hs : srcEgressIsolatedHere c ps node f
      · rfl
      · obtain ⟨q, hq, hp⟩ := List.any_eq_true.mp hs
        simp only [Bool.and_eq_true, beq_iff_eq] at hp
        have := mem_act (ps := ps) hq hp.1.1 hp.1.2 (by simp [hp.2])
        rw [hact] at this; cases this
    have hd : dstIngressIsolatedHere c ps node f = false := by
      cases hd : dstIngressIsolatedHere c ps node f
      · rfl
      · obtain ⟨q, hq, hp⟩ := List.any_eq_true.mp hd
        simp only [Bool.and_eq_true, beq_iff_eq] at hp
        have := mem_act (ps := ps) hq hp.1.1 hp.1.2 (by simp [hp.2])
        rw [hact] at this; cases this
    unfold walk
    rw [get_base_of_nil c ps node hact, egPart_none hs, inPart_none hd]
    simp [evalRules]
  · rw [walk_of_base f hact]
    cases hs : srcEgressIsolatedHere c ps node f <;> cases hd : dstIngressIsolatedHere c ps node f
    · -- neither end is an isolated pod of this node
      rw [egressChain_none f hact hs, ingressChain_none f hact hd, egPart_none hs, inPart_none hd]
      cases f.hook <;> simp
    · -- destination isolated for ingress
      obtain ⟨q, hq, hp⟩ := List.any_eq_true.mp hd
      simp only [Bool.and_eq_true, beq_iff_eq] at hp
      rw [egressChain_none f hact hs, ingressChain_some F f hq hp.1.1 hp.1.2 hp.2, egPart_none hs,
        inPart_some F hq hp.1.1 hp.1.2]
      have hh : f.hook ≠ Hook.input := by
        intro e; simp [flowOK, hs, hd, e] at hflow
      cases hk : f.hook
      · cases ingressAllowed c ps q f <;> simp
      · exact absurd hk hh
      · cases ingressAllowed c ps q f <;> simp
    · -- source isolated for egress
      obtain ⟨q, hq, hp⟩ := List.any_eq_true.mp hs
      simp only [Bool.and_eq_true, beq_iff_eq] at hp
      rw [egressChain_some F f hq hp.1.1 hp.1.2 hp.2, ingressChain_none f hact hd, egPart_some F hq hp.1.1 hp.1.2,
        inPart_none hd]
      have hh : f.hook ≠ Hook.output := by
        intro e; simp [flowOK, hs, hd, e] at hflow
      cases hk : f.hook
      · cases egressAllowed c ps q f <;> simp
      · cases egressAllowed c ps q f <;> simp
      · exact absurd hk hh
    · -- both: excluded by flowOK (deviation e)
      simp [flowOK, hs, hd] at hflow

end Galaxy.Policy
