/-
  `walkConfiguredIPRanges` (model: `walkConfigured`): it visits exactly the requested addresses which are configured,
  ascending within every requested range.
-/
import Galaxy.Lemmas.IpamBasic

namespace Galaxy.Ipam

theorem fact_clamps : Generated.Ipam.walkConfClampsBothEnds = true := rfl
theorem fact_sorts : Generated.Ipam.walkConfSortsParts = true := rfl

/-- with the regenerated shapes (both clamps, ascending sort) the walk is: per requested range, the clipped configured
    ranges sorted by first address, enumerated -/
theorem walkConfigured_eq (ps : List Pool) (rs : List Range) :
    walkConfigured ps rs = rs.flatMap (fun r => walk (sortRanges ((confRanges ps).filterMap (clipBoth r)))) := by
  simp only [walkConfigured, walkConfiguredG, partsOf, fact_clamps, fact_sorts, if_true]

/-! ## the sort -/

theorem mem_insertRange (p q : Range) : ∀ l : List Range, q ∈ insertRange p l ↔ q = p ∨ q ∈ l := by
  intro l
  induction l with
  | nil => simp [insertRange]
  | cons x t ih =>
    unfold insertRange
    split
    · simp
    · simp only [List.mem_cons, ih]
      constructor
      · rintro (h | h | h)
        · exact Or.inr (Or.inl h)
        · exact Or.inl h
        · exact Or.inr (Or.inr h)
      · rintro (h | h | h)
        · exact Or.inr (Or.inl h)
        · exact Or.inl h
        · exact Or.inr (Or.inr h)

theorem insertRange_perm (p : Range) : ∀ l : List Range, (insertRange p l).Perm (p :: l) := by
  intro l
  induction l with
  | nil => exact List.Perm.refl _
  | cons x t ih =>
    unfold insertRange
    split
    · exact List.Perm.refl _
    · exact (List.Perm.cons x ih).trans (List.Perm.swap p x t)

theorem foldl_insertRange_perm : ∀ (l acc : List Range),
    (l.foldl (fun acc p => insertRange p acc) acc).Perm (acc ++ l) := by
  intro l
  induction l with
  | nil => intro acc; simp
  | cons x t ih =>
    intro acc
    simp only [List.foldl]
    refine (ih (insertRange x acc)).trans ?_
    have h1 : (insertRange x acc ++ t).Perm ((x :: acc) ++ t) := List.Perm.append_right t (insertRange_perm x acc)
    refine h1.trans ?_
    simp only [List.cons_append]
    exact (List.perm_middle (a := x) (l₁ := acc) (l₂ := t)).symm

theorem sortRanges_perm (l : List Range) : (sortRanges l).Perm l := by
  have := foldl_insertRange_perm l []
  simpa [sortRanges] using this

theorem mem_sortRanges (q : Range) (l : List Range) : q ∈ sortRanges l ↔ q ∈ l := (sortRanges_perm l).mem_iff

theorem insertRange_sorted (p : Range) : ∀ l : List Range, l.Pairwise (fun a b => a.first ≤ b.first) →
    (insertRange p l).Pairwise (fun a b => a.first ≤ b.first) := by
  intro l
  induction l with
  | nil => intro _; simp [insertRange]
  | cons x t ih =>
    intro h
    have hx := List.pairwise_cons.mp h
    unfold insertRange
    split
    · next hlt =>
      refine List.pairwise_cons.mpr ⟨?_, h⟩
      intro y hy
      rcases List.mem_cons.mp hy with hy | hy
      · subst hy; exact Nat.le_of_lt hlt
      · exact Nat.le_trans (Nat.le_of_lt hlt) (hx.1 y hy)
    · next hge =>
      refine List.pairwise_cons.mpr ⟨?_, ih hx.2⟩
      intro y hy
      rcases (mem_insertRange p y t).mp hy with hy | hy
      · subst hy; exact Nat.le_of_not_lt hge
      · exact hx.1 y hy

theorem sortRanges_sorted (l : List Range) : (sortRanges l).Pairwise (fun a b => a.first ≤ b.first) := by
  unfold sortRanges
  suffices h : ∀ (l acc : List Range), acc.Pairwise (fun a b => a.first ≤ b.first) →
      (l.foldl (fun acc p => insertRange p acc) acc).Pairwise (fun a b => a.first ≤ b.first) from h l [] List.Pairwise.nil
  intro l
  induction l with
  | nil => intro acc h; exact h
  | cons x t ih => intro acc h; exact ih _ (insertRange_sorted x acc h)

/-! ## clipping -/

theorem clipBoth_spec {r c x : Range} (h : clipBoth r c = some x) :
    x.first = max c.first r.first ∧ x.last = min c.last r.last ∧ x.first ≤ x.last := by
  unfold clipBoth at h
  split at h
  · next hle => cases h; exact ⟨rfl, rfl, hle⟩
  · cases h

theorem between_clip {cf cl rf rl ip : Nat} : (max cf rf ≤ ip ∧ ip ≤ min cl rl) ↔ ((cf ≤ ip ∧ ip ≤ cl) ∧ (rf ≤ ip ∧ ip ≤ rl)) := by
  omega

theorem clip_exists {cf cl rf rl ip : Nat} (h1 : cf ≤ ip) (h2 : ip ≤ cl) (h3 : rf ≤ ip) (h4 : ip ≤ rl) : max cf rf ≤ min cl rl := by
  omega

/-- membership: the requested addresses which lie in a configured range -/
theorem mem_walkConfigured {ps : List Pool} {rs : List Range} {ip : IP} :
    ip ∈ walkConfigured ps rs ↔ (ip ∈ walk rs ∧ ∃ c ∈ confRanges ps, c.first ≤ ip ∧ ip ≤ c.last) := by
  rw [walkConfigured_eq]
  simp only [List.mem_flatMap, mem_walk, mem_sortRanges, List.mem_filterMap]
  constructor
  · rintro ⟨r, hr, x, ⟨c, hc, hclip⟩, h1, h2⟩
    obtain ⟨k1, k2, _⟩ := clipBoth_spec hclip
    rw [k1] at h1
    rw [k2] at h2
    have := (between_clip (cf := c.first) (cl := c.last) (rf := r.first) (rl := r.last) (ip := ip)).mp ⟨h1, h2⟩
    exact ⟨⟨r, hr, this.2.1, this.2.2⟩, c, hc, this.1.1, this.1.2⟩
  · rintro ⟨⟨r, hr, h3, h4⟩, c, hc, h1, h2⟩
    have hle := clip_exists h1 h2 h3 h4
    refine ⟨r, hr, { first := max c.first r.first, last := min c.last r.last }, ⟨c, hc, by simp [clipBoth, hle]⟩, ?_⟩
    exact (between_clip (cf := c.first) (cl := c.last) (rf := r.first) (rl := r.last) (ip := ip)).mpr ⟨⟨h1, h2⟩, ⟨h3, h4⟩⟩

theorem mem_walk_of_walkConfigured {ps : List Pool} {rs : List Range} {ip : IP} (h : ip ∈ walkConfigured ps rs) : ip ∈ walk rs :=
  (mem_walkConfigured.mp h).1

/-! ## ascending -/

/-- the configured ranges are pairwise disjoint (what `WFConf` says about the ranges of all pools) -/
def DisjointConf (ps : List Pool) : Prop :=
  (confRanges ps).Pairwise (fun a b => a.last < b.first ∨ b.last < a.first)

theorem walk_single (r : Range) : walk [r] = List.range' r.first (r.last + 1 - r.first) := by
  simp [walk]

theorem walk_ascending_of_sorted : ∀ (l : List Range), l.Pairwise (fun a b => a.last < b.first) → (walk l).Pairwise (· < ·) := by
  intro l h
  unfold walk
  rw [List.pairwise_flatMap]
  refine ⟨fun r _ => List.pairwise_lt_range', ?_⟩
  refine h.imp ?_
  intro a b hab x hx y hy
  have f1 : ∀ (x s n : Nat), x < s + (n + 1 - s) → s ≤ x → x ≤ n := by intros; omega
  simp only [List.mem_range'_1] at hx hy
  have hxl : x ≤ a.last := f1 _ _ _ hx.2 hx.1
  exact Nat.lt_of_le_of_lt hxl (Nat.lt_of_lt_of_le hab hy.1)

/-- two strictly ascending lists with the same elements are equal -/
theorem eq_of_ascending : ∀ (l₁ l₂ : List Nat), l₁.Pairwise (· < ·) → l₂.Pairwise (· < ·) → (∀ x, x ∈ l₁ ↔ x ∈ l₂) → l₁ = l₂ := by
  intro l₁
  induction l₁ with
  | nil =>
    intro l₂ _ _ h
    cases l₂ with
    | nil => rfl
    | cons b t => exact absurd ((h b).mpr (by simp)) (by simp)
  | cons a t ih =>
    intro l₂ h1 h2 h
    cases l₂ with
    | nil => exact absurd ((h a).mp (by simp)) (by simp)
    | cons b t₂ =>
      have ha := List.pairwise_cons.mp h1
      have hb := List.pairwise_cons.mp h2
      have hab : a = b := by
        rcases List.mem_cons.mp ((h a).mp (by simp)) with e | e
        · exact e
        · rcases List.mem_cons.mp ((h b).mpr (by simp)) with e' | e'
          · exact e'.symm
          · have := hb.1 a e; have := ha.1 b e'; omega
      subst hab
      congr 1
      apply ih t₂ ha.2 hb.2
      intro x
      constructor
      · intro hx
        rcases List.mem_cons.mp ((h x).mp (List.mem_cons_of_mem _ hx)) with e | e
        · have := ha.1 x hx; omega
        · exact e
      · intro hx
        rcases List.mem_cons.mp ((h x).mpr (List.mem_cons_of_mem _ hx)) with e | e
        · have := hb.1 x hx; omega
        · exact e

/-- inside ONE requested range the walk is strictly ascending (configured ranges pairwise disjoint) -/
theorem walkConfigured_single_ascending (ps : List Pool) (r : Range) (hd : DisjointConf ps) :
    (walkConfigured ps [r]).Pairwise (· < ·) := by
  rw [walkConfigured_eq]
  simp only [List.flatMap_cons, List.flatMap_nil, List.append_nil]
  apply walk_ascending_of_sorted
  -- disjoint + non-empty, as a property which survives the permutation; then combine with sortedness
  have hdis : ((confRanges ps).filterMap (clipBoth r)).Pairwise
      (fun a b => (a.last < b.first ∨ b.last < a.first) ∧ a.first ≤ a.last ∧ b.first ≤ b.last) := by
    unfold DisjointConf at hd
    refine List.Pairwise.filterMap (clipBoth r) ?_ hd
    intro c c' hcc x hx y hy
    obtain ⟨k1, k2, k3⟩ := clipBoth_spec hx
    obtain ⟨g1, g2, g3⟩ := clipBoth_spec hy
    refine ⟨?_, k3, g3⟩
    rw [k1, k2, g1, g2]
    have f : ∀ (cf cl rf rl df dl : Nat), (cl < df ∨ dl < cf) → (min cl rl < max df rf ∨ min dl rl < max cf rf) := by
      intros; omega
    exact f _ _ _ _ _ _ hcc
  have hsym : ∀ {x y : Range}, ((x.last < y.first ∨ y.last < x.first) ∧ x.first ≤ x.last ∧ y.first ≤ y.last) →
      ((y.last < x.first ∨ x.last < y.first) ∧ y.first ≤ y.last ∧ x.first ≤ x.last) := by
    intro x y h; exact ⟨h.1.symm, h.2.2, h.2.1⟩
  have hdis' := ((sortRanges_perm _).pairwise_iff hsym).mpr hdis
  have hboth := (sortRanges_sorted ((confRanges ps).filterMap (clipBoth r))).and hdis'
  refine hboth.imp ?_
  intro a b h
  obtain ⟨hle, hd', ha, hb⟩ := h
  have f : ∀ (af al bf bl : Nat), af ≤ bf → (al < bf ∨ bl < af) → af ≤ al → bf ≤ bl → al < bf := by intros; omega
  exact f _ _ _ _ hle hd' ha hb

/-- `walkConfigured_eq_filter_enumerate`: for one requested range the walk is exactly the enumeration of the range,
    ascending, restricted to the addresses inside a configured range -/
theorem walkConfigured_single_eq_filter (ps : List Pool) (r : Range) (hd : DisjointConf ps) :
    walkConfigured ps [r] = (walk [r]).filter (fun ip => (confRanges ps).any (fun c => c.contains ip)) := by
  apply eq_of_ascending
  · exact walkConfigured_single_ascending ps r hd
  · rw [walk_single]; exact List.Pairwise.filter _ List.pairwise_lt_range'
  · intro x
    rw [mem_walkConfigured, List.mem_filter]
    simp only [List.any_eq_true, Range.contains, Bool.and_eq_true, decide_eq_true_eq]

theorem walkConfigured_append (ps : List Pool) (rs₁ rs₂ : List Range) :
    walkConfigured ps (rs₁ ++ rs₂) = walkConfigured ps rs₁ ++ walkConfigured ps rs₂ := by
  simp [walkConfigured, walkConfiguredG, List.flatMap_append]

/-- … and a list of requested ranges is walked range by range, in request order -/
theorem walkConfigured_eq_filter (ps : List Pool) (rs : List Range) (hd : DisjointConf ps) :
    walkConfigured ps rs = rs.flatMap (fun r => (walk [r]).filter (fun ip => (confRanges ps).any (fun c => c.contains ip))) := by
  induction rs with
  | nil => simp [walkConfigured, walkConfiguredG]
  | cons r t ih =>
    have := walkConfigured_append ps [r] t
    simp only [List.singleton_append] at this
    rw [this, ih, walkConfigured_single_eq_filter ps r hd]
    simp

end Galaxy.Ipam
