/-
  M4-core proofs, part 13: pod-IP sync, reload, restart.
-/
import Galaxy.Lemmas.PluginResync

namespace Galaxy.Plugin
open Galaxy

/-! ### pod-IP sync -/

theorem syncIPs_spec (pod : Pod) : ∀ (ips : List IP) (s : State), Inv s → NewOKKey s.pods (keyOf pod) pod.uid →
    Inv (syncIPs s pod ips) ∧ Frame s (syncIPs s pod ips) ∧ (syncIPs s pod ips).plog = s.plog := by
  intro ips
  induction ips with
  | nil => intro s h _; exact ⟨h, Frame.refl s, rfl⟩
  | cons ip t ih =>
    intro s h hk
    unfold syncIPs
    split
    · exact ih s h hk
    · dsimp only
      have c := allocateSpecific_chg s (keyOf pod) ip { policy := policyOf pod, node := pod.node, uid := pod.uid } h.coh
      have hc := allocateSpecific_coherent s (keyOf pod) ip { policy := policyOf pod, node := pod.node, uid := pod.uid } h.coh
      have h1 : Inv (allocateSpecific s (keyOf pod) ip { policy := policyOf pod, node := pod.node, uid := pod.uid }).1 := by
        apply h.step_of_evolves hc
        apply c.evolves
        · intro o ho r hr; rw [ho] at hr; cases hr
        · intro n hn r hr
          trivial
      have pl : (allocateSpecific s (keyOf pod) ip { policy := policyOf pod, node := pod.node, uid := pod.uid }).1.plog = s.plog := by
        unfold allocateSpecific
        dsimp only
        split
        · rfl
        · split
          · exact stCreate_plog _ _ _
          · exact stCreate_plog _ _ _
      have r := ih _ h1 (by rw [c.frame.pods]; exact hk)
      exact ⟨r.1, c.frame.trans r.2.1, r.2.2.trans pl⟩

theorem syncPods_spec : ∀ (l : List Pod) (s : State), Inv s →
    (∀ p, p ∈ l → NewOKKey s.pods (keyOf p) p.uid) →
    Inv (syncPods s l) ∧ Frame s (syncPods s l) ∧ (syncPods s l).plog = s.plog := by
  intro l
  induction l with
  | nil => intro s h _; exact ⟨h, Frame.refl s, rfl⟩
  | cons p t ih =>
    intro s h hk
    unfold syncPods
    split
    · have a := syncIPs_spec p p.ips s h (hk p (by simp))
      have r := ih _ a.1 (fun p' hp' => by rw [a.2.1.pods]; exact hk p' (by simp [hp']))
      exact ⟨r.1, a.2.1.trans r.2.1, r.2.2.trans a.2.2⟩
    · exact ih s h (fun p' hp' => hk p' (by simp [hp']))

/-- every pod the lister shows may own records under its key with its uid -/
theorem Inv.newOK_of_lister {s : State} (h : Inv s) (p : Pod) (hp : p ∈ Tbl.vals s.vPods) :
    NewOKKey s.pods (keyOf p) p.uid := by
  trivial

theorem syncPodIPs_spec (s : State) (h : Inv s) :
    Inv (syncPodIPs s).1 ∧ ((syncPodIPs s).1.pods = s.pods ∧ (syncPodIPs s).1.admin = s.admin) ∧
      (syncPodIPs s).1.plog = s.plog := by
  unfold syncPodIPs
  have := syncPods_spec (Tbl.vals s.vPods) s h (fun p hp => h.newOK_of_lister p hp)
  exact ⟨this.1, ⟨this.2.1.pods, this.2.1.admin⟩, this.2.2⟩

theorem inv_syncPodIPs (s : State) (f : Nat) (h : Inv s) : Inv (step Facts.good s (.syncPodIPs f)).1 :=
  (syncPodIPs_spec _ (inv_withFaults s f 0 h)).1

/-! ### graceful deletion begins -/

/-- `markTerminating`: the pod stays what it was for the invariant (same key, uid, phase, binding annotation - a
    terminating pod is still a live bound pod); UpdatePod queues nothing (`!finished(old) && finished(new)` is false:
    finished looks at the phase only) and its `syncPodIP` can only add records for unallocated addresses -/
theorem markTerminating_spec (s : State) (ns name : String) (fault : Nat) (h : Inv s) :
    Inv (step Facts.good s (.markTerminating ns name fault)).1 ∧
      (step Facts.good s (.markTerminating ns name fault)).1.plog = s.plog ∧
      (step Facts.good s (.markTerminating ns name fault)).1.admin = s.admin := by
  simp only [step]
  split
  · exact ⟨h, rfl, rfl⟩
  · rename_i p hp
    obtain ⟨_, _, _, wf⟩ := h.podsWF _ p hp
    have h1 : Inv { s with pods := Tbl.set s.pods (ns, name) { p with terminating := true } } :=
      inv_setPodSame s (ns, name) p { p with terminating := true } s.events h hp rfl rfl wf rfl rfl
        (fun hf => hf) (fun e he => Or.inl he)
    split
    · exact ⟨h, rfl, rfl⟩
    · split
      · exact ⟨h1, rfl, rfl⟩
      · split
        · rename_i hc
          exfalso
          simp only [codeFinished_good, Bool.and_eq_true, Bool.not_eq_true'] at hc
          have : ({ p with terminating := true } : Pod).finished = p.finished := rfl
          rw [this, hc.1] at hc
          cases hc.2
        · split
          · have sp := syncIPs_spec { p with terminating := true } p.ips
              (withFaults { s with pods := Tbl.set s.pods (ns, name) { p with terminating := true } } fault 0)
              (inv_withFaults _ fault 0 h1) trivial
            exact ⟨sp.1, sp.2.2, sp.2.1.admin⟩
          · exact ⟨h1, rfl, rfl⟩

/-! ### reload / restart -/

theorem inv_of_reconfigured {s s' : State} {ps : List Pool} (h : Inv s) (rc : Reconfigured s s' ps)
    (hkeep : ∀ q, LiveBound s.pods q → ∀ hd, hd ∈ q.handed → configured ps hd.ip = true)
    (hadm : ∀ j, Tbl.get s'.admin j = if configured ps j then Tbl.get s.admin j else none) : Inv s' := by
  refine ⟨rc.coherent, ?_, ?_, ?_, ?_, ?_, ?_, ?_, by rw [rc.pods]; exact h.podsNodup, by rw [rc.vPods]; exact h.vPodsNodup⟩
  · rw [rc.pods]
    refine ⟨fun q hq hd hm => ?_, fun ip r hr => ?_⟩
    · obtain ⟨r, h1, h2, h3⟩ := h.safe.own q hq hd hm
      refine ⟨r, ?_, h2, h3⟩
      rw [rc.alloc, hkeep q hq hd hm]
      simp only [if_true, listed_eq, Tbl.get_append, h.coh.agree, h1, Option.orElse]
    · rw [hadm] at hr
      by_cases hc : configured ps ip = true
      · rw [if_pos hc] at hr
        obtain ⟨h1, h2⟩ := h.safe.admin ip r hr
        refine ⟨?_, h2⟩
        rw [rc.alloc, if_pos hc]
        simp only [listed_eq, Tbl.get_append, h.coh.agree, h1, Option.orElse]
      · rw [if_neg hc] at hr; cases hr
  · rw [rc.pods, rc.nextUid]; exact h.podsWF
  · rw [rc.pods]; exact h.uidUniq
  · rw [rc.pods, rc.vPods, rc.nextUid]; exact h.lister
  · rw [rc.pods, rc.events, rc.nextUid]; exact h.events
  · rw [rc.pods, rc.vPods]; exact h.listerLive
  · rw [rc.nextUid]; exact h.uidPos

theorem reload_spec (s : State) (pools : List Pool) (h : Inv s)
    (hkeep : ∀ q, LiveBound s.pods q → ∀ hd, hd ∈ q.handed → configured pools hd.ip = true) :
    Inv (reload s pools).1 ∧ (reload s pools).1.pods = s.pods ∧ (reload s pools).1.plog = s.plog := by
  unfold reload
  dsimp only
  have q1 := api_quiet s
  split
  · exact ⟨h.quiet q1, rfl, rfl⟩
  · split
    · exact ⟨h.quiet q1, rfl, rfl⟩
    · have h1 := h.quiet q1
      split
      · rename_i hc
        have hc' : (configurePool s.api.1 pools).2 = false := by simpa using hc
        rw [configurePool_fail _ _ hc']
        exact ⟨h1.quiet (api_quiet _), rfl, rfl⟩
      · rename_i hc
        have hc' : (configurePool s.api.1 pools).2 = true := by simpa using hc
        have rc := configurePool_ok' s.api.1 pools hc'
        have hi := inv_of_reconfigured h1 rc hkeep (configurePool_admin s.api.1 pools hc')
        refine ⟨hi.of_fields rfl rfl rfl rfl rfl rfl rfl rfl, rc.pods, ?_⟩
        show (configurePool s.api.1 pools).1.plog = s.plog
        unfold configurePool
        dsimp only
        split
        · rfl
        · show (dropAll _ _).plog = s.plog
          rw [(dropAll_fields _ _).2.2.2.2.2.2.2]; rfl

theorem assumed_reload {s : State} {pools : List Pool} {fault : Nat} (ha : assumed s (.reload pools fault) = true) :
    ∀ q, LiveBound s.pods q → ∀ hd, hd ∈ q.handed → configured pools hd.ip = true := by
  simp only [assumed, List.all_eq_true, Bool.or_eq_true] at ha
  intro q hq hd hm
  have := ha (q.id, q) (Tbl.get_mem hq.1)
  rcases this with hfin | hall
  · have h2 := hq.2.1; simp at hfin; rw [hfin] at h2; cases h2
  · exact hall hd hm

theorem inv_reload (s : State) (pools : List Pool) (fault : Nat) (h : Inv s)
    (ha : assumed s (.reload pools fault) = true) : Inv (step Facts.good s (.reload pools fault)).1 := by
  exact (reload_spec (withFaults s fault 0) pools (inv_withFaults s fault 0 h) (assumed_reload (s := s) ha)).1

theorem inv_restart (s : State) (h : Inv s) : Inv (step Facts.good s .restart).1 := by
  simp only [step]
  unfold restart
  dsimp only
  have h0 := inv_withFaults s 0 0 h
  -- informers re-listed, queue and caches lost
  have h1 : Inv (restartBase (withFaults s 0 0)) := by
    refine ⟨coherent_of_eq h0.coh rfl rfl rfl rfl, h0.safe.of_alloc_eq rfl, h0.podsWF, h0.uidUniq, ?_, ?_, ?_, h0.uidPos,
      h0.podsNodup, h0.podsNodup⟩
    · intro id l hl
      obtain ⟨a, b, c, d⟩ := h0.podsWF id l hl
      refine ⟨a, b, c, d, fun id' q hq hu => ?_⟩
      have := h0.uidUniq id' id q l hq hl hu
      subst this
      have hq' : Tbl.get (withFaults s 0 0).pods id' = some q := hq
      have hl' : Tbl.get (withFaults s 0 0).pods id' = some l := hl
      rw [hl'] at hq'; cases hq'; exact ⟨rfl, rfl⟩
    · intro e he; cases he
    · intro q hq l hl
      have : Tbl.get (withFaults s 0 0).pods q.id = some l := hl
      have hq1 : Tbl.get (withFaults s 0 0).pods q.id = some q := hq.1
      rw [hq1] at this; cases this; rfl
  cases hc : (configurePool (restartBase (withFaults s 0 0)) (withFaults s 0 0).pools).2 with
  | false =>
    rw [configurePool_fail _ _ hc]
    exact h1.quiet (api_quiet _)
  | true =>
    have rc := configurePool_ok' _ _ hc
    apply inv_of_reconfigured h1 rc _ (configurePool_admin _ _ hc)
    intro q hq hd hm
    obtain ⟨r, hr, _, _⟩ := h1.safe.own q hq hd hm
    exact h1.coh.allocConf _ r hr

end Galaxy.Plugin
