/-
  Property C16 — "Installed rules enforce Kubernetes NetworkPolicy semantics".

  FULL STATEMENT (what the property asks; FALSE for the code as it is, see the `counter_*` theorems):

      theorem enforces_k8s (c : Cluster) (ps : List NetPol) (node : String) (f : Flow) :
          walk (compileSets c ps) (compileTable c ps node) f = .accept ↔ k8sAllowsOn node c ps f = true

  for every cluster, every policy set built from pod selectors, namespace selectors, ipBlocks with excepts and
  numeric / protocol-only TCP/UDP ports, and every flow to or from a pod of the node.
  `compileSets`/`compileTable` are the model of galaxy's compiler (checked against the real code's dump on every
  run), `walk` the iptables traversal, `k8sAllowsOn` the API semantics.

  What is PROVED: `enforces_k8s_partial` — the equivalence on the decidable fragment `inFragment`, which excludes
  exactly the seven deviations (a)–(g), each of which has a `counter_*` theorem (minimal witness, the same witness
  is replayed through the REAL compiler by corpus/C16/<x>.ops and listed in known_findings.d/C16.json).
  Only property theorems, non-vacuity examples, counter theorems and pinned source facts live here.
-/
import Galaxy.Lemmas.PolicyWalk

namespace Galaxy.Props.C16
open Galaxy.Policy
open Galaxy.Generated.Policy

/-! ## The property on the fragment -/

/-- C16 ("the rules and sets galaxy installs accept a new connection to (or from) a pod of the node exactly when
    the NetworkPolicy semantics allow it"), proved for all clusters, policy sets and flows inside `inFragment`:
    distinct pod addresses and name hashes; peers = namespaceSelector, ipBlock, podSelector provided every pod it
    matches lives in the policy's namespace, both selectors provided every pod the pod selector matches lives in a
    namespace the namespace selector matches; non-empty peer lists; every port entry numbered; per rule any number
    of ipBlocks whose excepts are strictly narrower than their own cidr and share no address with the cidr of another
    ipBlock of the rule; (port lists of any length: the compiler splits them over rules of at most 15 ports,
    `multiport_fixed`); no pod of the node isolated in both directions; not both
    (source egress-isolated here) and (destination ingress-isolated here); INPUT/OUTPUT flows address the host. -/
theorem enforces_k8s_partial (c : Cluster) (ps : List NetPol) (node : String) (f : Flow)
    (h : inFragment c ps node f = true) :
    walk (compileSets c ps) (compileTable c ps node) f = Verdict.accept ↔ k8sAllowsOn node c ps f = true :=
  walk_fragment h

/-- same, for the whole-cluster semantics when every pod runs on this node ("pods selected by no policy are
    unrestricted, selected pods accept only what some selecting policy's peers and ports allow, everything else
    is dropped") -/
theorem enforces_k8s_single_node_partial (c : Cluster) (ps : List NetPol) (node : String) (f : Flow)
    (hall : c.pods.all (fun q => q.node == node) = true) (h : inFragment c ps node f = true) :
    walk (compileSets c ps) (compileTable c ps node) f = Verdict.accept ↔ k8sAllows c ps f = true := by
  rw [walk_fragment h]
  have e : k8sAllowsOn node c ps f = k8sAllows c ps f := by
    unfold k8sAllowsOn k8sAllows
    congr 1 <;> (apply all_congr'; intro q hq; have := (List.all_eq_true.mp hall) q hq; simp [this])
  rw [e]

/-! ## Component statements (each is used by the proof above) -/

/-- "per-policy ipsets for selected pods": the set GLX-ip-<hash> contains exactly the addresses of the pods the
    policy selects (its namespace, its podSelector) -/
theorem selected_set_exact (c : Cluster) (ps : List NetPol) (X : NetPol) (a : IP)
    (hn : (ps.map (·.hash)).Nodup) (hX : X ∈ ps) :
    setHas (compileSets c ps) (selSetName X) a = c.pods.any (fun q => q.ip == some a && selects X q) :=
  setHas_sel c hn hX a

/-- the policyTypes defaulting of the compiler is the API's -/
theorem directions_exact (p : NetPol) : compIngress p = affectsIngress p ∧ compEgress p = affectsEgress p :=
  ⟨compIngress_eq p, compEgress_eq p⟩

/-- the three port templates mean the API port list when every entry is numbered -/
theorem ports_exact (r : Rule) (f : Flow) (h : r.ports.all (fun pt => pt.port.isSome) = true) :
    portTpl (tcpPorts r) (udpPorts r) f = portMatches r.ports f := portTpl_eq r.ports h f

/-- "per-policy chain of ACCEPT rules": the ingress rules of a compiled policy chain match a packet iff its
    destination is selected by the policy and some ingress rule of the policy allows it (API meaning) -/
theorem policy_chain_ingress_exact (c : Cluster) (ps : List NetPol) (X : NetPol) (f : Flow)
    (hn : (ps.map (·.hash)).Nodup) (hX : X ∈ ps) (hc : compIngress X = true)
    (hok : X.ingress.all (ruleOK c X) = true) :
    (ingressRules X).any (PRule.matches (compileSets c ps) f) =
      (setHas (compileSets c ps) (selSetName X) f.dst && X.ingress.any (ruleAllows c X.ns f.src f)) :=
  ingressRules_any c hn hX hc hok f

/-! ## Witnesses: non-vacuity of the fragment, and the seven deviations -/

def ip4 (a b c d : Nat) : IP := a * 2 ^ 24 + b * 2 ^ 16 + c * 2 ^ 8 + d
def lbl (kvs : List (String × String)) : Selector := ⟨kvs, []⟩
def nss2 : List Namespace := [⟨"ns1", [("name", "ns1")]⟩, ⟨"ns2", [("name", "ns2")]⟩]
def podA : Pod := ⟨"ns1", "a", "CDPJYSJ2OESJAMJJ", "node1", some (ip4 10 0 1 1), [("app", "a")]⟩
def podB (node : String) (app : String) : Pod := ⟨"ns1", "b", "OSROB3A3QEIZRSSL", node, some (ip4 10 0 1 2), [("app", app)]⟩
def podC : Pod := ⟨"ns2", "c", "ULVJ7SM6QT57L7UP", "node2", some (ip4 10 0 2 1), [("app", "b")]⟩
def polX (types : List Dir) (ing eg : List Rule) : NetPol :=
  ⟨"ns1", "x", "GZ6RV4PA44SL5TUX", lbl [("app", "a")], types, ing, eg⟩

/-- a cluster inside the fragment with a namespace peer, an ipBlock with except and numbered ports -/
def cOK : Cluster := ⟨nss2, [podA, podB "node2" "b", podC]⟩
def pOK : List NetPol :=
  [polX [.ingress] [⟨[.nss (lbl [("name", "ns2")]), .block ⟨ip4 192 168 0 0, 16⟩ [⟨ip4 192 168 1 0, 24⟩]],
                     [⟨.tcp, some 80⟩, ⟨.udp, some 53⟩]⟩] []]

/-- non-vacuity: the fragment contains flows the rules accept … -/
example : inFragment cOK pOK "node1" ⟨.forward, .tcp, ip4 10 0 2 1, ip4 10 0 1 1, 80⟩ = true ∧
    walk (compileSets cOK pOK) (compileTable cOK pOK "node1") ⟨.forward, .tcp, ip4 10 0 2 1, ip4 10 0 1 1, 80⟩ = .accept := by
  decide
/-- … and flows they drop (wrong port; address inside the except; pod of the wrong namespace) -/
example : inFragment cOK pOK "node1" ⟨.forward, .tcp, ip4 10 0 2 1, ip4 10 0 1 1, 81⟩ = true ∧
    walk (compileSets cOK pOK) (compileTable cOK pOK "node1") ⟨.forward, .tcp, ip4 10 0 2 1, ip4 10 0 1 1, 81⟩ = .drop := by
  decide
example : inFragment cOK pOK "node1" ⟨.forward, .udp, ip4 192 168 1 10, ip4 10 0 1 1, 53⟩ = true ∧
    walk (compileSets cOK pOK) (compileTable cOK pOK "node1") ⟨.forward, .udp, ip4 192 168 1 10, ip4 10 0 1 1, 53⟩ = .drop ∧
    walk (compileSets cOK pOK) (compileTable cOK pOK "node1") ⟨.forward, .udp, ip4 192 168 2 10, ip4 10 0 1 1, 53⟩ = .accept := by
  decide

/-- (a) a podSelector-only peer is resolved in ALL namespaces: pod c of ns2 (app=b) reaches pod a of ns1 although
    the policy of ns1 only admits app=b pods of ns1.  corpus/C16/a.ops -/
theorem counter_a :
    let c : Cluster := ⟨nss2, [podA, podC]⟩
    let ps := [polX [.ingress] [⟨[.pods (lbl [("app", "b")])], []⟩] []]
    let f : Flow := ⟨.forward, .tcp, ip4 10 0 2 1, ip4 10 0 1 1, 80⟩
    walk (compileSets c ps) (compileTable c ps "node1") f = .accept ∧ k8sAllowsOn "node1" c ps f = false := by
  decide

/-- (b) a peer with both selectors ignores the namespace selector.  corpus/C16/b.ops -/
theorem counter_b :
    let c : Cluster := ⟨nss2, [podA, podB "node2" "b"]⟩
    let ps := [polX [.ingress] [⟨[.both (lbl [("name", "ns2")]) (lbl [("app", "b")])], []⟩] []]
    let f : Flow := ⟨.forward, .tcp, ip4 10 0 1 2, ip4 10 0 1 1, 80⟩
    walk (compileSets c ps) (compileTable c ps "node1") f = .accept ∧ k8sAllowsOn "node1" c ps f = false := by
  decide

/-- (c) a rule without peers ("from anywhere", here on tcp/80) emits no rule: dropped although allowed.
    corpus/C16/c.ops -/
theorem counter_c :
    let c : Cluster := ⟨nss2, [podA]⟩
    let ps := [polX [.ingress] [⟨[], [⟨.tcp, some 80⟩]⟩] []]
    let f : Flow := ⟨.forward, .tcp, ip4 192 168 1 10, ip4 10 0 1 1, 80⟩
    walk (compileSets c ps) (compileTable c ps "node1") f = .drop ∧ k8sAllowsOn "node1" c ps f = true := by
  decide

/-- (d) the pod chain consults the policy chain for both directions: an EGRESS rule of x accepts an INGRESS packet
    between two pods selected by x, although x has no ingress rule.  corpus/C16/d.ops -/
theorem counter_d :
    let c : Cluster := ⟨nss2, [podA, podB "node2" "a"]⟩
    let ps := [polX [.ingress, .egress] [] [⟨[.nss (lbl [("name", "ns1")])], []⟩]]
    let f : Flow := ⟨.forward, .tcp, ip4 10 0 1 2, ip4 10 0 1 1, 80⟩
    walk (compileSets c ps) (compileTable c ps "node1") f = .accept ∧ k8sAllowsOn "node1" c ps f = false := by
  decide

/-- (e) same-node traffic: GLX-EGRESS is consulted first and its ACCEPT is final, the destination's ingress
    policy (deny all) is never consulted.  corpus/C16/e.ops -/
theorem counter_e :
    let c : Cluster := ⟨nss2, [podA, podB "node1" "b"]⟩
    let ps : List NetPol :=
      [⟨"ns1", "eg", "QE3E5MQBJEQE7BZY", lbl [("app", "a")], [.egress], [], [⟨[.nss (lbl [("name", "ns1")])], []⟩]⟩,
       ⟨"ns1", "in", "BWRGP4SLJSKXAX2V", lbl [("app", "b")], [.ingress], [], []⟩]
    let f : Flow := ⟨.forward, .tcp, ip4 10 0 1 1, ip4 10 0 1 2, 80⟩
    walk (compileSets c ps) (compileTable c ps "node1") f = .accept ∧ k8sAllowsOn "node1" c ps f = false := by
  decide

/-- (f) a port entry without number (all UDP ports) is dropped; no numbered port left → the rule matches every
    protocol: TCP accepted although only UDP is allowed.  corpus/C16/f.ops -/
theorem counter_f :
    let c : Cluster := ⟨nss2, [podA, podB "node2" "b"]⟩
    let ps := [polX [.ingress] [⟨[.nss (lbl [("name", "ns1")])], [⟨.udp, none⟩]⟩] []]
    let f : Flow := ⟨.forward, .tcp, ip4 10 0 1 2, ip4 10 0 1 1, 80⟩
    walk (compileSets c ps) (compileTable c ps "node1") f = .accept ∧ k8sAllowsOn "node1" c ps f = false := by
  decide

/-- (g) the ipBlock peers of one rule share one hash:net set in which the most specific entry decides: the except
    of the first ipBlock shadows an address the second ipBlock allows.  corpus/C16/g.ops -/
theorem counter_g :
    let c : Cluster := ⟨nss2, [podA]⟩
    let ps := [polX [.ingress] [⟨[.block ⟨ip4 10 0 0 0, 8⟩ [⟨ip4 10 0 1 0, 24⟩], .block ⟨ip4 10 0 0 0, 16⟩ []], []⟩] []]
    let f : Flow := ⟨.forward, .tcp, ip4 10 0 1 200, ip4 10 0 1 1, 80⟩
    walk (compileSets c ps) (compileTable c ps "node1") f = .drop ∧ k8sAllowsOn "node1" c ps f = true := by
  decide

/-- (h) EVENT PATH (corpus/C16/relabel.ops): pod b (another node, app=b) is an allowed peer of policy x; it is relabelled
    app=c while running.  UpdatePod calls no SyncPodChains for a pod of another node and SyncPodIPInIPSet only ADDS
    the address to the sets the NEW labels match (none): the kernel state after the event is the state before it, b is
    still a member of GLX-sip-0-x and is still admitted, although the API semantics of the new cluster (and a
    from-scratch compile of it) refuse it.  Repaired only by the next periodic full sync. -/
theorem counter_relabel_stale :
    let ps := [polX [.ingress] [⟨[.pods (lbl [("app", "b")])], [⟨.tcp, some 80⟩]⟩] []]
    let cOld : Cluster := ⟨nss2, [podA, podB "node2" "b"]⟩
    let cNew : Cluster := ⟨nss2, [podA, podB "node2" "c"]⟩
    let k := (fullSync ⟨[], [(.forward, []), (.input, []), (.output, [])]⟩ cOld ps "node1").1
    let f : Flow := ⟨.forward, .tcp, ip4 10 0 1 2, ip4 10 0 1 1, 80⟩
    walk k.sets k.tbl f = .accept ∧ k8sAllowsOn "node1" cNew ps f = false ∧
    walk (compileSets cNew ps) (compileTable cNew ps "node1") f = .drop ∧
    (fullSync k cNew ps "node1").2 = [] ∧
    walk (fullSync k cNew ps "node1").1.sets (fullSync k cNew ps "node1").1.tbl f = .drop := by
  decide

/-- (m) MULTIPORT LIMIT as it was BEFORE the fix 8f04d5f (rendering with `chunk = 0`): 16 TCP ports were put into ONE
    rule, which exceeds iptables' 15 ports per multiport match; iptables-restore refuses that rule and with it the
    whole policy batch (then every pod batch dangles and nothing is enforced on the node). -/
theorem counter_multiport :
    (tplRulesWith 0 "x_ns1" ⟨.sip, 0, "H"⟩ ⟨.sel, 0, "H"⟩ ((List.range 16).map (8000 + ·)) []).length = 1 ∧
    (tplRulesWith 0 "x_ns1" ⟨.sip, 0, "H"⟩ ⟨.sel, 0, "H"⟩ ((List.range 16).map (8000 + ·)) []).all
      (fun r => !r.portsOK) = true ∧
    (tplRulesWith 0 "x_ns1" ⟨.sip, 0, "H"⟩ ⟨.sel, 0, "H"⟩ ((List.range 16).map (8000 + ·)) []).map
      (fun r => match applyCmd ⟨[⟨⟨.sip, 0, "H"⟩, .hashIP, []⟩, ⟨⟨.sel, 0, "H"⟩, .hashIP, []⟩], []⟩
          [(.plcy "H", [])] (.app (.plcy "H") r) with
        | .error e => some e
        | .ok _ => none) = [some Fail.restoreTooManyPorts] := by
  decide

/-- the current source (regenerated `multiportChunk`) splits the ports over rules of at most 15: every emitted rule is
    accepted by iptables (`overLimit_false`, used by `enforces_k8s_partial`), and on the witness of corpus/C16/m.ops
    (16 TCP ports allowed from ns1) the sync reports no failure, the 16th port is admitted, another port is dropped,
    as the API semantics say — inside the fragment. -/
theorem multiport_fixed :
    multiportChunk = 15 ∧ (∀ ps, overLimit ps = false) ∧
    (let c : Cluster := ⟨nss2, [podA, podB "node2" "b"]⟩
     let ps := [polX [.ingress] [⟨[.nss (lbl [("name", "ns1")])],
       (List.range 16).map (fun i => (⟨.tcp, some (8000 + i)⟩ : Port))⟩] []]
     let f16 : Flow := ⟨.forward, .tcp, ip4 10 0 1 2, ip4 10 0 1 1, 8015⟩
     let fx : Flow := ⟨.forward, .tcp, ip4 10 0 1 2, ip4 10 0 1 1, 9999⟩
     (policyChain (polX [.ingress] [⟨[.nss (lbl [("name", "ns1")])],
       (List.range 16).map (fun i => (⟨.tcp, some (8000 + i)⟩ : Port))⟩] [])).length = 2 ∧
     inFragment c ps "node1" f16 = true ∧
     walk (compileSets c ps) (compileTable c ps "node1") f16 = .accept ∧ k8sAllowsOn "node1" c ps f16 = true ∧
     walk (compileSets c ps) (compileTable c ps "node1") fx = .drop ∧ k8sAllowsOn "node1" c ps fx = false ∧
     (fullSync ⟨[], [(.forward, []), (.input, []), (.output, [])]⟩ c ps "node1").2 = []) := by
  refine ⟨by decide, overLimit_false, ?_⟩
  decide

/-- every hypothesis class of the fragment is needed: each witness above is outside `inFragment` -/
theorem counters_outside_fragment :
    inFragment ⟨nss2, [podA, podC]⟩ [polX [.ingress] [⟨[.pods (lbl [("app", "b")])], []⟩] []] "node1"
      ⟨.forward, .tcp, ip4 10 0 2 1, ip4 10 0 1 1, 80⟩ = false ∧
    inFragment ⟨nss2, [podA]⟩ [polX [.ingress] [⟨[], [⟨.tcp, some 80⟩]⟩] []] "node1"
      ⟨.forward, .tcp, ip4 192 168 1 10, ip4 10 0 1 1, 80⟩ = false ∧
    inFragment ⟨nss2, [podA, podB "node2" "b"]⟩ [polX [.ingress] [⟨[.nss (lbl [("name", "ns1")])], [⟨.udp, none⟩]⟩] []] "node1"
      ⟨.forward, .tcp, ip4 10 0 1 2, ip4 10 0 1 1, 80⟩ = false := by
  decide

/-! ## Tie to the source text: the rendered rules are the regenerated templates, the facts the model relies on -/

/-- writePolicyChainRules, tcp template: the model's rule renders to the template of the source -/
theorem template_plcy_tcp (chain cm : String) (s d : SetName) (ports : List Nat) :
    "-A" :: chain :: PRule.render ⟨[.comment cm, .proto .tcp, .setSrc s, .setDst d, .dports ports], .accept⟩ =
      instTpl (plcyVars chain cm s.render d.render) (fun _ => ports.map toString) plcyTcp := by
  simp [instTpl, instTok, plcyVars, plcyTcp, PRule.render, Mt.render, Tgt.render, Proto.render]

/-- writePolicyChainRules, udp template -/
theorem template_plcy_udp (chain cm : String) (s d : SetName) (ports : List Nat) :
    "-A" :: chain :: PRule.render ⟨[.comment cm, .proto .udp, .setSrc s, .setDst d, .dports ports], .accept⟩ =
      instTpl (plcyVars chain cm s.render d.render) (fun _ => ports.map toString) plcyUdp := by
  simp [instTpl, instTok, plcyVars, plcyUdp, PRule.render, Mt.render, Tgt.render, Proto.render]

/-- writePolicyChainRules, port-less template (`-p all`) -/
theorem template_plcy_all (chain cm : String) (s d : SetName) :
    "-A" :: chain :: PRule.render ⟨[.comment cm, .protoAll, .setSrc s, .setDst d], .accept⟩ =
      instTpl (plcyVars chain cm s.render d.render) (fun _ => []) plcyAll := by
  simp [instTpl, instTok, plcyVars, plcyAll, PRule.render, Mt.render, Tgt.render]

/-- the guards of the three templates are the ones `tplRules` uses: a chunk loop of `maxMultiportPorts` = 15 ports for
    tcp and for udp (each iteration builds its words afresh: `template_plcy_tcp/udp` hold per chunk), the port-less
    rule when there are no numbered ports -/
theorem fact_plcy_guards :
    plcyGuards = ["for i := 0; i < len(tcpPorts); i += maxMultiportPorts",
      "for i := 0; i < len(udpPorts); i += maxMultiportPorts", "len(tcpPorts) == 0 && len(udpPorts) == 0"] ∧
    multiportChunk = 15 ∧
    plcyOuterLoop = ("srcTableName", "srcTableNames") ∧ plcyInnerLoop = ("dstTableName", "dstTableNames") := by
  decide

/-- SyncPodChains: the three kinds of pod-chain lines and the two hook rules -/
theorem template_pod_chain (podChain cm ip plcy : String) :
    "-A" :: podChain :: PRule.render ⟨[.comment cm, .ctEstablished], .accept⟩ =
      instTpl (podVars podChain cm ip plcy) (fun _ => []) podChainFirst ∧
    "-A" :: podChain :: PRule.render ⟨[.comment cm], .jump (.other plcy)⟩ =
      instTpl (podVars podChain cm ip plcy) (fun _ => []) podChainJump ∧
    "-A" :: podChain :: PRule.render ⟨[.comment cm], .drop⟩ =
      instTpl (podVars podChain cm ip plcy) (fun _ => []) podChainLast := by
  simp [instTpl, instTok, podVars, podChainFirst, podChainJump, podChainLast, PRule.render, Mt.render, Tgt.render,
    Chain.render]

/-- hook rules `-d <ip> … -j GLX-POD-*` (GLX-INGRESS, appended when the pod is ingress-selected, deleted otherwise)
    and `-s <ip> …` (GLX-EGRESS) -/
theorem fact_hooks :
    hookIngressArgs = [Tok.lit "-d", Tok.var "pod.Status.PodIP", Tok.lit "-m", Tok.lit "comment", Tok.lit "--comment",
      Tok.var "fmt.Sprintf(\"%s_%s\", pod.Name, pod.Namespace)", Tok.lit "-j", Tok.var "podChainName(pod)"] ∧
    hookEgressArgs = [Tok.lit "-s", Tok.var "pod.Status.PodIP", Tok.lit "-m", Tok.lit "comment", Tok.lit "--comment",
      Tok.var "fmt.Sprintf(\"%s_%s\", pod.Name, pod.Namespace)", Tok.lit "-j", Tok.var "podChainName(pod)"] ∧
    hookCalls = [("EnsureRule", "utiliptables.Append", "ingressChain", "filteredIngressPolicy.Len() > 0"),
      ("DeleteRule", "", "ingressChain", "filteredIngressPolicy.Len() <= 0"),
      ("EnsureRule", "utiliptables.Append", "egressChain", "filteredEgressPolicy.Len() > 0"),
      ("DeleteRule", "", "egressChain", "filteredEgressPolicy.Len() <= 0")] ∧
    podChainJumpCond = true ∧ syncPodOrderDeleteThenNoIPThenBase = true := by
  decide

/-- ensureBasicChain: both prepends to FORWARD put GLX-EGRESS before GLX-INGRESS (deviation (e) rests on this) -/
theorem fact_base_jumps :
    baseCalls = [("chain", "", "GLX-INGRESS", []), ("chain", "", "GLX-EGRESS", []),
      ("rule", "Prepend", "FORWARD", ["-j", "GLX-INGRESS"]), ("rule", "Prepend", "FORWARD", ["-j", "GLX-EGRESS"]),
      ("rule", "Prepend", "OUTPUT", ["-j", "GLX-INGRESS"]), ("rule", "Prepend", "INPUT", ["-j", "GLX-EGRESS"])] := by
  decide

/-- names: prefixes, set-name formats, hash pipeline and truncation -/
theorem fact_names :
    namePrefix = "GLX" ∧ policyChainPrefix = "GLX-PLCY" ∧ podChainPrefix = "GLX-POD" ∧
    ingressChain = "GLX-INGRESS" ∧ egressChain = "GLX-EGRESS" ∧
    fmtSelSet = "%s-ip-%s" ∧ fmtIngressIpSet = "%s-sip-%d-%s" ∧ fmtIngressNetSet = "%s-snet-%d-%s" ∧
    fmtEgressIpSet = "%s-dip-%d-%s" ∧ fmtEgressNetSet = "%s-dnet-%d-%s" ∧ selSetShared = true ∧
    setHashInput = "tableNameHash(fmt.Sprintf(\"%s_%s\", np.Name, np.Namespace))" ∧
    policyChainNameExpr = "fmt.Sprintf(\"%s-%s\", policyChainPrefix, nameHash(fmt.Sprintf(\"%s_%s\", policy.Name, policy.Namespace)))" ∧
    podChainNameExpr = "fmt.Sprintf(\"%s-%s\", podChainPrefix, nameHash(fmt.Sprintf(\"%s_%s\", pod.Name, pod.Namespace)))" ∧
    nameHashBody = ["return base32.StdEncoding.EncodeToString(sha256.Sum256([]byte(data))[:])[:16]"] ∧
    tableNameHashBody = nameHashBody := by
  decide

/-- rendered names use the regenerated prefixes / formats -/
theorem names_render (h : String) :
    (⟨.sel, 0, "H"⟩ : SetName).render = "GLX-ip-H" ∧ (Chain.plcy h).render = "GLX-PLCY-" ++ h ∧
    (Chain.pod h).render = "GLX-POD-" ++ h ∧ Chain.glxIngress.render = "GLX-INGRESS" ∧
    Chain.glxEgress.render = "GLX-EGRESS" ∧
    (⟨.sip, 3, "H"⟩ : SetName).render = "GLX-sip-3-H" ∧ (⟨.dnet, 12, "H"⟩ : SetName).render = "GLX-dnet-12-H" := by
  exact ⟨by decide, rfl, rfl, rfl, rfl, by decide, by decide⟩

/-- ingressOrEgress defaulting, writeRules argument order, peerTable precedence (deviations (a), (b) rest on the
    first case), rulePorts shape (deviation (f)), peerRule merging (deviation (g)) -/
theorem fact_compiler_shape :
    (∀ i e, defaultIngress i e = true) ∧ (∀ i e, defaultEgress i e = decide (e > 0)) ∧
    ioeLoopSetsFlagPerType = true ∧ ioeDefaultCond = "!ingress && !egress" ∧
    writeRulesIngressCall = ["filterRules", "string(utiliptables.Chain(policyChainName(policy.np)))",
      "fmt.Sprintf(\"%s_%s\", policy.np.Name, policy.np.Namespace)", "srcTableNames",
      "[]string{policy.ingressRule.dstIPTable.Name}", "rule.tcpPorts", "rule.udpPorts"] ∧
    writeRulesEgressCall = ["filterRules", "string(utiliptables.Chain(policyChainName(policy.np)))",
      "fmt.Sprintf(\"%s_%s\", policy.np.Name, policy.np.Namespace)",
      "[]string{policy.egressRule.srcIPTable.Name}", "dstTableNames", "rule.tcpPorts", "rule.udpPorts"] ∧
    writeRulesAppends = ["srcTableNames = append(srcTableNames, rule.ipTable.Name)",
      "srcTableNames = append(srcTableNames, rule.netTable.Name)",
      "dstTableNames = append(dstTableNames, rule.ipTable.Name)",
      "dstTableNames = append(dstTableNames, rule.netTable.Name)"] ∧
    peerTableCases = [("peer.PodSelector != nil", "p.podSelectorToTable(peer.PodSelector, v1.NamespaceAll)"),
      ("peer.NamespaceSelector != nil", "p.namespaceSelectorToTable(peer.NamespaceSelector)"),
      ("peer.IPBlock != nil", "ipBlockToTable(peer.IPBlock.CIDR, peer.IPBlock.Except)")] ∧
    policyResultSelectorCall = "tbl, err := p.podSelectorToTable(&np.Spec.PodSelector, np.Namespace)" ∧
    podSelectorListsNamespaceArg = true ∧ podSelectorTableType = true ∧
    ipBlockCidrEntry = true ∧ ipBlockExceptLoop = true ∧ ipBlockExceptOption = "nomatch" ∧
    formatCidrMasksAndTrims32 = true ∧ peerRuleMergesByType = true ∧
    rulePortsDefaultProto = "tcp" ∧ rulePortsTcpCond = "protocol == \"tcp\"" ∧ rulePortsSkipsPortless = true ∧
    rulePortsNonTcpGoesUdp = true ∧
    filterSameNamespaceOnly = true ∧ filterIngressNeedsIngressRule = true ∧ filterEgressNeedsEgressRule = true := by
  refine ⟨fun _ _ => rfl, fun _ _ => rfl, ?_⟩
  decide

end Galaxy.Props.C16
