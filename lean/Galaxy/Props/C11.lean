/-
  C11 — Allocation keys are unambiguous and the API releases what it lists.

  "Distinct pods always map to distinct allocation keys, and a key decodes back to the pod, app,
   namespace, app type and pool it was built from.  Every entry returned by the list-IP API can be
   released by posting that entry back (app type omitted meaning statefulset, as documented), never
   addresses another owner's IP, and paging through the list sorted by IP shows every allocated IP
   exactly once."

  All theorems are about the functions of `Galaxy.Model.Keys` (the ones `gxdrv_keys` executes), which
  are built from `Galaxy.Generated.Keys` (regenerated from /repo by `tools/factgen/cmd/keys`).
  Strings are unbounded character lists.  Vocabulary (`noSep`, `Parts`, `WF`, the five key shapes,
  `Producible`, `WFPod`, `WFKinds`) is defined in `Galaxy/Lemmas/KeysCodec.lean`, `KeysApi.lean`, `KeysPod.lean`.
-/
import Galaxy.Lemmas.KeysPod
import Galaxy.Lemmas.KeysPage

namespace Galaxy.Props.C11
open Galaxy Galaxy.Keys Galaxy.Generated.Keys

/-! ## wiring facts re-extracted from the source on every run -/

/-- the key separator and the number of `_`-separated fields `resolvePodKey` insists on -/
theorem fact_split : sep = '_' ∧ partCount = 4 ∧ resolveTypeSuffix = ['_'] := by decide

/-- `resolvePodKey` returns (parts[0]+"_", parts[2], parts[3], parts[1]) and `ParseKey` assigns them to
    (AppTypePrefix, AppName, PodName, Namespace): the model's `parseKey` reads them in this order -/
theorem fact_resolve_order :
    resolveIdx = (0, 2, 3, 1) ∧ parseKeyAssign = ["AppTypePrefix", "AppName", "PodName", "Namespace"] := by decide

/-- `NewKeyObj(p0, …, p4)` stores its parameters in (AppTypePrefix, Namespace, AppName, PodName, PoolName) and calls genKey;
    `ReleaseIPs` passes the entry's (Namespace, AppName, PodName, PoolName) and `ListIPs` the query parameters
    (namespace, appName, podName, poolName) in exactly that order: the model's `releaseKey` / `listKey` do the same
    (normal forms: `elem#0` is the request entry, `@0` the http request) -/
theorem fact_newKeyObj_wiring :
    newKeyObjWiring = ["AppTypePrefix", "Namespace", "AppName", "PodName", "PoolName"] ∧
    releaseKeyArgs = ["elem#0.Namespace", "elem#0.AppName", "elem#0.PodName", "elem#0.PoolName"] ∧
    listKeyArgs = ["(call @0.QueryParameter \"namespace\")", "(call @0.QueryParameter \"appName\")",
      "(call @0.QueryParameter \"podName\")", "(call @0.QueryParameter \"poolName\")"] := by decide

/-- `convert` copies the fields of `ParseKey(record.Key)` and lists `GetAppType(prefix)` as the app type -/
theorem fact_convert_wiring :
    convertFields = [("IP", "(call @0.IP.String)"), ("Namespace", "(call util.ParseKey @0.Key).Namespace"),
      ("AppName", "(call util.ParseKey @0.Key).AppName"), ("PodName", "(call util.ParseKey @0.Key).PodName"),
      ("PoolName", "(call util.ParseKey @0.Key).PoolName"),
      ("AppType", "(call util.GetAppType (call util.ParseKey @0.Key).AppTypePrefix)")] := by decide

/-- an omitted app type means statefulset in both handlers (the `else` is in place), and `Release` re-checks
    the record's key under the pod lock before it mutates anything -/
theorem fact_api_shape : releaseDefaultsToSts = true ∧ listDefaultsToSts = true ∧ releaseMatchesKey = true := by
  decide

/-- every source shape the model transcribes was recognised by the translator: the values above were read off the
    normal forms of the current source, and `FormatKey`, `resolveDeploymentName`, `ParseKey`, `PagingParams`, `ListIPs` and
    `ReleaseIPs` (two loops — one fresh release request appended per releasable entry, each executed in order) have the
    normal form of the pinned source the hand-written model follows -/
theorem fact_handler_shapes : shapeErrors = [] := by decide

/-- inside both handlers `util.GetAppTypePrefix` is applied to the entry's / the query's app type itself — one call each,
    no helper and no normalising wrapper (trimming, case folding, …) in between -/
theorem fact_prefix_args :
    releasePrefixArgs = ["elem#0.AppType"] ∧ listPrefixArgs = ["(call @0.QueryParameter \"appType\")"] := by decide

/-- handler-level prefix resolution, made explicit: given the facts above (`fact_api_shape`, `fact_handler_shapes`,
    `fact_prefix_args`), the prefix `ReleaseIPs` and `ListIPs` derive from an app type is exactly
    `if appType = "" then sts_ else GetAppTypePrefix appType` — nothing else happens to the app type on the way, so the
    keys they build are `genKey` of that prefix and the entry's own fields -/
theorem handler_prefix_resolution (appType : Str) (e : Entry) (ns app pod pool : Str) :
    apiPrefixWith releaseDefaultsToSts appType = (if appType = [] then stsPrefix else getAppTypePrefix appType) ∧
    apiPrefixWith listDefaultsToSts appType = (if appType = [] then stsPrefix else getAppTypePrefix appType) ∧
    releaseKey e = genKey (if e.appType = [] then stsPrefix else getAppTypePrefix e.appType) e.ns e.app e.pod e.pool ∧
    listKey appType ns app pod pool =
      genKey (if appType = [] then stsPrefix else getAppTypePrefix appType) ns app pod pool := by
  simp [apiPrefixWith, releaseKey, releaseKeyWith, listKey, newKeyObj, fact_api_shape.1, fact_api_shape.2.1]

/-- non-vacuity / the case the resolution must not mangle: a kind ending in `s` lists as `redis` and resolves back to
    `redis_` (not `redi_`) -/
example : getAppTypePrefix "Redis".toList = "redis_".toList ∧ getAppType "redis_".toList = "redis".toList ∧
    apiPrefixWith releaseDefaultsToSts "redis".toList = "redis_".toList ∧
    releaseKey (convert 1 "redis_ns1_cache_cache-0".toList) = "redis_ns1_cache_cache-0".toList := by decide

/-- the constants of the key grammar -/
theorem fact_constants :
    poolPrefix = "pool__".toList ∧ dpPrefix = "dp_".toList ∧ stsPrefix = "sts_".toList ∧
    noRefAppName = "NULL".toList ∧ noRefAppTypePrefix = "NULL_".toList ∧
    kindStatefulSet = "StatefulSet".toList ∧ kindReplicaSet = "ReplicaSet".toList ∧ rsCut = '-' := by decide

/-! ## "a key decodes back to the pod, app, namespace, app type and pool it was built from" -/

/-- `parse_format`: for well-formed parts (no `_` in namespace, app, pod, pool; type prefix `body_`; namespace
    non-empty when an app is named) `ParseKey (genKey parts)` returns exactly the parts — for all five shapes at once
    (a shape is a choice of which parts are empty, see the corollaries). -/
theorem parse_format (p : Parts) (h : WF p) : parseKey p.key = p.obj :=
  parseKey_genKey p h

/-- shape 1, pod key `<type>_<ns>_<app>_<pod>`: all four fields round-trip, pool is empty -/
theorem parse_format_podKey (body ns app pod : Str) (hb : noSep body) (hn : noSep ns) (hn0 : ns ≠ [])
    (ha : noSep app) (ha0 : app ≠ []) (hp : noSep pod) :
    parseKey (genKey (body ++ [sep]) ns app pod []) =
      { key := body ++ [sep] ++ ns ++ [sep] ++ app ++ [sep] ++ pod,
        tp := body ++ [sep], ns := ns, app := app, pod := pod, pool := [] } := by
  have h : WF (podKey (body ++ [sep]) ns app pod) :=
    ⟨hn, ha, hp, by simp [noSep, podKey], fun _ => ⟨hn0, body, hb, by rw [suffix_is_sep]; rfl⟩, fun e => absurd e ha0⟩
  have := parse_format _ h
  simpa [Parts.key, Parts.obj, podKey, newKeyObj, genKey, ha0, genKeyFull, sep] using this

/-- shape 2, app prefix key `<type>_<ns>_<app>_` (what `PoolPrefix()` returns without a pool): type, namespace and
    app round-trip, the pod name is empty -/
theorem parse_format_appPrefix (body ns app : Str) (hb : noSep body) (hn : noSep ns) (hn0 : ns ≠ [])
    (ha : noSep app) (ha0 : app ≠ []) :
    parseKey (poolPrefixOf (newKeyObj (body ++ [sep]) ns app [] [])) =
      { key := body ++ [sep] ++ ns ++ [sep] ++ app ++ [sep],
        tp := body ++ [sep], ns := ns, app := app, pod := [], pool := [] } := by
  have h : WF (appPrefixKey (body ++ [sep]) ns app) :=
    ⟨hn, ha, by simp [noSep, appPrefixKey], by simp [noSep, appPrefixKey],
      fun _ => ⟨hn0, body, hb, by rw [suffix_is_sep]; rfl⟩, fun e => absurd e ha0⟩
  have := parse_format _ h
  simpa [Parts.key, Parts.obj, appPrefixKey, newKeyObj, genKey, ha0, genKeyFull, poolPrefixOf, poolPrefixApp,
    sep] using this

/-- shape 3, pool prefix key `pool__<pool>_` (what `PoolPrefix()` returns with a pool): only the pool name
    round-trips, every other field parses as empty -/
theorem parse_format_poolPrefix (tp ns app pod pool : Str) (hp : noSep pool) (hp0 : pool ≠ []) :
    parseKey (poolPrefixOf (newKeyObj tp ns app pod pool)) =
      { key := poolPrefix ++ pool ++ [sep], tp := [], ns := [], app := [], pod := [], pool := pool } := by
  have h : WF (poolKey pool) :=
    ⟨by simp [noSep, poolKey], by simp [noSep, poolKey], by simp [noSep, poolKey], hp,
      fun e => absurd rfl e, fun _ => ⟨rfl, rfl, rfl⟩⟩
  have := parse_format _ h
  simpa [Parts.key, Parts.obj, poolKey, newKeyObj, genKey, hp0, genKeyPoolPrefix, poolPrefixOf, poolPrefixPool,
    sep] using this

/-- shape 4, pool + app prefix key `pool__<pool>_<type>_<ns>_<app>_` (`PoolAppPrefix()`): pool, type, namespace and
    app round-trip, the pod name is empty -/
theorem parse_format_poolAppPrefix (body ns app pod pool : Str) (hb : noSep body) (hn : noSep ns) (hn0 : ns ≠ [])
    (ha : noSep app) (ha0 : app ≠ []) (hp : noSep pool) (hp0 : pool ≠ []) :
    parseKey (poolAppPrefixOf (newKeyObj (body ++ [sep]) ns app pod pool)) =
      { key := poolPrefix ++ pool ++ [sep] ++ body ++ [sep] ++ ns ++ [sep] ++ app ++ [sep],
        tp := body ++ [sep], ns := ns, app := app, pod := [], pool := pool } := by
  have h : WF (poolAppKey pool (body ++ [sep]) ns app) :=
    ⟨hn, ha, by simp [noSep, poolAppKey], hp, fun _ => ⟨hn0, body, hb, by rw [suffix_is_sep]; rfl⟩, fun e => absurd e ha0⟩
  have := parse_format _ h
  simpa [Parts.key, Parts.obj, poolAppKey, newKeyObj, genKey, ha0, hp0, genKeyFull, genKeyPoolPrefix,
    poolAppPrefixOf, poolAppPrefixPool, sep] using this

/-- shape 5, key of a pod in a pool `pool__<pool>_<type>_<ns>_<app>_<pod>`: all five fields round-trip -/
theorem parse_format_poolPodKey (body ns app pod pool : Str) (hb : noSep body) (hn : noSep ns) (hn0 : ns ≠ [])
    (ha : noSep app) (ha0 : app ≠ []) (hpd : noSep pod) (hp : noSep pool) (hp0 : pool ≠ []) :
    parseKey (genKey (body ++ [sep]) ns app pod pool) =
      { key := poolPrefix ++ pool ++ [sep] ++ body ++ [sep] ++ ns ++ [sep] ++ app ++ [sep] ++ pod,
        tp := body ++ [sep], ns := ns, app := app, pod := pod, pool := pool } := by
  have h : WF (poolPodKey pool (body ++ [sep]) ns app pod) :=
    ⟨hn, ha, hpd, hp, fun _ => ⟨hn0, body, hb, by rw [suffix_is_sep]; rfl⟩, fun e => absurd e ha0⟩
  have := parse_format _ h
  simpa [Parts.key, Parts.obj, poolPodKey, newKeyObj, genKey, ha0, hp0, genKeyFull, genKeyPoolPrefix,
    sep] using this

/-- non-vacuity: `sts_ns1_web_web-0` and `pool__p1_dp_ns1_web_web-7f9-x` are keys of well-formed parts -/
example : WF (podKey "sts_".toList "ns1".toList "web".toList "web-0".toList) ∧
    (podKey "sts_".toList "ns1".toList "web".toList "web-0".toList).key = "sts_ns1_web_web-0".toList :=
  ⟨⟨by decide, by decide, by decide, by decide, fun _ => ⟨by decide, "sts".toList, by decide, by decide⟩,
    fun e => absurd e (by decide)⟩, by decide⟩
example : WF (poolPodKey "p1".toList "dp_".toList "ns1".toList "web".toList "web-7f9-x".toList) ∧
    (poolPodKey "p1".toList "dp_".toList "ns1".toList "web".toList "web-7f9-x".toList).key
      = "pool__p1_dp_ns1_web_web-7f9-x".toList :=
  ⟨⟨by decide, by decide, by decide, by decide, fun _ => ⟨by decide, "dp".toList, by decide, by decide⟩,
    fun e => absurd e (by decide)⟩, by decide⟩
example : parseKey "pool__p1_".toList =
    { key := "pool__p1_".toList, tp := [], ns := [], app := [], pod := [], pool := "p1".toList } := by decide

/-- `format_injective`: well-formed parts with the same key are the same parts (across all five shapes) -/
theorem format_injective (p q : Parts) (hp : WF p) (hq : WF q) (h : p.key = q.key) : p = q :=
  genKey_injective hp hq h

/-- "a key decodes back to the pod, app, namespace, app type and pool it was built from": for a pod with DNS-1123
    names, `_`-free non-empty owner kinds and a `_`-free pool annotation, `ParseKey (FormatKey pod)` is the very
    `KeyObj` `FormatKey` returned, and that object names the pod's own namespace, name and pool -/
theorem pod_key_decodes (p : Pod) (k : KeyObj) (h : WFPod p) (hk : WFKinds p) (hf : formatKey p = some k) :
    parseKey k.key = k ∧ k.ns = p.ns ∧ k.pod = p.name ∧ k.pool = p.pool := by
  obtain ⟨q, rfl, hq, _, _, h1, h2, h3⟩ := formatKey_parts h hk hf
  exact ⟨parse_format q hq, h1, h2, h3⟩

/-- non-vacuity: a deployment pod in a pool -/
example : formatKey ⟨"ns1".toList, "web-7f9-x".toList, "p1".toList, [⟨"ReplicaSet".toList, "web-7f9".toList⟩]⟩
    = some (newKeyObj "dp_".toList "ns1".toList "web".toList "web-7f9-x".toList "p1".toList) := by decide

/-! ## "Distinct pods always map to distinct allocation keys" -/

/-- `podkeys_distinct`: two pods with DNS-1123 namespace / name / owner names that differ in namespace or name
    get different keys — for ANY owner kinds (including none, and kinds containing `_`) and ANY pool annotations
    (including ones containing `_`): the key always ends in `_<ns>_<app>_<pod>`. -/
theorem podkeys_distinct (p q : Pod) (kp kq : KeyObj) (hp : WFPod p) (hq : WFPod q)
    (fp : formatKey p = some kp) (fq : formatKey q = some kq) (hne : (p.ns, p.name) ≠ (q.ns, q.name)) :
    kp.key ≠ kq.key := by
  obtain ⟨tp, app, rfl, ha0, ha, ht⟩ := formatKey_shape hp fp
  obtain ⟨tp', app', rfl, ha0', ha', ht'⟩ := formatKey_shape hq fq
  obtain ⟨pre, e1⟩ := genKey_suffix (ns := p.ns) (pod := p.name) (pool := p.pool) ha0 ht
  obtain ⟨pre', e2⟩ := genKey_suffix (ns := q.ns) (pod := q.name) (pool := q.pool) ha0' ht'
  intro h
  simp only [newKeyObj] at h
  rw [e1, e2] at h
  have := suffix_inj hp.ns hq.ns ha ha' hp.name hq.name h
  exact hne (by rw [this.1, this.2])

/-- non-vacuity: a bare pod and a TApp pod with a pool name containing `_` satisfy the hypotheses -/
example : WFPod ⟨"ns1".toList, "a-0".toList, "x_y".toList, [⟨"TApp".toList, "a".toList⟩]⟩ ∧
    WFPod ⟨"ns1".toList, "a-1".toList, [], []⟩ :=
  ⟨⟨by decide, by decide, by decide, by decide, by decide⟩, ⟨by decide, by decide, by decide, by decide, by decide⟩⟩

/-! ## app types -/

/-- `apptype_roundtrip`: `GetAppTypePrefix (GetAppType t) = t` for every prefix `t = GetAppTypePrefix kind`
    `FormatKey` can produce — any kind at all (ASCII lower-casing is idempotent and never yields `NULL`), which
    covers `lower(kind)_`, and `sts_`, `dp_`, `NULL_` as the images of `StatefulSet`, `ReplicaSet`, `NULL`. -/
theorem apptype_roundtrip (kind : Str) :
    getAppTypePrefix (getAppType (getAppTypePrefix kind)) = getAppTypePrefix kind :=
  getAppTypePrefix_getAppType kind

/-- "a key decodes back to the … app type … it was built from": the two built-in prefixes are reached ONLY from
    their documented owner kinds (up to case) and the tables' own short words — no other kind (e.g. a custom
    resource `StatefulSetPlus`) can land on `sts_` / `dp_` and so share an app prefix with a real StatefulSet or
    Deployment of the same name. -/
theorem builtin_prefix_only_from_documented_kinds (kind : Str) :
    (getAppTypePrefix kind = stsPrefix → lower kind ∈ ["statefulset".toList, "statefulsets".toList, "sts".toList]) ∧
    (getAppTypePrefix kind = dpPrefix → lower kind ∈ ["deployment".toList, "replicaset".toList, "dp".toList]) := by
  unfold getAppTypePrefix getAppTypePrefixT
  by_cases hk : kind = noRefAppName
  · subst hk; constructor <;> intro h <;> revert h <;> decide
  · have hE : assoc appTypePrefixExact kind = none := by
      simp only [appTypePrefixExact, assoc]
      rw [if_neg (fun e => hk e.symm)]
    rw [hE]; simp only
    generalize lower kind = lk
    by_cases h1 : lk = "deployment".toList
    · subst h1; constructor <;> intro h <;> revert h <;> decide
    by_cases h2 : lk = "replicaset".toList
    · subst h2; constructor <;> intro h <;> revert h <;> decide
    by_cases h3 : lk = "statefulset".toList
    · subst h3; constructor <;> intro h <;> revert h <;> decide
    by_cases h4 : lk = "statefulsets".toList
    · subst h4; constructor <;> intro h <;> revert h <;> decide
    have hL : assoc appTypePrefixLower lk = none := by
      simp only [appTypePrefixLower, assoc]
      rw [if_neg (fun e => h1 e.symm), if_neg (fun e => h2 e.symm), if_neg (fun e => h3 e.symm), if_neg (fun e => h4 e.symm)]
    rw [hL]; simp only [appTypePrefixSuffix, stsPrefix, dpPrefix]
    constructor <;> intro h
    · have := (List.append_inj' (t₁ := ['_']) (t₂ := ['_']) (s₂ := ['s', 't', 's']) h rfl).1
      subst this; decide
    · have := (List.append_inj' (t₁ := ['_']) (t₂ := ['_']) (s₂ := ['d', 'p']) h rfl).1
      subst this; decide

/-- the three constant prefixes explicitly: `dp_ ↦ deployment ↦ dp_`, `sts_ ↦ statefulset ↦ sts_`, `NULL_ ↦ NULL ↦ NULL_` -/
theorem apptype_roundtrip_consts :
    getAppTypePrefix (getAppType dpPrefix) = dpPrefix ∧ getAppTypePrefix (getAppType stsPrefix) = stsPrefix ∧
    getAppTypePrefix (getAppType noRefAppTypePrefix) = noRefAppTypePrefix ∧
    getAppType dpPrefix = "deployment".toList ∧ getAppType stsPrefix = "statefulset".toList ∧
    getAppType noRefAppTypePrefix = "NULL".toList := by decide

/-- the table before the fix (no exact case for `NULL`): the listed type of an owner-less pod mapped to `null_` -/
theorem apptype_roundtrip_counter :
    getAppTypePrefixT [] appTypePrefixLower appTypePrefixSuffix (getAppType noRefAppTypePrefix) = "null_".toList ∧
    "null_".toList ≠ noRefAppTypePrefix := by decide

/-- non-vacuity: a custom kind -/
example : getAppTypePrefix "TApp".toList = "tapp_".toList ∧ getAppType "tapp_".toList = "tapp".toList := by decide

/-! ## "Every entry returned by the list-IP API can be released by posting that entry back" -/

/-- `list_entry_releases_itself`: for every record whose key was generated from well-formed parts with a type
    prefix `FormatKey` can produce, the key `ReleaseIPs` rebuilds from the listed entry `convert r` (posted back
    verbatim) is the record's key. -/
theorem list_entry_releases_itself (ip : Nat) (p : Parts) (h : WF p) (ht : p.app ≠ [] → Producible p.tp) :
    releaseKey (convert ip p.key) = p.key :=
  releaseKeyWith_convert ip p h ht _

/-- the same at pod level: the entry listed for the key of any pod (DNS-1123 names, `_`-free kinds and pool) -/
theorem list_entry_releases_pod (ip : Nat) (p : Pod) (k : KeyObj) (h : WFPod p) (hk : WFKinds p)
    (hf : formatKey p = some k) : releaseKey (convert ip k.key) = k.key := by
  obtain ⟨q, rfl, hq, _, hprod, _⟩ := formatKey_parts h hk hf
  exact list_entry_releases_itself ip q hq (fun _ => hprod)

/-- "app type omitted meaning statefulset": the entry of a statefulset record (or of a bare pool prefix) with the
    `appType` field removed still rebuilds the record's key -/
theorem omitted_apptype_means_statefulset (ip : Nat) (p : Parts) (h : WF p) (ht : p.app ≠ [] → p.tp = stsPrefix) :
    releaseKey { convert ip p.key with appType := [] } = p.key := by
  have := releaseKeyWith_omitted ip p h ht
  simpa [releaseKey, fact_api_shape.1] using this

/-- without the `else` (the code before the fix) an omitted app type was read as `"_"`: the rebuilt key differs -/
theorem omitted_apptype_counter :
    releaseKeyWith false { convert 1 "sts_ns1_web_web-0".toList with appType := [] } = "_ns1_web_web-0".toList := by
  decide

/-- non-vacuity: what is listed for `sts_ns1_web_web-0` and for an owner-less pod -/
example : convert 7 "sts_ns1_web_web-0".toList =
    ⟨7, "ns1".toList, "web".toList, "web-0".toList, [], "statefulset".toList⟩ ∧
    convert 8 "NULL_ns1_NULL_solo".toList = ⟨8, "ns1".toList, "NULL".toList, "solo".toList, [], "NULL".toList⟩ := by
  decide

/-! ## "never addresses another owner's IP" -/

/-- `release_only_owner`: a release request for `(ip, key)` changes no record other than the one stored under `ip`,
    and that one only if its key equals `key` -/
theorem release_only_owner (a : Alloc) (running : Bool) (ip : Nat) (key : Str) (ip' : Nat)
    (h : (apiRelease a running ip key).1.get ip' ≠ a.get ip') : ip' = ip ∧ a.get ip = some key :=
  apiRelease_footprint a running ip key ip' h

/-- for a whole `ReleaseIPs` request: every record that changed is named by some posted entry with the same ip
    whose rebuilt key equals the key the record had -/
theorem release_request_only_owners (a : Alloc) (podInLister running : Entry → Bool) (es : List Entry) (ip' : Nat)
    (h : (releaseAll a podInLister running es).get ip' ≠ a.get ip') :
    ∃ e ∈ es, e.ip = ip' ∧ a.get ip' = some (releaseKey e) :=
  releaseAll_footprint a podInLister running es ip' h

/-- the handler as written (`releaseRequest`: a pre-check loop over all entries, then the releases in order, entries
    of one POST processed together) ends in the same table as entry-by-entry processing, so the footprint theorem
    holds for a request carrying any number of entries: whatever changed was named by an entry with that ip whose
    rebuilt key was the record's key -/
theorem release_handler_only_owners (a : Alloc) (podInLister running : Entry → Bool) (es : List Entry) (ip' : Nat)
    (h : (releaseRequest a podInLister running es).1.get ip' ≠ a.get ip') :
    (releaseRequest a podInLister running es).1 = releaseAll a podInLister running es ∧
    ∃ e ∈ es, e.ip = ip' ∧ a.get ip' = some (releaseKey e) := by
  rw [releaseRequest_state] at h
  exact ⟨releaseRequest_state a podInLister running es, releaseAll_footprint a podInLister running es ip' h⟩

/-- the response is consistent with the final state: the ip of every posted entry that is still allocated after
    the request is in the `unreleased` list (equivalently: an ip not reported unreleased is free afterwards) -/
theorem release_handler_unreleased_consistent (a : Alloc) (podInLister running : Entry → Bool) (es : List Entry)
    (e : Entry) (he : e ∈ es) (h : (releaseRequest a podInLister running es).1.get e.ip ≠ none) :
    e.ip ∈ (releaseRequest a podInLister running es).2 :=
  releaseRequest_consistent a podInLister running es e he h

/-- non-vacuity: one request with the owner entries of ips 1 and 2, a foreign entry for ip 3 and a duplicate:
    1 and 2 are released, 3 stays and is reported -/
example :
    let a : Alloc := [(1, "sts_n_a_a-0".toList), (2, "sts_n_a_a-1".toList), (3, "sts_n_b_b-0".toList)]
    let e (ip : Nat) (pod : String) : Entry := ⟨ip, "n".toList, "a".toList, pod.toList, [], "statefulset".toList⟩
    releaseRequest a (fun _ => false) (fun _ => false) [e 1 "a-0", e 3 "a-0", e 2 "a-1", e 1 "a-0"]
      = ([(3, "sts_n_b_b-0".toList)], [3]) := by decide

/-- a release that reports success did release the named record (and the pod was not running) -/
theorem release_releases (a : Alloc) (running : Bool) (ip : Nat) (key : Str)
    (h : (apiRelease a running ip key).2 = .released) :
    a.get ip = some key ∧ running = false ∧ (apiRelease a running ip key).1.get ip = none :=
  apiRelease_released a running ip key h

/-- non-vacuity: releasing ip 1 with its own key frees it and leaves ip 2 alone; with a foreign key nothing changes -/
example :
    let a : Alloc := [(1, "sts_n_a_a-0".toList), (2, "sts_n_a_a-1".toList)]
    (apiRelease a false 1 "sts_n_a_a-0".toList).1 = [(2, "sts_n_a_a-1".toList)] ∧
    (apiRelease a false 1 "sts_n_a_a-1".toList) = (a, .other) := by decide

/-! ## "paging through the list sorted by IP shows every allocated IP exactly once" -/

/-- `ParseSize` never yields a size below 1 (no division by zero in `pagin`) nor above 9999 -/
theorem parseSize_pos (s : Str) : 1 ≤ parseSize s ∧ parseSize s ≤ 9999 := by
  obtain ⟨v, hv⟩ := parseSize_is_clamp s
  rw [hv]; exact parseSizeClamp_range v

/-- `ParsePage` yields a page in `[0, 99999]` -/
theorem parsePage_range (s : Str) : 0 ≤ parsePage s ∧ parsePage s ≤ 99999 := by
  obtain ⟨v, hv⟩ := parsePage_is_clamp s
  rw [hv]; exact parsePageClamp_range v

/-- inside their ranges the clamps are the identity (every page ≤ 99999 and size in 1…9999 can be requested) -/
theorem clamps_identity (v : Int) :
    (0 ≤ v → v ≤ 99999 → parsePageClamp v = v) ∧ (1 ≤ v → v ≤ 9999 → parseSizeClamp v = v) :=
  ⟨parsePageClamp_id, parseSizeClamp_id⟩

/-- `pages_partition`: for `size > 0`, concatenating the slices `l[start:end]` of pages `0 … totalPages-1` of the
    generated `paginationResult` gives the list back — every element, once, in order -/
theorem pages_partition {α : Type} (l : List α) (size : Int) (hs : 0 < size) :
    (List.range (totalPages size l.length).toNat).flatMap (fun (p : Nat) => pageSlice l (p : Int) size) = l :=
  pages_concat_int l size hs

/-- exactly once, by position: index `i` of the list lies in `[start, end)` of page `p ≥ 0` iff `p = i / size`,
    and that page is one of `0 … totalPages-1` -/
theorem pages_index_unique (i page size len : Int) (hs : 0 < size) (hp : 0 ≤ page) (h0 : 0 ≤ i) (hi : i < len) :
    ((pageStart page size len ≤ i ∧ i < pageEnd page size len) ↔ page = i / size) ∧
    (0 ≤ i / size ∧ i / size < totalPages size len) :=
  ⟨idx_page_iff_int i page size len hs hp h0 hi, page_of_index_int i size len hs h0 hi⟩

/-- `pagin_fields` (1): `TotalPages = ⌈len / size⌉`, `TotalElements = len`, `Size = size` -/
theorem pagin_fields_total (page size len : Int) (hs : 0 < size) (hl : 0 ≤ len) :
    (pagination page size len).2.2.totalPages = totalPages size len ∧
    (len ≤ totalPages size len * size ∧ totalPages size len * size < len + size) ∧
    (pagination page size len).2.2.totalElements = len ∧ (pagination page size len).2.2.size = size :=
  ⟨rfl, totalPages_bounds_int size len hs hl, rfl, rfl⟩

/-- `pagin_fields` (2): `Last` iff no element follows the page, `First` iff nothing precedes it, `Number` is the
    requested page while it starts inside the list, `NumberOfElements` is the length of the returned slice -/
theorem pagin_fields_flags {α : Type} (l : List α) (page size : Int) (hp : 0 ≤ page) (hs : 0 < size) :
    ((pagination page size l.length).2.2.last = true ↔ (l.length : Int) ≤ (page + 1) * size) ∧
    ((pagination page size l.length).2.2.first = true ↔ (page = 0 ∨ (l.length : Int) = 0)) ∧
    (page * size ≤ l.length → (pagination page size l.length).2.2.number = page) ∧
    (pagination page size l.length).2.2.numberOfElements = ((pageSlice l page size).length : Int) :=
  ⟨pagin_last_int page size l.length hp hs, pagin_first_int page size l.length hp hs (by omega),
    pagin_number_int page size l.length hp hs, pagin_numberOfElements_int l page size hp hs⟩

/-- the clamp side condition, both directions: with the page number clamped to `[0, 99999]` every position of the
    list is on some requestable page of the given size iff `⌈len / size⌉ ≤ 100000` -/
theorem every_ip_reachable_iff (size len : Int) (hs : 0 < size) (hl : 0 ≤ len) :
    (∀ i, 0 ≤ i → i < len →
        ∃ v, pageStart (parsePageClamp v) size len ≤ i ∧ i < pageEnd (parsePageClamp v) size len)
      ↔ totalPages size len ≤ 100000 :=
  reachable_iff_int size len hs hl

/-- the clamp bites: 100001 ips at size 1 — the last one is on no requestable page of size 1 (a larger size
    reaches it: remark, not a finding) -/
theorem page_clamp_counter :
    ¬ (totalPages 1 100001 ≤ 100000) ∧ totalPages 2 100001 ≤ 100000 := by decide

/-- non-vacuity: 7 elements, size 3 → pages [0,1,2], [3,4,5], [6] -/
example : totalPages 3 7 = 3 ∧ pageSlice [0, 1, 2, 3, 4, 5, 6] 1 3 = [3, 4, 5] ∧ pageSlice [0, 1, 2, 3, 4, 5, 6] 2 3 = [6] ∧
    (pagination 2 3 7).2.2 = ⟨true, false, 7, 3, 1, 3, 2⟩ := by decide

/-! ## the hypotheses are necessary -/

/-- `pool_name_with_underscore_counter` (design finding D16): the pool annotation is free text; a pool name
    containing `_` does not decode (`ParseKey` cuts the pool name at its first `_` and then finds 5 fields), the
    listed entry names pool `a` only, and the key rebuilt from it is another key: the entry cannot be released. -/
theorem pool_name_with_underscore_counter :
    let key := genKey "sts_".toList "ns1".toList "web".toList "web-0".toList "a_b".toList
    key = "pool__a_b_sts_ns1_web_web-0".toList ∧
    parseKey key = { key := key, tp := [], ns := [], app := [], pod := [], pool := "a".toList } ∧
    convert 1 key = ⟨1, [], [], [], "a".toList, []⟩ ∧
    releaseKey (convert 1 key) = "pool__a_".toList ∧ releaseKey (convert 1 key) ≠ key := by decide

/-- an owner kind containing `_` does not decode either (5 fields) — kinds are identifiers, not a finding -/
theorem kind_with_underscore_counter :
    parseKey (genKey (getAppTypePrefix "My_Kind".toList) "ns1".toList "a".toList "a-0".toList []) =
      { key := "my_kind_ns1_a_a-0".toList, tp := [], ns := [], app := [], pod := [], pool := [] } := by decide

/-- an empty owner kind gives prefix `_`, listed app type `""`, which release reads as statefulset: `kind ≠ ""`
    (guaranteed by API validation) is necessary for `list_entry_releases_itself` -/
theorem empty_kind_counter :
    getAppTypePrefix [] = "_".toList ∧ releaseKey (convert 1 "_ns1_a_a-0".toList) = "sts_ns1_a_a-0".toList := by
  decide

end Galaxy.Props.C11
