/-
  C12 — CNI multi-network ADD/DEL is ordered, paired, rolled back and isolated.

  Model: `Galaxy.Model.Cni` (M5); `step st s r o` is one request `r` (ADD/DEL for container `r.cid`) with plugin
  outcomes `o : Nat → Bool` (`o k` = the k-th plugin invocation of this request succeeds).  The theorems
  quantify over every static configuration, every pod, every N, every outcome function and every state / request
  sequence.  `st.copy` is the regenerated fact `getNetworkConfReturnsCopy`; the `fact_*` theorems pin what the
  translator reads out of the current source of /repo.
-/
import Galaxy.Lemmas.CniStep
import Galaxy.Lemmas.CniText

namespace Galaxy.Props.C12
open Galaxy Galaxy.Cni Galaxy.Generated.Cni

/-! ## facts regenerated from /repo (a change in the source changes the generated value and breaks these) -/

/-- `getNetworkConf` returns a freshly made map filled from the configured one, not the configured map itself
    (the model parameter `Static.copy`; `false` is the pre-fix code, see `isolation_prefix_counter`). -/
theorem fact_getNetworkConfReturnsCopy : getNetworkConfReturnsCopy = true := by decide

/-- `CmdAdd` rejects an empty list, saves all infos before the first delegate runs, chains prevResult only from
    a previous delegate, and fails after the rollback. -/
theorem fact_cmdAddSavesBeforeInvoke :
    cmdAddRejectsEmpty = true ∧ cmdAddSavesBeforeInvoke = true ∧ cmdAddChainsPrevResult = true ∧
    cmdAddFailsAfterRollback = true := by decide

/-- the rollback after a failed delegate `idx` is `CmdDel(cmdArgs, idx)`: DEL from `idx` down to 0. -/
theorem fact_rollback_range : rollbackOffset = 0 := by decide

/-- `CmdDel` removes the state file when reading it, walks `lastIdx … 0` downwards (−1 = all), re-saves exactly the
    failed infos in original order, and treats a missing file as success. -/
theorem fact_cmdDelConsumesThenResavesFailures :
    cmdDelConsumesThenResavesFailures = true ∧ cmdDelIteratesDownward = true ∧ cmdDelMinusOneMeansAll = true ∧
    cmdDelMissingStateIsSuccess = true := by decide

/-- `setNetInterface`: index 0 gets kubelet's interface, otherwise the annotation's, otherwise `eth<idx>`. -/
theorem fact_interface_default_format (netIf argIf : Str) (idx : Nat) :
    setNetInterface netIf idx argIf =
      if idx = 0 then argIf else if netIf ≠ [] then netIf else ['e', 't', 'h'] ++ Nat.toDigits 10 idx := by
  unfold setNetInterface
  by_cases h1 : idx = 0 <;> by_cases h2 : netIf = [] <;> simp [h1, h2]

/-- `k=v` entries joined by `;`, accumulated with `;`, trailing `;` trimmed, parsed by splitting on `;` then on the
    first `=`. -/
theorem fact_arg_separators :
    buildArgSep = ';' ∧ buildKvSep = '=' ∧ accumSepAdd = ';' ∧ accumSepDel = ';' ∧ accumCutAdd = [';'] ∧
    accumCutDel = [';'] ∧ parseArgSep = ';' ∧ parseKvSep = '=' ∧ parseKvLimit = 2 ∧ parseTrimsAndLastWins = true := by
  decide

/-- the networks annotation is read as JSON iff it contains `[`, `{` or `"`; null elements are rejected; the comma
    form uses `,` `/` `@` and the DNS-label pattern that `labelOk` implements. -/
theorem fact_annotation_syntax :
    jsonDetectChars = ['[', '{', '"'] ∧ jsonNullElementRejected = true ∧ commaSep = ',' ∧ nsSep = '/' ∧ ifSep = '@' ∧
    labelRegex = "^[a-z0-9]([-a-z0-9]*[a-z0-9])?$" := by decide

/-- networks annotation, else ENI network, else default networks; the extended args go to every network. -/
theorem fact_selection_order :
    selectionOrder = ["annotation", "eni", "default"] ∧ extendedArgsGoToEveryNetwork = true := by decide

/-! ## network selection and interface names -/

/-- "exactly the plugins of the networks selected by the pod's networks annotation (else the configured ENI network
    for pods requesting an ENI IP, else the default networks)". -/
theorem selection_source (st : Static) (pod : Pod) :
    (pod.ann ≠ [] → chosen st pod = parseAnn pod) ∧
    (pod.ann = [] → pod.wantsEni = true → st.eniNetwork ≠ [] → chosen st pod = some [⟨st.eniNetwork, []⟩]) ∧
    (pod.ann = [] → (pod.wantsEni = false ∨ st.eniNetwork = []) →
      chosen st pod = some (st.defaultNetworks.map (fun n => ⟨n, []⟩))) := by
  refine ⟨?_, ?_, ?_⟩
  · intro h
    have : pod.ann.isEmpty = false := by cases hp : pod.ann <;> simp_all
    simp [chosen, this]
  · intro h1 h2 h3
    have : st.eniNetwork.isEmpty = false := by cases hp : st.eniNetwork <;> simp_all
    simp [chosen, h1, h2, this]
  · intro h1 h2
    rcases h2 with h2 | h2 <;> simp [chosen, h1, h2]

/-- "the first on the interface kubelet named and the i-th on the interface its annotation entry names or eth<i>";
    the j-th selected network is the j-th chosen element's network, in order, nothing more and nothing less. -/
theorem interface_names (st : Static) (pod : Pod) (ifn : Str) (els : List Elem) (sel : List NetInfo)
    (hch : chosen st pod = some els) (hsel : select st pod ifn = some sel) :
    sel.length = els.length ∧
    ∀ j e, els[j]? = some e → ∃ n, sel[j]? = some n ∧ n.name = e.name ∧ lookupConf st e.name = some n.conf ∧
      n.ifname = (if j = 0 then ifn else if e.iface ≠ [] then e.iface else ['e', 't', 'h'] ++ Nat.toDigits 10 j) := by
  unfold select at hsel
  rw [hch] at hsel
  cases hext : pod.ext with
  | none => simp [hext] at hsel
  | some ext =>
    simp only [hext] at hsel
    refine ⟨mkInfos_length _ _ _ _ _ _ hsel, ?_⟩
    intro j e he
    obtain ⟨n, h1, h2, h3, h4⟩ := mkInfos_get _ _ _ _ _ _ hsel j e he
    refine ⟨n, h1, h2, h3, ?_⟩
    rw [h4, Nat.zero_add, fact_interface_default_format]

/-! ## ADD -/

/-- "in that order on ADD": when every plugin succeeds the invocations are exactly `ADD sel[0] … ADD sel[N-1]` on the
    selected interfaces, the ADD succeeds and the state file holds the selection. -/
theorem add_order (st : Static) (hc : st.copy = getNetworkConfReturnsCopy) (s : State) (cid ifn a : Str) (pod : Pod)
    (o : Nat → Bool) (sel : List NetInfo) (hsel : select st pod ifn = some sel) (hne : sel ≠ [])
    (hok : ∀ j, j < sel.length → o j = true) :
    (step st s ⟨.add, cid, ifn, a, some pod⟩ o).ok = true ∧
    (step st s ⟨.add, cid, ifn, a, some pod⟩ o).invs.map Inv.tgt = sel.map (addTgt cid) ∧
    (step st s ⟨.add, cid, ifn, a, some pod⟩ o).state.files.get cid = some sel := by
  have hcopy : st.copy = true := by rw [hc]; exact fact_getNetworkConfReturnsCopy
  have h := cmdAddSel_ok st s cid a sel o hne hok
  rw [snapshot_copy st hcopy s.shared sel (select_prev _ _ _ _ hsel)] at h
  simp only [step, cmdAdd, hsel]
  exact ⟨h.1, h.2.1, h.2.2.1⟩

/-- "If the i-th ADD fails, plugins i..0 receive DEL and the ADD fails": the invocations are
    `ADD sel[0] … ADD sel[m], DEL sel[m] … DEL sel[0]`, nothing else; the result is an error; and when the rollback
    DELs succeed the container's state entry is gone. -/
theorem add_rollback (st : Static) (s : State) (cid ifn a : Str) (pod : Pod)
    (o : Nat → Bool) (sel : List NetInfo) (hsel : select st pod ifn = some sel) (m : Nat) (hm : m < sel.length)
    (hok : ∀ j, j < m → o j = true) (hf : o m = false) :
    (step st s ⟨.add, cid, ifn, a, some pod⟩ o).ok = false ∧
    (step st s ⟨.add, cid, ifn, a, some pod⟩ o).invs.map Inv.tgt =
      (sel.take (m + 1)).map (addTgt cid) ++ (sel.take (m + 1)).reverse.map (delTgt cid) ∧
    ((∀ p, p ≤ m → o (m + 1 + p) = true) →
      (step st s ⟨.add, cid, ifn, a, some pod⟩ o).state.files.get cid = none) := by
  have h := cmdAddSel_fail st s cid a sel o m hm hok hf
  simp only [step, cmdAdd, hsel]
  refine ⟨h.1, h.2.1, ?_⟩
  intro hdel
  rw [h.2.2]
  have : pick (fun p => !o (m + 1 + (m - p))) 0 (snapshot st s.shared (sel.take (m + 1))) = [] := by
    apply pick_none
    intro j _ _
    simp [hdel (m - j) (by omega)]
  simp [this]

/-- rollback DELs that fail are kept for the next DEL: after a failed ADD the state entry holds exactly the
    rolled-back networks whose DEL failed, in original order (none ⇒ entry gone). -/
theorem add_rollback_failed_dels (st : Static) (hc : st.copy = getNetworkConfReturnsCopy) (s : State) (cid ifn a : Str)
    (pod : Pod) (o : Nat → Bool) (sel : List NetInfo) (hsel : select st pod ifn = some sel) (m : Nat)
    (hm : m < sel.length) (hok : ∀ j, j < m → o j = true) (hf : o m = false) :
    (step st s ⟨.add, cid, ifn, a, some pod⟩ o).state.files.get cid =
      (if (pick (fun p => !o (m + 1 + (m - p))) 0 (sel.take (m + 1))).isEmpty then none
       else some (pick (fun p => !o (m + 1 + (m - p))) 0 (sel.take (m + 1)))) := by
  have hcopy : st.copy = true := by rw [hc]; exact fact_getNetworkConfReturnsCopy
  have h := cmdAddSel_fail st s cid a sel o m hm hok hf
  have hp : ∀ n ∈ sel.take (m + 1), n.prev = none :=
    fun n hn => select_prev _ _ _ _ hsel n (List.mem_of_mem_take hn)
  rw [snapshot_copy st hcopy s.shared _ hp] at h
  simp only [step, cmdAdd, hsel]
  exact h.2.2

/-- an ADD whose network selection fails (unknown network, malformed annotation or args, pod not found, empty
    selection) invokes nothing and leaves the state untouched. -/
theorem add_unresolvable (st : Static) (s : State) (cid ifn a : Str) (pod : Option Pod) (o : Nat → Bool)
    (h : pod = none ∨ (∃ p, pod = some p ∧ (select st p ifn = none ∨ select st p ifn = some []))) :
    step st s ⟨.add, cid, ifn, a, pod⟩ o = ⟨s, [], false⟩ := by
  rcases h with h | ⟨p, h, h' | h'⟩
  · subst h; rfl
  · subst h; simp [step, cmdAdd, h']
  · subst h; simp [step, cmdAdd, h', cmdAddSel_nil]

/-! ## DEL -/

/-- "in reverse on DEL": a DEL invokes exactly the saved networks, last first. -/
theorem del_reverse (st : Static) (s : State) (cid ifn a : Str) (pod : Option Pod) (o : Nat → Bool) (L : List NetInfo)
    (h : s.files.get cid = some L) :
    (step st s ⟨.del, cid, ifn, a, pod⟩ o).invs.map Inv.tgt = L.reverse.map (delTgt cid) := by
  simp only [step]
  rw [cmdDel_tgt _ _ _ _ _ _ _ h]; rfl

/-- "a DEL retries exactly the plugins whose DEL failed before": after a DEL in which exactly the networks at the
    positions `F = {p | the DEL of L[p] failed}` failed (the DEL of `L[p]` is invocation `|L|−1−p`), the DEL reports
    an error iff `F ≠ ∅`, the saved list is `L` restricted to `F` in original order, and the next DEL — whatever its
    outcomes — invokes exactly those, reversed. -/
theorem del_retry_exact (st : Static) (s : State) (cid ifn a ifn' a' : Str) (pod pod' : Option Pod) (o o' : Nat → Bool)
    (L : List NetInfo) (h : s.files.get cid = some L) :
    (step st s ⟨.del, cid, ifn, a, pod⟩ o).ok = (pick (fun p => !o (L.length - 1 - p)) 0 L).isEmpty ∧
    (step st s ⟨.del, cid, ifn, a, pod⟩ o).state.files.get cid =
      (if (pick (fun p => !o (L.length - 1 - p)) 0 L).isEmpty then none
       else some (pick (fun p => !o (L.length - 1 - p)) 0 L)) ∧
    (step st (step st s ⟨.del, cid, ifn, a, pod⟩ o).state ⟨.del, cid, ifn', a', pod'⟩ o').invs.map Inv.tgt =
      (pick (fun p => !o (L.length - 1 - p)) 0 L).reverse.map (delTgt cid) := by
  have hf := cmdDel_files_self s cid a none o 0 L h
  have hk := cmdDel_ok s cid a none o 0 L h
  simp only [upto, Nat.zero_add] at hf hk
  refine ⟨by simpa [step] using hk, by simpa [step] using hf, ?_⟩
  by_cases he : (pick (fun p => !o (L.length - 1 - p)) 0 L).isEmpty = true
  · have hnil : pick (fun p => !o (L.length - 1 - p)) 0 L = [] := by simpa using he
    simp only [he, if_true] at hf
    have : (step st s ⟨.del, cid, ifn, a, pod⟩ o).state.files.get cid = none := by simpa [step] using hf
    simp only [step] at this ⊢
    rw [cmdDel_none _ _ _ _ _ _ this, hnil]; rfl
  · simp only [he] at hf
    have : (step st s ⟨.del, cid, ifn, a, pod⟩ o).state.files.get cid = some (pick (fun p => !o (L.length - 1 - p)) 0 L) := by
      simpa [step] using hf
    exact del_reverse st _ cid ifn' a' pod' o' _ this

/-- "a repeated DEL succeeds without invoking anything" — (a) no state entry: nothing is invoked, success, state
    unchanged. -/
theorem del_idempotent_no_state (st : Static) (s : State) (cid ifn a : Str) (pod : Option Pod) (o : Nat → Bool)
    (h : s.files.get cid = none) : step st s ⟨.del, cid, ifn, a, pod⟩ o = ⟨s, [], true⟩ := by
  simp only [step]; exact cmdDel_none _ _ _ _ _ _ h

/-- "a repeated DEL succeeds without invoking anything" — (b) after a DEL in which every plugin succeeded the entry is
    gone, so any further DEL (any outcomes) invokes nothing and succeeds. -/
theorem del_idempotent (st : Static) (s : State) (cid ifn a ifn' a' : Str) (pod pod' : Option Pod) (o o' : Nat → Bool)
    (L : List NetInfo) (h : s.files.get cid = some L) (hok : ∀ j, j < L.length → o j = true) :
    (step st s ⟨.del, cid, ifn, a, pod⟩ o).ok = true ∧
    (step st s ⟨.del, cid, ifn, a, pod⟩ o).state.files.get cid = none ∧
    (step st (step st s ⟨.del, cid, ifn, a, pod⟩ o).state ⟨.del, cid, ifn', a', pod'⟩ o').invs = [] ∧
    (step st (step st s ⟨.del, cid, ifn, a, pod⟩ o).state ⟨.del, cid, ifn', a', pod'⟩ o').ok = true := by
  have hnil : pick (fun p => !o (L.length - 1 - p)) 0 L = [] := by
    apply pick_none
    intro j _ hj
    simp [hok (L.length - 1 - j) (by omega)]
  obtain ⟨h1, h2, _⟩ := del_retry_exact st s cid ifn a ifn' a' pod pod' o o' L h
  rw [hnil] at h1 h2
  have h2' : (step st s ⟨.del, cid, ifn, a, pod⟩ o).state.files.get cid = none := by simpa using h2
  refine ⟨by simpa using h1, h2', ?_, ?_⟩
  · rw [del_idempotent_no_state st _ cid ifn' a' pod' o' h2']
  · rw [del_idempotent_no_state st _ cid ifn' a' pod' o' h2']

/-! ## isolation -/

/-- "What a plugin receives for a container depends only on that pod and the static configuration, never on earlier
    … requests": two states that agree on container `r.cid`'s own entry produce the same invocation records (every
    field: command, plugin, stdin, interface, args, prevResult), the same result and the same new entry. -/
theorem isolation (st : Static) (hc : st.copy = getNetworkConfReturnsCopy) (s₁ s₂ : State) (r : Req) (o : Nat → Bool)
    (h : s₁.files.get r.cid = s₂.files.get r.cid) :
    (step st s₁ r o).invs = (step st s₂ r o).invs ∧ (step st s₁ r o).ok = (step st s₂ r o).ok ∧
    (step st s₁ r o).state.files.get r.cid = (step st s₂ r o).state.files.get r.cid := by
  have hcopy : st.copy = true := by rw [hc]; exact fact_getNetworkConfReturnsCopy
  exact step_congr st hcopy s₁ s₂ r o h

/-- a request touches no other container's state entry. -/
theorem isolation_frame (st : Static) (s : State) (r : Req) (o : Nat → Bool) (c : Str) (hne : r.cid ≠ c) :
    (step st s r o).state.files.get c = s.files.get c :=
  step_frame st s r o c hne

/-- "… never on … concurrent requests" at request granularity: requests for different containers commute — both
    orders give each request the same invocation records and result, and end in the same state files. -/
theorem isolation_commute (st : Static) (hc : st.copy = getNetworkConfReturnsCopy) (s : State) (r₁ r₂ : Req)
    (o₁ o₂ : Nat → Bool) (hne : r₁.cid ≠ r₂.cid) :
    (step st s r₁ o₁).invs = (step st (step st s r₂ o₂).state r₁ o₁).invs ∧
    (step st s r₂ o₂).invs = (step st (step st s r₁ o₁).state r₂ o₂).invs ∧
    (step st s r₁ o₁).ok = (step st (step st s r₂ o₂).state r₁ o₁).ok ∧
    (step st s r₂ o₂).ok = (step st (step st s r₁ o₁).state r₂ o₂).ok ∧
    ∀ c, (step st (step st s r₁ o₁).state r₂ o₂).state.files.get c =
         (step st (step st s r₂ o₂).state r₁ o₁).state.files.get c := by
  have hcopy : st.copy = true := by rw [hc]; exact fact_getNetworkConfReturnsCopy
  have f1 : s.files.get r₁.cid = (step st s r₂ o₂).state.files.get r₁.cid :=
    (step_frame st s r₂ o₂ r₁.cid (Ne.symm hne)).symm
  have f2 : s.files.get r₂.cid = (step st s r₁ o₁).state.files.get r₂.cid :=
    (step_frame st s r₁ o₁ r₂.cid hne).symm
  obtain ⟨a1, a2, a3⟩ := step_congr st hcopy _ _ r₁ o₁ f1
  obtain ⟨b1, b2, b3⟩ := step_congr st hcopy _ _ r₂ o₂ f2
  refine ⟨a1, b1, a2, b2, ?_⟩
  intro c
  by_cases h1 : r₁.cid = c
  · subst h1
    rw [step_frame st _ r₂ o₂ r₁.cid (Ne.symm hne), a3]
  · by_cases h2 : r₂.cid = c
    · subst h2
      rw [step_frame st _ r₁ o₁ r₂.cid hne, b3]
    · rw [step_frame st _ r₂ o₂ c h2, step_frame st _ r₁ o₁ c h1, step_frame st _ r₁ o₁ c h1,
        step_frame st _ r₂ o₂ c h2]

/-- "every sequence of ADD/DEL requests for several containers": in any request sequence the invocation records of
    container `c`'s requests are those of the sequence with all other containers' requests removed. -/
theorem isolation_sequences (st : Static) (hc : st.copy = getNetworkConfReturnsCopy) (c : Str) (s : State)
    (rs : List (Req × (Nat → Bool))) :
    traceFor st c s rs = trace st s (rs.filter (fun x => x.1.cid = c)) := by
  have hcopy : st.copy = true := by rw [hc]; exact fact_getNetworkConfReturnsCopy
  exact traceFor_filter st hcopy c rs s s rfl

/-- two histories (any other containers' requests before and in between, any start states agreeing on `c`) in which
    container `c` issues the same requests give `c` the same invocation records. -/
theorem isolation_contexts (st : Static) (hc : st.copy = getNetworkConfReturnsCopy) (c : Str) (s₁ s₂ : State)
    (rs₁ rs₂ : List (Req × (Nat → Bool))) (hs : s₁.files.get c = s₂.files.get c)
    (hrs : rs₁.filter (fun x => x.1.cid = c) = rs₂.filter (fun x => x.1.cid = c)) :
    traceFor st c s₁ rs₁ = traceFor st c s₂ rs₂ := by
  have hcopy : st.copy = true := by rw [hc]; exact fact_getNetworkConfReturnsCopy
  rw [traceFor_filter st hcopy c rs₁ s₁ s₂ hs, traceFor_filter st hcopy c rs₂ s₂ s₂ rfl, hrs]

/-- prevResult chaining stays inside the container: from the initial state, after any request sequence, every
    `prevResult` a plugin receives for container `r.cid` was produced by an ADD of that same container. -/
theorem no_foreign_prev_result (st : Static) (hc : st.copy = getNetworkConfReturnsCopy)
    (rs : List (Req × (Nat → Bool))) (r : Req) (o : Nat → Bool) :
    ∀ i ∈ (step st (run st State.init rs) r o).invs, ∀ p, i.prev = some p → p.cid = r.cid := by
  have hcopy : st.copy = true := by rw [hc]; exact fact_getNetworkConfReturnsCopy
  exact step_ownPrev st hcopy _ (run_clean st hcopy rs _ cleanFiles_init) r o

/-- on a fully successful ADD the first plugin gets no prevResult and the i-th gets the result of the (i−1)-th. -/
theorem prev_result_chain (st : Static) (hc : st.copy = getNetworkConfReturnsCopy) (s : State) (cid ifn a : Str)
    (pod : Pod) (o : Nat → Bool) (sel : List NetInfo) (hsel : select st pod ifn = some sel) (hne : sel ≠ [])
    (hok : ∀ j, j < sel.length → o j = true) :
    (step st s ⟨.add, cid, ifn, a, some pod⟩ o).invs.map Inv.prev = prevChain cid none sel := by
  have hcopy : st.copy = true := by rw [hc]; exact fact_getNetworkConfReturnsCopy
  have h := cmdAddSel_ok st s cid a sel o hne hok
  rw [snapshot_copy st hcopy s.shared sel (select_prev _ _ _ _ hsel)] at h
  simp only [step, cmdAdd, hsel]
  exact h.2.2.2

/-! ## arguments -/

/-- one accumulation step `args := TrimRight(args + ";" + BuildCNIArgs(m), ";")`, parsed with last-wins, is the
    previous map overlaid by `m` — for every iteration order of `m` (the entry list is arbitrary). -/
theorem args_last_wins_step (a : Str) (m : Args) (h : WFArgs m) (k : Str) :
    (parseArgs (accumAdd a m)).get k = overlay (parseArgs a) m k ∧
    (parseArgs (accumDel a m)).get k = overlay (parseArgs a) m k :=
  ⟨parse_accumAdd a m h k, parse_accumDel a m h k⟩

/-- "the accumulated `k=v;…` string parses to the intended map": every plugin invocation of an ADD request
    (including the rollback DELs) receives an argument string that parses to kubelet's arguments overlaid by the
    pod's extended arguments, however often the entries were appended. -/
theorem args_last_wins (st : Static) (s : State) (cid ifn a : Str) (pod : Pod) (o : Nat → Bool) (ext : Args)
    (hext : pod.ext = some ext) (hwf : WFArgs ext) :
    ∀ i ∈ (step st s ⟨.add, cid, ifn, a, some pod⟩ o).invs, ∀ k,
      (parseArgs i.args).get k = overlay (parseArgs a) ext k := by
  simp only [step, cmdAdd]
  cases hsel : select st pod ifn with
  | none => intro i hi; simp at hi
  | some sel =>
    simp only
    have hargs := select_args st pod ifn sel ext hsel hext
    let P : Str → Prop := fun x => ∀ k, (parseArgs x).get k = overlay (parseArgs a) ext k
    let I : Str → Prop := fun x => x = a ∨ P x
    have hadd : ∀ x n, n ∈ sel → I x → P (accumAdd x n.args) := by
      intro x n hn hi k
      rw [hargs n hn, parse_accumAdd x ext hwf k]
      rcases hi with hi | hi
      · rw [hi]
      · exact overlay_idem _ _ _ _ hi
    have hdel : ∀ x n, n ∈ sel → I x → P (accumDel x n.args) := by
      intro x n hn hi k
      rw [hargs n hn, parse_accumDel x ext hwf k]
      rcases hi with hi | hi
      · rw [hi]
      · exact overlay_idem _ _ _ _ hi
    exact cmdAddSel_args st s cid a sel o I P (fun _ h => Or.inr h) (Or.inl rfl) hadd hdel

/-- the same for a DEL request whose saved infos carry the extended arguments `ext`. -/
theorem args_last_wins_del (st : Static) (s : State) (cid ifn a : Str) (pod : Option Pod) (o : Nat → Bool) (ext : Args)
    (L : List NetInfo) (h : s.files.get cid = some L) (hL : ∀ n ∈ L, n.args = ext) (hwf : WFArgs ext) :
    ∀ i ∈ (step st s ⟨.del, cid, ifn, a, pod⟩ o).invs, ∀ k,
      (parseArgs i.args).get k = overlay (parseArgs a) ext k := by
  simp only [step]
  let P : Str → Prop := fun x => ∀ k, (parseArgs x).get k = overlay (parseArgs a) ext k
  let I : Str → Prop := fun x => x = a ∨ P x
  have hdel : ∀ x n, n ∈ L → I x → P (accumDel x n.args) := by
    intro x n hn hi k
    rw [hL n hn, parse_accumDel x ext hwf k]
    rcases hi with hi | hi
    · rw [hi]
    · exact overlay_idem _ _ _ _ hi
  exact cmdDel_args I P (fun _ h => Or.inr h) s cid a none o 0 L h (Or.inl rfl) hdel

/-! ## the pre-fix code (defect D5) and non-vacuity -/

section Witness

private def cx : Conf := ⟨"gxp-a".toList, "dx".toList⟩
private def cy : Conf := ⟨"gxp-b".toList, "dy".toList⟩

/-- two configured networks `x`, `y`; default network `y` -/
private def stOf (copy : Bool) : Static :=
  { netConf := [("x".toList, cx), ("y".toList, cy)], dirConf := [], defaultNetworks := ["y".toList],
    eniNetwork := [], copy := copy }

/-- pod A asks for `x,y@net1`, pod B has no annotation (→ default network `y`) -/
private def podA : Pod := ⟨"x, ns/y@net1".toList, none, false, some [("ipinfos".toList, "[1]".toList)]⟩
private def podB : Pod := ⟨[], none, false, some []⟩
private def reqA : Req := ⟨.add, "A".toList, "eth0".toList, "K8S_POD_NAME=a".toList, some podA⟩
private def reqB : Req := ⟨.add, "B".toList, "eth0".toList, "K8S_POD_NAME=b".toList, some podB⟩
private def allOk : Nat → Bool := fun _ => true

/-- **D5, pre-fix code** (`getNetworkConfReturnsCopy = false`): `isolation` is false.  After container A's ADD of
    `x,y` the configured map of `y` holds A's result of `x` as `prevResult`; container B's first (and only) plugin
    then receives it, although B's own state entry is the same (absent) in both states. -/
theorem isolation_prefix_counter :
    ∃ (st : Static) (s₁ s₂ : State) (r : Req) (o : Nat → Bool), st.copy = false ∧
      s₁.files.get r.cid = s₂.files.get r.cid ∧ (step st s₁ r o).invs ≠ (step st s₂ r o).invs ∧
      (step st s₁ r o).invs.map Inv.prev = [some ⟨"A".toList, "dx".toList, "eth0".toList⟩] :=
  ⟨stOf false, (step (stOf false) State.init reqA allOk).state, State.init, reqB, allOk, by decide⟩

/-- the same history on the current code: B's plugin receives no prevResult. -/
example : (step (stOf true) (step (stOf true) State.init reqA allOk).state reqB allOk).invs.map Inv.prev = [none] := by
  decide

/-- non-vacuity of `add_order` / `interface_names`: the comma form with namespace and interface parses, both
    networks resolve, interfaces are kubelet's and the annotation's. -/
example : (select (stOf true) podA "eth0".toList).map (fun l => l.map (fun n => (n.name, n.ifname))) =
    some [("x".toList, "eth0".toList), ("y".toList, "net1".toList)] := by decide

/-- non-vacuity of the `eth<i>` default and of the JSON form. -/
example : (select (stOf true) ⟨"[{\"name\":\"y\"},{\"name\":\"x\"}]".toList,
      some [⟨"y".toList, []⟩, ⟨"x".toList, []⟩], false, some []⟩ "eth0".toList).map
      (fun l => l.map (fun n => (n.name, n.ifname))) =
    some [("y".toList, "eth0".toList), ("x".toList, "eth1".toList)] := by decide

/-- non-vacuity of `add_rollback`: second plugin fails, its DEL fails too → invocations ADD x, ADD y, DEL y, DEL x;
    the entry keeps `y` only. -/
example : let o : Nat → Bool := fun k => k != 1 && k != 2
    let out := step (stOf true) State.init reqA o
    out.ok = false ∧ out.invs.map (fun i => (i.cmd, i.digest)) =
      [(.add, "dx".toList), (.add, "dy".toList), (.del, "dy".toList), (.del, "dx".toList)] ∧
    (out.state.files.get "A".toList).map (fun l => l.map NetInfo.name) = some ["y".toList] := by decide

/-- non-vacuity of `del_retry_exact`: DEL where only the DEL of `x` (position 0, invocation 1) fails, then a retry. -/
example : let s := (step (stOf true) State.init reqA allOk).state
    let d : Req := ⟨.del, "A".toList, "eth0".toList, [], none⟩
    let out := step (stOf true) s d (fun k => k != 1)
    out.ok = false ∧ out.invs.map (fun i => i.digest) = ["dy".toList, "dx".toList] ∧
    (step (stOf true) out.state d allOk).invs.map (fun i => i.digest) = ["dx".toList] ∧
    (step (stOf true) (step (stOf true) out.state d allOk).state d allOk).invs = [] := by decide

/-- non-vacuity of `WFArgs` / `args_last_wins`: an `ipinfos` entry is well-formed and, appended twice, still parses
    to one binding next to kubelet's own. -/
example : WFArgs [("ipinfos".toList, "[{\"ip\":\"10.0.0.3/24\",\"vlan\":0}]".toList)] := by
  intro p hp
  simp at hp
  subst hp
  decide

example : let out := step (stOf true) State.init reqA allOk
    out.invs.map (fun i => ((parseArgs i.args).get "ipinfos".toList, (parseArgs i.args).get "K8S_POD_NAME".toList)) =
      [(some "[1]".toList, some "a".toList), (some "[1]".toList, some "a".toList)] := by decide

end Witness

end Galaxy.Props.C12
