/-
  C09 — reserved and de-configured IPs are never allocated; reload is lossless (IPAM level, model M3).

  "An IP that an administrator reserved with a labelled FloatingIP object, or that is absent from the current
   floatingip configuration, is never handed to a pod.  Reloading the configuration at run time keeps every allocation
   whose IP is still configured, including allocations made while the reload is in progress, and drops exactly the
   others."

  Allocation moves = `allocSpecific`, `allocSubnet`, `allocRanges` (`Op.isAlloc`).  The pod-annotation half ("no pod
  annotation ever contains a reserved IP") belongs to model M4.
-/
import Galaxy.Lemmas.IpamC08

namespace Galaxy.Props.C09
open Galaxy Galaxy.Ipam

/-- tie to the code: `ConfigurePool` takes `cacheLock` before it lists the store and `AllocateSpecificIP` holds the
    write lock from lookup to cache update (regenerated from /repo on every run) -/
theorem fact_reload_atomic :
    Generated.Ipam.configurePoolListsUnderLock = true ∧ Generated.Ipam.allocateSpecificAtomic = true ∧
    Generated.Ipam.holdsCacheLock.lookup "ConfigurePool" = some "Lock" ∧
    Generated.Ipam.holdsCacheLock.lookup "handleFIPAssign" = some "Lock" ∧
    Generated.Ipam.handlersMakeNoStoreCall = true := by decide

/-- tie to the code: `createFloatingIP` returns the error of the store's Create call unconditionally — an existing
    object (a reservation with or without `spec.key`, a leftover) is never fetched, compared or taken over.  This is the
    shape `sCreate` models ("create of an existing name fails, no effect"), on which `reserved_never_allocated` rests. -/
theorem fact_create_conflict_is_final : Generated.Ipam.createReturnsCreateError = true := by decide

/-- tie to the code: what `ConfigurePool` takes for "the stored objects" (`listFloatingIPs`) is a LIST against the API
    server, not an informer cache (which lags galaxy-ipam's own writes) — `configurePool` reads `s.store`. -/
theorem fact_reload_lists_store :
    Generated.Ipam.reloadListsApiserver = true ∧ Generated.Ipam.reloadListIsConsistentRead = true := by decide

/-- "An IP that an administrator reserved with a labelled FloatingIP object … is never handed to a pod": in ANY state,
    an address with a stored object — labelled or not, its watch event delivered or not — is returned by no
    allocation move, whatever the choice and the plan.  (Before delivery the store create conflicts; after delivery
    the address is not free — both are consequences of: a returned address was free AND its create succeeded.) -/
theorem reserved_never_allocated (s : State) (op : Op) (hal : op.isAlloc = true) (hadm : op.admissible s = true)
    (hok : (op.run s).2.err = none) (ip : IP) (r : Rec) (hst : s.store.get ip = some r) : ip ∉ (op.run s).2.ips := by
  intro hin
  have := (alloc_returns_free_unstored op hal hadm hok ip hin).1
  rw [hst] at this
  cases this

/-- … and a FAILED allocation move (not enough addresses, a store conflict with the reservation itself, an injected fault
    anywhere incl. the rollback) never deletes or changes a store object which existed before — in particular not the
    reservation its create collided with, so the scheduler's retry of the same request meets it again. -/
theorem failed_allocation_keeps_stored_objects (s : State) (op : Op) (hal : op.isAlloc = true) (e : Err)
    (he : (op.run s).2.err = some e) (hec : e ≠ .crashed) (ip : IP) (r : Rec) (hst : s.store.get ip = some r) :
    (op.run s).1.store.get ip = some r :=
  alloc_failure_keeps_store op hal he hec ip r hst

/-- the memory-side reason after delivery: once `handleFIPAssign` accepted the event the address is allocated to the
    reservation's key with the `reserved` label and no longer free -/
theorem reserved_after_delivery_not_free (s : State) (hm : MemOK s) (e : Event) (hok : (fipAssignEvent s e).2.err = none) :
    e.ip ∉ (fipAssignEvent s e).1.free ∧
      ∃ r, (fipAssignEvent s e).1.alloc.get e.ip = some r ∧ r.reserved = true ∧ r.key = e.key := by
  have hm' := memOK_fipAssignEvent hm e
  unfold fipAssignEvent at hok hm' ⊢
  cases hal : s.alloc.get e.ip with
  | some r => rw [hal] at hok; simp [Out.fail] at hok
  | none =>
    rw [hal] at hok hm'
    simp only at hok hm' ⊢
    by_cases hin : e.ip ∈ s.free
    · rw [if_pos hin] at hm' ⊢
      have hg : (memAlloc s e.ip { key := e.key, policy := e.policy, node := "", uid := "", reserved := true, ts := s.clock }).alloc.get e.ip
          = some { key := e.key, policy := e.policy, node := "", uid := "", reserved := true, ts := s.clock } := by
        simp [memAlloc]
      refine ⟨?_, _, hg, rfl, rfl⟩
      intro hf
      have := ((hm'.free_iff e.ip).mp hf).2
      rw [hg] at this
      cases this
    · rw [if_neg hin] at hok; simp [Out.fail] at hok

/-- "… or that is absent from the current floatingip configuration, is never handed to a pod": in every state
    reachable by admissible moves (NO side condition: faults, crashes, stale events, reloads all included) the free
    table is exactly configured \ allocated and nothing outside the configuration is allocated … -/
theorem unconfigured_never_allocated (s : State) (h : ReachAny s) : MemOK s := memOK_reachAny h

/-- … hence every address an allocation move returns is configured -/
theorem allocated_is_configured (s : State) (h : ReachAny s) (op : Op) (hal : op.isAlloc = true)
    (hadm : op.admissible s = true) (hok : (op.run s).2.err = none) :
    ∀ ip ∈ (op.run s).2.ips, configured s.pools ip = true := by
  intro ip hin
  have hf := (alloc_returns_free_unstored op hal hadm hok ip hin).2
  exact (((memOK_reachAny h).free_iff ip).mp hf).1

/-- "Reloading the configuration at run time keeps every allocation whose IP is still configured … and drops exactly the
    others": after a successful `ConfigurePool` (ANY previous memory, any fault on the deletes) the allocation table is
    exactly the stored records whose address the new configuration contains, the free table is the rest of the
    configuration, and the kept objects are untouched in the store. -/
theorem reload_lossless (s : State) (pools : List Pool) (order : List IP) (pl : Plan)
    (hadm : admissibleDeletes pools s.store order = true) (hok : (configurePool s pools order pl).2.err = none) :
    (∀ ip, (configurePool s pools order pl).1.alloc.get ip = if configured pools ip = true then s.store.get ip else none) ∧
    (∀ ip, ip ∈ (configurePool s pools order pl).1.free ↔ (configured pools ip = true ∧ s.store.get ip = none)) ∧
    (∀ ip, configured pools ip = true → (configurePool s pools order pl).1.store.get ip = s.store.get ip) ∧
    (∀ ip, configured (configurePool s pools order pl).1.pools ip = configured pools ip) := by
  have h := configurePool_ok hadm hok
  exact ⟨h.alloc, h.free, h.kept, h.conf⟩

/-- "… and drops exactly the others": when no delete fails, every object outside the new configuration is gone from
    the store as well (a failing delete is logged and ignored by the code: the object then stays, outside memory and
    outside the configuration, and the next reload tries again) -/
theorem reload_drops_others (s : State) (pools : List Pool) (order : List IP) (pl : Plan)
    (hadm : admissibleDeletes pools s.store order = true) (hf : pl.fails = [])
    (hok : (configurePool s pools order pl).2.err = none) :
    ∀ ip, configured pools ip = false → (configurePool s pools order pl).1.store.get ip = none ∧
      (configurePool s pools order pl).1.alloc.get ip = none := by
  intro ip hc
  refine ⟨configurePool_dropped hadm hf hok ip hc, ?_⟩
  rw [(configurePool_ok hadm hok).alloc ip]
  simp [hc]

/-- "… including allocations made while the reload is in progress": with the list taken under `cacheLock` (the
    regenerated fact) the reload is ONE atomic action — whatever other operations `mid` are scheduled "between the
    list and the rebuild" cannot run there, the scheduled reload IS `configurePool`.  If the fact flips (lock taken
    after the list) this theorem no longer builds. -/
theorem reload_atomic (s : State) (pools : List Pool) (order : List IP) (mid : State → State) (pl : Plan) :
    configurePoolSched Generated.Ipam.configurePoolListsUnderLock s pools order mid pl = configurePool s pools order pl := by
  simp only [configurePoolSched, fact_listUnderLock, if_true]

/-- likewise `AllocateSpecificIP` is one atomic action (a reload cannot remove the address between lookup and create) -/
theorem allocateSpecific_atomic (s : State) (key : String) (ip : IP) (a : Attr) (mid : State → State) (pl : Plan) :
    allocateSpecificSched Generated.Ipam.allocateSpecificAtomic s key ip a mid pl = allocateSpecific s key ip a pl := by
  simp only [allocateSpecificSched, fact_specificAtomic, if_true]

/-! ### non-vacuity, and what the lock is for -/

def pool1 : Pool :=
  { nodeSubnets := [{ str := "10.0.1.0/24", base := 167772416, bits := 24 }], ranges := [{ first := 2, last := 5 }, { first := 9, last := 9 }],
    bits := 24, gateway := 1, vlan := 2 }
def pool2 : Pool := { pool1 with ranges := [{ first := 3, last := 4 }] }
def attr1 : Attr := { node := "n1", uid := "u1", policy := 1 }
def s0 : State :=
  run init [.configure [pool1] [] {}, .allocSubnet "pod-a" "10.0.1.0/24" attr1 (some 3) {},
            .allocSubnet "pod-b" "10.0.1.0/24" attr1 (some 9) {}, .adminReserve 4 "pool__reserved-for-node_" 0]

/-- `reserved_never_allocated` is not vacuous: the reservation of 4 is in the store, its event is still pending, memory
    says 4 is free — and the allocation aimed at 4 fails with AlreadyExists -/
example : ReachAny s0 ∧ 4 ∈ s0.free ∧ (s0.store.get 4).isSome = true ∧
    ((Op.allocSpecific "pod-c" 4 attr1 {}).run s0).2.err = some .exists_ := by
  refine ⟨?_, by decide, by decide, by decide⟩
  unfold s0
  simp only [run, List.foldl]
  refine ReachAny.step _ (ReachAny.step _ (ReachAny.step _ (ReachAny.step _ ReachAny.init ?_) ?_) ?_) ?_ <;> decide

def sNoKey : State := (step (run init [.configure [pool1] [] {}]) (.adminReserve 4 "" 0)).1

/-- a reservation WITHOUT `spec.key` (only the label is required), and one whose key equals the requesting pod's key, are
    covered like any other stored object: the allocation aimed at the address fails with AlreadyExists -/
example : 4 ∈ sNoKey.free ∧ (sNoKey.store.get 4).isSome = true ∧
    ((Op.allocSpecific "" 4 attr1 {}).run sNoKey).2.err = some .exists_ ∧
    ((Op.allocRanges "pod-c" "10.0.1.0/24" [[{ first := 4, last := 4 }]] attr1 none {}).run sNoKey).2.err = some .exists_ ∧
    ((Op.allocSpecific "pod-c" 4 attr1 {}).run (step (run init [.configure [pool1] [] {}]) (.adminReserve 4 "pod-c" 0)).1).2.err
      = some .exists_ := by decide

/-- `reload_lossless` is not vacuous: shrinking the configuration to 3..4 keeps pod-a's 3 and the reservation of 4,
    drops pod-b's 9 from memory and store -/
example : admissibleDeletes [pool2] s0.store [9] = true ∧ (configurePool s0 [pool2] [9] {}).2.err = none ∧
    ((configurePool s0 [pool2] [9] {}).1.alloc.get 3).isSome = true ∧ (configurePool s0 [pool2] [9] {}).1.store.get 9 = none := by
  decide

/-- COUNTER (the defect fixed by `fix: ConfigurePool lost allocations made while a reload was in progress`): with the
    list OUTSIDE the lock (`underLock = false`) an allocation scheduled between list and rebuild is persisted but
    missing from memory afterwards, and its address is free again -/
theorem reload_two_step_counter :
    let mid := fun s => (allocateInSubnet s "pod-c" "10.0.1.0/24" attr1 (some 5) {}).1
    let s1 := (configurePoolSched false s0 [pool1] [] mid {}).1
    (s1.store.get 5).isSome = true ∧ s1.alloc.get 5 = none ∧ 5 ∈ s1.free := by decide

end Galaxy.Props.C09
