/-
  C17 — GC removes only dead containers' state, and eventually all of it.

  "The garbage collector deletes an IP reservation file, a network/port state file or a port mapping only for a
   container that no longer exists or has exited, never for a running one and never when the container runtime
   cannot be asked; everything left behind by a dead container is removed within a bounded number of GC rounds."

  Model: Galaxy/Model/Gc.lean (executed by gxdrv_gc, compared with the real flannelGC by harness/cmd/c17).
  The state strings, the decision table and the collectors' shape are regenerated from /repo on every run.
-/
import Galaxy.Lemmas.Gc

namespace Galaxy.Props.C17
open Galaxy.Gc Galaxy.Generated.Gc

/-! ## pins on the regenerated source facts -/

/-- Source pin: the docker states that count as gone are exactly "exited" and "dead" (the translator sorts them). -/
theorem fact_states : exitedStates = ["dead", "exited"] := by decide

set_option maxRecDepth 8192 in
/-- Source pin: shouldCleanup answers `true` on exactly these five paths, each given as the SET of conditions under
    which the `return true` is reached in the normalised function (DOCKER / CRI = the inspect call, POD = the pod lookup,
    #0 / #1 = value / error result; local names, nesting vs guard clauses, De Morgan and the order of the branches do not
    matter): containerd — not-ready sandbox whose pod is gone; not-ready sandbox whose pod is there (vetoed inside the
    loop by a waiting or running container, `cleanupVetoes`); gRPC NotFound; docker — state exited / dead; not found.
    Every path reached after a failed call is under a not-found test and the function falls through to `return false`
    ("every non-not-found error path returns false"). -/
theorem fact_fail_safe :
    shouldCleanupFailsSafe = true ∧ stateTestGuardsNilState = true ∧ containerdEnv = "CONTAINERD_HOST" ∧
    cleanupTruePaths = [
      ["CRI#0 != nil",
       "CRI#0.State == criapi.PodSandboxState_SANDBOX_NOTREADY",
       "CRI#1 == nil",
       "POD#1 != nil",
       "apierrors.IsNotFound(POD#1)",
       "os.Getenv(\"CONTAINERD_HOST\") != \"\""],
      ["CRI#0 != nil",
       "CRI#0.State == criapi.PodSandboxState_SANDBOX_NOTREADY",
       "CRI#1 == nil",
       "POD#1 == nil",
       "os.Getenv(\"CONTAINERD_HOST\") != \"\""],
      ["CRI#1 != nil",
       "os.Getenv(\"CONTAINERD_HOST\") != \"\"",
       "status.FromError(CRI#1)#0.Code() == codes.NotFound",
       "status.FromError(CRI#1)#1"],
      ["DOCKER#0.State != nil",
       "DOCKER#1 == nil",
       "or(DOCKER#0.State.Status == ContainerDead | DOCKER#0.State.Status == ContainerExited)",
       "os.Getenv(\"CONTAINERD_HOST\") == \"\""],
      ["DOCKER#1 != nil",
       "DOCKER#1.(docker.ContainerNotFoundError)#1",
       "os.Getenv(\"CONTAINERD_HOST\") == \"\""]] ∧
    cleanupVetoes = [
      ["range POD#0.Status.ContainerStatuses",
       "CRI#0 != nil",
       "CRI#0.State == criapi.PodSandboxState_SANDBOX_NOTREADY",
       "CRI#1 == nil",
       "POD#1 == nil",
       "or(elem(POD#0.Status.ContainerStatuses).State.Running != nil | elem(POD#0.Status.ContainerStatuses).State.Waiting != nil)",
       "os.Getenv(\"CONTAINERD_HOST\") != \"\""]] := by
  decide

/-- Source pin: the shape of the two collectors (what they skip, how the container id is found, that the only
    removal is guarded by shouldCleanup, callback before an unconditional remove, and that no entry can end the
    round for the entries and directories after it: no return / break in the loops, no error result of shouldCleanup;
    and that a reservation file is read, its owner judged and the file removed in ONE iteration — no paths are collected first). -/
theorem fact_collectors :
    ipSweepSkipsDirsAndNonIPNames = true ∧ ipSweepSkipsUnreadableOrEmpty = true ∧ ipSweepCidIsFirstLineTrimmed = true ∧
    ipSweepRemovesOnlyIfShouldCleanup = true ∧ ipSweepSkipsMissingDir = true ∧ gcSweepSkipsDirs = true ∧
    gcSweepRemovesOnlyIfShouldCleanup = true ∧ stateFileRemovedAfterCallbackWhateverItsResult = true ∧
    ipFileRemovalIsOsRemove = true ∧ shouldCleanupReturnsOnlyBool = true ∧ sweepsNeverEndTheRoundEarly = true ∧
    ipSweepReadInspectRemoveSameIteration = true := by
  decide

/-! ## the decision -/

/-- "only for a container that no longer exists or has exited": shouldCleanup answers true only for docker not-found,
    docker state exited / dead, gRPC NotFound, sandbox not-ready with the pod gone, sandbox not-ready with no waiting
    or running container. -/
theorem cleanup_only_dead (o : InspectOutcome) (h : shouldCleanup o = true) : Dead o :=
  dead_of_shouldCleanup fact_states h

/-- "eventually all of it" needs the converse: every such outcome is answered true. -/
theorem cleanup_every_dead (o : InspectOutcome) (h : Dead o) : shouldCleanup o = true :=
  shouldCleanup_of_dead fact_states h

/-- "never when the container runtime cannot be asked": every error outcome other than not-found — docker error
    (5xx, connection refused, timeout), any other gRPC code or a non-gRPC error, pod lookup error — gives false. -/
theorem never_on_runtime_error (o : InspectOutcome) (h : RuntimeError o) : shouldCleanup o = false :=
  not_shouldCleanup_of_error h

/-- "never for a running one": a docker container in any state other than exited/dead (running, paused, restarting,
    created, …), a ready sandbox, a not-ready sandbox whose pod still has a waiting or running container. -/
theorem never_running (o : InspectOutcome) (h : Alive o) : shouldCleanup o = false :=
  not_shouldCleanup_of_alive fact_states h

/-- the three classes above plus "answer without a state object" cover every outcome; for the two stateless answers
    the collector keeps the files (fail-safe). -/
theorem outcomes_classified (o : InspectOutcome) :
    Dead o ∨ Alive o ∨ RuntimeError o ∨ ((o = .docker (.state none) ∨ o = .cri .nilStatus) ∧ shouldCleanup o = false) := by
  rcases classification o with h | h | h | h | h
  · exact Or.inl h
  · exact Or.inr (Or.inl h)
  · exact Or.inr (Or.inr (Or.inl h))
  · subst h; exact Or.inr (Or.inr (Or.inr ⟨Or.inl rfl, rfl⟩))
  · subst h; exact Or.inr (Or.inr (Or.inr ⟨Or.inr rfl, rfl⟩))

/-! ## one sweep -/

/-- "everything left behind by a dead container is removed within a bounded number of GC rounds", allocated-IP
    directories: ONE pass of cleanupIP over a directory (removals succeeding) removes every IP reservation file of a
    dead container and NO other entry — sub-directories, names that are not IP addresses, empty files, files of
    running / unknown containers and of containers the runtime could not be asked about all stay, in order; and a
    second pass under the same answers changes nothing (bound: 1 round).
    NOTE on the quantifier: `rt` is ANY runtime — it may answer `RuntimeError` for any number of OTHER entries of `d`,
    wherever they sort relative to the dead container's file; the statement has no hypothesis about them.  That the
    bound survives a partial, persistent runtime failure is spelled out in `dead_removed_despite_erroring_entries`.
    There is NO SIZE BOUND either: `d` is any list, however many entries of running containers precede the dead ones —
    a per-round budget of inspect calls that leaves later entries for "the next interval" falsifies this statement
    (the harness runs a dense node: several hundred running containers' files sorting first). -/
theorem one_round_removes_all_dead (rt : Runtime) (d : Dir) :
    (∀ e, e ∈ sweepIPDir rt d ↔ e ∈ d ∧ ¬ IsDeadIPFile rt e) ∧
    (sweepIPDir rt d).Sublist d ∧
    sweepIPDir rt (sweepIPDir rt d) = sweepIPDir rt d := by
  refine ⟨?_, List.filter_sublist, ?_⟩
  · intro e
    simp only [sweepIPDir, List.mem_filter, Bool.not_eq_true', ← removesIP_iff fact_states rt e]
    cases removesIP rt e <;> simp
  · simp [sweepIPDir, List.filter_filter]

/-- "never for a running one" across rounds: the collector's verdict is about the container's state in THIS round.
    Whatever rounds ran before under whatever runtime answers `rts` (the container may have been exited, dead or
    unknown to the runtime in all of them), and whatever the environment wrote since (`add`, e.g. the state of a
    container that was started again), a round under `rt` keeps every entry whose owner `rt` does not judge dead —
    a collector that remembers an earlier "dead" verdict falsifies this (the harness runs a third round on the same
    collector with the dead containers running again). -/
theorem later_round_judges_current_state (rts : List Runtime) (d add : Dir) (rt : Runtime) (e : Entry) (he : e ∈ add)
    (h : ¬ IsDeadIPFile rt e) : e ∈ sweepIPDir rt (rts.foldl (fun d r => sweepIPDir r d) d ++ add) :=
  ((one_round_removes_all_dead rt _).1 e).2 ⟨List.mem_append.2 (Or.inr he), h⟩

/-- the same for gc_dirs (network / port state files, file name = container id), with the port-clean callbacks:
    one pass removes exactly the dead containers' files, issues exactly one callback per removed file (with the file's
    name, in directory order) and none for anything that stays; a second pass removes nothing and calls nothing. -/
theorem one_round_removes_all_dead_state_files (rt : Runtime) (d : Dir) :
    (∀ e, e ∈ (sweepGCDir rt d).1 ↔ e ∈ d ∧ ¬ IsDeadStateFile rt e) ∧
    (sweepGCDir rt d).1.Sublist d ∧
    (∀ cid, cid ∈ (sweepGCDir rt d).2 ↔ ∃ e ∈ d, e.name = cid ∧ IsDeadStateFile rt e) ∧
    (sweepGCDir rt d).1.length + (sweepGCDir rt d).2.length = d.length ∧
    sweepGCDir rt (sweepGCDir rt d).1 = ((sweepGCDir rt d).1, []) := by
  refine ⟨?_, List.filter_sublist, ?_, ?_, ?_⟩
  · intro e
    simp only [sweepGCDir, List.mem_filter, Bool.not_eq_true', ← removesGC_iff fact_states rt e]
    cases removesGC rt e <;> simp
  · intro cid
    simp only [sweepGCDir, List.mem_map, List.mem_filter, ← removesGC_iff fact_states rt]
    constructor
    · rintro ⟨e, ⟨h1, h2⟩, h3⟩; exact ⟨e, h1, h3, h2⟩
    · rintro ⟨e, h1, h3, h2⟩; exact ⟨e, ⟨h1, h2⟩, h3⟩
  · simp only [sweepGCDir, List.length_map]
    induction d with
    | nil => rfl
    | cons a t ih =>
      simp only [List.filter_cons]
      cases removesGC rt a <;> simp <;> omega
  · have h1 : (d.filter (fun e => !removesGC rt e)).filter (fun e => !removesGC rt e) =
        d.filter (fun e => !removesGC rt e) := by simp [List.filter_filter]
    have h2 : (d.filter (fun e => !removesGC rt e)).filter (removesGC rt) = [] := by
      apply List.filter_eq_nil_iff.mpr
      intro a ha
      have := (List.mem_filter.mp ha).2
      simpa using this
    simp [sweepGCDir, h1, h2]

/-- "never when the container runtime cannot be asked", at the level of a whole round: during a runtime outage (every
    inspect call fails with something other than not-found) a round removes nothing and calls nothing. -/
theorem outage_keeps_everything (rt : Runtime) (hrt : ∀ cid, RuntimeError (rt cid)) (d : Dir) :
    sweepIPDir rt d = d ∧ sweepGCDir rt d = (d, []) := by
  have h1 : ∀ e, removesIP rt e = false := by
    intro e; unfold removesIP
    cases e.kind with
    | dir => rfl
    | file c => simp [not_shouldCleanup_of_error (hrt (cidOfContent c))]
  have h2 : ∀ e, removesGC rt e = false := by
    intro e; unfold removesGC
    cases e.kind with
    | dir => rfl
    | file c => exact not_shouldCleanup_of_error (hrt e.name)
  simp [sweepIPDir, sweepGCDir, h1, h2]

/-- the bound for the whole configuration: after ONE round over the directory lists (missing directories are
    skipped) no directory holds a dead container's file any more, and a second round is the identity. -/
theorem rounds_bound (rt : Runtime) (ips gcs : List (Option Dir)) :
    (∀ d, some d ∈ sweepIPDirs rt ips → ∀ e ∈ d, ¬ IsDeadIPFile rt e) ∧
    (∀ d, some d ∈ (sweepGCDirs rt gcs).1 → ∀ e ∈ d, ¬ IsDeadStateFile rt e) ∧
    sweepIPDirs rt (sweepIPDirs rt ips) = sweepIPDirs rt ips ∧
    (sweepGCDirs rt (sweepGCDirs rt gcs).1).1 = (sweepGCDirs rt gcs).1 := by
  refine ⟨?_, ?_, ?_, ?_⟩
  · intro d hd e he
    simp only [sweepIPDirs, List.mem_map] at hd
    obtain ⟨o, _, ho⟩ := hd
    cases o with
    | none => simp at ho
    | some d0 =>
      simp only [Option.map_some, Option.some.injEq] at ho
      subst ho
      exact (((one_round_removes_all_dead rt d0).1 e).mp he).2
  · intro d hd e he
    simp only [sweepGCDirs, List.mem_map] at hd
    obtain ⟨o, _, ho⟩ := hd
    cases o with
    | none => simp at ho
    | some d0 =>
      simp only [Option.map_some, Option.some.injEq] at ho
      subst ho
      exact (((one_round_removes_all_dead_state_files rt d0).1 e).mp he).2
  · simp only [sweepIPDirs, List.map_map]
    apply List.map_congr_left
    intro o _
    cases o with
    | none => rfl
    | some d => simp [(one_round_removes_all_dead rt d).2.2]
  · simp only [sweepGCDirs, List.map_map]
    apply List.map_congr_left
    intro o _
    cases o with
    | none => rfl
    | some d =>
      have := (one_round_removes_all_dead_state_files rt d).2.2.2.2
      simp only [Function.comp, Option.map_some, Option.some.injEq]
      rw [this]

/-- "eventually all of it … within a bounded number of GC rounds", under PARTIAL and PERSISTENT runtime failure: a
    dead container's file is collected in the very first round no matter which other entries' inspect calls fail
    (`RuntimeError`) — entries sorting before it, between dead ones or after it in the same directory, and whole
    earlier directories of the list full of failing entries (every directory of the list is swept, each on its own:
    a failing entry is skipped, it never ends the round).  No hypothesis restricts the other entries or directories. -/
theorem dead_removed_despite_erroring_entries (rt : Runtime) :
    (∀ (d : Dir) (e : Entry), IsDeadIPFile rt e → e ∉ sweepIPDir rt d) ∧
    (∀ (d : Dir) (e : Entry), e ∈ d → IsDeadStateFile rt e → e ∉ (sweepGCDir rt d).1 ∧ e.name ∈ (sweepGCDir rt d).2) ∧
    (∀ (ds : List (Option Dir)), sweepIPDirs rt ds = ds.map (Option.map (sweepIPDir rt)) ∧
      (sweepGCDirs rt ds).1 = ds.map (Option.map (fun d => (sweepGCDir rt d).1))) ∧
    (∀ (before after : List (Option Dir)) (d : Dir) (e : Entry), IsDeadIPFile rt e →
      ∃ d', (sweepIPDirs rt (before ++ some d :: after))[before.length]? = some (some d') ∧ e ∉ d') ∧
    (∀ (before after : List (Option Dir)) (d : Dir) (e : Entry), IsDeadStateFile rt e →
      ∃ d', ((sweepGCDirs rt (before ++ some d :: after)).1)[before.length]? = some (some d') ∧ e ∉ d') := by
  refine ⟨?_, ?_, fun ds => ⟨rfl, rfl⟩, ?_, ?_⟩
  · intro d e he hm
    exact (((one_round_removes_all_dead rt d).1 e).mp hm).2 he
  · intro d e hd he
    refine ⟨fun hm => (((one_round_removes_all_dead_state_files rt d).1 e).mp hm).2 he, ?_⟩
    exact ((one_round_removes_all_dead_state_files rt d).2.2.1 e.name).mpr ⟨e, hd, rfl, he⟩
  · intro before after d e he
    refine ⟨sweepIPDir rt d, ?_, fun hm => (((one_round_removes_all_dead rt d).1 e).mp hm).2 he⟩
    simp [sweepIPDirs]
  · intro before after d e he
    refine ⟨(sweepGCDir rt d).1, ?_, fun hm => (((one_round_removes_all_dead_state_files rt d).1 e).mp hm).2 he⟩
    simp [sweepGCDirs]

/-- "never for a running one", with the environment moving DURING the round (host-local releasing an address and
    handing it to a newly started container while the collector talks to the runtime): in one pass of cleanupIP under
    ANY schedule of environment moves landing during the inspect calls, every file that is removed contains, at the
    moment of its removal, exactly what the collector read in the same iteration, and the container named there was
    judged dead by that iteration's inspect call — the owner is judged AFTER the file's last read.  (Moves that hit a
    file inside its own read–inspect–remove iteration are the window inherent to every such collector; the model does
    not apply them and flags the run `inadmissible`.) -/
theorem interleaved_sweep_removes_only_judged_dead (rt : Runtime) (sched : Nat → List EnvMove) (fs : FS) :
    ∀ r ∈ (sweepIPDirsI rt sched fs).log,
      r.contentAtRemoval = some r.readContent ∧ Dead (rt (cidOfContent r.readContent)) :=
  sweepIPDirsI_logOK fact_states rt sched fs

/-- corollary in the property's words: a reservation that has been re-assigned to a running container (or to one the
    runtime cannot be asked about) before its iteration is never what gets removed. -/
theorem reassigned_to_running_survives (rt : Runtime) (sched : Nat → List EnvMove) (fs : FS) (r : Removal)
    (hr : r ∈ (sweepIPDirsI rt sched fs).log) (c : String) (hc : r.contentAtRemoval = some c) :
    ¬ Alive (rt (cidOfContent c)) ∧ ¬ RuntimeError (rt (cidOfContent c)) := by
  have h := sweepIPDirsI_logOK fact_states rt sched fs r hr
  have e : c = r.readContent := by
    have := h.1.symm.trans hc
    exact (Option.some.inj this).symm
  subst e
  have hd := shouldCleanup_of_dead fact_states h.2
  constructor
  · intro ha; rw [not_shouldCleanup_of_alive fact_states ha] at hd; exact absurd hd (by simp)
  · intro he; rw [not_shouldCleanup_of_error he] at hd; exact absurd hd (by simp)

/-- "or a port mapping": when the callbacks succeed, the port mapping of every dead container whose state file was
    collected is gone after the round. -/
theorem port_mappings_of_dead_cleaned (rt : Runtime) (d : Dir) (mappings : List String) (cid : String)
    (h : cid ∈ (sweepGCDir rt d).2) : cid ∉ applyCallbacks (fun _ => false) mappings (sweepGCDir rt d).2 :=
  applyCallbacks_not_mem mappings _ cid h

/-! ## non-vacuity -/

/-- a directory with every kind of entry, under a runtime with every kind of answer: the dead containers' files go,
    everything else stays -/
example :
    let rt : Runtime := fun cid =>
      if cid = "c-gone" then .docker .notFound else if cid = "c-exited" then .docker (.state (some "exited"))
      else if cid = "c-run" then .docker (.state (some "running")) else .docker .error
    let d : Dir := [⟨"10.0.0.2", .file "c-gone\neth0", false⟩, ⟨"10.0.0.3", .file "c-run", false⟩,
      ⟨"10.0.0.4", .file " c-exited \r\neth0", false⟩, ⟨"10.0.0.5", .file "c-unknown", false⟩, ⟨"10.0.0.6", .file "", false⟩,
      ⟨"last_reserved_ip.0", .file "c-gone", false⟩, ⟨"galaxy-flannel", .dir, false⟩, ⟨"fe80::1", .file "c-gone", true⟩]
    (sweepIPDir rt d).map (·.name) = ["10.0.0.3", "10.0.0.5", "10.0.0.6", "last_reserved_ip.0", "galaxy-flannel"] := by
  decide

/-- failing entries before, between and after the dead ones, and a first directory holding nothing but failing entries:
    every dead container's file is gone after ONE round, every failing entry's file is kept -/
example :
    let rt : Runtime := fun cid =>
      if cid = "a0" ∨ cid = "a3" ∨ cid = "a6" then .docker .error
      else if cid = "a1" then .docker .notFound else if cid = "a4" then .docker (.state (some "exited"))
      else if cid = "a7" then .docker (.state (some "dead")) else .docker (.state (some "running"))
    let f : String → Entry := fun cid => ⟨cid, .file "{}", false⟩
    (sweepGCDirs rt [some [f "a0", f "a3"], none, some [f "a0", f "a1", f "a2", f "a3", f "a4", f "a6", f "a7"], some [f "a7"]]) =
      ([some [f "a0", f "a3"], none, some [f "a0", f "a2", f "a3", f "a6"], some []], ["a1", "a4", "a7", "a7"]) := by
  decide

/-- the interleaving of the seeded refactoring: while the runtime is asked about the owner of 10.0.0.1, host-local hands
    10.0.0.2 (so far reserved by the dead container d2) to the running container r9.  The collector reads 10.0.0.2 only
    afterwards, sees r9 and keeps the file; d3's file goes. -/
example :
    let rt : Runtime := fun cid => if cid = "r9" ∨ cid = "r1" then .docker (.state (some "running")) else .docker .notFound
    let fs : FS := [some [⟨"10.0.0.1", .file "r1", false⟩, ⟨"10.0.0.2", .file "d2\neth0", false⟩, ⟨"10.0.0.3", .file "d3", false⟩]]
    let sched : Nat → List EnvMove := fun k => if k = 1 then [.write 0 "10.0.0.2" "r9\neth0" false] else []
    let st := sweepIPDirsI rt sched fs
    (st.fs.map (Option.map (List.map (·.name)))) = [some ["10.0.0.1", "10.0.0.2"]] ∧ st.inadmissible = false ∧
      st.log.map (·.name) = ["10.0.0.3"] ∧ contentOf st.fs 0 "10.0.0.2" = some "r9\neth0" := by
  decide

/-- the hypotheses of `never_running`, `never_on_runtime_error`, `cleanup_only_dead` are inhabited -/
example : Alive (.docker (.state (some "paused"))) ∧ Alive (.cri (.notReady (.found [⟨false, false⟩, ⟨true, false⟩]))) ∧
    RuntimeError (.cri (.notReady .error)) ∧ Dead (.cri (.notReady (.found []))) :=
  ⟨.dockerState "paused" (by decide) (by decide), .criContainerActive _ ⟨true, false⟩ (by simp) (Or.inl rfl), .pod,
   .criAllTerminated [] (by simp)⟩

/-! ## known deviation (outside the property's fault model: failures of the port-clean callback) -/

/-- `removeLeakyStateFile` removes the state file even when the port-clean callback failed.  For the port file itself
    (the callback's only record of the mapping) this orphans the mapping: the file is gone after round 1, the mapping
    is still there, and no later round calls the callback for it again.  The property quantifies over runtime errors
    on inspect calls, not over iptables failures, so this is reported, not counted as a violation. -/
theorem callback_failure_orphans_port_mapping_counter :
    let rt : Runtime := fun _ => .docker .notFound
    let portDir : Dir := [⟨"c1", .file "[{\"hostPort\":80}]", false⟩]
    let round1 := sweepGCDir rt portDir
    let mappings1 := applyCallbacks (fun _ => true) ["c1"] round1.2
    let round2 := sweepGCDir rt round1.1
    round1 = ([], ["c1"]) ∧ mappings1 = ["c1"] ∧ round2 = ([], []) := by
  decide

/-- why the read must be per file and immediately before the judgement: the refactoring "ask the runtime once per
    container" (read all owners first, remove the recorded paths later) removes, under the same interleaving, the
    reservation of the RUNNING container r9. -/
theorem batched_sweep_removes_reassigned_counter :
    let rt : Runtime := fun cid => if cid = "r9" ∨ cid = "r1" then .docker (.state (some "running")) else .docker .notFound
    let fs : FS := [some [⟨"10.0.0.1", .file "r1", false⟩, ⟨"10.0.0.2", .file "d2\neth0", false⟩, ⟨"10.0.0.3", .file "d3", false⟩]]
    (batchedSweepDir rt [.write 0 "10.0.0.2" "r9\neth0" false] fs 0).map (Option.map (List.map (·.name))) = [some ["10.0.0.1"]] := by
  decide

end Galaxy.Props.C17
