/-
  C08 — multi-IP requests get one IP per range, all or nothing (IPAM level, model M3).

  "A pod that requests k IP ranges is bound with exactly k distinct IPs, the i-th inside the i-th requested range and all
   routable from the chosen node, reported in request order; if that is not possible, or any store call fails, none of
   the k IPs stays allocated."

  The statements are about `allocateInSubnetsAndRanges`, the model of `crdIpam.AllocateInSubnetsAndIPRange`, for
  every state, key, node subnet, attribute and plan.  The bind-level half (annotation lists the k IPs, pre-owned ones
  reused) belongs to model M4.
-/
import Galaxy.Lemmas.IpamC08
import Galaxy.Lemmas.PluginRanges

namespace Galaxy.Props.C08
open Galaxy Galaxy.Ipam

/-- tie to the code: pick all candidates first, create all objects, update memory last, roll back every created
    object on the first failing create (regenerated from /repo on every run; the model takes
    `rollbackOnCreateFailure` as a parameter, so these theorems do not build when the rollback is gone) -/
theorem fact_rollback :
    Generated.Ipam.rollbackOnCreateFailure = true ∧ Generated.Ipam.rollbackCoversAllCreated = true ∧
    Generated.Ipam.memoryUpdatedAfterAllCreates = true ∧ Generated.Ipam.rollbackKeepsUndeletedInMemory = true ∧
    Generated.Ipam.storeBeforeMemory.lookup "AllocateInSubnetsAndIPRange" = some true := by decide

/-- tie to the code: requested ranges are walked ONLY through `walkConfiguredIPRanges`, which clips every configured range
    against the requested range at both ends, sorts the parts ascending by first address and hands them to
    `walkIPRanges` (64-bit counter).  The model's `walkConfigured` takes the first two as parameters. -/
theorem fact_walk_configured :
    Generated.Ipam.walkConfClampsBothEnds = true ∧ Generated.Ipam.walkConfSortsParts = true ∧
    Generated.Ipam.walkConfDelegatesToWalk = true ∧ Generated.Ipam.requestsWalkConfigured = true ∧
    Generated.Ipam.walkOverflowSafe = true := by decide

/-- "the i-th inside the i-th requested range" is about the REAL walk: `walkConfigured` (what the allocation, the lookup by
    key and the node-subnet query iterate) visits exactly the requested addresses which lie in a configured range … -/
theorem walkConfigured_mem (ps : List Pool) (rs : List Range) (ip : IP) :
    ip ∈ walkConfigured ps rs ↔ (ip ∈ walk rs ∧ ∃ c ∈ confRanges ps, c.first ≤ ip ∧ ip ≤ c.last) :=
  mem_walkConfigured

/-- … in request order and ascending inside every requested range, whatever the order of the pools (pools sharing a
    gateway keep their configuration order!) — for configurations whose ranges are pairwise disjoint it IS the enumeration
    of the requested ranges filtered by "configured". -/
theorem walkConfigured_eq_filter_enumerate (ps : List Pool) (rs : List Range) (hd : DisjointConf ps) :
    walkConfigured ps rs =
      rs.flatMap (fun r => (walk [r]).filter (fun ip => (confRanges ps).any (fun c => c.contains ip))) :=
  walkConfigured_eq_filter ps rs hd

/-- "bound with exactly k distinct IPs, the i-th inside the i-th requested range and all routable from the chosen node,
    reported in request order": for k ≥ 1 pairwise-disjoint range lists in which the key owns nothing yet, success
    means: k results; result[i] ∈ ranges[i], was free, lies in a pool listing the node subnet and had no stored object;
    pairwise distinct; each is afterwards recorded for the key in memory and store and no longer free; every other
    address is untouched; and `ByKeyAndIPRanges` returns exactly these addresses in request order. -/
theorem multi_alloc_success (s : State) (key subnet : String) (ranges : List (List Range)) (a : Attr) (choice : Option IP)
    (pl : Plan) (hk : ranges ≠ []) (hdis : DisjointRanges ranges)
    (hown : ∀ rs ∈ ranges, ∀ x ∈ walk rs, hasKey s key x = false)
    (s' : State) (o : Out) (hres : allocateInSubnetsAndRanges s key subnet ranges a choice pl = (s', o)) (hok : o.err = none) :
    o.ips.length = ranges.length ∧
    (∀ i (h1 : i < o.ips.length) (h2 : i < ranges.length),
      o.ips[i] ∈ walk ranges[i] ∧ o.ips[i] ∈ s.free ∧ hasSubnet s.pools o.ips[i] subnet = true ∧ s.store.get o.ips[i] = none) ∧
    o.ips.Nodup ∧
    (∀ ip ∈ o.ips, s'.alloc.get ip = some (mkRec key a s.clock) ∧ s'.store.get ip = some (mkRec key a s.clock) ∧ ip ∉ s'.free) ∧
    (∀ ip, ip ∉ o.ips → s'.alloc.get ip = s.alloc.get ip ∧ s'.store.get ip = s.store.get ip ∧ (ip ∈ s'.free ↔ ip ∈ s.free)) ∧
    byKeyAndRanges s' key ranges = o.ips.map some :=
  multi_alloc_success' hk hdis hown hres hok

/-- "if that is not possible, or any store call fails, none of the k IPs stays allocated": whenever the operation
    returns an error (not enough addresses, a create refused by the store, an injected fault at ANY create index) and the
    rollback succeeds — guaranteed by "no injected fault" (a create conflicting with an undelivered reservation is rolled
    back completely) or by "a single fault and no free address has a stored object" — the allocation table, the free
    table and the store (as a map) are what they were. -/
theorem multi_alloc_failure (s : State) (key subnet : String) (ranges : List (List Range)) (a : Attr) (choice : Option IP)
    (pl : Plan) (hclean : pl.fails = [] ∨ (pl.fails.length ≤ 1 ∧ FreeUnstored s)) (e : Err)
    (he : (allocateInSubnetsAndRanges s key subnet ranges a choice pl).2.err = some e) (hec : e ≠ .crashed) :
    (allocateInSubnetsAndRanges s key subnet ranges a choice pl).1.alloc = s.alloc ∧
    (allocateInSubnetsAndRanges s key subnet ranges a choice pl).1.free = s.free ∧
    (allocateInSubnetsAndRanges s key subnet ranges a choice pl).1.pools = s.pools ∧
    SameStore (allocateInSubnetsAndRanges s key subnet ranges a choice pl).1.store s.store :=
  allocRanges_failure hclean he hec

/-- a create failure PLUS rollback-delete failures (any fault set): every address is either untouched (cache entry, store
    entry, free status) or — its rollback delete failed — was free without stored object before and is now allocated
    to the key in BOTH memory and store and no longer free.  Nothing is ever left owned in the store but free in memory
    (`FailAt`). -/
theorem multi_alloc_failure_general (s : State) (key subnet : String) (ranges : List (List Range)) (a : Attr)
    (choice : Option IP) (pl : Plan) (e : Err)
    (he : (allocateInSubnetsAndRanges s key subnet ranges a choice pl).2.err = some e) (hec : e ≠ .crashed) :
    (allocateInSubnetsAndRanges s key subnet ranges a choice pl).1.pools = s.pools ∧
    ∀ j, FailAt s (allocateInSubnetsAndRanges s key subnet ranges a choice pl).1 (mkRec key a s.clock) j :=
  let h := allocRanges_failure_general he hec
  ⟨h.1, h.2.1⟩

/-- the property's quantifier ("a failure of any single object creation") on reachable quiet states: `Agree` and no
    pending admin event give `FreeUnstored`, so every single fault index leaves alloc, free and store unchanged -/
theorem multi_alloc_failure_single_fault (s : State) (hs : Agree s) (hq : s.pending = []) (key subnet : String)
    (ranges : List (List Range)) (a : Attr) (choice : Option IP) (k : Nat) (e : Err)
    (he : (allocateInSubnetsAndRanges s key subnet ranges a choice { fails := [k] }).2.err = some e) :
    (allocateInSubnetsAndRanges s key subnet ranges a choice { fails := [k] }).1.alloc = s.alloc ∧
    (allocateInSubnetsAndRanges s key subnet ranges a choice { fails := [k] }).1.free = s.free ∧
    SameStore (allocateInSubnetsAndRanges s key subnet ranges a choice { fails := [k] }).1.store s.store := by
  have hec : e ≠ .crashed := by
    intro hc; subst hc
    exact allocRanges_noCrash rfl rfl he
  have := allocRanges_failure (s := s) (key := key) (subnet := subnet) (ranges := ranges) (a := a) (choice := choice)
    (pl := { fails := [k] }) (Or.inr ⟨by simp, freeUnstored_of_agree hs hq⟩) he hec
  exact ⟨this.1, this.2.1, this.2.2.2⟩

/-! ### non-vacuity and the known deviation -/

def pool1 : Pool :=
  { nodeSubnets := [{ str := "10.0.1.0/24", base := 167772416, bits := 24 }], ranges := [{ first := 2, last := 5 }, { first := 9, last := 9 }],
    bits := 24, gateway := 1, vlan := 2 }
def attr1 : Attr := { node := "n1", uid := "u1", policy := 1 }
def s0 : State := run init [.configure [pool1] [] {}, .allocSubnet "other" "10.0.1.0/24" attr1 (some 2) {}]
def req : List (List Range) := [[{ first := 2, last := 3 }], [{ first := 9, last := 9 }, { first := 4, last := 4 }]]

/-- the hypotheses of `multi_alloc_success` are satisfiable: a two-range request over a partly pre-owned range
    succeeds with [3, 9] (2 is taken by another key) -/
example : (allocateInSubnetsAndRanges s0 "pod" "10.0.1.0/24" req attr1 none {}).2.err = none ∧
    (allocateInSubnetsAndRanges s0 "pod" "10.0.1.0/24" req attr1 none {}).2.ips = [3, 9] := by decide

/-- the hypotheses of `multi_alloc_failure` are satisfiable: the second create fails, the first object is rolled back -/
example : (allocateInSubnetsAndRanges s0 "pod" "10.0.1.0/24" req attr1 none { fails := [1] }).2.err = some .injected ∧
    (allocateInSubnetsAndRanges s0 "pod" "10.0.1.0/24" req attr1 none { fails := [1] }).1.store.get 3 = none := by decide

def sRes : State := (step s0 (.adminReserve 9 "pool__reserved-for-node_" 0)).1

/-- the second clause is not vacuous: the second create conflicts with a reservation whose event is still pending and
    the single injected fault hits the rollback delete — address 3 stays allocated to the pod in BOTH tables -/
example : (allocateInSubnetsAndRanges sRes "pod" "10.0.1.0/24" req attr1 none { fails := [2] }).2.err = some .exists_ ∧
    ((allocateInSubnetsAndRanges sRes "pod" "10.0.1.0/24" req attr1 none { fails := [2] }).1.store.get 3).isSome = true ∧
    ((allocateInSubnetsAndRanges sRes "pod" "10.0.1.0/24" req attr1 none { fails := [2] }).1.alloc.get 3).isSome = true ∧
    3 ∉ (allocateInSubnetsAndRanges sRes "pod" "10.0.1.0/24" req attr1 none { fails := [2] }).1.free := by decide

/-- COUNTER (pre-fix code, `rollbackKeepsUndeletedInMemory = false`): the failed rollback delete was ignored — object 3
    stayed in the store while address 3 stayed free in memory -/
theorem multi_alloc_failure_counter :
    let r := mkRec "pod" attr1 sRes.clock
    let res := createAll true { fails := [2] } r [3, 9] [] 0 sRes.store
    pickRanges sRes "10.0.1.0/24" req [] = some [3, 9] ∧ res.2.2 = [3] ∧
    ((allocRangesFinish false sRes r [3, 9] res).1.store.get 3).isSome = true ∧
    (allocRangesFinish false sRes r [3, 9] res).1.alloc.get 3 = none ∧
    3 ∈ (allocRangesFinish false sRes r [3, 9] res).1.free := by decide

def poolHi : Pool := { pool1 with ranges := [{ first := 6, last := 10 }] }
def poolLo : Pool := { pool1 with ranges := [{ first := 2, last := 5 }] }

/-- two pools sharing a gateway, the HIGHER range first in the configuration (the sort by gateway keeps that order): the
    hypothesis of `walkConfigured_eq_filter_enumerate` holds and the walk of 4~7 is 4,5,6,7 -/
example : sortPools [poolHi, poolLo] = [poolHi, poolLo] ∧ DisjointConf [poolHi, poolLo] ∧
    walkConfigured [poolHi, poolLo] [{ first := 4, last := 7 }] = [4, 5, 6, 7] := by
  refine ⟨by decide, ?_, by decide⟩
  unfold DisjointConf; decide

/-- COUNTER (the "optimised" walk: overlapping configured ranges in pool order, only the outermost ends clipped, no sort —
    selected by `walkConfClampsBothEnds = walkConfSortsParts = false`): with the higher range listed first the walk of
    4~7 leaves the requested range (…, 8, 9, 10, 2, 3, …), so a pod could be handed 8 for the request 4~7 -/
theorem walk_unsorted_unclipped_counter :
    8 ∈ walkConfiguredG false false [poolHi, poolLo] [{ first := 4, last := 7 }] ∧
    8 ∉ walk [{ first := 4, last := 7 }] := by decide

end Galaxy.Props.C08

/-! ## the bind-level clause (plugin model M4, proved by the plugin work package)

  "A pod that requests k IP ranges is BOUND with exactly k distinct IPs, the i-th inside the i-th requested range …,
   reported in request order."  `bind` is the model of the scheduler plugin's Bind (Filter's choice `ch`, reuse of the
   addresses the pod's key already owns, `allocateInSubnetsAndRanges` for the others, binding annotation). -/

namespace Galaxy.Props.C08
open Galaxy Galaxy.Plugin

/-- tie to the code: `allocateIP` builds its reply in REQUEST order (regenerated fact of the plugin translator) -/
theorem fact_bind_reply_order : Generated.Plugin.bindReplyInRequestOrder = true := fact_bind_reply_in_request_order

/-- "bound with exactly k … IPs, the i-th inside the i-th requested range, reported in request order": after every history
    within the plugin model's scope, a Bind (any choice, any fault plan) that answers ok for a pod requesting k ≥ 1 range
    lists writes a binding annotation with exactly k entries, the i-th an address of the i-th requested range list —
    whatever subset of the lists the pod's key owned before (none, all, a LATER one without an earlier one, …). -/
theorem bind_reports_request_order (c : Conf) (ms : List Move) (hok : allAssumed facts (init c) ms = true)
    (ns name : String) (uid : Nat) (node : String) (ch : Choice) (f pf : Nat) (pod : Pod)
    (hl : Tbl.get (run facts (init c) ms).vPods (ns, name) = some pod) (hne : pod.ranges ≠ [])
    (hb : (step facts (run facts (init c) ms) (.bind ns name uid node ch f pf)).2.res = .ok) :
    All₂ (fun rs hd => hd.ip ∈ enumRanges rs) pod.ranges
        (step facts (run facts (init c) ms) (.bind ns name uid node ch f pf)).2.ips ∧
    (step facts (run facts (init c) ms) (.bind ns name uid node ch f pf)).2.ips.length = pod.ranges.length := by
  have h := bind_reports_request_order_after_history c ms hok ns name uid node ch f pf pod hl hne hb
  exact ⟨h, h.length_eq.symm⟩

set_option maxRecDepth 100000 in
/-- not vacuous: a pod which owns an address of its SECOND range list only (from an earlier incarnation) is bound with
    [a new address of list 1, the owned address of list 2] — request order, not "reused first" -/
example : allAssumed facts (init rangesConf) rangesHistory = true ∧
    ((run facts (init rangesConf) rangesHistory).pods.get ("ns1", "a-0")).map (·.ips) = some [168427522, 168427526] :=
  bind_reports_request_order_example

end Galaxy.Props.C08
