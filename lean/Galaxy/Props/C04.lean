import Galaxy.Model.Plugin

namespace Galaxy.Props.C04
open Galaxy.Plugin

/-- the regenerated structural facts are the ones the proofs assume -/
theorem fact_plugin_shape : Galaxy.Plugin.facts = Facts.good := by decide

end Galaxy.Props.C04
