/-
  C04 - a live pod's IP is never released, re-keyed or handed on.

  Model: `Galaxy.Plugin` (M4-core, `Galaxy/Model/Plugin.lean`): the galaxy-ipam scheduler plugin at operation
  granularity with adversary moves (pod re-creation with a fresh UID, delayed / lost events, stale listers, resync,
  API release, pod-IP sync, reload, restart), explicit resolution of Go map nondeterminism (`Choice`, resync order)
  and one failing apiserver / provider call per move.  `run facts (init c) ms` is the state after the history `ms`;
  the driver `gxdrv_plugin` executes exactly these functions and the harness compares them with the real plugin.

  STATEMENT (property text):  for every history `ms` from `init c`, every pod `q` of API truth that was bound by the
  plugin and has not finished owns every address of its binding annotation (memory and store: key = keyOf q,
  uid = q.uid), and no move sends UnAssign for such an address.
  Scope = the decidable side conditions `allAssumed` (see `Galaxy.Plugin.assumed`), all of them the property's own:
    (a) namespace, pod and owner names are non-empty and a bind request carries the pod UID (`args.PodUID`);
    (b) a reload keeps the addresses of live bound pods configured ("no configuration reload that still contains the
        IP").
  Beyond the property's quantifier (schedules, histories) the theorems also cover one failing apiserver call and one
  failing provider call per move, at ANY position (a failing store delete inside ConfigurePool leaves an orphan object
  that a later reload may resurrect - `State.orphans`; harmless since resync / Release check the whole key).
  The former side condition "the lister shows the API server's incarnation and no record of another incarnation is
  under the key" is gone: Bind now checks both itself (facts bindChecksListerUID, bindUidGuardCoversWholeKey), and
  resync / Release leave a key alone while another record of it belongs to a running pod (fact
  resyncAndReleaseCheckWholeKey).  The `_counter` theorems at the end show the statement false for the pre-fix variants
  of the code (all three defects were found by this check and are fixed in /repo).
-/
import Galaxy.Lemmas.PluginMain

namespace Galaxy.Props.C04
open Galaxy Galaxy.Plugin

/-- The structural facts regenerated from /repo on this run are the shape the proofs are about: unbind ignores an
    event whose pod UID differs from a stored non-empty UID before any mutation; allocateIP refuses another
    incarnation's IP looking at ALL records of the key; Bind refuses a lister pod whose UID differs from args.PodUID;
    resync and Release leave a key alone while another record of it belongs to a running pod;
    Release and the resync closure re-read ByIP under lockPod and compare keys; podRunning asks
    the lister and then the API server and compares UIDs.  (`facts` is what `gxdrv_plugin` runs with.) -/
theorem fact_plugin_shape : Galaxy.Plugin.facts = Facts.good := by decide

/-- The per-pod key mutex serialises the operations on one pod name (why they are atomic moves of the model): Filter, Bind,
    unbind, Release, syncPodIP and the resync closure take `lockPod` before their first IPAM use; nothing that concerns
    the pod's key (IPAM, apiserver, provider, or a helper doing so) runs before that call; and all of them lock the SAME
    key - `lockPod(name, namespace)` = "<namespace>_<name>", called with (…Name, …Namespace) in that order.  (The harness
    checks the same thing dynamically: lock-exclusion probe and the two kind=schedule replays.) -/
theorem fact_entry_points_hold_pod_lock :
    Generated.Plugin.allUnderPodLock = true ∧ Generated.Plugin.noKeyAccessBeforePodLock = true ∧
      Generated.Plugin.podLockKeyUniform = true := by decide

/-- Preempt is the one entry point that reaches the IPAM WITHOUT the pod lock: it calls `getSubnet` (which may allocate or
    re-key records towards the pod's key) and never `lockPod`.  The model has it as its own move (`Move.preempt`), so every
    theorem below holds with a preempt of any pod interleaved anywhere; `Galaxy.Plugin.preempt_alloc_any_time` shows its
    allocation is safe in ANY state (it only takes free or pool/deployment-prefix records, never a record under a pod's
    key), which is why running concurrently with a locked operation on the same pod cannot hurt.  The lock-exclusion
    probe lists it as an entry point that legitimately does not park behind the pod lock. -/
theorem fact_preempt_without_pod_lock : Generated.Plugin.preemptCallsGetSubnetUnlocked = true := by decide

/-- Bind takes the pod object (and its UID) from the pod lister - the model's `bind` reads `vPods`. -/
theorem fact_bind_reads_pod_from_lister : Generated.Plugin.bindReadsPodFromLister = true := by decide

/-- The release-event loop drops an event after the 4th failed unbind (`retryTimes > 3`); the harness mirrors it. -/
theorem fact_unbind_retry_limit : Generated.Plugin.unbindMaxRetries = 3 := by decide

/-- ConfigurePool keeps a stored object for the first pool whose pod subnet AND ranges contain its address (several pools
    may share one pod subnet): the model's pool lookup `Pool.has` is exactly that test. -/
theorem pool_lookup_is_subnet_and_ranges (p : Pool) (ip : Nat) : p.has ip = (p.inSubnet ip && inRanges p.ranges ip) := by
  have : Generated.Plugin.configurePoolMatchesSubnetAndRanges = true := by decide
  simp [Pool.has, this]

/-- "While a pod that was bound by galaxy-ipam still exists and has not finished, its IP stays assigned to it":
    after EVERY finite history of moves (any admissible or inadmissible choices, any fault indices) within the
    property's scope (`allAssumed`: non-empty names, bind requests carry the pod UID, reloads keep live pods' addresses
    configured), every live bound pod owns each address of its binding annotation - in memory and in the store,
    under its own key and its own UID.  Covers all 17 moves. -/
theorem live_bound_pod_keeps_ip (c : Conf) (ms : List Move) (hok : allAssumed facts (init c) ms = true) :
    ∀ q, LiveBound (run facts (init c) ms).pods q → ∀ hd, hd ∈ q.handed → OwnedBy (run facts (init c) ms) q hd.ip := by
  rw [fact_plugin_shape] at hok ⊢
  intro q hq hd hm
  exact inv_owned (inv_run ms _ (inv_init c) hok) q hq hd hm

/-- "... nor ask the cloud provider to unassign it": in every reachable state, no move (whose side condition holds)
    appends an UnAssign request for an address that is in the binding annotation of a live bound pod. -/
theorem no_unassign_for_live_pod (c : Conf) (ms : List Move) (hok : allAssumed facts (init c) ms = true)
    (m : Move) (hm : assumed (run facts (init c) ms) m = true) (node : String) (ip : IP) (ok : Bool)
    (hreq : PCall.unassign node ip ok ∈ newRequests (run facts (init c) ms) (next facts (run facts (init c) ms) m)) :
    ¬ ∃ q, LiveBound (run facts (init c) ms).pods q ∧ ip ∈ q.ips := by
  rw [fact_plugin_shape] at hok hreq hm ⊢
  exact unassign_next _ m (inv_run ms _ (inv_init c) hok) hm node ip ok hreq

/-- "no delete/finish event of an earlier same-named pod ... may free it": delivering ANY pending event in a reachable
    state leaves every live bound pod's addresses owned (special case of the invariant, stated for the event move). -/
theorem late_event_keeps_ip (c : Conf) (ms : List Move) (hok : allAssumed facts (init c) ms = true)
    (i fault pfault : Nat) :
    ∀ q, LiveBound (next facts (run facts (init c) ms) (.deliver i fault pfault)).pods q → ∀ hd, hd ∈ q.handed →
      OwnedBy (next facts (run facts (init c) ms) (.deliver i fault pfault)) q hd.ip := by
  rw [fact_plugin_shape] at hok ⊢
  intro q hq hd hm
  exact inv_owned (inv_next _ _ (inv_run ms _ (inv_init c) hok) rfl) q hq hd hm

/-- "all interleavings of resync ... with bind": the resync pass is two kinds of moves - `resyncSnap` (fetchChecklist) and
    `resyncRec ip` (one iteration: pod lock, re-read, compare key, ...) - with ANY moves in between; every iteration,
    whenever it runs and whatever snapshot entry it was started from, leaves every live bound pod's addresses owned.
    (The obligation is exactly "the iteration uses the record re-read under the lock": fact resyncRechecksUnderLock,
    which includes the assignment `obj.fip = fip`.) -/
theorem interleaved_resync_keeps_ip (c : Conf) (ms : List Move) (hok : allAssumed facts (init c) ms = true)
    (ip : IP) (fault pfault : Nat) :
    ∀ q, LiveBound (next facts (run facts (init c) ms) (.resyncRec ip fault pfault)).pods q → ∀ hd, hd ∈ q.handed →
      OwnedBy (next facts (run facts (init c) ms) (.resyncRec ip fault pfault)) q hd.ip := by
  rw [fact_plugin_shape] at hok ⊢
  intro q hq hd hm
  exact inv_owned (inv_next _ _ (inv_run ms _ (inv_init c) hok) rfl) q hq hd hm

/-! ### non-vacuity: a reachable state with a live bound pod, and a late event that is ignored -/

def pool1 : Pool := { nodeSubnets := [⟨168362240, 24⟩], ranges := [(168427522, 168427522)], gateway := 168427521, bits := 24, vlan := 0 }
def conf1 : Conf := { pools := [pool1], nodes := [("n1", 168362245)], provider := true }

/-- bind(A); delete(A); create(A', same name, new UID); resync; filter(A'); bind(A'); deliver(delete A) - the history
    of the fixed defect D2 (corpus/C04/d2.ops) -/
def d2 : List Move := [
  .scale .sts "ns1" "a" 2,
  .createPod "ns1" "a-0" .sts "a" "" 0 [] true,
  .listerSync true true,
  .filter "ns1" "a-0" ["n1"] {} 0,
  .bind "ns1" "a-0" 1 "n1" { pick := some 168427522 } 0 0,
  .deletePod "ns1" "a-0",
  .createPod "ns1" "a-0" .sts "a" "" 0 [] true,
  .listerSync true true,
  .resync [168427522] 0 0,
  .filter "ns1" "a-0" ["n1"] {} 0,
  .bind "ns1" "a-0" 2 "n1" { pick := some 168427522 } 0 0,
  .deliver 0 0 0 ]

/-- the second incarnation, bound -/
def podA2 : Pod := { ns := "ns1", name := "a-0", uid := 2, kind := .sts, app := "a", pool := "", policy := 0, ranges := [], wants := true, phase := .pending, node := "n1", handed := [⟨168427522, 24, 168427521, 0⟩] }

set_option maxRecDepth 100000 in
/-- the hypotheses of the theorems are satisfiable by a non-trivial history -/
example : allAssumed facts (init conf1) d2 = true := by decide

set_option maxRecDepth 100000 in
/-- ... at whose end a live bound pod exists and owns its address although the old incarnation's event was delivered -/
example : LiveBound (run facts (init conf1) d2).pods podA2 ∧
    (Tbl.get (run facts (init conf1) d2).alloc 168427522).map (fun r => (r.key, r.uid)) = some (keyOf podA2, 2) := by
  refine ⟨⟨by decide, by decide, by decide⟩, by decide⟩

/-! ### counter theorems -/

/-- the plugin as it was before the fix of D2: unbind without the UID guard -/
def factsNoGuard : Facts := { Facts.good with unbindChecksUID := false }

set_option maxRecDepth 100000 in
/-- WITHOUT the UID guard in unbind (`deliverNoGuard`) the statement fails on the 7-move history D2 (after the
    workload / lister set-up): all side conditions hold, the second incarnation is live and bound, and the late
    delete event of the first incarnation has freed its address.  (Fixed in /repo by
    "fix: unbind released the ip of a live pod on a late event of an earlier same-named pod"; replay
    corpus/C04/d2.ops; `fact_plugin_shape` breaks if the guard is removed again.) -/
theorem live_bound_pod_keeps_ip_counter :
    allAssumed factsNoGuard (init conf1) d2 = true ∧ LiveBound (run factsNoGuard (init conf1) d2).pods podA2 ∧
      Tbl.get (run factsNoGuard (init conf1) d2).alloc 168427522 = none := by
  refine ⟨by decide, ⟨by decide, by decide, by decide⟩, by decide⟩

/-- the plugin before "fix: bind stored a stale pod uid ...": Bind does not compare the lister's pod with args.PodUID -/
def factsNoListerCheck : Facts := { Facts.good with bindChecksListerUID := false }

/-- ... its "waiting for delete event" check only sees the records inside the requested ranges, and resync / Release
    act on the whole key without looking at its other records (the code before both later fixes) -/
def factsNarrowGuard : Facts := { Facts.good with bindUidGuardCoversWholeKey := false, wholeKeyCheck := false }

/-- bind (with the API server's UID, as the scheduler does) while the lister still shows the previous incarnation;
    then the late delete event -/
def staleBind : List Move := [
  .scale .sts "ns1" "a" 2,
  .createPod "ns1" "a-0" .sts "a" "" 0 [] true,
  .listerSync true true,
  .filter "ns1" "a-0" ["n1"] {} 0,
  .bind "ns1" "a-0" 1 "n1" { pick := some 168427522 } 0 0,
  .deletePod "ns1" "a-0",
  .createPod "ns1" "a-0" .sts "a" "" 0 [] true,
  .bind "ns1" "a-0" 2 "n1" {} 0 0,
  .listerSync true true,
  .deliver 0 0 0 ]

set_option maxRecDepth 100000 in
/-- WITHOUT the lister-UID check in Bind (pre-fix variant) the statement fails although every side condition holds:
    the bind reads the previous incarnation from a stale lister and stores the old UID; the late delete event then
    passes unbind's UID guard and frees the live pod's address.  (Found by this check on the real code, fixed in /repo
    by "fix: bind stored a stale pod uid or bound beside an ip left by an earlier same-named pod"; regression replay
    corpus/C04/stale-lister-bind.ops; `fact_plugin_shape` breaks if the check is removed again.) -/
theorem stale_lister_bind_counter :
    allAssumed factsNoListerCheck (init conf1) staleBind = true ∧
      LiveBound (run factsNoListerCheck (init conf1) staleBind).pods podA2 ∧
      Tbl.get (run factsNoListerCheck (init conf1) staleBind).alloc 168427522 = none := by
  refine ⟨by decide, ⟨by decide, by decide, by decide⟩, by decide⟩

set_option maxRecDepth 100000 in
/-- with the check (the regenerated facts) the same history keeps the invariant's conclusion: the stale bind is refused -/
example : allAssumed facts (init conf1) staleBind = true ∧
    Tbl.get (run facts (init conf1) staleBind).pods ("ns1", "a-0") = some { podA2 with node := "", handed := [] } := by
  refine ⟨by decide, by decide⟩

def pool2 : Pool := { nodeSubnets := [⟨168362240, 24⟩], ranges := [(168427522, 168427523)], gateway := 168427521, bits := 24, vlan := 0 }
def conf2 : Conf := { pools := [pool2], nodes := [("n1", 168362245)], provider := true }

/-- lost delete event + the new incarnation requests another range + resync -/
def staleRecord : List Move := [
  .scale .sts "ns1" "a" 2,
  .createPod "ns1" "a-0" .sts "a" "" 0 [[(168427522, 168427522)]] true,
  .listerSync true true,
  .filter "ns1" "a-0" ["n1"] {} 0,
  .bind "ns1" "a-0" 1 "n1" {} 0 0,
  .deletePod "ns1" "a-0",
  .dropEvent 0,
  .createPod "ns1" "a-0" .sts "a" "" 0 [[(168427523, 168427523)]] true,
  .listerSync true true,
  .filter "ns1" "a-0" ["n1"] {} 0,
  .bind "ns1" "a-0" 2 "n1" {} 0 0,
  .resync [168427522, 168427523] 0 0 ]

def podA2' : Pod := { ns := "ns1", name := "a-0", uid := 2, kind := .sts, app := "a", pool := "", policy := 0, ranges := [[(168427523, 168427523)]], wants := true, phase := .pending, node := "n1", handed := [⟨168427523, 24, 168427521, 0⟩] }

set_option maxRecDepth 100000 in
/-- WITH the UID check of allocateIP restricted to the requested ranges (pre-fix variant) the statement fails although
    every side condition holds: a surviving record of an earlier incarnation under the same key (lost event, other
    range requested) is not seen by Bind, and resync - which decides per IP record but releases per key - takes the
    live pod's address with it.  (Found by this check on the real code, fixed by the same commit; regression replays
    corpus/C04/per-key-resync.ops and per-key-release.ops.) -/
theorem stale_record_counter :
    allAssumed factsNarrowGuard (init conf2) staleRecord = true ∧
      LiveBound (run factsNarrowGuard (init conf2) staleRecord).pods podA2' ∧
      Tbl.get (run factsNarrowGuard (init conf2) staleRecord).alloc 168427523 = none := by
  refine ⟨by decide, ⟨by decide, by decide, by decide⟩, by decide⟩

/-- the plugin before "fix: resync and release freed a running pod's ip together with a stale ip of the same key" -/
def factsPerKey : Facts := { Facts.good with wholeKeyCheck := false }

def pool3 : Pool := { nodeSubnets := [⟨168362240, 24⟩], ranges := [(168427522, 168427522), (168427524, 168427524)], gateway := 168427521, bits := 24, vlan := 0 }
def pool3y : Pool := { nodeSubnets := [⟨168362240, 24⟩], ranges := [(168427524, 168427524)], gateway := 168427521, bits := 24, vlan := 0 }
def conf3 : Conf := { pools := [pool3], nodes := [("n1", 168362245)], provider := false }

/-- a reload removes the address of a deleted pod and its store delete fails (3rd apiserver call); the new incarnation
    is bound to another address; a reload re-adds the first address and resurrects the stale object; resync -/
def reloadDeleteFault : List Move := [
  .scale .sts "ns1" "a" 2,
  .createPod "ns1" "a-0" .sts "a" "" 0 [[(168427522, 168427522)]] true,
  .listerSync true true,
  .filter "ns1" "a-0" ["n1"] {} 0,
  .bind "ns1" "a-0" 1 "n1" {} 0 0,
  .deletePod "ns1" "a-0",
  .reload [pool3y] 3,
  .deliver 0 0 0,
  .createPod "ns1" "a-0" .sts "a" "" 0 [[(168427524, 168427524)]] true,
  .listerSync true true,
  .filter "ns1" "a-0" ["n1"] {} 0,
  .bind "ns1" "a-0" 2 "n1" {} 0 0,
  .reload [pool3] 0,
  .resync [168427522, 168427524] 0 0 ]

def podA2'' : Pod := { ns := "ns1", name := "a-0", uid := 2, kind := .sts, app := "a", pool := "", policy := 0, ranges := [[(168427524, 168427524)]], wants := true, phase := .pending, node := "n1", handed := [⟨168427524, 24, 168427521, 0⟩] }

set_option maxRecDepth 100000 in
/-- WITHOUT the whole-key check of resync / Release (pre-fix variant) the statement fails although every side condition
    holds: ConfigurePool ignores a failed store delete, the stale object is resurrected under the live pod's key by a
    later reload, and resync - deciding per IP record, releasing per key - frees the live pod's address.  (Found by this
    check on the real code; regression replay corpus/C04/reload-delete-fault.ops.) -/
theorem per_key_release_counter :
    allAssumed factsPerKey (init conf3) reloadDeleteFault = true ∧
      LiveBound (run factsPerKey (init conf3) reloadDeleteFault).pods podA2'' ∧
      Tbl.get (run factsPerKey (init conf3) reloadDeleteFault).alloc 168427524 = none := by
  refine ⟨by decide, ⟨by decide, by decide, by decide⟩, by decide⟩

set_option maxRecDepth 100000 in
/-- with the check (regenerated facts) the same history - fault on the ConfigurePool delete included - keeps the address -/
example : allAssumed facts (init conf3) reloadDeleteFault = true ∧
    (Tbl.get (run facts (init conf3) reloadDeleteFault).alloc 168427524).map (fun r => (r.key, r.uid)) = some (keyOf podA2'', 2) := by
  refine ⟨by decide, by decide⟩

/-- a resync iteration that judges by the snapshot taken before the pod lock (the line `obj.fip = fip` dropped), in the
    code before the whole-key check -/
def factsSnapshot : Facts := { Facts.good with resyncRechecks := false, wholeKeyCheck := false }

/-- resync snapshots the address owned by the first incarnation; before the pass reaches it the delete event is handled
    and the second incarnation is bound to the same address; then the iteration runs -/
def interleaved : List Move := [
  .scale .sts "ns1" "a" 2,
  .createPod "ns1" "a-0" .sts "a" "" 0 [] true,
  .listerSync true true,
  .filter "ns1" "a-0" ["n1"] {} 0,
  .bind "ns1" "a-0" 1 "n1" { pick := some 168427522 } 0 0,
  .resyncSnap,
  .deletePod "ns1" "a-0",
  .deliver 0 0 0,
  .createPod "ns1" "a-0" .sts "a" "" 0 [] true,
  .listerSync true true,
  .filter "ns1" "a-0" ["n1"] {} 0,
  .bind "ns1" "a-0" 2 "n1" { pick := some 168427522 } 0 0,
  .resyncRec 168427522 0 0 ]

set_option maxRecDepth 100000 in
/-- The interleaving the atomic `resync` move could not express: WITHOUT the re-read record (and without the later
    whole-key check) the iteration judges the live pod against the old uid and releases its address.  With the
    whole-key check of the current code the same change is masked (`keyOwnedByRunningPod` finds the live pod's record
    under the key - second conjunct), which is why a seeded removal of `obj.fip = fip` has no failing input today. -/
theorem interleaved_resync_counter :
    (allAssumed factsSnapshot (init conf1) interleaved = true ∧
      LiveBound (run factsSnapshot (init conf1) interleaved).pods podA2 ∧
      Tbl.get (run factsSnapshot (init conf1) interleaved).alloc 168427522 = none) ∧
    (Tbl.get (run { Facts.good with resyncRechecks := false } (init conf1) interleaved).alloc 168427522).map (·.uid) = some 2 := by
  refine ⟨⟨by decide, ⟨by decide, by decide, by decide⟩, by decide⟩, by decide⟩

/-! ### what Bind does with each answer to its Binding call -/

/-- Bind queues a release event only when the Binding call answered NotFound (regenerated from the conditions
    `apierrors.IsNotFound(err1)` around every `p.unreleased <-` in Bind).  The invariant proof covers every answer -
    ok, NotFound, Conflict (uid precondition, or "already assigned" for a repeated bind), any other error, and a Binding
    that was applied although an error came back (`Galaxy.Plugin.bindFinish_good_state`, `BindOutcome`). -/
theorem fact_bind_enqueues_release_only_on_not_found :
    Generated.Plugin.bindEnqueuesReleaseOnlyOnNotFound = true ∧ facts.bindEnqueuesOnlyOnNotFound = true := by decide

/-- a variant of Bind that treats a Conflict answer like NotFound ("the pod was re-created") -/
def factsConflictIsGone : Facts := { Facts.good with bindEnqueuesOnlyOnNotFound := false }

/-- the first Binding is applied but its response is lost (the retries are answered "already assigned", Bind returns an
    error); the scheduler repeats the bind; the queued events are delivered (corpus/C04/repeated-bind.ops) -/
def repeatedBind : List Move := [
  .scale .sts "ns1" "a" 1,
  .createPod "ns1" "a-0" .sts "a" "" 0 [] true,
  .listerSync true true,
  .filter "ns1" "a-0" ["n1"] {} 0,
  .bind "ns1" "a-0" 1 "n1" { pick := some 168427522, answer := .lost } 0 0,
  .bind "ns1" "a-0" 1 "n1" {} 0 0,
  .deliver 0 0 0]

def podA1 : Pod := { ns := "ns1", name := "a-0", uid := 1, kind := .sts, app := "a", pool := "", policy := 0, ranges := [], wants := true, phase := .pending, node := "n1", handed := [⟨168427522, 24, 168427521, 0⟩] }

set_option maxRecDepth 100000 in
/-- With a Bind that also queues the release event on a Conflict answer the statement fails: the pod is alive and bound
    (the lost Binding WAS applied), the event carries its own uid, so unbind's UID guard lets it pass and the live pod's
    address is released.  With the current code the same history keeps the address (second conjunct). -/
theorem repeated_bind_counter :
    (allAssumed factsConflictIsGone (init conf1) repeatedBind = true ∧
      LiveBound (run factsConflictIsGone (init conf1) repeatedBind).pods podA1 ∧
      Tbl.get (run factsConflictIsGone (init conf1) repeatedBind).alloc 168427522 = none) ∧
    (LiveBound (run facts (init conf1) repeatedBind).pods podA1 ∧
      (Tbl.get (run facts (init conf1) repeatedBind).alloc 168427522).map (·.uid) = some 1) := by
  refine ⟨⟨by decide, ⟨by decide, by decide, by decide⟩, by decide⟩, ⟨by decide, by decide, by decide⟩, by decide⟩

/-! ### a half cleared multi-address key converges -/

/-- `keyOwnedByRunningPod` skips the records of the key that carry no uid (regenerated from the helper's loop): such a
    record is reserved for the key but bound to no pod.  For safety nothing changes - the whole-key check is only ever
    needed for a record with ANOTHER NON-EMPTY uid, a live bound pod's records carry its non-empty uid
    (`keyOwnedLoop_live`) - but without the skip a record without uid is judged by the pod's name alone. -/
theorem fact_key_owned_skips_empty_uid :
    Generated.Plugin.keyOwnedSkipsEmptyUid = true ∧ facts.keyOwnedSkipsEmptyUid = true := by decide

def poolHC : Pool := { nodeSubnets := [⟨168362240, 24⟩], ranges := [(168427522, 168427523)], gateway := 168427521, bits := 24, vlan := 0 }
def confHC : Conf := { pools := [poolHC], nodes := [("n1", 168362245)], provider := false }

/-- a pod with two addresses is deleted; unbind clears the uid of one record and fails on the other (a store fault),
    the event is lost; the pod is re-created; ONE resync pass; Filter and Bind of the new pod
    (corpus/C04/half-cleared-key.ops) -/
def halfCleared : List Move := [
  .scale .sts "ns1" "a" 1,
  .createPod "ns1" "a-0" .sts "a" "" 2 [[(168427522, 168427522)], [(168427523, 168427523)]] true,
  .listerSync true true,
  .filter "ns1" "a-0" ["n1"] {} 0,
  .bind "ns1" "a-0" 1 "n1" {} 0 0,
  .deletePod "ns1" "a-0",
  .listerSync true true,
  .deliver 0 3 0,
  .dropEvent 0,
  .createPod "ns1" "a-0" .sts "a" "" 2 [[(168427522, 168427522)], [(168427523, 168427523)]] true,
  .listerSync true true,
  .resync [168427522] 0 0,
  .filter "ns1" "a-0" ["n1"] {} 0,
  .bind "ns1" "a-0" 2 "n1" {} 0 0]

/-- a `keyOwnedByRunningPod` that judges a record without uid by the pod's name -/
def factsEmptyUidOwns : Facts := { Facts.good with keyOwnedSkipsEmptyUid := false }

set_option maxRecDepth 100000 in
/-- After the half cleared state (one record of the key without uid, the other still carrying the gone pod's uid) ONE
    fault-free resync pass clears the stale record although a re-created pod of the same name exists, and the new pod is
    bound with both addresses. -/
theorem half_cleared_key_converges :
    allAssumed facts (init confHC) halfCleared = true ∧
    -- the half cleared state, before the resync pass
    ((Tbl.get (run facts (init confHC) (halfCleared.take 11)).alloc 168427522).map (·.uid) = some 1 ∧
     (Tbl.get (run facts (init confHC) (halfCleared.take 11)).alloc 168427523).map (·.uid) = some 0) ∧
    -- after it the stale record is cleared ...
    (Tbl.get (run facts (init confHC) (halfCleared.take 12)).alloc 168427522).map (·.uid) = some 0 ∧
    -- ... and the re-created pod is bound with both addresses
    ((run facts (init confHC) halfCleared).pods.get ("ns1", "a-0")).map (·.ips) = some [168427522, 168427523] := by
  refine ⟨by decide, ⟨by decide, by decide⟩, by decide, by decide⟩

set_option maxRecDepth 100000 in
/-- Without the skip (the code of 5949e71) the record without uid makes the re-created pod the "running owner" of its
    own key: resync skips the stale record - in this pass and in every later one, the state does not change - and the
    new pod's Bind keeps answering "waiting for delete event". -/
theorem half_cleared_key_converges_counter :
    (Tbl.get (run factsEmptyUidOwns (init confHC) (halfCleared.take 12)).alloc 168427522).map (·.uid) = some 1 ∧
    (run factsEmptyUidOwns (init confHC) (halfCleared.take 12 ++ [.resync [168427522] 0 0])).alloc =
      (run factsEmptyUidOwns (init confHC) (halfCleared.take 12)).alloc ∧
    ((run factsEmptyUidOwns (init confHC) halfCleared).pods.get ("ns1", "a-0")).map (·.ips) = some [] ∧
    (step factsEmptyUidOwns (run factsEmptyUidOwns (init confHC) (halfCleared.take 13)) (.bind "ns1" "a-0" 2 "n1" {} 0 0)).2.res
      = .err "waiting-for-delete" := by
  refine ⟨by decide, by decide, by decide, by decide⟩

/-! ### the daemon's start order -/

/-- Hypotheses of the model's faithfulness, regenerated from pkg/ipam/server/server.go (see
    `Galaxy.Plugin.fact_server_start_order`): the allocation cache is rebuilt from the store only once the process may
    act (after the lease is held) - the model's `restart` is exactly that, a standby never serves with a cache built
    earlier -, the plugin is constructed before the informers start - the administrator's reservation events are
    delivered -, and the API's release / pool-lock functions are the plugin's own. -/
theorem fact_server_start_order :
    Generated.Plugin.initRunsAfterLeadershipAcquired = true ∧ Generated.Plugin.informersStartAfterPluginConstructed = true ∧
      Generated.Plugin.releaseFuncIsPluginRelease = true ∧ Generated.Plugin.lockPoolFuncIsPluginLockDpPool = true := by decide

end Galaxy.Props.C04
