/-
  C03 - IPs are released exactly when the release policy says so.

  Model: `Galaxy.Plugin` (M4-core, `Galaxy/Model/Plugin.lean`, what `gxdrv_plugin` executes and the harness compares
  with the real plugin step by step) + the side file `Galaxy/Model/PluginC03.lean`:
    `DIn`        the inputs of a release decision (key kind, policy, app exists, replicas, pod index, #IPs under prefix)
    `codeAction` the decision of unbindDpPod / unbindNoneDpPod / shouldRelease / supportReserveIPPolicy, written over the
                 comparison expressions REGENERATED from /repo on this run (`Galaxy.Generated.C03`)
    `docAction`  the documented policy (doc/float-ip.md + the property text), independent of the code's control flow
    `exec`       carrying a decision out (releaseIP / reserveIP own key / reserveIP prefix / nothing)
    `CRs`        scalable custom resources (the plugin model has none: `CRs.none`).

  FULL STATEMENT (property text) and what is proved:
   1. decision: default → release; immutable → keep iff app exists ∧ index < replicas (deployments: iff the app holds no
      more IPs than replicas); never / named pool → keep.  PROVED for all inputs (`unbind_decision_matches_doc`), and
      the model's event path and resync path are proved to carry out exactly this decision
      (`unbind_event_runs_documented_decision`, `resync_runs_documented_decision_with_stored_policy`).
   2. "Once pending pod events have been handled and one resync pass has run, no IP stays assigned to a pod that no longer
      exists unless its policy reserves it": PROVED at full strength for every history (`quiescent_no_orphan`); the
      event queue need not even be empty - lost events are covered because nothing is assumed about deliveries.
   3. the stored policy survives every reserve / re-key, in memory and in the store (`stored_policy_*`).
   4. the deployment clause "kept only while the app holds no more IPs than replicas" holds only AT DECISION TIME
      (`deployment_ips_within_replicas_partial`): addresses re-keyed to the app prefix `dp_<ns>_<app>_` carry no pod
      name, the resync checklist skips them (`fact_resync_skips_prefix_keys`) and nothing re-evaluates them after the
      deployment is deleted or scaled down - `deployment_ips_within_replicas_counter` (DESIGN §7 D12; reproduced on
      the real code by corpus/C03/d12.ops, known finding dp-prefix-ip-never-reevaluated).
-/
import Galaxy.Lemmas.C03D12

namespace Galaxy.Props.C03
open Galaxy Galaxy.Plugin Galaxy.Plugin.C03

/-! ### facts regenerated from /repo on this run (tools/factgen/cmd/c03) -/

/-- The guard / re-read shape of the plugin the model runs with is the one the proofs are about. -/
theorem fact_plugin_guards : Galaxy.Plugin.facts = Facts.good := by decide

/-- `shouldRelease`: an immutable statefulset / custom-resource pod is released when `replicas < index+1` - operator and
    operand order as in the source. -/
theorem fact_should_release_comparison (replicas index : Nat) :
    Generated.C03.shouldReleaseScaledDown replicas index = decide (replicas < index + 1) := gen_scaledDown replicas index

/-- `unbindDpPod` (immutable): `replicas == 0` releases at once, `len(fips) > replicas` releases the exceeding part. -/
theorem fact_deployment_comparisons (nFips replicas : Nat) :
    Generated.C03.dpNoReplicas replicas = decide (replicas = 0) ∧
    Generated.C03.dpExceeds nFips replicas = decide (nFips > replicas) :=
  ⟨gen_dpNoReplicas replicas, gen_dpExceeds nFips replicas⟩

/-- The policy enum (0 default, 1 immutable, 2 never), the annotation names and `ConvertReleasePolicy`. -/
theorem fact_policy_enum_and_annotations :
    Generated.C03.releasePolicyPodDelete = 0 ∧ Generated.C03.releasePolicyImmutable = 1 ∧
    Generated.C03.releasePolicyNever = 2 ∧
    Generated.C03.releasePolicyAnnotation = "k8s.v1.cni.galaxy.io/release-policy" ∧
    Generated.C03.ipPoolAnnotation = "tke.cloud.tencent.com/eni-ip-pool" ∧
    Generated.C03.convertTable = [("never", 2), ("immutable", 1)] ∧ Generated.C03.convertDefault = 0 := by decide

/-- "for every pod using a named IP pool": `parseReleasePolicy` answers never for a non-empty pool annotation before it
    looks at the release-policy annotation (the model's `policyOf`). -/
theorem fact_pool_annotation_forces_never : Generated.C03.poolAnnotationForcesNever = true := by decide

set_option maxRecDepth 100000 in
/-- The decision lists of `unbindDpPod`, `unbindNoneDpPod`, `supportReserveIPPolicy` and `shouldRelease` - taken from the
    CANONICAL form of the functions (switch = if-chain, else after a returning branch dropped, helpers inlined, locals
    inlined, names by position; harmless/NORMALISE.md) - are the ones `codeAction` / `supported` transcribe.  The list
    of `unbindDpPod` also fixes where the pool lock and the count sit: lock, then `ByPrefix`, then the decision. -/
theorem fact_decision_branch_tables :
    Generated.C03.unbindDpTable =
      [("policy == constant.ReleasePolicyPodDelete", "release"),
       ("policy == constant.ReleasePolicyNever", "[keyObj.KeyInDB != keyObj.PoolPrefix() -> reserve-prefix] nil"),
       ("let", "replicas, err := p.getReplicasOfDeployment(keyObj)"),
       ("err != nil", "[!metaErrs.IsNotFound(err) -> error]"),
       ("<no-replicas test>", "release"),
       ("defer", "p.LockDpPool(keyObj.PoolPrefix())()"),
       ("let", "fips, err := p.ipam.ByPrefix(keyObj.PoolPrefix())"),
       ("err != nil", "error"),
       ("<exceeds test>", "release"),
       ("keyObj.KeyInDB != keyObj.PoolPrefix()", "reserve-prefix"),
       ("otherwise", "nil")] ∧
    Generated.C03.unbindNoneDpTable =
      [("policy == constant.ReleasePolicyPodDelete || p.supportReserveIPPolicy(keyObj, policy) != nil", "release"),
       ("policy == constant.ReleasePolicyNever", "reserve-own"),
       ("policy == constant.ReleasePolicyImmutable",
        "[let appExist, replicas, err := p.checkAppAndReplicas(keyObj)] [err != nil -> error] [let shouldRelease, reason, err := p.shouldRelease(keyObj, appExist, replicas)] [err != nil -> error] [shouldRelease -> release] reserve-own"),
       ("otherwise", "nil")] ∧
    Generated.C03.supportReserveTable =
      [("obj.Deployment() || obj.StatefulSet()", "nil"),
       ("let", "_, err := parsePodIndex(obj.PodName)"),
       ("err != nil", "error"),
       ("policy == constant.ReleasePolicyNever", "nil"),
       ("let", "gvr := p.crdKey.GetGroupVersionResource(obj.AppTypePrefix)"),
       ("gvr == nil", "error"),
       ("otherwise", "nil")] ∧
    Generated.C03.shouldReleaseTable =
      [("!parentAppExist", "true"),
       ("let", "index, err := parsePodIndex(keyObj.KeyInDB)"),
       ("err != nil", "error"),
       ("<scaled-down test>", "true"),
       ("otherwise", "false")] := by decide

/-- `getStsReplicas`, `checkAppAndReplicas`, `getReplicasOfDeployment` (unknown deployment = 0 replicas) and
    `getDpReplicas` have the shape `dinOf` / `checkApp` transcribe. -/
theorem fact_app_lookup_shapes :
    Generated.C03.stsReplicasShape = true ∧
    Generated.C03.checkAppAndReplicasShape = true ∧ Generated.C03.dpMissingMeansZeroReplicas = true ∧
    Generated.C03.dpReplicasShape = true := by decide

/-- Lock scope: in `unbindDpPod` the `ByPrefix(prefixKey)` count AND the release / reserve decision lie inside the
    `LockDpPool(prefixKey)` scope (two unbinds of one deployment cannot both count before either decides - the forced
    two-goroutine schedule of harness/cmd/c03 checks the same on the real code). -/
theorem fact_unbind_dp_decides_under_pool_lock : Generated.C03.unbindDpCountAndDecisionUnderPoolLock = true := by decide

/-- `ReserveIP` copies the STORED policy into `attr` before it builds the persisted clone and before it updates the
    cached record; both are written through `Assign`, which takes the policy from `attr`; the plugin's `reserveIP`
    passes an empty `Attr` (the model's `reserveLoop`: `{ a with policy := r.policy }`). -/
theorem fact_reserve_copies_stored_policy :
    Generated.C03.reserveCopiesStoredPolicy = true ∧ Generated.C03.assignWritesPolicyFromAttr = true ∧
    Generated.C03.reserveShape = true ∧ Generated.C03.reserveIPPassesEmptyAttr = true ∧
    ∀ k a b c : Bool, Generated.C03.reserveTouches k a b c = (k && !(a && b && c)) := by
  refine ⟨by decide, by decide, by decide, by decide, fun k a b c => ?_⟩
  unfold Generated.C03.reserveTouches
  cases k <;> cases a <;> cases b <;> cases c <;> rfl

/-- Replicas of a scalable custom resource come out of the crd cache's lister, and `getLister` hands a lister out only
    after the informer's initial LIST has been stored: flag read, informer start, `WaitForCacheSync` and flag write sit
    in ONE `c.lock` scope that lasts to the end of the function.  This is what justifies modelling `GetReplicas` for
    custom-resource kinds as an answer from API truth (`CRs.replicas`, no "empty before sync" state); the forced
    two-goroutine schedule `cr-cache-first-use` of harness/cmd/c03 checks the same on the real cache. -/
theorem fact_crd_cache_synced_before_visible :
    Generated.C03.crdListerHandedOutOnlyAfterSync = true ∧ Generated.C03.crdGetReplicasReadsSyncedLister = true := by decide

/-- The resync closure decides with the policy of the record it has just re-read (`obj.fip = fip`, then
    `constant.ReleasePolicy(obj.fip.Policy)`), the event path with the policy parsed from the event's pod. -/
theorem fact_resync_uses_stored_policy :
    Generated.C03.resyncUsesRereadRecordAndStoredPolicy = true ∧ Generated.C03.unbindUsesPodPolicy = true := by decide

/-- `fetchChecklist` skips keys without pod name (the root of the deployment deviation below) and never-policy records
    already cleared - exactly the model's `inChecklist`. -/
theorem fact_resync_skips_prefix_keys :
    Generated.C03.resyncSkipsKeysWithoutPodName = true ∧
    ∀ (u n d : Bool) (p : Nat), Generated.C03.resyncSkipsReserved u n d p = (u && n && !d && p == 2) := by
  refine ⟨by decide, fun u n d p => ?_⟩
  unfold Generated.C03.resyncSkipsReserved
  -- whatever the order / nesting of the conjuncts in the source
  cases u <;> cases n <;> cases d <;> simp [gen_policies.2.2]

/-! ### 1. the decision table -/

/-- "With the default policy an IP returns to the free pool once its pod is deleted or has finished; with immutable it
    is kept until the owning workload is deleted or scaled below that pod (for deployments: while the app holds no more
    IPs than replicas); with never, and for every pod using a named IP pool, it is kept until an administrator
    releases it": for EVERY input - key kind (statefulset, deployment, deployment in a named pool, scalable custom
    resource, other custom resource / bare pod, with and without numeric suffix) × policy × (app exists, replicas, pod
    index, number of IPs under the app prefix) - the action the code takes (release | reserve under the own key | reserve
    under the app / pool prefix | keep) is the documented one.  `DIn.WF` = what the callers guarantee: policy ∈ {0,1,2};
    an unknown deployment reads as 0 replicas and the address under decision is counted under its own prefix; a
    statefulset / scalable-CR pod carries its ordinal in the key. -/
theorem unbind_decision_matches_doc (i : DIn) (hwf : i.WF) : codeAction i = docAction i := decision_table i hwf

/-- The event path (`unbind` for a delete / finish event, what the move `deliver` runs): when the UID guard passes and
    the provider unassigns succeed, the model carries out the documented action for the inputs read from the state,
    with the policy of the EVENT's pod (`policyOf`: pool annotation forces never). -/
theorem unbind_event_runs_documented_decision (s : State) (pod : Pod) (hg : guardPasses s pod)
    (hprov : (unassignAll s (ipsOfKey s (keyOf pod))).2 = true)
    (hwf : (dinOf CRs.none (unassignAll s (ipsOfKey s (keyOf pod))).1 (keyOf pod) (policyOf pod)).WF) :
    unbind facts s pod =
      exec (unassignAll s (ipsOfKey s (keyOf pod))).1 (keyOf pod)
        (docAction (dinOf CRs.none (unassignAll s (ipsOfKey s (keyOf pod))).1 (keyOf pod) (policyOf pod))) := by
  rw [fact_plugin_guards, unbind_eq s pod hg hprov, decision_table _ hwf]

/-- The resync path: for a record that is re-read under the same key, whose pod is found not running (nor any pod that
    holds another record of the key) and whose provider unassign (if any) succeeds, the closure carries out the
    documented action with the STORED policy `r.policy` of the re-read record (not the policy of any pod object). -/
theorem resync_runs_documented_decision_with_stored_policy (t : State) (ip : IP) (r0 r : Rec)
    (hr : Tbl.get t.alloc ip = some r) (hk : r.key = r0.key)
    (hrun : (podRunning facts t r0.key.pod r0.key.ns r.uid).2 = false)
    (hown : (keyOwnedByRunningPod facts (podRunning facts t r0.key.pod r0.key.ns r.uid).1 r0.key r.uid).2 = false)
    (hprov : (provUnassign (keyOwnedByRunningPod facts (podRunning facts t r0.key.pod r0.key.ns r.uid).1 r0.key r.uid).1
      r.node ip).2 = true)
    (hwf : (dinOf CRs.none (resyncPre t ip r0.key r) r0.key r.policy).WF) :
    resyncOne facts t ip r0 =
      (exec (resyncPre t ip r0.key r) r0.key (docAction (dinOf CRs.none (resyncPre t ip r0.key r) r0.key r.policy))).1 := by
  rw [fact_plugin_guards] at hrun hown hprov ⊢
  rw [resyncOne_eq t ip r0 r hr hk hrun hown hprov, decision_table _ hwf]

/-- The extension by scalable custom resources used in the decision table is conservative: without custom resources
    (the cluster of the plugin model) `unbindOtherX` / `supportReserveX` ARE the functions `gxdrv_plugin` executes, and
    both decision functions carry out `codeAction`. -/
theorem decision_functions_are_the_models (cr : CRs) (s : State) (k : Key) (policy : Nat) :
    unbindOtherX CRs.none s k policy = unbindOther s k policy ∧
    supportReserveX CRs.none k policy = supportReserve k policy ∧
    decideX cr s k policy = exec s k (codeAction (dinOf cr s k policy)) :=
  ⟨unbindOtherX_none s k policy, supportReserveX_none k policy, decideX_eq_exec cr s k policy⟩

/-! ### 2. quiescence -/

/-- "Once pending pod events have been handled and one resync pass has run, no IP stays assigned to a pod that no longer
    exists unless its policy reserves it."  For EVERY finite history `ms` of moves from `init c` (any choices, fault
    indices, stale listers, delayed or DROPPED events, reloads, restarts) that ends with the listers in sync, and every admissible processing order of one fault-free
    resync pass: every record that still names a pod (`namesPod`) which does not exist or has finished (`podGone`) is
    one the documented policy keeps when evaluated with the record's STORED policy, or its stored policy is never
    (`policyReserves`).  The event queue is not required to be empty: lost events are covered. -/
theorem quiescent_no_orphan (c : Conf) (ms : List Move) (hsync : InSync (run facts (init c) ms)) (order : List IP)
    (hadm : (step facts (run facts (init c) ms) (.resync order 0 0)).2.res = .ok) :
    ∀ ip r, Tbl.get (step facts (run facts (init c) ms) (.resync order 0 0)).1.alloc ip = some r →
      namesPod r.key → podGone (run facts (init c) ms) r.key →
      policyReserves (step facts (run facts (init c) ms) (.resync order 0 0)).1 r := by
  rw [fact_plugin_guards] at hsync hadm ⊢
  intro ip r hg hn hgone
  have hc := coh_withFaults _ 0 0 (coh_run ms (init c) (coh_init c))
  have := quiescent_core (withFaults (run Facts.good (init c) ms) 0 0) order hc rfl rfl hsync.1 hadm ip r hg hn hgone
  unfold policyReserves
  rcases this with h | h
  · exact Or.inl ((docAction_ne_release_iff _).mpr h)
  · exact Or.inr (by rw [gen_policies.2.2]; exact h)

/-- In particular (same hypotheses): no address of a DEFAULT-policy record stays assigned to a vanished pod, and an
    IMMUTABLE one only while its workload exists and (statefulset) its index is below the replicas. -/
theorem quiescent_default_released (c : Conf) (ms : List Move) (hsync : InSync (run facts (init c) ms)) (order : List IP)
    (hadm : (step facts (run facts (init c) ms) (.resync order 0 0)).2.res = .ok) :
    ∀ ip r, Tbl.get (step facts (run facts (init c) ms) (.resync order 0 0)).1.alloc ip = some r →
      namesPod r.key → podGone (run facts (init c) ms) r.key → r.policy ≠ 0 := by
  intro ip r hg hn hgone h0
  rcases quiescent_no_orphan c ms hsync order hadm ip r hg hn hgone with h | h
  · apply h
    unfold docAction docKeeps
    simp [h0]
  · rw [gen_policies.2.2] at h; omega

/-! ### 3. the stored policy -/

/-- `ReserveIP` - whatever keys and attributes, whichever store call fails - leaves every record's policy as it was,
    in MEMORY ... -/
theorem stored_policy_preserved_by_reserve_memory (s : State) (k newK : Key) (a : Attr) (ip : IP) (r' : Rec)
    (h : Tbl.get (reserve s k newK a).1.alloc ip = some r') : ∃ r, Tbl.get s.alloc ip = some r ∧ r'.policy = r.policy :=
  reserve_policy_mem s k newK a ip r' h

/-- ... and in the STORE (the persisted clone carries the policy of the cached record, which agrees with the stored
    object in every reachable state, `reachable_coherent`). -/
theorem stored_policy_preserved_by_reserve_store (s : State) (k newK : Key) (a : Attr) (hc : Coherent s) (ip : IP) (r' : Rec)
    (h : Tbl.get (reserve s k newK a).1.store ip = some r') : ∃ r, Tbl.get s.store ip = some r ∧ r'.policy = r.policy :=
  reserve_policy_store s k newK a hc ip r' h

/-- memory and store agree (key, policy, node, uid per address) after every history - the reason the decision taken at
    resync from the cached record is a decision about the STORED policy -/
theorem reachable_coherent (c : Conf) (ms : List Move) :
    Coherent (run facts (init c) ms) := by
  rw [fact_plugin_guards]; exact coh_run ms (init c) (coh_init c)

/-- Delivering an event and running a resync pass (any order, any fault plan) never change the policy of a record that
    survives them - in memory and in the store. -/
theorem stored_policy_preserved_by_unbind_and_resync (s : State) (hc : Coherent s) :
    (∀ i ip r', Tbl.get (deliver facts s i).1.alloc ip = some r' → ∃ r, Tbl.get s.alloc ip = some r ∧ r'.policy = r.policy) ∧
    (∀ order ip r', Tbl.get (resync facts s order).1.alloc ip = some r' →
      ∃ r, Tbl.get s.alloc ip = some r ∧ r'.policy = r.policy) ∧
    (∀ order ip r', Tbl.get (resync facts s order).1.store ip = some r' →
      ∃ r, Tbl.get s.store ip = some r ∧ r'.policy = r.policy) := by
  rw [fact_plugin_guards]
  exact ⟨fun i => deliver_shr s i hc, fun order => (resync_policy s order hc).1, fun order => (resync_policy s order hc).2⟩

/-! ### 4. the deployment clause -/

/-- FULL STATEMENT (false, see the counter theorem): after quiescence and one resync pass every address of an immutable
    deployment - keyed to a pod OR held under the app prefix - satisfies "app exists ∧ #IPs under the prefix ≤ replicas".
    PROVED PART: the clause holds whenever the code takes the decision to keep an address in reserve: at that moment the
    deployment exists with ≥ 1 replica and holds no more addresses than replicas.  What is missing: nothing re-takes the
    decision for addresses already re-keyed to `dp_<ns>_<app>_`. -/
theorem deployment_ips_within_replicas_partial (cr : CRs) (s : State) (k : Key) (hk : k.isDp = true)
    (h : codeAction (dinOf cr s k 1) = .reservePrefix) :
    (Tbl.get s.vApps (Kind.dp, k.ns, k.app)).isSome = true ∧
      countPrefix s k.poolPrefix ≤ (Tbl.get s.vApps (Kind.dp, k.ns, k.app)).getD 0 :=
  reservePrefix_within_replicas cr s k hk h

/-- the configuration and the history D12 (DESIGN §7): `conf2` = one pool 10.10.0.2-3 routable from 10.9.1.0/24, node n1;
    `d12` = scale dp d to 1; create pod d-x1 (immutable); sync; filter; bind; delete pod; DELIVER its event (the
    deployment still exists: the address is re-keyed to `dp_ns1_d_`); delete the deployment; sync; resync; resync -/
example : D12.d12 = [
  .scale .dp "ns1" "d" 1,
  .createPod "ns1" "d-x1" .dp "d" "" 1 [] true,
  .listerSync true true,
  .filter "ns1" "d-x1" ["n1"] {} 0,
  .bind "ns1" "d-x1" 1 "n1" { pick := some 168427522 } 0 0,
  .deletePod "ns1" "d-x1",
  .deliver 0 0 0,
  .deleteApp .dp "ns1" "d",
  .listerSync true true,
  .resync [] 0 0,
  .resync [] 0 0 ] := rfl

set_option maxRecDepth 100000 in
/-- The deployment clause fails on the model (and on the real code: corpus/C03/d12.ops, known finding
    dp-prefix-ip-never-reevaluated): after D12 the queue is empty, the listers are in sync, two resync passes ran with
    an admissible (empty) checklist - and 10.10.0.2 is still held under `dp_ns1_d_` with stored policy immutable although
    the deployment is gone, i.e. the documented action for it is `release`. -/
theorem deployment_ips_within_replicas_counter :
    (run facts (init D12.conf2) D12.d12).events = [] ∧
    (run facts (init D12.conf2) D12.d12).vPods = (run facts (init D12.conf2) D12.d12).pods ∧
    (run facts (init D12.conf2) D12.d12).vApps = (run facts (init D12.conf2) D12.d12).apps ∧
    (Tbl.get (run facts (init D12.conf2) D12.d12).alloc 168427522).map (fun r => (r.key, r.policy)) =
      some (D12.dpPrefixKey, 1) ∧
    docAction (dinOf CRs.none (run facts (init D12.conf2) D12.d12) D12.dpPrefixKey 1) = .release := by
  rw [fact_plugin_guards, D12.run_d12]
  refine ⟨by decide, by decide, by decide, by decide, by decide⟩

/-! ### non-vacuity -/

/-- the decision table's side conditions are satisfiable in every row kind (fields: isDp isSts pooled numeric
    scalable policy appExists replicas index nPrefix keyIsPrefix) -/
example : (DIn.WF ⟨false, true, false, true, false, 1, true, 2, some 1, 0, false⟩) ∧
    (DIn.WF ⟨true, false, true, false, false, 2, true, 1, none, 3, false⟩) ∧
    (DIn.WF ⟨false, false, false, true, true, 1, false, 0, some 0, 0, false⟩) := by decide

/-- ... and the table is not constant: the same statefulset pod is kept at replicas 2 and released at replicas 1 -/
example : docAction ⟨false, true, false, true, false, 1, true, 2, some 1, 0, false⟩ = .reserveOwn ∧
    docAction ⟨false, true, false, true, false, 1, true, 1, some 1, 0, false⟩ = .release := by decide

/-- a history with a LOST delete event of a default-policy statefulset pod: before the resync pass the address is
    assigned to the vanished pod, the hypotheses of `quiescent_no_orphan` hold, and the pass frees it -/
def lost : List Move := [
  .scale .sts "ns1" "a" 2,
  .createPod "ns1" "a-0" .sts "a" "" 0 [] true,
  .listerSync true true,
  .filter "ns1" "a-0" ["n1"] {} 0,
  .bind "ns1" "a-0" 1 "n1" { pick := some 168427522 } 0 0,
  .deletePod "ns1" "a-0",
  .dropEvent 0,
  .listerSync true true ]

set_option maxRecDepth 100000 in
example : (run facts (init D12.conf2) lost).vPods = (run facts (init D12.conf2) lost).pods ∧
    (run facts (init D12.conf2) lost).vApps = (run facts (init D12.conf2) lost).apps ∧
    (Tbl.get (run facts (init D12.conf2) lost).alloc 168427522).isSome = true ∧
    (step facts (run facts (init D12.conf2) lost) (.resync [168427522] 0 0)).2.res = .ok ∧
    Tbl.get (step facts (run facts (init D12.conf2) lost) (.resync [168427522] 0 0)).1.alloc 168427522 = none := by
  refine ⟨by decide, by decide, by decide, by decide, by decide⟩

end Galaxy.Props.C03
