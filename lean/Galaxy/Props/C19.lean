/-
  C19 — shared state is free of data races under concurrent requests.

  "Concurrent scheduler requests, pod events, resync passes, API calls, configuration reloads and
   metric scrapes in galaxy-ipam, and concurrent CNI requests and policy events in galaxy, never read
   and write the same memory without synchronisation; in particular the process never dies with a
   concurrent map access."   Quantifier: all thread interleavings of any mix of the entry points.

  Shape of the argument
    (1) `disciplined_raceFree`  — generic, once and for all: in the interleaving semantics of mutexes and
        RW-mutexes a program whose every thread obeys the lock discipline has no reachable data race,
        for every number of threads, every program and every schedule.
    (2) the access table regenerated from /repo on every run (`Galaxy.Generated.Lockset.table`: every
        syntactic read/write of the tracked shared fields, with the locks syntactically held, call sites,
        assumed entry lock sets of helper functions) is checked by `decide` over the WHOLE table:
        `helpers_called_with_lock_held`, `init_phase_closed`, `access_table_disciplined`, `lock_balance`.
    (3) `shared_fields_raceFree` composes (1) and (2): any set of threads whose accesses are instances of
        table entries has no reachable race on any tracked field.
  Trusted: the syntactic extraction (tools/factgen/cmd/lockset) — see its header for the blind spots.
-/
import Galaxy.Model.Lockset
import Galaxy.Lemmas.Lockset
import Galaxy.Generated.Lockset

namespace Galaxy.Props.C19
open Galaxy.Lockset
open Galaxy.Generated.Lockset

/-- C19, "never read and write the same memory without synchronisation … for all thread
    interleavings": for every guard map, every number of threads, every program and every schedule, if each
    thread writes a location only while holding its guard exclusively and reads it only while holding
    the guard at least shared (locations marked frozen are never written), then no reachable state has two
    different threads about to access the same location with at least one of them writing. -/
theorem disciplined_raceFree (g : Loc → Guard) (ps : List (List Action)) (h : Disciplined g ps)
    (sched : List Nat) (s : State) (hr : run (init ps) sched = some s) : ¬ Race s :=
  inv_no_race (inv_run sched (inv_init h) hr)

/-- the discipline is not vacuous: reader/writer threads of the shape the code uses satisfy it -/
example : Disciplined (fun _ => .lock 0)
    [[.acq 0, .wr 7, .rel 0], [.racq 0, .rd 7, .rrel 0], [.racq 0, .rd 7, .rrel 0]] := by
  intro p hp; simp at hp; rcases hp with rfl | rfl <;> decide

/-- the hypothesis of `disciplined_raceFree` is needed: one writer that skips the lock (the shape of the
    pre-fix `networkInfo.Conf["prevResult"] = …` write on the shared netConf map, D5) races with a
    properly locked writer — the race is reached by the empty schedule already. -/
theorem undisciplined_races_counter :
    ¬ Disciplined (fun _ => .lock 0) [[.wr 7], [.acq 0, .wr 7, .rel 0]] ∧
    ∃ sched s, run (init [[.wr 7], [.acq 0, .wr 7, .rel 0]]) sched = some s ∧ Race s := by
  constructor
  · intro h
    have := h [.wr 7] (by simp)
    revert this; decide
  · refine ⟨[1], _, rfl, ?_⟩
    exact ⟨0, 1, _, _, 7, true, true, by decide, rfl, rfl, rfl, rfl, rfl⟩

/-- a reader under the shared lock and a writer under the exclusive lock exclude each other in the
    semantics: after the reader took the lock the writer's `acq` is not enabled (RW-mutex discipline of the primitive) -/
example : step (init [[.racq 0, .rd 7, .rrel 0], [.acq 0, .wr 7, .rel 0]]) 0 ≠ none ∧
    (∀ s, step (init [[.racq 0, .rd 7, .rrel 0], [.acq 0, .wr 7, .rel 0]]) 0 = some s → step s 1 = none) := by
  decide

/-! ### the regenerated access table -/

/-- C19 anchors "guarded by the cache lock": the allocation tables and the pool list of `crdIpam` are
    protected by `crdIpam.cacheLock` in the table's guard map. -/
theorem fact_guard_ipam_tables :
    guardOf table.guards F_floatingip_crdIpam_allocatedFIPs = .lock L_floatingip_crdIpam_cacheLock ∧
    guardOf table.guards F_floatingip_crdIpam_unallocatedFIPs = .lock L_floatingip_crdIpam_cacheLock ∧
    guardOf table.guards F_floatingip_crdIpam_FloatingIPs = .lock L_floatingip_crdIpam_cacheLock ∧
    guardOf table.guards F_floatingip_FloatingIP_Key = .lock L_floatingip_crdIpam_cacheLock := by
  decide

/-- C19 mechanism "mutexes on node-subnet, CRD-key, port and policy caches": the guard map assigns each
    cache its own mutex; the per-network configuration maps are frozen (never written after `Init`). -/
theorem fact_guard_caches :
    guardOf table.guards F_schedulerplugin_FloatingIPPlugin_nodeSubnet =
      .lock L_schedulerplugin_FloatingIPPlugin_nodeSubnetLock ∧
    guardOf table.guards F_schedulerplugin_crdKey_keyToGVR = .lock L_schedulerplugin_crdKey_Mutex ∧
    guardOf table.guards F_crd_crdCache_startedInformers = .lock L_crd_crdCache_lock ∧
    guardOf table.guards F_portmapping_PortMappingHandler_podPortMap = .lock L_portmapping_PortMappingHandler_Mutex ∧
    guardOf table.guards F_policy_PolicyManager_policies = .lock L_policy_PolicyManager_Mutex ∧
    guardOf table.guards F_galaxy_Galaxy_netConf = .frozen ∧
    guardOf table.guards F_galaxy_Galaxy_netConf__ = .frozen := by
  decide

/-- `lastIPConf` is confined to the configuration poller: the only callers of `updateConfigMap` are
    `Init` (before `Run`) and the single `wait.Until` goroutine started by `Run`. -/
theorem fact_configPoller_callers :
    confinedCallers =
      ["schedulerplugin.FloatingIPPlugin.updateConfigMap<-schedulerplugin.FloatingIPPlugin.Init",
       "schedulerplugin.FloatingIPPlugin.updateConfigMap<-schedulerplugin.FloatingIPPlugin.Run$go5"] ∧
    guardOf table.guards F_schedulerplugin_FloatingIPPlugin_lastIPConf =
      .lock L_thread_schedulerplugin_FloatingIPPlugin_configPoller := by
  decide

/-- the designated entry points of the init phase (code that runs before the object is visible to any
    other goroutine); everything else that touches a frozen field must only read it. -/
theorem fact_initRoots :
    initRootNames = ["galaxy.Galaxy.Init", "galaxy.Galaxy.Start", "galaxy.NewGalaxy", "policy.New",
      "policy.PolicyManager.initInformers"] := by
  decide

/-- "helper functions documented as caller-holds-the-lock are checked at all their call sites": the lock
    set assumed on entry of every function is held (at least as strongly) at every one of its call sites,
    and functions that can be called from outside assume nothing. -/
theorem helpers_called_with_lock_held : sitesOk table = true := by
  decide +kernel

/-- init-phase functions are called only from init-phase functions, and the only ones reachable from
    outside are the designated init roots. -/
theorem init_phase_closed : phaseOk table = true := by
  decide +kernel

/-- C19 "static report of table accesses outside the lock": EVERY run-phase access of the regenerated
    table (except the allow-listed known findings) is a write under its guard held exclusively, a read
    under its guard held at least shared, or a read of a frozen field. -/
theorem access_table_disciplined : accessesOk table = true := by
  decide +kernel

/-- the allow list excludes exactly violating accesses: each allow-listed (field, function) pair is a real
    violation of the discipline in the current table (nothing is excluded "just in case"). -/
theorem allow_list_exact :
    table.allow.all (fun p => (violations table).any fun a => a.field == p.1 && a.fn == p.2) = true := by
  decide +kernel

/-- C18/C19 "do not keep a lock held": every Lock/RLock in the analysed packages is released on every
    path to every exit of its function (deferred, or explicitly matched), and no Unlock lacks its Lock. -/
theorem lock_balance : balanced balance = true := by
  decide

/-- C19 "never read and write the same memory without synchronisation", lazily initialised fields: the gRPC client of the
cloud provider (`grpcCloudProvider.client`, dialled on first use while binds / unbinds / resync / releases of DIFFERENT
pods run concurrently under their own per-pod locks) is guarded by its `sync.Once`: in the regenerated table its only
write is inside `init.Do`, and every read comes after a call that went through that `Do` (`connect()` at function
entry), which orders it behind the initialisation.  Same rule for every other field guarded by a Once (minus the
allow-listed known finding). -/
theorem lazy_fields_initialised_once :
    guardOf table.guards F_cloudprovider_grpcCloudProvider_client = .lock L_once_cloudprovider_grpcCloudProvider_init ∧
    lazyLocks.contains L_once_cloudprovider_grpcCloudProvider_init = true ∧
    lazyOk table lazyLocks = true := by
  decide +kernel

/-- Non-vacuity: the table has the write and the reads of the lazily initialised client; a check-then-set without the Once
(read and write with no lock held) is rejected. -/
example : (lazyAccesses table lazyLocks).length ≥ 4 ∧
    ((lazyAccesses table lazyLocks).filter fun a => a.kind == .write).length ≥ 2 ∧
    accessOk table ⟨0, F_cloudprovider_grpcCloudProvider_client, .write, [], ""⟩ = false ∧
    accessOk table ⟨0, F_cloudprovider_grpcCloudProvider_client, .read, [], ""⟩ = false := by
  decide +kernel

/-- C19 "never read and write the same memory without synchronisation", objects of the informer caches: a value obtained
from any `…Lister….Get/List` call or handed to an informer event handler is the ONE object every other goroutine
reads; in the regenerated table of their uses (where obtained, to which same-package function passed — parameter taint
to a fixpoint — and where assigned through) no use is a write: such objects are only read, or copied (`DeepCopy`) first. -/
theorem lister_objects_never_written : cacheNeverWritten cacheUses = true := by
  decide +kernel

/-- Non-vacuity: the table sees the pod / pool / statefulset / deployment / node / policy / namespace listers and the
event handlers; the checker rejects a write. -/
example : cacheUses.length ≥ 40 ∧
    cacheNeverWritten [⟨0, .obtained, "PoolLister", ""⟩, ⟨0, .written, "PoolLister", "p.Size = …"⟩] = false := by
  decide +kernel

/-- the table is not empty / trivial: it contains guarded writes, guarded reads and helper call sites -/
example : numAccesses ≥ 100 ∧ numSites ≥ 100 ∧ (checked table).length ≥ 100 ∧ table.entry.length ≥ 5 := by
  decide +kernel

/-- C19 for the tracked shared fields, all interleavings: take ANY number of threads, each an arbitrary
    sequence of lock operations and accesses such that every access is an instance of a checked table
    entry (same field, same kind, the thread holds at least the locks the table records for it).  Then
    no schedule reaches a state in which two threads are about to access the same field, one writing. -/
theorem shared_fields_raceFree (ps : List (List Action))
    (h : ∀ p ∈ ps, conforms table [] [] p = true)
    (sched : List Nat) (s : State) (hr : run (init ps) sched = some s) : ¬ Race s :=
  disciplined_raceFree (guardOf table.guards) ps
    (fun p hp => ok_of_conforms access_table_disciplined p [] [] (h p hp)) sched s hr

/-- non-vacuity of `shared_fields_raceFree`: an allocator thread (write of `allocatedFIPs` under the
    exclusive cache lock), a lookup thread (read under the shared lock) and a metrics thread conform. -/
example : ∀ p ∈ [[Action.acq L_floatingip_crdIpam_cacheLock, .wr F_floatingip_crdIpam_allocatedFIPs,
                    .wr F_floatingip_crdIpam_unallocatedFIPs, .rel L_floatingip_crdIpam_cacheLock],
                  [.racq L_floatingip_crdIpam_cacheLock, .rd F_floatingip_crdIpam_allocatedFIPs,
                    .rrel L_floatingip_crdIpam_cacheLock],
                  [.racq L_floatingip_crdIpam_cacheLock, .rd F_floatingip_crdIpam_FloatingIPs,
                    .rrel L_floatingip_crdIpam_cacheLock, .rd F_floatingip_FloatingIP_IP]],
    conforms table [] [] p = true := by
  decide +kernel

/-- an unlocked write of the allocation table does NOT conform (the hypothesis has teeth) -/
example : conforms table [] [] [.wr F_floatingip_crdIpam_allocatedFIPs] = false := by
  decide +kernel

end Galaxy.Props.C19
