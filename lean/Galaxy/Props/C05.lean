/-
  C05 — persisted FloatingIPs equal in-memory state; restart and crash safe (IPAM level, model M3).

  "After every completed operation, successful or failed, the in-memory allocation table and the persisted
   FloatingIP objects agree on owner, policy and attributes of every configured IP, so a restarted galaxy-ipam
   reconstructs exactly the state it had.  If the process dies between any two API calls, a restart … leaves no
   leaked IP, no doubly owned IP …"

  `step s op` = the operation `op` (any `crdIpam` mutator, admin move, event delivery, restart) under its fault /
  crash plan, then `restart` if the crash fired, then the watch events the store change causes.  The pod-level half
  of the crash clause ("every existing pod keeps the IP it was bound with", after resync) belongs to model M4.
-/
import Galaxy.Lemmas.IpamC08

namespace Galaxy.Props.C05
open Galaxy Galaxy.Ipam

/-- tie to the code: in every mutator the store call and its `if err != nil { return }` precede the first write to
    `allocatedFIPs` / `unallocatedFIPs` / `Assign` (regenerated from /repo on every run) -/
theorem fact_storeBeforeMemory :
    Generated.Ipam.storeBeforeMemory =
      [("AllocateSpecificIP", true), ("AllocateInSubnet", true), ("AllocateInSubnetWithKey", true), ("ReserveIP", true),
       ("UpdateAttr", true), ("Release", true), ("ReleaseIPs", true), ("AllocateInSubnetsAndIPRange", true),
       ("ConfigurePool", true)] := by decide

/-- tie to the code: every method holds `cacheLock` (write lock for mutators and event handlers, read lock for queries)
    from before its first access to shared state until it returns — so each model function is one atomic action -/
theorem fact_holdsCacheLock :
    Generated.Ipam.holdsCacheLock =
      [("AllocateInSubnet", "Lock"), ("AllocateInSubnetWithKey", "Lock"), ("AllocateInSubnetsAndIPRange", "Lock"),
       ("AllocateSpecificIP", "Lock"), ("ByIP", "RLock"), ("ByKeyAndIPRanges", "RLock"), ("ByKeyword", "RLock"),
       ("ByPrefix", "RLock"), ("ConfigurePool", "Lock"), ("First", "RLock"), ("NodeSubnet", "RLock"),
       ("NodeSubnetsByIPRanges", "RLock"), ("Release", "Lock"), ("ReleaseIPs", "Lock"), ("ReserveIP", "Lock"),
       ("UpdateAttr", "Lock"), ("handleFIPAssign", "Lock"), ("handleFIPUnassign", "Lock")] := by decide

/-- tie to the code: the shapes the model is parameterised by / relies on -/
theorem fact_shapes :
    Generated.Ipam.configurePoolListsUnderLock = true ∧ Generated.Ipam.allocateSpecificAtomic = true ∧
    Generated.Ipam.rollbackOnCreateFailure = true ∧ Generated.Ipam.rollbackCoversAllCreated = true ∧
    Generated.Ipam.memoryUpdatedAfterAllCreates = true ∧ Generated.Ipam.handlersMakeNoStoreCall = true ∧
    Generated.Ipam.updateIsGetThenUpdate = true ∧ Generated.Ipam.walkOverflowSafe = true := by decide

/-- `Agree` holds initially (empty process, empty store). -/
theorem agree_init : Agree init := agree_init'

/-- "After every completed operation, successful or failed, memory and store agree": every move — each of the nine
    mutators with every argument, every admissible resolution of Go's map iteration, every fault plan (any set of
    failing call indices, so in particular every single fault index; partially applied `ReserveIP` / `ReleaseIPs`
    included) and every crash plan, the admin moves, event delivery, restart — preserves `Agree`, given `StepOK`
    (`True` except for the two documented deviations, see the counter theorems). -/
theorem agree_preserved (s : State) (op : Op) (h : Agree s) (hadm : op.admissible s = true) (hok : StepOK s op) :
    Agree (step s op).1 := agree_step h op hadm hok

/-- the same without side condition for every move except event delivery and multi-range allocation -/
theorem agree_preserved_plain (s : State) (op : Op) (h : Agree s) (hadm : op.admissible s = true)
    (hp : op.plain = true) : Agree (step s op).1 := by
  apply agree_step h op hadm
  cases op <;> first | trivial | (simp [Op.plain] at hp)

/-- multi-range allocation under the property's single-fault quantifier: when no admin event is pending (so no create
    can conflict) ANY single failing call index — create or rollback — preserves `Agree` -/
theorem agree_preserved_allocRanges_single_fault (s : State) (key subnet : String) (ranges : List (List Range)) (a : Attr)
    (choice : Option IP) (pl : Plan) (h : Agree s) (hq : s.pending = []) (h1 : pl.fails.length ≤ 1)
    (hadm : (Op.allocRanges key subnet ranges a choice pl).admissible s = true) :
    Agree (step s (.allocRanges key subnet ranges a choice pl)).1 :=
  agree_step h _ hadm (Or.inr ⟨h1, freeUnstored_of_agree h hq⟩)

/-- lifted to every reachable state by induction over the history -/
theorem agree_reachable (s : State) (h : Reach s) : Agree s := agree_reach h

/-- "so a restarted galaxy-ipam reconstructs exactly the state it had": for every address without an undelivered
    admin event the restarted process has the same owner / policy / attributes and the same free status -/
theorem restart_reconstructs (s : State) (h : Agree s) (ip : IP) (hnp : ¬ isPending s ip) :
    optEq ((restart s).alloc.get ip) (s.alloc.get ip) ∧ (ip ∈ (restart s).free ↔ ip ∈ s.free) :=
  restart_reconstructs' h ip hnp

/-- "If the process dies between any two API calls, a restart leaves no leaked IP, no doubly owned IP" (IPAM level):
    for EVERY state, every move and every crash point, the restarted process satisfies the structural invariant
    (memory = store on every configured address, free = configured \ allocated, nothing else allocated; an address
    has one owner because the tables are functions).  No hypothesis on the state before the crash is needed. -/
theorem crash_restart_safe (s : State) (op : Op) (hadm : op.admissible s = true) (hm : MemOK s)
    (hcr : (op.run s).2.err = some .crashed) : Agree (step s op).1 := by
  refine ⟨memOK_step hm op hadm, ?_⟩
  intro ip hc
  have hc' : configured (afterCrash (op.run s)).pools ip = true := hc
  unfold afterCrash at hc'
  rw [if_pos hcr] at hc'
  rcases (agree_restart (op.run s).1).sync ip hc' with ⟨e, he, _⟩ | h1
  · rw [restart_eq] at he; simp at he
  · right
    show optEq ((afterCrash (op.run s)).alloc.get ip) ((afterCrash (op.run s)).store.get ip)
    unfold afterCrash
    rw [if_pos hcr]
    exact h1

/-- whatever the state, a restart establishes `Agree` -/
theorem restart_establishes_agree (s : State) : Agree (restart s) := agree_restart s

/-! ### non-vacuity -/

def pool1 : Pool :=
  { nodeSubnets := [{ str := "10.0.1.0/24", base := 167772416, bits := 24 }], ranges := [{ first := 2, last := 5 }, { first := 9, last := 9 }],
    bits := 24, gateway := 1, vlan := 2 }
def attr1 : Attr := { node := "n1", uid := "u1", policy := 1 }
def opsOK : List Op :=
  [.configure [pool1] [] {}, .allocSubnet "pod-a" "10.0.1.0/24" attr1 (some 3) {},
   .allocRanges "pod-b" "10.0.1.0/24" [[{ first := 4, last := 5 }], [{ first := 9, last := 9 }]] attr1 none { fails := [1] },
   .adminReserve 5 "pool__reserved-for-node_" 0, .reserve "pod-a" "pod-c" attr1 [3] { fails := [1] }, .deliver,
   .release "pod-a" 3 { crashAfter := some 0 }]

/-- a reachable state with allocations, a rolled-back multi allocation, a partially failed reserve, a delivered
    reservation and a crash in the middle of a release: the hypotheses of `agree_reachable` are satisfiable and the
    conclusion is not about the empty state -/
example : Reach (run init opsOK) ∧ (run init opsOK).alloc.get 5 ≠ none ∧ (run init opsOK).store.get 3 = none := by
  refine ⟨?_, by decide, by decide⟩
  unfold opsOK
  simp only [run, List.foldl]
  refine Reach.step _ (Reach.step _ (Reach.step _ (Reach.step _ (Reach.step _ (Reach.step _ (Reach.step _ Reach.init
    ?_ ?_) ?_ ?_) ?_ ?_) ?_ ?_) ?_ ?_) ?_ ?_) ?_ ?_
  all_goals first | decide | trivial | skip
  · exact Or.inr ⟨by decide, by intro ip hip; revert ip; decide⟩
  · show Current _; decide

/-- a crash plan that fires (hypothesis of `crash_restart_safe`) -/
example : ((Op.release "pod-a" 3 { crashAfter := some 0 }).run (run init (opsOK.take 6))).2.err = some .crashed := by decide

/-! ### the two places where the code leaves the property (known findings, reproduced by the harness) -/

def opsStale : List Op :=
  [.configure [pool1] [] {}, .adminReserve 2 "pool__reserved-for-node_" 0, .deliver,
   .release "pool__reserved-for-node_" 2 {}, .allocSpecific "pod-a" 2 attr1 {}, .deliver]

/-- COUNTER (known finding `stale-reserved-watch-event-desyncs-cache`): a labelled FloatingIP is released through
    IPAM, its address is allocated again, then the watch delete event of the labelled object arrives:
    `handleFIPUnassign` frees whatever the cache holds for that address.  All moves are admissible; the last one is
    not `Current`, and afterwards the store has an object for address 2 while memory says free. -/
theorem stale_unassign_event_counter :
    ¬ Agree (run init opsStale) ∧ ¬ Current (run init (opsStale.take 5)) := by
  constructor
  · intro h
    rcases h.sync 2 (by decide) with ⟨e, he, _⟩ | h1
    · have hp : (run init opsStale).pending = [] := by decide
      rw [hp] at he; cases he
    · have ha : (run init opsStale).alloc.get 2 = none := by decide
      have hs : ((run init opsStale).store.get 2).isSome = true := by decide
      rw [ha] at h1
      rw [optEq_none_left h1] at hs
      cases hs
  · decide

def opsRollback : List Op :=
  [.configure [pool1] [] {}, .adminReserve 4 "pool__reserved-for-node_" 0,
   .allocRanges "pod-b" "10.0.1.0/24" [[{ first := 2, last := 2 }], [{ first := 4, last := 4 }]] attr1 none { fails := [2] }]

/-- COUNTER (known finding `rollback-delete-fault-leaks-object`): the rollback of `AllocateInSubnetsAndIPRange`
    ignores delete errors.  With an admin reservation whose event has not arrived the second create conflicts (no
    injected fault), the SINGLE injected fault hits the rollback delete: object 2 stays stored, address 2 stays free. -/
theorem rollback_delete_fault_counter :
    (run init opsRollback).alloc.get 2 = none ∧ 2 ∈ (run init opsRollback).free ∧
      ((run init opsRollback).store.get 2).isSome = true ∧ ¬ isPending (run init opsRollback) 2 := by
  refine ⟨by decide, by decide, by decide, ?_⟩
  rintro ⟨e, he, hip⟩
  have hp : (run init opsRollback).pending.all (fun e => e.ip != 2) = true := by decide
  have := List.all_eq_true.mp hp e he
  simp [hip] at this

def opsTwoFaults : List Op :=
  [.configure [pool1] [] {},
   .allocRanges "pod-b" "10.0.1.0/24" [[{ first := 2, last := 2 }], [{ first := 4, last := 4 }]] attr1 none { fails := [1, 2] }]

/-- COUNTER (outside the single-fault quantifier): a failing create followed by a failing rollback delete — two faults
    in one operation — leaks the first object; this is the one place where a second fault matters. -/
theorem rollback_second_fault_counter :
    (run init opsTwoFaults).pending = [] ∧ (run init opsTwoFaults).alloc.get 2 = none ∧
      ((run init opsTwoFaults).store.get 2).isSome = true := by decide

end Galaxy.Props.C05
