/-
  C05 — persisted FloatingIPs equal in-memory state; restart and crash safe (IPAM level, model M3).

  "After every completed operation, successful or failed, the in-memory allocation table and the persisted
   FloatingIP objects agree on owner, policy and attributes of every configured IP, so a restarted galaxy-ipam
   reconstructs exactly the state it had.  If the process dies between any two API calls, a restart … leaves no
   leaked IP, no doubly owned IP …"

  `step s op` = the operation `op` (any `crdIpam` mutator, admin move, event delivery, restart) under its fault /
  crash plan, then `restart` if the crash fired, then the watch events the store change causes.  The pod-level half
  of the crash clause ("every existing pod keeps the IP it was bound with", after resync) belongs to model M4.
-/
import Galaxy.Lemmas.IpamInv4
import Galaxy.Lemmas.PluginCrash
import Galaxy.Lemmas.PluginCrashC03

namespace Galaxy.Props.C05
open Galaxy Galaxy.Ipam

/-- tie to the code: in every mutator the store call and its `if err != nil { return }` precede the first write to
    `allocatedFIPs` / `unallocatedFIPs` / `Assign` (regenerated from /repo on every run) -/
theorem fact_storeBeforeMemory :
    Generated.Ipam.storeBeforeMemory =
      [("AllocateSpecificIP", true), ("AllocateInSubnet", true), ("AllocateInSubnetWithKey", true), ("ReserveIP", true),
       ("UpdateAttr", true), ("Release", true), ("ReleaseIPs", true), ("AllocateInSubnetsAndIPRange", true),
       ("ConfigurePool", true)] := by decide

/-- tie to the code: every method holds `cacheLock` (write lock for mutators and event handlers, read lock for queries)
    from before its first access to shared state until it returns — so each model function is one atomic action -/
theorem fact_holdsCacheLock :
    Generated.Ipam.holdsCacheLock =
      [("AllocateInSubnet", "Lock"), ("AllocateInSubnetWithKey", "Lock"), ("AllocateInSubnetsAndIPRange", "Lock"),
       ("AllocateSpecificIP", "Lock"), ("ByIP", "RLock"), ("ByKeyAndIPRanges", "RLock"), ("ByKeyword", "RLock"),
       ("ByPrefix", "RLock"), ("ConfigurePool", "Lock"), ("First", "RLock"), ("NodeSubnet", "RLock"),
       ("NodeSubnetsByIPRanges", "RLock"), ("Release", "Lock"), ("ReleaseIPs", "Lock"), ("ReserveIP", "Lock"),
       ("UpdateAttr", "Lock"), ("handleFIPAssign", "Lock"), ("handleFIPUnassign", "Lock")] := by decide

/-- tie to the code: the shapes the model is parameterised by / relies on -/
theorem fact_shapes :
    Generated.Ipam.configurePoolListsUnderLock = true ∧ Generated.Ipam.allocateSpecificAtomic = true ∧
    Generated.Ipam.rollbackOnCreateFailure = true ∧ Generated.Ipam.rollbackCoversAllCreated = true ∧
    Generated.Ipam.memoryUpdatedAfterAllCreates = true ∧ Generated.Ipam.handlersMakeNoStoreCall = true ∧
    Generated.Ipam.updateIsGetThenUpdate = true ∧ Generated.Ipam.walkOverflowSafe = true ∧
    Generated.Ipam.unassignEventChecksReserved = true ∧ Generated.Ipam.rollbackKeepsUndeletedInMemory = true ∧
    Generated.Ipam.reloadListsApiserver = true ∧ Generated.Ipam.reloadListIsConsistentRead = true := by decide

/-- `Agree` holds initially (empty process, empty store). -/
theorem agree_init : Agree init := agree_init'

/-- "After every completed operation, successful or failed, memory and store agree", one step: every move except event
    delivery — each of the nine mutators with every argument, every admissible resolution of Go's map iteration, every
    fault plan (ANY set of failing call indices, so in particular every single fault index, rollback deletes included;
    partially applied `ReserveIP` / `ReleaseIPs` included) and every crash plan, the admin moves, restart — preserves
    `Agree` with NO side condition. -/
theorem agree_preserved (s : State) (op : Op) (h : Agree s) (hadm : op.admissible s = true) (hp : op.plain = true) :
    Agree (step s op).1 := by
  apply agree_step h op hadm
  cases op <;> first | trivial | (simp [Op.plain] at hp)

/-- event delivery, one step: `Agree` says nothing about addresses with pending events, so from `Agree` alone the
    delivered event must be known to be `Current`; the history-level theorem below needs no such hypothesis. -/
theorem agree_preserved_deliver (s : State) (h : Agree s) (hcur : Current s) : Agree (step s .deliver).1 :=
  agree_step h .deliver rfl hcur

/-- the inductive invariant behind the history-level statement: `Inv` = `MemOK` + what is known about every address WITH
    pending watch events (`PAt`).  EVERY admissible move (all mutators, arguments, choices, fault and crash plans, admin
    moves, event delivery at any later time, restart) preserves it; the only assumption is `EnvOK`, which constrains the
    administrator: no reservation is created for an address while a watch event for it is still on its way. -/
theorem inv_preserved (s : State) (op : Op) (h : Inv s) (hadm : op.admissible s = true) (henv : EnvOK s op = true) :
    Inv (step s op).1 := inv_step h op hadm henv

/-- `Inv` is at least `Agree` -/
theorem inv_implies_agree (s : State) (h : Inv s) : Agree s := agree_of_inv h

/-- lifted to every reachable state by induction over the history: memory and store agree after every completed
    operation of every history, for all arrival times of the watch events -/
theorem agree_reachable (s : State) (h : Reach s) : Agree s := agree_reach h

/-- "so a restarted galaxy-ipam reconstructs exactly the state it had": for every address without an undelivered
    admin event the restarted process has the same owner / policy / attributes and the same free status -/
theorem restart_reconstructs (s : State) (h : Agree s) (ip : IP) (hnp : ¬ isPending s ip) :
    optEq ((restart s).alloc.get ip) (s.alloc.get ip) ∧ (ip ∈ (restart s).free ↔ ip ∈ s.free) :=
  restart_reconstructs' h ip hnp

/-- "If the process dies between any two API calls, a restart leaves no leaked IP, no doubly owned IP" (IPAM level):
    for EVERY state, every move and every crash point, the restarted process satisfies the structural invariant
    (memory = store on every configured address, free = configured \ allocated, nothing else allocated; an address
    has one owner because the tables are functions).  No hypothesis on the state before the crash is needed. -/
theorem crash_restart_safe (s : State) (op : Op) (hadm : op.admissible s = true) (hm : MemOK s)
    (hcr : (op.run s).2.err = some .crashed) : Agree (step s op).1 := by
  refine ⟨memOK_step hm op hadm, ?_⟩
  intro ip hc
  have hc' : configured (afterCrash (op.run s)).pools ip = true := hc
  unfold afterCrash at hc'
  rw [if_pos hcr] at hc'
  rcases (agree_restart (op.run s).1).sync ip hc' with ⟨e, he, _⟩ | h1
  · rw [restart_eq] at he; simp at he
  · right
    show optEq ((afterCrash (op.run s)).alloc.get ip) ((afterCrash (op.run s)).store.get ip)
    unfold afterCrash
    rw [if_pos hcr]
    exact h1

/-- whatever the state, a restart establishes `Agree` -/
theorem restart_establishes_agree (s : State) : Agree (restart s) := agree_restart s

/-! ### non-vacuity -/

def pool1 : Pool :=
  { nodeSubnets := [{ str := "10.0.1.0/24", base := 167772416, bits := 24 }], ranges := [{ first := 2, last := 5 }, { first := 9, last := 9 }],
    bits := 24, gateway := 1, vlan := 2 }
def attr1 : Attr := { node := "n1", uid := "u1", policy := 1 }
def opsOK : List Op :=
  [.configure [pool1] [] {}, .allocSubnet "pod-a" "10.0.1.0/24" attr1 (some 3) {},
   .allocRanges "pod-b" "10.0.1.0/24" [[{ first := 4, last := 5 }], [{ first := 9, last := 9 }]] attr1 none { fails := [1] },
   .adminReserve 5 "pool__reserved-for-node_" 0, .reserve "pod-a" "pod-c" attr1 [3] { fails := [1] }, .deliver,
   .release "pod-a" 3 { crashAfter := some 0 }]

/-- a reachable state with allocations, a rolled-back multi allocation, a partially failed reserve, a delivered
    reservation and a crash in the middle of a release: the hypotheses of `agree_reachable` are satisfiable and the
    conclusion is not about the empty state -/
example : Reach (run init opsOK) ∧ (run init opsOK).alloc.get 5 ≠ none ∧ (run init opsOK).store.get 3 = none := by
  refine ⟨?_, by decide, by decide⟩
  unfold opsOK
  simp only [run, List.foldl]
  refine Reach.step _ (Reach.step _ (Reach.step _ (Reach.step _ (Reach.step _ (Reach.step _ (Reach.step _ Reach.init
    ?_ ?_) ?_ ?_) ?_ ?_) ?_ ?_) ?_ ?_) ?_ ?_) ?_ ?_
  all_goals decide

/-- a crash plan that fires (hypothesis of `crash_restart_safe`) -/
example : ((Op.release "pod-a" 3 { crashAfter := some 0 }).run (run init (opsOK.take 6))).2.err = some .crashed := by decide

/-! ### the two defects this check found (fixed in /repo; the pre-fix shapes are selected by the regenerated facts
    `unassignEventChecksReserved` / `rollbackKeepsUndeletedInMemory`), and the necessity of `EnvOK` -/

def opsStale : List Op :=
  [.configure [pool1] [] {}, .adminReserve 2 "pool__reserved-for-node_" 0, .deliver,
   .release "pool__reserved-for-node_" 2 {}, .allocSpecific "pod-a" 2 attr1 {}, .deliver]

/-- the history which used to break C05 (a labelled FloatingIP is released through IPAM, its address is allocated
    again, THEN the watch delete event of the labelled object arrives) is reachable and now harmless: the late event
    leaves the new owner in place -/
example : Reach (run init opsStale) ∧ ((run init opsStale).alloc.get 2).isSome = true := by
  refine ⟨?_, by decide⟩
  unfold opsStale
  simp only [run, List.foldl]
  refine Reach.step _ (Reach.step _ (Reach.step _ (Reach.step _ (Reach.step _ (Reach.step _ Reach.init
    ?_ ?_) ?_ ?_) ?_ ?_) ?_ ?_) ?_ ?_) ?_ ?_
  all_goals decide

/-- COUNTER (pre-fix code, `unassignEventChecksReserved = false`): `handleFIPUnassign` frees whatever the cache holds —
    the same late event frees the new owner's address in memory while the store keeps its object -/
theorem stale_unassign_event_counter :
    let s5 := run init (opsStale.take 5)
    let e : Event := { assign := false, ip := 2, key := "pool__reserved-for-node_", policy := 0 }
    s5.pending = [e] ∧ (s5.store.get 2).isSome = true ∧
    (fipUnassignEventG false { s5 with pending := [] } e).1.alloc.get 2 = none ∧
    ((fipUnassignEventG true { s5 with pending := [] } e).1.alloc.get 2).isSome = true := by decide

def opsRollback : List Op :=
  [.configure [pool1] [] {}, .adminReserve 4 "pool__reserved-for-node_" 0,
   .allocRanges "pod-b" "10.0.1.0/24" [[{ first := 2, last := 2 }], [{ first := 4, last := 4 }]] attr1 none { fails := [2] }]

/-- the second history which used to break C05 (the second create conflicts with a reservation whose event has not
    arrived, the single injected fault hits the rollback delete) now ends with address 2 allocated in memory AND store -/
example : Reach (run init opsRollback) ∧ ((run init opsRollback).alloc.get 2).isSome = true ∧
    ((run init opsRollback).store.get 2).isSome = true := by
  refine ⟨?_, by decide, by decide⟩
  unfold opsRollback
  simp only [run, List.foldl]
  refine Reach.step _ (Reach.step _ (Reach.step _ Reach.init ?_ ?_) ?_ ?_) ?_ ?_
  all_goals decide

/-- COUNTER (pre-fix code, `rollbackKeepsUndeletedInMemory = false`): the rollback ignored the failed delete — object 2
    stays stored while address 2 stays free in memory -/
theorem rollback_delete_fault_counter :
    let s2 := run init (opsRollback.take 2)
    let r := mkRec "pod-b" attr1 s2.clock
    let res := createAll true { fails := [2] } r [2, 4] [] 0 s2.store
    res.2.1 = some .exists_ ∧ res.2.2 = [2] ∧
    (allocRangesFinish false s2 r [2, 4] res).1.alloc.get 2 = none ∧
    ((allocRangesFinish false s2 r [2, 4] res).1.store.get 2).isSome = true ∧
    ((allocRangesFinish true s2 r [2, 4] res).1.alloc.get 2).isSome = true := by decide

def opsRace : List Op :=
  [.configure [pool1] [] {}, .adminReserve 2 "res" 0, .deliver, .adminUnreserve 2, .adminReserve 2 "res" 2,
   .updateAttr "res" 2 attr1 {}, .deliver, .deliver]

/-- COUNTER (necessity of the environment assumption `EnvOK`): the administrator deletes a reservation and creates it
    again before the delete event is delivered, IPAM updates the record meanwhile: the late add event then overwrites the
    cache with what the administrator wrote, the store has what IPAM wrote.  The fifth move violates `EnvOK`. -/
theorem admin_recreate_race_counter :
    EnvOK (run init (opsRace.take 4)) (.adminReserve 2 "res" 2) = false ∧ ¬ Agree (run init opsRace) := by
  refine ⟨by decide, ?_⟩
  intro h
  rcases h.sync 2 (by decide) with ⟨e, he, _⟩ | h1
  · have hp : (run init opsRace).pending = [] := by decide
    rw [hp] at he; cases he
  · revert h1; decide

end Galaxy.Props.C05

/-! ## the pod-level half of the crash clause (plugin model M4, proved by the plugin work package)

  "If the process dies between any two API calls, a restart followed by resync leaves no leaked IP, no doubly owned IP,
   and every existing pod keeps the IP it was bound with."

  `crashAt facts k j s m` = move `m` of the scheduler-plugin model started in state `s`, the process dies after `k`
  API-server calls and `j` cloud-provider requests of that move; memory, informer caches and queued events are dropped and
  a new process starts on the store.  `.resync order 0 0` = one fault-free resync pass of the new process. -/

namespace Galaxy.Props.C05
open Galaxy Galaxy.Plugin Galaxy.Plugin.C03

/-- "no doubly owned IP, and every existing pod keeps the IP it was bound with": for every history within the plugin
    model's scope, every move `m`, every crash point `(k, j)` and every admissible resync order, after restart + resync
    (i) the tables are coherent (one record per address in memory and in the store, allocated and unallocated disjoint,
    only configured addresses), (ii) every live bound pod still owns every address of its binding annotation — and the
    pods are exactly those the API server had when the process died —, (iii) the store has an object for an address iff
    memory has it allocated, with the same record. -/
theorem pod_crash_restart_resync_safe (c : Conf) (ms : List Move) (hok : allAssumed facts (init c) ms = true)
    (m : Move) (hm : assumed (run facts (init c) ms) m = true) (k j : Nat) (order : List IP) :
    Coherent (step facts (crashAt facts k j (run facts (init c) ms) m) (.resync order 0 0)).1 ∧
    (∀ q, LiveBound (step facts (crashAt facts k j (run facts (init c) ms) m) (.resync order 0 0)).1.pods q →
      ∀ hd, hd ∈ q.handed → OwnedBy (step facts (crashAt facts k j (run facts (init c) ms) m) (.resync order 0 0)).1 q hd.ip) ∧
    (step facts (crashAt facts k j (run facts (init c) ms) m) (.resync order 0 0)).1.pods =
      (stepCrash facts k j (run facts (init c) ms) m).1.pods ∧
    (∀ ip, Tbl.get (step facts (crashAt facts k j (run facts (init c) ms) m) (.resync order 0 0)).1.store ip =
      Tbl.get (step facts (crashAt facts k j (run facts (init c) ms) m) (.resync order 0 0)).1.alloc ip) :=
  crash_restart_resync_safe c ms hok m hm k j order

/-- "leaves no leaked IP": after crash + restart + one successful resync pass every record which still names a pod that
    does not exist any more (or has finished) is one the documented release policy keeps (evaluated with the record's
    stored policy), or its policy is `never` — nothing else stays allocated.  The delete / finish events queued when the
    process died are lost; nothing is assumed about them. -/
theorem pod_crash_restart_resync_no_leak (c : Conf) (ms : List Move) (hok : allAssumed facts (init c) ms = true)
    (m : Move) (hm : assumed (run facts (init c) ms) m = true) (k j : Nat) (order : List IP)
    (hadm : (step facts (crashAt facts k j (run facts (init c) ms) m) (.resync order 0 0)).2.res = .ok) :
    ∀ ip r, Tbl.get (step facts (crashAt facts k j (run facts (init c) ms) m) (.resync order 0 0)).1.alloc ip = some r →
      namesPod r.key → podGone (crashAt facts k j (run facts (init c) ms) m) r.key →
      docKeeps (dinOf CRs.none (step facts (crashAt facts k j (run facts (init c) ms) m) (.resync order 0 0)).1 r.key r.policy) = true ∨
        r.policy = 2 :=
  crash_restart_resync_no_orphan c ms hok m hm k j order hadm

def podPool : Galaxy.Plugin.Pool :=
  { nodeSubnets := [⟨168362240, 24⟩], ranges := [(168427522, 168427523)], gateway := 168427521, bits := 24, vlan := 0 }
def podConf : Conf := { pools := [podPool], nodes := [("n1", 168362245)], provider := false }

/-- one statefulset pod bound, a second one created and filtered -/
def podHistory : List Move := [
  .scale .sts "ns1" "a" 2,
  .createPod "ns1" "a-0" .sts "a" "" 0 [] true,
  .createPod "ns1" "a-1" .sts "a" "" 0 [] true,
  .listerSync true true,
  .filter "ns1" "a-0" ["n1"] {} 0,
  .bind "ns1" "a-0" 1 "n1" { pick := some 168427523 } 0 0,
  .filter "ns1" "a-1" ["n1"] {} 0 ]

def podMove : Move := .bind "ns1" "a-1" 2 "n1" { pick := some 168427522 } 0 0

set_option maxRecDepth 100000 in
/-- the hypotheses of both pod-level theorems are satisfiable: the history and the move are within the model's scope, the
    process dies after the first API-server call of the second pod's bind (its FloatingIP object is already created),
    the resync of the new process succeeds, and the state it leaves still holds the first pod's address -/
example : allAssumed facts (init podConf) podHistory = true ∧ assumed (run facts (init podConf) podHistory) podMove = true ∧
    (step facts (crashAt facts 1 0 (run facts (init podConf) podHistory) podMove) (.resync [168427523, 168427522] 0 0)).2.res = .ok ∧
    (Tbl.get (step facts (crashAt facts 1 0 (run facts (init podConf) podHistory) podMove) (.resync [168427523, 168427522] 0 0)).1.alloc 168427523).isSome
      = true := by
  refine ⟨by decide, by decide, by decide, by decide⟩

end Galaxy.Props.C05
