/-
  C01 - a floating IP is never held by two live pods.

  Same model and same reachability notion as C04 (`Galaxy.Plugin`, `run facts (init c) ms`, scope `allAssumed`, see
  Props/C04.lean).  As planned in DESIGN.md the pod clause is a COROLLARY of the C04 invariant plus the injectivity of
  the key function on (namespace, name).

  FULL STATEMENT: in every reachable state (1) every address has at most one owner record in memory and in the
  store, allocated and unallocated addresses are disjoint, store and memory agree; (2) two distinct pods that are alive
  never have a common address in their binding annotations - "with any single API call failing".
  Proved at full strength within the property's scope `allAssumed`: non-empty names, bind requests carry the pod UID,
  reloads keep live pods' addresses configured (otherwise operator error: an address removed while in use and added
  again is handed out again) - for every fault position of every move ("with any single API call failing").
  `State.store` holds the FloatingIP objects of configured addresses; objects whose delete failed during a reload are
  `State.orphans` (not configured, never allocatable, resurrected or deleted by the next reload).
-/
import Galaxy.Lemmas.PluginMain

namespace Galaxy.Props.C01
open Galaxy Galaxy.Plugin

/-- same regenerated shape as C04 (UID guards incl. Bind's lister-UID check and whole-key check, re-reads under the pod
    lock, lister then API server) -/
theorem fact_plugin_shape : Galaxy.Plugin.facts = Facts.good := by decide

/-- The per-pod key mutex serialises the operations on one pod name (why they are atomic moves of the model): Filter, Bind,
    unbind, Release, syncPodIP and the resync closure take `lockPod` before their first IPAM use; nothing that concerns
    the pod's key (IPAM, apiserver, provider, or a helper doing so) runs before that call; and all of them lock the SAME
    key - `lockPod(name, namespace)` = "<namespace>_<name>", called with (…Name, …Namespace) in that order.  (The harness
    checks the same thing dynamically: lock-exclusion probe and the two kind=schedule replays.) -/
theorem fact_entry_points_hold_pod_lock :
    Generated.Plugin.allUnderPodLock = true ∧ Generated.Plugin.noKeyAccessBeforePodLock = true ∧
      Generated.Plugin.podLockKeyUniform = true := by decide

/-- ConfigurePool keeps a stored object for the first pool whose pod subnet AND ranges contain its address (pools may share
    a pod subnet), so a reload / restart cannot drop or re-home the record of an address of "the other" pool. -/
theorem pool_lookup_is_subnet_and_ranges (p : Pool) (ip : Nat) : p.has ip = (p.inSubnet ip && inRanges p.ranges ip) := by
  have : Generated.Plugin.configurePoolMatchesSubnetAndRanges = true := by decide
  simp [Pool.has, this]

/-- `util.FormatKey` is injective on (namespace, pod name) for non-empty names.  (Structured keys; that the rendered
    string `Key.render` is injective for names without '_' is C11's codec theorem.) -/
theorem key_injective_on_pod_identity (q1 q2 : Pod) (h1 : WFNames q1) (h2 : WFNames q2) (h : keyOf q1 = keyOf q2) :
    q1.ns = q2.ns ∧ q1.name = q2.name := by
  have := keyOf_inj q1 q2 h1 h2 h
  simp only [Pod.id, Prod.mk.injEq] at this
  exact this

/-- "At every moment each floating IP has at most one owner": in every reachable state the allocated table and the
    store have one record per address, an unallocated address has no record, and store and memory hold the same
    record for every address (so the owner is the same in both). -/
theorem unique_owner (c : Conf) (ms : List Move) (hok : allAssumed facts (init c) ms = true) :
    (Tbl.keys (run facts (init c) ms).alloc).Nodup ∧ (Tbl.keys (run facts (init c) ms).store).Nodup ∧
    (∀ ip, ip ∈ (run facts (init c) ms).free → Tbl.get (run facts (init c) ms).alloc ip = none) ∧
    (∀ ip, Tbl.get (run facts (init c) ms).store ip = Tbl.get (run facts (init c) ms).alloc ip) := by
  rw [fact_plugin_shape] at hok ⊢
  have h := (inv_run ms _ (inv_init c) hok).coh
  exact ⟨h.allocNodup, h.storeNodup, h.disjoint, h.agree⟩

/-- "no two pods that are alive at the same time have been handed the same IP in their binding annotation": in every
    reachable state two live bound pods with a common address are the same pod. -/
theorem no_shared_ip_between_live_pods (c : Conf) (ms : List Move) (hok : allAssumed facts (init c) ms = true)
    (q1 q2 : Pod) (h1 : LiveBound (run facts (init c) ms).pods q1) (h2 : LiveBound (run facts (init c) ms).pods q2)
    (ip : IP) (m1 : ip ∈ q1.ips) (m2 : ip ∈ q2.ips) : q1 = q2 := by
  rw [fact_plugin_shape] at hok h1 h2
  exact inv_no_shared (inv_run ms _ (inv_init c) hok) q1 q2 h1 h2 ip m1 m2

/-- An address handed to a live bound pod is not unallocated, so no later Filter / Bind can hand it to another pod
    (every allocation takes an unallocated address or re-keys a prefix-keyed record). -/
theorem handed_ip_is_not_free (c : Conf) (ms : List Move) (hok : allAssumed facts (init c) ms = true)
    (q : Pod) (hq : LiveBound (run facts (init c) ms).pods q) (ip : IP) (hm : ip ∈ q.ips) :
    ip ∉ (run facts (init c) ms).free := by
  rw [fact_plugin_shape] at hok hq ⊢
  have h := inv_run ms _ (inv_init c) hok
  intro hfree
  simp only [Pod.ips, List.mem_map] at hm
  obtain ⟨hd, hdm, e⟩ := hm
  obtain ⟨r, hr, _, _⟩ := h.safe.own q hq hd hdm
  rw [e, h.coh.disjoint ip hfree] at hr
  cases hr

/-! ### non-vacuity -/

def pool1 : Pool := { nodeSubnets := [⟨168362240, 24⟩], ranges := [(168427522, 168427523)], gateway := 168427521, bits := 24, vlan := 0 }
def conf1 : Conf := { pools := [pool1], nodes := [("n1", 168362245)], provider := false }

/-- two pods of one statefulset are created, filtered and bound -/
def twoPods : List Move := [
  .scale .sts "ns1" "a" 2,
  .createPod "ns1" "a-0" .sts "a" "" 0 [] true,
  .createPod "ns1" "a-1" .sts "a" "" 0 [] true,
  .listerSync true true,
  .filter "ns1" "a-0" ["n1"] {} 0,
  .bind "ns1" "a-0" 1 "n1" { pick := some 168427523 } 0 0,
  .filter "ns1" "a-1" ["n1"] {} 0,
  .bind "ns1" "a-1" 2 "n1" { pick := some 168427522 } 0 0 ]

def podA0 : Pod := { ns := "ns1", name := "a-0", uid := 1, kind := .sts, app := "a", pool := "", policy := 0, ranges := [], wants := true, phase := .pending, node := "n1", handed := [⟨168427523, 24, 168427521, 0⟩] }
def podA1 : Pod := { ns := "ns1", name := "a-1", uid := 2, kind := .sts, app := "a", pool := "", policy := 0, ranges := [], wants := true, phase := .pending, node := "n1", handed := [⟨168427522, 24, 168427521, 0⟩] }

set_option maxRecDepth 100000 in
/-- the hypotheses are satisfiable: a history whose side conditions hold and that ends with two live bound pods
    (holding different addresses) -/
example : allAssumed facts (init conf1) twoPods = true ∧ LiveBound (run facts (init conf1) twoPods).pods podA0 ∧
    LiveBound (run facts (init conf1) twoPods).pods podA1 ∧ WFNames podA0 ∧ WFNames podA1 := by
  refine ⟨by decide, ⟨by decide, by decide, by decide⟩, ⟨by decide, by decide, by decide⟩, ⟨by decide, by decide, by decide⟩,
    ⟨by decide, by decide, by decide⟩⟩

/-! ### counter theorem: the fixed defect D2 two moves later -/

def factsNoGuard : Facts := { Facts.good with unbindChecksUID := false }

def pool0 : Pool := { nodeSubnets := [⟨168362240, 24⟩], ranges := [(168427522, 168427522)], gateway := 168427521, bits := 24, vlan := 0 }
def conf0 : Conf := { pools := [pool0], nodes := [("n1", 168362245)], provider := false }

/-- D2 followed by create / filter / bind of a second pod: the address freed by the late event is handed out again -/
def d2Shared : List Move := [
  .scale .sts "ns1" "a" 2,
  .createPod "ns1" "a-0" .sts "a" "" 0 [] true,
  .listerSync true true,
  .filter "ns1" "a-0" ["n1"] {} 0,
  .bind "ns1" "a-0" 1 "n1" { pick := some 168427522 } 0 0,
  .deletePod "ns1" "a-0",
  .createPod "ns1" "a-0" .sts "a" "" 0 [] true,
  .listerSync true true,
  .resync [168427522] 0 0,
  .filter "ns1" "a-0" ["n1"] {} 0,
  .bind "ns1" "a-0" 2 "n1" { pick := some 168427522 } 0 0,
  .deliver 0 0 0,
  .createPod "ns1" "a-1" .sts "a" "" 0 [] true,
  .listerSync true true,
  .filter "ns1" "a-1" ["n1"] {} 0,
  .bind "ns1" "a-1" 3 "n1" { pick := some 168427522 } 0 0 ]

def podB0 : Pod := { ns := "ns1", name := "a-0", uid := 2, kind := .sts, app := "a", pool := "", policy := 0, ranges := [], wants := true, phase := .pending, node := "n1", handed := [⟨168427522, 24, 168427521, 0⟩] }
def podB1 : Pod := { ns := "ns1", name := "a-1", uid := 3, kind := .sts, app := "a", pool := "", policy := 0, ranges := [], wants := true, phase := .pending, node := "n1", handed := [⟨168427522, 24, 168427521, 0⟩] }

set_option maxRecDepth 100000 in
/-- WITHOUT the UID guard in unbind two live pods end up with the same address although every side condition holds
    (the C04 defect D2 "two moves later"; fixed in /repo, replay corpus/C01/d2.ops passes on the fixed tree). -/
theorem no_shared_ip_counter :
    allAssumed factsNoGuard (init conf0) d2Shared = true ∧ LiveBound (run factsNoGuard (init conf0) d2Shared).pods podB0 ∧
      LiveBound (run factsNoGuard (init conf0) d2Shared).pods podB1 ∧ 168427522 ∈ podB0.ips ∧ 168427522 ∈ podB1.ips ∧
      podB0 ≠ podB1 := by
  refine ⟨by decide, ⟨by decide, by decide, by decide⟩, ⟨by decide, by decide, by decide⟩, by decide, by decide, by decide⟩

/-! ### a pod inside its deletion grace period is a live pod -/

/-- `finished(pod)` looks at the phase only (regenerated: its body is exactly the two phase comparisons).  A pod whose
    deletionTimestamp is set still exists and may still run: in the model it stays in API truth with `terminating := true`
    (`Move.markTerminating`: the update event reaches UpdatePod, which queues nothing and still runs syncPodIP; the pod
    is really deleted by a later `deletePod`), `LiveBound` - and with it every theorem above - includes it. -/
theorem fact_finished_checks_phase_only :
    Generated.Plugin.finishedChecksPhaseOnly = true ∧ facts.finishedChecksPhaseOnly = true := by decide

/-- a `finished()` that also counts a pod being deleted ("speeds up rolling updates") -/
def factsTerminatingIsFinished : Facts := { Facts.good with finishedChecksPhaseOnly := false }

/-- a-0 is bound and running, its graceful deletion begins, the queued events are delivered, and the replacement a-1 is
    created, filtered and bound on the same subnet BEFORE a-0 is really gone (corpus/C01/graceful-deletion.ops) -/
def graceful : List Move := [
  .scale .sts "ns1" "a" 2,
  .createPod "ns1" "a-0" .sts "a" "" 0 [] true,
  .listerSync true true,
  .filter "ns1" "a-0" ["n1"] {} 0,
  .bind "ns1" "a-0" 1 "n1" { pick := some 168427522 } 0 0,
  .runPod "ns1" "a-0",
  .markTerminating "ns1" "a-0" 0,
  .listerSync true true,
  .deliver 0 0 0,
  .resync [168427522] 0 0,
  .createPod "ns1" "a-1" .sts "a" "" 0 [] true,
  .listerSync true true,
  .filter "ns1" "a-1" ["n1"] {} 0,
  .bind "ns1" "a-1" 2 "n1" { pick := some 168427522 } 0 0 ]

def podT0 : Pod := { ns := "ns1", name := "a-0", uid := 1, kind := .sts, app := "a", pool := "", policy := 0, ranges := [], wants := true, phase := .running, node := "n1", handed := [⟨168427522, 24, 168427521, 0⟩], terminating := true }
def podT1 : Pod := { ns := "ns1", name := "a-1", uid := 2, kind := .sts, app := "a", pool := "", policy := 0, ranges := [], wants := true, phase := .pending, node := "n1", handed := [⟨168427522, 24, 168427521, 0⟩] }

set_option maxRecDepth 100000 in
/-- With a `finished()` that counts a terminating pod the statement fails: the terminating pod (it exists, it is Running)
    and its replacement are two live pods with the same address.  With the current code the terminating pod keeps its
    address through the event delivery and the resync pass and the replacement gets none (second conjunct). -/
theorem terminating_pod_counter :
    (allAssumed factsTerminatingIsFinished (init conf0) graceful = true ∧
      LiveBound (run factsTerminatingIsFinished (init conf0) graceful).pods podT0 ∧
      LiveBound (run factsTerminatingIsFinished (init conf0) graceful).pods podT1 ∧
      168427522 ∈ podT0.ips ∧ 168427522 ∈ podT1.ips ∧ podT0 ≠ podT1) ∧
    (LiveBound (run facts (init conf0) graceful).pods podT0 ∧
      (Tbl.get (run facts (init conf0) graceful).alloc 168427522).map (·.uid) = some 1 ∧
      ((run facts (init conf0) graceful).pods.get ("ns1", "a-1")).map (·.handed) = some []) := by
  refine ⟨⟨by decide, ⟨by decide, by decide, by decide⟩, ⟨by decide, by decide, by decide⟩, by decide, by decide, by decide⟩,
    ⟨by decide, by decide, by decide⟩, by decide, by decide⟩

/-! ### a reload reads the store, not a cache of it -/

/-- `listFloatingIPs` - the list `ConfigurePool` rebuilds the allocated table from on every reload and restart - is a
    LIST against the API server (regenerated: no informer, lister, indexer or store is consulted), so the model's
    `listed` is the store itself.  The model keeps what a FloatingIP informer would show (`State.vFips`, move `fipSync`);
    a `listFloatingIPs` served from that cache would make `listed` read it instead, and a reload with a lagging cache
    would bring back an earlier owner of an address a live pod holds (the harness runs most reloads with a lagging
    cache: op `fipsync`). -/
theorem fact_reload_lists_apiserver :
    Generated.Plugin.reloadListsApiserver = true ∧ ∀ s : State, listed s = s.store ++ s.orphans :=
  ⟨by decide, fun _ => rfl⟩

/-! ### the daemon's start order -/

/-- Hypotheses of the model's faithfulness, regenerated from pkg/ipam/server/server.go (see
    `Galaxy.Plugin.fact_server_start_order`): the allocation cache is rebuilt from the store only once the process may
    act (after the lease is held) - the model's `restart` is exactly that, a standby never serves with a cache built
    earlier -, the plugin is constructed before the informers start - the administrator's reservation events are
    delivered -, and the API's release / pool-lock functions are the plugin's own. -/
theorem fact_server_start_order :
    Generated.Plugin.initRunsAfterLeadershipAcquired = true ∧ Generated.Plugin.informersStartAfterPluginConstructed = true ∧
      Generated.Plugin.releaseFuncIsPluginRelease = true ∧ Generated.Plugin.lockPoolFuncIsPluginLockDpPool = true := by decide

end Galaxy.Props.C01
