/-
  Property C15 — "Network-policy sync converges and leaves foreign rules alone".

  Model: `Kern` (ipsets + filter table, structured), the strict primitive semantics (`restore` all-or-nothing, `-X`
  needs an unreferenced chain, `ipset add -exist` replaces by key, destroy fails while referenced), and galaxy's
  `syncRules` / `syncPods` / `fullSync` on top of it (Galaxy.Policy, Model/Policy.lean).  Every sync step of the REAL
  PolicyManager over the strict fakes of harness/nf is compared with these functions on every run, starting from the
  real prior dump (harness c15), and the four clauses are monitored on the real dumps.

  FULL STATEMENTS (what the property asks):

    full_sync_exact       ∀ k c ps node,  owned (fullSync k c ps node).1 = owned (compile c ps node)
                          (GLX* sets, GLX-PLCY-* chains, GLX-POD-* chains, hook rules of GLX-INGRESS / GLX-EGRESS)
    full_sync_idempotent  ∀ k c ps node,  fullSync (fullSync k c ps node).1 c ps node = ((fullSync k c ps node).1, [])
    frame_foreign         ∀ k c ps node,  Frame k (fullSync k c ps node).1                      — PROVED, see below
    no_dangling_reference ∀ k c ps node,  (fullSync k c ps node).2 = []  (no rule submission names a missing chain/set)

  full_sync_exact, full_sync_idempotent and no_dangling_reference are FALSE for the code as it is:
    D13 `full_sync_exact_counter_d13`  pod chains / hooks of vanished pods (or old addresses) are never collected;
    D17 `full_sync_counter_d17`        a stale policy chain referenced by a pod chain makes the policy batch fail
                                        atomically; with a new policy selecting the pod the sync never converges;
  (D21, an ipset entry whose options change being re-added and then deleted, is FIXED in /repo (d42b414): the model
   follows the regenerated fact `createIPSetKeepsRekeyedEntries`; `full_sync_counter_d21` is now a theorem about the
   PRE-fix variant `fullSyncWith false`, `ipset_entries_exact_partial` the post-fix statement.)
  What is PROVED in their place, for ALL prior kernel states:
    frame_foreign (full), frame_foreign_steps;
    policy_chains_exact_partial     a policy batch that reports no failure installs exactly the compiled GLX-PLCY-*;
    pod_chain_exact_partial         a SyncPodChains call that reports no failure leaves exactly the compiled GLX-POD
                                    chain and the hook rule(s) of the pod;
    policy_chains_idempotent_partial  two successful policy batches in a row install the same chains;
    ipset_entries_exact_partial     one createIPSet step (current source) leaves exactly the compiled entries, options
                                    included, from any prior content of the set;
    no_dangling_policy_batch_partial  syncRules never submits a rule naming a missing chain / set: its only possible
                                    failures are the busy -X (D17) and the type clash of `ipset create`.
    ipset_entries_exact, pods_loop_exact, full_sync_exact_under_hypotheses, full_sync_idempotent_under_hypotheses,
    no_dangling_pod_batch            the whole owned state after a full sync, its idempotence and the pod batches, under
                                    the explicit hypothesis `PriorPods` about the prior table (exactly what D13 violates;
                                    `pods_loop_counter_d13` shows it is needed) and "syncRules reports no failure" (D17).
  NOT proved: that the four base jumps are present whenever some pod is active (only that nothing else is added to the
  built-in chains: frame_foreign); correspondence of the strict primitive semantics with a kernel (harness/nf).
-/
import Galaxy.Lemmas.PolicyNames
import Galaxy.Lemmas.PolicyDelete

namespace Galaxy.Props.C15
open Galaxy.Policy
open Galaxy.Generated.Policy

/-! ## frame_foreign (full strength) -/

/-- "chains, rules and sets that galaxy does not own are never modified": after a full sync from ANY kernel state,
    (1) every chain that is not GLX-* and not built-in is exactly as before, (2) FORWARD / INPUT / OUTPUT keep all
    their rules, in order, except for the documented base jumps (`-j GLX-INGRESS`, `-j GLX-EGRESS`), (3) every ipset
    whose name does not start with GLX is exactly as before. -/
theorem frame_foreign (k : Kern) (c : Cluster) (ps : List NetPol) (node : String) :
    (∀ name, Tbl.get (fullSync k c ps node).1.tbl (.other name) = Tbl.get k.tbl (.other name)) ∧
    (∀ b, b.isBuiltin = true →
      (Tbl.get (fullSync k c ps node).1.tbl b).map (foreignRules b) = (Tbl.get k.tbl b).map (foreignRules b)) ∧
    (∀ n, n.isGlx = false →
      (fullSync k c ps node).1.sets.find? (·.name == n) = k.sets.find? (·.name == n)) := by
  have F := fullSync_frame k c ps node
  refine ⟨fun name => ?_, fun b hb => ?_, F.sets⟩
  · have := F.chains (.other name) rfl
    cases h1 : Tbl.get (fullSync k c ps node).1.tbl (.other name) <;> cases h2 : Tbl.get k.tbl (.other name) <;>
      simp_all [foreignRules_other]
  · exact F.chains b (by cases b <;> simp_all [Chain.isBuiltin, Chain.isGlx])

/-- the same holds for each step the event handlers are composed of (AddPolicy / UpdatePolicy: rules then pods;
    DeletePolicy: pods then rules) -/
theorem frame_foreign_steps (k : Kern) (c : Cluster) (ps : List NetPol) (node : String) :
    Frame k (syncRules k c ps).1 ∧ Frame k (syncPods k c ps node).1 ∧
    Frame k (syncRules (syncPods k c ps node).1 c ps).1 :=
  ⟨syncRules_frame k c ps, syncPods_frame k c ps node,
    (syncPods_frame k c ps node).trans (syncRules_frame _ c ps)⟩

/-! ## full_sync_exact, the part that holds -/

/-- "after a full synchronisation the … policy chains … are exactly those derived from the current NetworkPolicies
    … regardless of what galaxy rules existed before" — PROVED under the explicit hypothesis that the policy batch
    reports no failure (what can fail is the -X of a still-referenced stale chain, D17): from ANY prior table,
    chain GLX-PLCY-<h> exists iff a current policy has name hash h, and holds exactly its compiled rules. -/
theorem policy_chains_exact_partial (k : Kern) (ps : List NetPol) (hn : (ps.map (·.hash)).Nodup)
    (hok : (syncIptables k ps).2 = []) (h : String) :
    Tbl.get (syncIptables k ps).1 (.plcy h) = (ps.find? (fun p => p.hash == h)).map policyChain :=
  syncIptables_exact k ps hn hok h

/-- "… and the chains of the pods on the node are exactly those derived from the current NetworkPolicies and pods" —
    PROVED per call: from ANY prior table, a SyncPodChains call (the part after ensureBasicChain) that reports no
    failure leaves chain GLX-POD-<hash> with exactly the compiled rules, and the pod's hook rule in GLX-INGRESS
    (GLX-EGRESS) whenever some ingress (egress) policy selects it. -/
theorem pod_chain_exact_partial (k : Kern) (ps : List NetPol) (q : Pod) (a : IP) (hip : q.ip = some a)
    (hok : (syncPodChain k ps q).2 = []) :
    Tbl.get (syncPodChain k ps q).1.tbl (.pod q.hash) = some (podChain ps q) ∧
    (hookedIngress ps q = true → ∃ rs, Tbl.get (syncPodChain k ps q).1.tbl .glxIngress = some rs ∧
      (⟨[.dst ⟨a, 32⟩, .comment (comment q.name q.ns)], .jump (.pod q.hash)⟩ : PRule) ∈ rs) ∧
    (hookedEgress ps q = true → ∃ rs, Tbl.get (syncPodChain k ps q).1.tbl .glxEgress = some rs ∧
      (⟨[.src ⟨a, 32⟩, .comment (comment q.name q.ns)], .jump (.pod q.hash)⟩ : PRule) ∈ rs) :=
  syncPodChain_exact k ps q a hip hok

/-- "synchronising again changes nothing", the part that holds for the policy chains: whenever two policy batches
    in a row report no failure (whatever happened in between to other chains), every GLX-PLCY-* chain is the same
    after the second as after the first. -/
theorem policy_chains_idempotent_partial (k k' : Kern) (ps : List NetPol) (hn : (ps.map (·.hash)).Nodup)
    (hok1 : (syncIptables k ps).2 = []) (hok2 : (syncIptables k' ps).2 = []) (h : String) :
    Tbl.get (syncIptables k' ps).1 (.plcy h) = Tbl.get (syncIptables k ps).1 (.plcy h) := by
  rw [syncIptables_exact k' ps hn hok2, syncIptables_exact k ps hn hok1]

/-- "no batch of rules is submitted that references a chain or set which does not exist at that point" — PROVED for
    syncRules from ANY prior kernel state (distinct chain names): every set a policy rule matches on was created
    before the batch and every chain is declared in the batch before it is used, so the only ways syncRules can
    fail are the busy `-X` of a still-referenced stale chain (D17) and the type clash of `ipset create -exist`. -/
theorem no_dangling_policy_batch_partial (k : Kern) (c : Cluster) (ps : List NetPol)
    (hkeys : (Tbl.keys k.tbl).Nodup) :
    ∀ f ∈ (syncRules k c ps).2, f = Fail.restoreBusy ∨ f = Fail.createMismatch :=
  syncRules_fails_only_busy k c ps hkeys (overLimit_false ps)

/-! ## the whole owned state (A): ipsets, the loop over the pods, idempotence, pod batches -/

theorem syncRules_eq : syncRules = syncRulesWith true := by
  unfold syncRules; rw [show G.createIPSetKeepsRekeyedEntries = true from by decide]

theorem fullSync_eq : fullSync = fullSyncWith true := by
  unfold fullSync; rw [show G.createIPSetKeepsRekeyedEntries = true from by decide]

/-- "the galaxy-owned ipsets … are exactly those derived from the current NetworkPolicies and pods, regardless of
    what galaxy … sets existed before": after syncRules (current source) from ANY prior sets — any names, any types,
    any entries, provided each prior set holds one element per key, as a kernel set does — if no `ipset create` clashes
    on the type (the only failure of the set pass), every compiled set exists with the compiled type and holds exactly
    the compiled entries, options included, and every stale GLX set no rule matches on any more is destroyed.
    Excluded: compiled entries that carry one key under two options (`ipset_entries_counter_key_clash`). -/
theorem ipset_entries_exact (k : Kern) (c : Cluster) (ps : List NetPol) (hps : (ps.map (·.hash)).Nodup)
    (hcons : ∀ s ∈ compileSets c ps, KeysConsistent s.entries)
    (hold : ∀ s0 ∈ k.sets, KeysNodup s0.entries)
    (hok : ∀ f ∈ (syncRules k c ps).2, f ≠ Fail.createMismatch) :
    (∀ s ∈ compileSets c ps, SetIs (syncRules k c ps).1.sets s.name s.type s.entries) ∧
    (∀ n ∈ k.sets.map (·.name), n.isGlx = true → n ∉ (compileSets c ps).map (·.name) →
      setReferenced (syncRules k c ps).1.tbl n = false → setExists (syncRules k c ps).1.sets n = false) := by
  rw [syncRules_eq] at hok ⊢
  exact syncRules_sets_exact k c ps (compileSets_names_nodup c ps hps) hcons hold hok

/-- "… and the chains of the pods on the node are exactly those derived …": the END STATE OF THE LOOP over all local
    pods (sequential model of syncPods).  Hypothesis `PriorPods`: the prior table has distinct chain names and the
    built-in chains; no GLX-POD chain of a pod outside the cluster's local pods or without address; every hook rule of
    GLX-INGRESS / GLX-EGRESS is the canonical hook — with the pod's CURRENT address — of a local pod whose chain
    exists, none twice; nothing else jumps to a pod chain.  Plus: the policy chains exist (the policy sync succeeded).
    Then no call fails, the ipsets are untouched, chain GLX-POD-<h> exists iff h is the hash of a local pod with an
    address that some policy selects and then holds exactly `podChain`, the hook chains hold exactly the hooks of the
    pods selected in that direction, and the hypothesis holds again.  The proof is the frame argument: each call
    touches only its own chain, its own hooks and the base jumps (`PodStep`), then induction over the pod list. -/
theorem pods_loop_exact (k : Kern) (c : Cluster) (ps : List NetPol) (node : String)
    (hL : ((localPods c node).map (·.hash)).Nodup) (pr : PriorPods (localPods c node) k.tbl)
    (hplcy : ∀ p ∈ ps, chainExists k.tbl (.plcy p.hash) = true) :
    (syncPods k c ps node).2 = [] ∧ (syncPods k c ps node).1.sets = k.sets ∧
    (∀ h rs, Tbl.get (syncPods k c ps node).1.tbl (.pod h) = some rs ↔
      ∃ q ∈ localPods c node, q.hash = h ∧ activePod ps q = true ∧ rs = podChain ps q) ∧
    (∀ r, r ∈ hooks (syncPods k c ps node).1.tbl .glxIngress ↔
      ∃ q ∈ localPods c node, hookRule true q = [r] ∧ hookedIngress ps q = true) ∧
    (∀ r, r ∈ hooks (syncPods k c ps node).1.tbl .glxEgress ↔
      ∃ q ∈ localPods c node, hookRule false q = [r] ∧ hookedEgress ps q = true) ∧
    PriorPods (localPods c node) (syncPods k c ps node).1.tbl := by
  have inv : PodInv ps (localPods c node) k.tbl :=
    ⟨pr.keys, pr.builtin, hplcy, pr.podchains, pr.hooksI, pr.hooksE, pr.nodupI, pr.nodupE, pr.refs⟩
  obtain ⟨p1, p2, p3, p4, _⟩ := syncPods_spec k c ps node hL inv
  obtain ⟨x1, x2, x3⟩ := pods_exact_of_inv p3 hL p4
  exact ⟨p1, p2, x1, x2, x3, p3.prior⟩

/-- FULL SYNC, the whole owned state: under `PriorPods`, distinct name hashes, one element per key in the prior sets
    and no key under two options in the compiled entries, a full sync whose policy step (syncRules) reports no
    failure reports no failure at all, and leaves exactly: the compiled GLX-PLCY chains, the compiled GLX-POD chains,
    the compiled hook rules, the compiled ipsets (entries with options); and the hypotheses hold again. -/
theorem full_sync_exact_under_hypotheses (k : Kern) (c : Cluster) (ps : List NetPol) (node : String)
    (hps : (ps.map (·.hash)).Nodup) (hL : ((localPods c node).map (·.hash)).Nodup)
    (pr : PriorPods (localPods c node) k.tbl) (hcons : ∀ s ∈ compileSets c ps, KeysConsistent s.entries)
    (hold : ∀ s0 ∈ k.sets, KeysNodup s0.entries) (hok : (syncRules k c ps).2 = []) :
    (fullSync k c ps node).2 = [] ∧ OwnedExact c ps node (fullSync k c ps node).1.tbl ∧
    (∀ s ∈ compileSets c ps, SetIs (fullSync k c ps node).1.sets s.name s.type s.entries) ∧
    PriorPods (localPods c node) (fullSync k c ps node).1.tbl := by
  rw [syncRules_eq] at hok; rw [fullSync_eq]
  obtain ⟨a, b, d, e⟩ := fullSync_exact k c ps node ⟨hps, hL, pr, compileSets_names_nodup c ps hps, hcons, hold, overLimit_false ps⟩ hok
  exact ⟨a, b, d, e.prior⟩

/-- "synchronising again changes nothing" — for the WHOLE owned state, under the same hypotheses: the second full sync
    reports no failure and leaves every GLX-PLCY chain, every GLX-POD chain, the hook rules of GLX-INGRESS /
    GLX-EGRESS and the contents of every compiled ipset as the first one left them (what is not galaxy's is
    untouched by `frame_foreign`). -/
theorem full_sync_idempotent_under_hypotheses (k : Kern) (c : Cluster) (ps : List NetPol) (node : String)
    (hps : (ps.map (·.hash)).Nodup) (hL : ((localPods c node).map (·.hash)).Nodup)
    (pr : PriorPods (localPods c node) k.tbl) (hcons : ∀ s ∈ compileSets c ps, KeysConsistent s.entries)
    (hold : ∀ s0 ∈ k.sets, KeysNodup s0.entries) (hok : (syncRules k c ps).2 = []) :
    let S1 := (fullSync k c ps node).1
    let R2 := fullSync S1 c ps node
    R2.2 = [] ∧
    (∀ h, Tbl.get R2.1.tbl (.plcy h) = Tbl.get S1.tbl (.plcy h)) ∧
    (∀ h, Tbl.get R2.1.tbl (.pod h) = Tbl.get S1.tbl (.pod h)) ∧
    (∀ r, r ∈ hooks R2.1.tbl .glxIngress ↔ r ∈ hooks S1.tbl .glxIngress) ∧
    (∀ r, r ∈ hooks R2.1.tbl .glxEgress ↔ r ∈ hooks S1.tbl .glxEgress) ∧
    (∀ s ∈ compileSets c ps, ∃ e1 e2, setEntries S1.sets s.name = some e1 ∧ setEntries R2.1.sets s.name = some e2 ∧
      ∀ y, y ∈ e2 ↔ y ∈ e1) := by
  rw [syncRules_eq] at hok; rw [fullSync_eq]
  exact fullSync_idempotent k c ps node ⟨hps, hL, pr, compileSets_names_nodup c ps hps, hcons, hold, overLimit_false ps⟩ hok

/-- "no batch of rules is submitted that references a chain … which does not exist at that point", for the batch of
    SyncPodChains: from ANY table with distinct chain names in which the chains of the current policies exist (what a
    successful policy sync guarantees, `policy_chains_exact_partial`), the pod-chain batch is accepted. -/
theorem no_dangling_pod_batch (k : Kern) (ps : List NetPol) (q : Pod) (hk : (Tbl.keys k.tbl).Nodup)
    (hplcy : ∀ p ∈ ps, chainExists k.tbl (.plcy p.hash) = true) :
    ∃ t2, restore k (Cmd.decl (.pod q.hash) :: (podChain ps q).map (Cmd.app (.pod q.hash))) = .ok t2 := by
  obtain ⟨t2, h, _⟩ := podBatch_spec k (.pod q.hash) (podChain ps q) rfl hk (by
    intro r hr
    obtain ⟨h1, h2⟩ := podChain_rules ps q r hr
    refine ⟨h1, fun c' hc' => ?_⟩
    obtain ⟨p, hp, rfl⟩ := h2 c' hc'
    exact hplcy p hp) (podChain_ports ps q)
  exact ⟨t2, h⟩

/-! ## witnesses -/

def ip4 (a b c d : Nat) : IP := a * 2 ^ 24 + b * 2 ^ 16 + c * 2 ^ 8 + d
def lbl (kvs : List (String × String)) : Selector := ⟨kvs, []⟩
/-- the empty kernel: built-in chains only -/
def k0 : Kern := ⟨[], [(.forward, []), (.input, []), (.output, [])]⟩
def nss1 : List Namespace := [⟨"ns1", [("name", "ns1")]⟩]
def podA (ip : IP) : Pod := ⟨"ns1", "a", "CDPJYSJ2OESJAMJJ", "node1", some ip, [("app", "a")]⟩
def pol (name hash : String) (port : Nat) (peers : List Peer) : NetPol :=
  ⟨"ns1", name, hash, lbl [("app", "a")], [.ingress], [⟨peers, [⟨.tcp, some port⟩]⟩], []⟩
def polX : NetPol := pol "x" "GZ6RV4PA44SL5TUX" 80 [.nss (lbl [("name", "ns1")])]
def polY : NetPol := pol "y" "HNJXEZLOMFWWK3TU" 81 [.nss (lbl [("name", "ns1")])]
def cA : Cluster := ⟨nss1, [podA (ip4 10 0 1 1)]⟩
/-- the kernel after a full sync of (cA, [x]) from the empty kernel -/
def kA : Kern := (fullSync k0 cA [polX] "node1").1

/-- non-vacuity: a sync from the empty kernel reports no failure and installs the pod chain; the hypothesis of
    `policy_chains_exact_partial` holds on a prior table that contains a stale, unreferenced policy chain -/
example : (fullSync k0 cA [polX] "node1").2 = [] ∧ chainExists kA.tbl (.pod "CDPJYSJ2OESJAMJJ") = true ∧
    (syncIptables ⟨kA.sets, kA.tbl ++ [(.plcy "STALE", [])]⟩ [polX]).2 = [] ∧
    chainExists (syncIptables ⟨kA.sets, kA.tbl ++ [(.plcy "STALE", [])]⟩ [polX]).1 (.plcy "STALE") = false := by
  decide

/-- idempotence does hold at this fixpoint: syncing (cA, [x]) again changes nothing and nothing fails -/
example : (fullSync kA cA [polX] "node1").2 = [] ∧
    (fullSync kA cA [polX] "node1").1.sets = kA.sets ∧ (fullSync kA cA [polX] "node1").1.tbl = kA.tbl := by
  decide

/-- D13 (corpus/C15/d13.ops): pod a vanished while galaxy was not watching.  The full sync of the new state reports
    no failure, yet a's GLX-POD chain and its hook rule in GLX-INGRESS are still there although no pod of the
    cluster lives on the node: full_sync_exact fails. -/
theorem full_sync_exact_counter_d13 :
    let r := fullSync kA ⟨nss1, []⟩ [polX] "node1"
    r.2 = [] ∧ chainExists r.1.tbl (.pod "CDPJYSJ2OESJAMJJ") = true ∧
    (Tbl.get r.1.tbl .glxIngress).map (·.length) = some 1 ∧
    chainExists (compileTable ⟨nss1, []⟩ [polX] "node1") (.pod "CDPJYSJ2OESJAMJJ") = false := by
  decide

/-- D13, second form (corpus/C15/d13ip.ops): the pod's address changed; the hook with the old address stays next to
    the new one. -/
theorem full_sync_exact_counter_d13_address :
    let r := fullSync kA ⟨nss1, [podA (ip4 10 0 1 101)]⟩ [polX] "node1"
    r.2 = [] ∧ (Tbl.get r.1.tbl .glxIngress).map (·.length) = some 2 := by
  decide

/-- D17 (corpus/C15/d17.ops): policy x is replaced by policy y (both select pod a).  The policy batch fails
    (restore:busy on -X GLX-PLCY-x, referenced by a's chain), GLX-PLCY-y is not created, the pod batch then fails
    (restore:no-target); the state after the sync is the state before it — so every further sync fails the same
    way: no convergence, a dangling reference is submitted, and neither exactness nor idempotence hold. -/
theorem full_sync_counter_d17 :
    let r := fullSync kA cA [polY] "node1"
    r.2 = [.restoreBusy, .restoreNoTarget] ∧
    (fullSync r.1 cA [polY] "node1").1.sets = r.1.sets ∧ (fullSync r.1 cA [polY] "node1").1.tbl = r.1.tbl ∧
    (fullSync r.1 cA [polY] "node1").2 = [.restoreBusy, .restoreNoTarget] ∧
    chainExists r.1.tbl (.plcy "HNJXEZLOMFWWK3TU") = false ∧ chainExists r.1.tbl (.plcy "GZ6RV4PA44SL5TUX") = true := by
  decide

/-- D21 as it was BEFORE the fix d42b414 (variant `keep = false` of the model): the except 10.0.1.0/24 of an ipBlock
    becomes the cidr of the same rule; after the sync the hash:net set is EMPTY (the entry was re-added, then deleted
    by key as stale) and only a second sync adds it.  corpus/C15/d21.ops replays the transition on the real code. -/
theorem full_sync_counter_d21 :
    let p1 := pol "x" "GZ6RV4PA44SL5TUX" 80 [.block ⟨ip4 10 0 0 0, 8⟩ [⟨ip4 10 0 1 0, 24⟩]]
    let p2 := pol "x" "GZ6RV4PA44SL5TUX" 80 [.block ⟨ip4 10 0 1 0, 24⟩ []]
    let k1 := (fullSyncWith false k0 cA [p1] "node1").1
    let r := fullSyncWith false k1 cA [p2] "node1"
    r.2 = [] ∧ setEntries r.1.sets ⟨.snet, 0, "GZ6RV4PA44SL5TUX"⟩ = some [] ∧
    setEntries (fullSyncWith false r.1 cA [p2] "node1").1.sets ⟨.snet, 0, "GZ6RV4PA44SL5TUX"⟩ =
      some [.net ⟨ip4 10 0 1 0, 24⟩ false] := by
  decide

/-- the current source has the guard (regenerated from createIPSet on every run) … -/
theorem fact_createIPSet_keeps_rekeyed_entries : createIPSetKeepsRekeyedEntries = true := by decide

/-- … and with it the same transition is exact at once and idempotent (regression of D21, corpus/C15/d21.ops) -/
theorem d21_fixed :
    let p1 := pol "x" "GZ6RV4PA44SL5TUX" 80 [.block ⟨ip4 10 0 0 0, 8⟩ [⟨ip4 10 0 1 0, 24⟩]]
    let p2 := pol "x" "GZ6RV4PA44SL5TUX" 80 [.block ⟨ip4 10 0 1 0, 24⟩ []]
    let k1 := (fullSync k0 cA [p1] "node1").1
    let r := fullSync k1 cA [p2] "node1"
    r.2 = [] ∧ setEntries r.1.sets ⟨.snet, 0, "GZ6RV4PA44SL5TUX"⟩ = some [.net ⟨ip4 10 0 1 0, 24⟩ false] ∧
    (fullSync r.1 cA [p2] "node1").1.sets = r.1.sets := by
  decide

/-- "the galaxy-owned ipsets … are exactly those derived … regardless of what … existed before", per set and per
    createIPSet step of the CURRENT source: from ANY prior content of an existing set of the right type (distinct
    keys, as in a kernel set), the step leaves exactly the compiled entries, options included — provided the
    compiled entries do not carry one key with two different options. -/
theorem ipset_entries_exact_partial (sets sets' : List IpSet) (s old : IpSet)
    (hfind : sets.find? (·.name == s.name) = some old) (hold : (old.entries.map Entry.key).Nodup)
    (hnew : KeysConsistent s.entries) (h : syncOneSet sets s = .ok sets') :
    ∃ es, setEntries sets' s.name = some es ∧ ∀ y, y ∈ es ↔ y ∈ s.entries := by
  have hk : syncOneSet = syncOneSetWith true := by
    unfold syncOneSet; rw [show G.createIPSetKeepsRekeyedEntries = true from fact_createIPSet_keeps_rekeyed_entries]
  rw [hk] at h
  exact syncOneSet_entries_exact sets sets' s old hfind hold hnew h

/-- the hypothesis is needed (D13): in the state left by a sync of (cA, [x]) pod a's chain exists; for the cluster
    without pod a this violates `PriorPods`, and indeed the loop leaves the chain (`full_sync_exact_counter_d13`). -/
theorem pods_loop_counter_d13 :
    ¬ PriorPods (localPods ⟨nss1, []⟩ "node1") (fullSync k0 cA [polX] "node1").1.tbl := by
  intro pr
  obtain ⟨q, hq, _, _⟩ := pr.podchains "CDPJYSJ2OESJAMJJ" (by decide)
  simp [localPods] at hq

/-- the cascade when the policy sync FAILS (corpus/C15/upd-fault.ops injects a kernel error; here the prior kernel holds
    a set named like x's target set but of type hash:net, so `ipset create -exist` clashes): syncRules aborts before
    any rule is submitted, the run goes on to the pod chains, and a's batch jumps to GLX-PLCY-x, which was never
    created (restore:no-target) — the hypothesis of `no_dangling_pod_batch` is needed. -/
theorem pod_batch_counter_failed_policy_sync :
    let k : Kern := ⟨[⟨⟨.sel, 0, "GZ6RV4PA44SL5TUX"⟩, .hashNet, []⟩], k0.tbl⟩
    (fullSync k cA [polX] "node1").2 = [.createMismatch, .restoreNoTarget] ∧
    chainExists (fullSync k cA [polX] "node1").1.tbl (.plcy "GZ6RV4PA44SL5TUX") = false := by
  decide

/-- the exclusion of `ipset_entries_exact` is needed: a rule that lists 10.0.1.0/24 both as an except and as a cidr
    compiles to one key under two options; the set then holds whichever was written last and FLIPS on every sync. -/
theorem ipset_entries_counter_key_clash :
    let p := pol "x" "GZ6RV4PA44SL5TUX" 80 [.block ⟨ip4 10 0 0 0, 8⟩ [⟨ip4 10 0 1 0, 24⟩], .block ⟨ip4 10 0 1 0, 24⟩ []]
    let s1 := (fullSync k0 cA [p] "node1").1
    let s2 := (fullSync s1 cA [p] "node1").1
    setEntries s1.sets ⟨.snet, 0, "GZ6RV4PA44SL5TUX"⟩ = some [.net ⟨ip4 10 0 0 0, 8⟩ false, .net ⟨ip4 10 0 1 0, 24⟩ false] ∧
    setEntries s2.sets ⟨.snet, 0, "GZ6RV4PA44SL5TUX"⟩ = some [.net ⟨ip4 10 0 0 0, 8⟩ false, .net ⟨ip4 10 0 1 0, 24⟩ true] := by
  decide

/-- non-vacuity of the hypotheses: the empty kernel satisfies `PriorPods` (and so does, by
    `full_sync_exact_under_hypotheses`, every state a successful sync leaves) -/
example : PriorPods (localPods cA "node1") k0.tbl ∧ (syncRules k0 cA [polX]).2 = [] := by
  refine ⟨⟨by decide, fun b hb => by cases b <;> first | decide | (cases hb), ?_, ?_, ?_, by decide, by decide, ?_⟩,
    by decide⟩
  · intro h hx; simp [chainExists, k0, Tbl.get] at hx
  · intro r hr; simp [hooks, k0, Tbl.get] at hr
  · intro r hr; simp [hooks, k0, Tbl.get] at hr
  · intro cn rs hg _ _ r hr
    simp only [k0, Tbl.get] at hg
    split at hg
    · cases hg; cases hr
    · split at hg
      · cases hg; cases hr
      · split at hg
        · cases hg; cases hr
        · cases hg

/-! ## facts of the source the model relies on -/

/-- order of the sync steps: periodic run = policies, policy rules, pod chains (D17 rests on this order);
    DeletePolicy = pods first; writeChains collects only GLX-PLCY-* (D13) and deletes with -X; syncRules = create /
    refresh sets, iptables batch, destroy stale GLX sets afterwards -/
theorem fact_sync_order :
    runOrder = ["syncNetworkPolices", "syncNetworkPolicyRules", "syncPods"] ∧
    orderAddPolicy = ["startPodInformerFactory", "syncNetworkPolices", "syncNetworkPolicyRules", "syncPods"] ∧
    orderUpdatePolicy = ["syncNetworkPolices", "syncNetworkPolicyRules", "syncPods"] ∧
    orderDeletePolicy = ["syncNetworkPolices", "syncPods", "syncNetworkPolicyRules"] ∧
    writeChainsCollectsPolicyPrefixOnly = true ∧ writeChainsDeletesWithX = true ∧ syncRulesOrder = true ∧
    syncNetworkPolicyRulesUnconditional = true ∧
    syncPodOrderDeleteThenNoIPThenBase = true ∧ chainNotExistErr = "No chain/target/match by that name" := by
  decide

/-! ## deletePodChains touches nobody else's hook -/

/-- FRAME OF ONE deletePodChains CALL, for every kernel state: in every chain other than the pod's own chain
    (GLX-INGRESS, GLX-EGRESS, every other pod's chain, policy chains, foreign chains) the rules that do not jump to
    THIS pod's chain are all still there, in their order, and no ipset changes.  In particular the hook of another pod
    (whatever its name, namespace or comment text) survives.  The model finds the rule by its jump target, which is what
    the source does as long as the keyword handed to deletePodRuleByKeyword is the pod chain name and ListRule lines
    have the `-A <chain> …` form: `fact_delete_pod_chains`.  (A search by the comment `<name>_<namespace>` takes the
    hooks of pods whose name_namespace contains that text: harness signature `pod-hook-of-other-pod-removed`.) -/
theorem delete_pod_chains_frame (k : Kern) (q : Pod) (c : Chain) (hc : c ≠ .pod q.hash) :
    (hooks (deletePodChains k q).1.tbl c).filter (fun r => !r.jumpsTo (.pod q.hash)) =
      (hooks k.tbl c).filter (fun r => !r.jumpsTo (.pod q.hash)) ∧
    (deletePodChains k q).1.sets = k.sets :=
  deletePodChains_others k q c hc

/-- the statement is not empty: two pods whose names contain one another (db-0_prod / db-0_prod2), both hooked;
    deleting the chains of the first leaves the hook of the second and removes its own -/
theorem delete_pod_chains_example :
    let q1 : Pod := ⟨"prod", "db-0", "AAAAAAAAAAAAAAAA", "node1", some (ip4 10 0 1 1), []⟩
    let q2 : Pod := ⟨"prod2", "db-0", "BBBBBBBBBBBBBBBB", "node1", some (ip4 10 0 2 1), []⟩
    let k : Kern := ⟨[], [(.glxIngress, hookRule true q1 ++ hookRule true q2), (.glxEgress, hookRule false q2),
      (.pod q1.hash, []), (.pod q2.hash, [])]⟩
    hooks (deletePodChains k q1).1.tbl .glxIngress = hookRule true q2 ∧
    hooks (deletePodChains k q1).1.tbl .glxEgress = hookRule false q2 ∧
    Tbl.get (deletePodChains k q1).1.tbl (.pod q1.hash) = none ∧ (deletePodChains k q1).2 = [] := by
  decide

/-- deletePodChains searches the hooks of GLX-INGRESS and GLX-EGRESS by the POD CHAIN NAME (not by the pod's comment),
    then flushes and deletes the pod chain; deletePodRuleByKeyword takes the FIRST ListRule line containing the keyword,
    drops its first two words (`-A <chain>`: the `iptables -S` line format harness/nf answers with) and deletes that rule -/
theorem fact_delete_pod_chains :
    deletePodChainsCalls = [("ingressChain", "string(utiliptables.Chain(podChainName(pod)))"),
      ("egressChain", "string(utiliptables.Chain(podChainName(pod)))")] ∧
    deletePodChainsOrder = ["deletePodRuleByKeyword", "deletePodRuleByKeyword", "FlushChain", "DeleteChain"] ∧
    deleteByKeywordMatch = "strings.Contains(line, keyword)" ∧ deleteByKeywordFirstMatchOnly = true ∧
    deleteByKeywordDropsWords = 2 := by
  decide

end Galaxy.Props.C15
