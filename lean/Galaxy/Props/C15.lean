/-
  Property C15 — "Network-policy sync converges and leaves foreign rules alone".

  Model: `Kern` (ipsets + filter table, structured), the strict primitive semantics (`restore` all-or-nothing, `-X`
  needs an unreferenced chain, `ipset add -exist` replaces by key, destroy fails while referenced), and galaxy's
  `syncRules` / `syncPods` / `fullSync` on top of it (Galaxy.Policy, Model/Policy.lean).  Every sync step of the REAL
  PolicyManager over the strict fakes of harness/nf is compared with these functions on every run, starting from the
  real prior dump (harness c15), and the four clauses are monitored on the real dumps.

  FULL STATEMENTS (what the property asks):

    full_sync_exact       ∀ k c ps node,  owned (fullSync k c ps node).1 = owned (compile c ps node)
                          (GLX* sets, GLX-PLCY-* chains, GLX-POD-* chains, hook rules of GLX-INGRESS / GLX-EGRESS)
    full_sync_idempotent  ∀ k c ps node,  fullSync (fullSync k c ps node).1 c ps node = ((fullSync k c ps node).1, [])
    frame_foreign         ∀ k c ps node,  Frame k (fullSync k c ps node).1                      — PROVED, see below
    no_dangling_reference ∀ k c ps node,  (fullSync k c ps node).2 = []  (no rule submission names a missing chain/set)

  full_sync_exact, full_sync_idempotent and no_dangling_reference are FALSE for the code as it is:
    D13 `full_sync_exact_counter_d13`  pod chains / hooks of vanished pods (or old addresses) are never collected;
    D17 `full_sync_counter_d17`        a stale policy chain referenced by a pod chain makes the policy batch fail
                                        atomically; with a new policy selecting the pod the sync never converges;
  (D21, an ipset entry whose options change being re-added and then deleted, is FIXED in /repo (d42b414): the model
   follows the regenerated fact `createIPSetKeepsRekeyedEntries`; `full_sync_counter_d21` is now a theorem about the
   PRE-fix variant `fullSyncWith false`, `ipset_entries_exact_partial` the post-fix statement.)
  What is PROVED in their place, for ALL prior kernel states:
    frame_foreign (full), frame_foreign_steps;
    policy_chains_exact_partial     a policy batch that reports no failure installs exactly the compiled GLX-PLCY-*;
    pod_chain_exact_partial         a SyncPodChains call that reports no failure leaves exactly the compiled GLX-POD
                                    chain and the hook rule(s) of the pod;
    policy_chains_idempotent_partial  two successful policy batches in a row install the same chains;
    ipset_entries_exact_partial     one createIPSet step (current source) leaves exactly the compiled entries, options
                                    included, from any prior content of the set;
    no_dangling_policy_batch_partial  syncRules never submits a rule naming a missing chain / set: its only possible
                                    failures are the busy -X (D17) and the type clash of `ipset create`.
  NOT proved (monitored on the real dumps by harness c15 only): the end state of the
  pod chains after the whole loop over the pods (non-interference between pods), absence of other GLX-POD chains
  (false: D13), idempotence of the whole state, no-dangling for the pod batches.
-/
import Galaxy.Lemmas.PolicySyncSets

namespace Galaxy.Props.C15
open Galaxy.Policy
open Galaxy.Generated.Policy

/-! ## frame_foreign (full strength) -/

/-- "chains, rules and sets that galaxy does not own are never modified": after a full sync from ANY kernel state,
    (1) every chain that is not GLX-* and not built-in is exactly as before, (2) FORWARD / INPUT / OUTPUT keep all
    their rules, in order, except for the documented base jumps (`-j GLX-INGRESS`, `-j GLX-EGRESS`), (3) every ipset
    whose name does not start with GLX is exactly as before. -/
theorem frame_foreign (k : Kern) (c : Cluster) (ps : List NetPol) (node : String) :
    (∀ name, Tbl.get (fullSync k c ps node).1.tbl (.other name) = Tbl.get k.tbl (.other name)) ∧
    (∀ b, b.isBuiltin = true →
      (Tbl.get (fullSync k c ps node).1.tbl b).map (foreignRules b) = (Tbl.get k.tbl b).map (foreignRules b)) ∧
    (∀ n, n.isGlx = false →
      (fullSync k c ps node).1.sets.find? (·.name == n) = k.sets.find? (·.name == n)) := by
  have F := fullSync_frame k c ps node
  refine ⟨fun name => ?_, fun b hb => ?_, F.sets⟩
  · have := F.chains (.other name) rfl
    cases h1 : Tbl.get (fullSync k c ps node).1.tbl (.other name) <;> cases h2 : Tbl.get k.tbl (.other name) <;>
      simp_all [foreignRules_other]
  · exact F.chains b (by cases b <;> simp_all [Chain.isBuiltin, Chain.isGlx])

/-- the same holds for each step the event handlers are composed of (AddPolicy / UpdatePolicy: rules then pods;
    DeletePolicy: pods then rules) -/
theorem frame_foreign_steps (k : Kern) (c : Cluster) (ps : List NetPol) (node : String) :
    Frame k (syncRules k c ps).1 ∧ Frame k (syncPods k c ps node).1 ∧
    Frame k (syncRules (syncPods k c ps node).1 c ps).1 :=
  ⟨syncRules_frame k c ps, syncPods_frame k c ps node,
    (syncPods_frame k c ps node).trans (syncRules_frame _ c ps)⟩

/-! ## full_sync_exact, the part that holds -/

/-- "after a full synchronisation the … policy chains … are exactly those derived from the current NetworkPolicies
    … regardless of what galaxy rules existed before" — PROVED under the explicit hypothesis that the policy batch
    reports no failure (what can fail is the -X of a still-referenced stale chain, D17): from ANY prior table,
    chain GLX-PLCY-<h> exists iff a current policy has name hash h, and holds exactly its compiled rules. -/
theorem policy_chains_exact_partial (k : Kern) (ps : List NetPol) (hn : (ps.map (·.hash)).Nodup)
    (hok : (syncIptables k ps).2 = []) (h : String) :
    Tbl.get (syncIptables k ps).1 (.plcy h) = (ps.find? (fun p => p.hash == h)).map policyChain :=
  syncIptables_exact k ps hn hok h

/-- "… and the chains of the pods on the node are exactly those derived from the current NetworkPolicies and pods" —
    PROVED per call: from ANY prior table, a SyncPodChains call (the part after ensureBasicChain) that reports no
    failure leaves chain GLX-POD-<hash> with exactly the compiled rules, and the pod's hook rule in GLX-INGRESS
    (GLX-EGRESS) whenever some ingress (egress) policy selects it. -/
theorem pod_chain_exact_partial (k : Kern) (ps : List NetPol) (q : Pod) (a : IP) (hip : q.ip = some a)
    (hok : (syncPodChain k ps q).2 = []) :
    Tbl.get (syncPodChain k ps q).1.tbl (.pod q.hash) = some (podChain ps q) ∧
    (hookedIngress ps q = true → ∃ rs, Tbl.get (syncPodChain k ps q).1.tbl .glxIngress = some rs ∧
      (⟨[.dst ⟨a, 32⟩, .comment (comment q.name q.ns)], .jump (.pod q.hash)⟩ : PRule) ∈ rs) ∧
    (hookedEgress ps q = true → ∃ rs, Tbl.get (syncPodChain k ps q).1.tbl .glxEgress = some rs ∧
      (⟨[.src ⟨a, 32⟩, .comment (comment q.name q.ns)], .jump (.pod q.hash)⟩ : PRule) ∈ rs) :=
  syncPodChain_exact k ps q a hip hok

/-- "synchronising again changes nothing", the part that holds for the policy chains: whenever two policy batches
    in a row report no failure (whatever happened in between to other chains), every GLX-PLCY-* chain is the same
    after the second as after the first. -/
theorem policy_chains_idempotent_partial (k k' : Kern) (ps : List NetPol) (hn : (ps.map (·.hash)).Nodup)
    (hok1 : (syncIptables k ps).2 = []) (hok2 : (syncIptables k' ps).2 = []) (h : String) :
    Tbl.get (syncIptables k' ps).1 (.plcy h) = Tbl.get (syncIptables k ps).1 (.plcy h) := by
  rw [syncIptables_exact k' ps hn hok2, syncIptables_exact k ps hn hok1]

/-- "no batch of rules is submitted that references a chain or set which does not exist at that point" — PROVED for
    syncRules from ANY prior kernel state (distinct chain names): every set a policy rule matches on was created
    before the batch and every chain is declared in the batch before it is used, so the only ways syncRules can
    fail are the busy `-X` of a still-referenced stale chain (D17) and the type clash of `ipset create -exist`. -/
theorem no_dangling_policy_batch_partial (k : Kern) (c : Cluster) (ps : List NetPol)
    (hkeys : (Tbl.keys k.tbl).Nodup) :
    ∀ f ∈ (syncRules k c ps).2, f = Fail.restoreBusy ∨ f = Fail.createMismatch :=
  syncRules_fails_only_busy k c ps hkeys

/-! ## witnesses -/

def ip4 (a b c d : Nat) : IP := a * 2 ^ 24 + b * 2 ^ 16 + c * 2 ^ 8 + d
def lbl (kvs : List (String × String)) : Selector := ⟨kvs, []⟩
/-- the empty kernel: built-in chains only -/
def k0 : Kern := ⟨[], [(.forward, []), (.input, []), (.output, [])]⟩
def nss1 : List Namespace := [⟨"ns1", [("name", "ns1")]⟩]
def podA (ip : IP) : Pod := ⟨"ns1", "a", "CDPJYSJ2OESJAMJJ", "node1", some ip, [("app", "a")]⟩
def pol (name hash : String) (port : Nat) (peers : List Peer) : NetPol :=
  ⟨"ns1", name, hash, lbl [("app", "a")], [.ingress], [⟨peers, [⟨.tcp, some port⟩]⟩], []⟩
def polX : NetPol := pol "x" "GZ6RV4PA44SL5TUX" 80 [.nss (lbl [("name", "ns1")])]
def polY : NetPol := pol "y" "HNJXEZLOMFWWK3TU" 81 [.nss (lbl [("name", "ns1")])]
def cA : Cluster := ⟨nss1, [podA (ip4 10 0 1 1)]⟩
/-- the kernel after a full sync of (cA, [x]) from the empty kernel -/
def kA : Kern := (fullSync k0 cA [polX] "node1").1

/-- non-vacuity: a sync from the empty kernel reports no failure and installs the pod chain; the hypothesis of
    `policy_chains_exact_partial` holds on a prior table that contains a stale, unreferenced policy chain -/
example : (fullSync k0 cA [polX] "node1").2 = [] ∧ chainExists kA.tbl (.pod "CDPJYSJ2OESJAMJJ") = true ∧
    (syncIptables ⟨kA.sets, kA.tbl ++ [(.plcy "STALE", [])]⟩ [polX]).2 = [] ∧
    chainExists (syncIptables ⟨kA.sets, kA.tbl ++ [(.plcy "STALE", [])]⟩ [polX]).1 (.plcy "STALE") = false := by
  decide

/-- idempotence does hold at this fixpoint: syncing (cA, [x]) again changes nothing and nothing fails -/
example : (fullSync kA cA [polX] "node1").2 = [] ∧
    (fullSync kA cA [polX] "node1").1.sets = kA.sets ∧ (fullSync kA cA [polX] "node1").1.tbl = kA.tbl := by
  decide

/-- D13 (corpus/C15/d13.ops): pod a vanished while galaxy was not watching.  The full sync of the new state reports
    no failure, yet a's GLX-POD chain and its hook rule in GLX-INGRESS are still there although no pod of the
    cluster lives on the node: full_sync_exact fails. -/
theorem full_sync_exact_counter_d13 :
    let r := fullSync kA ⟨nss1, []⟩ [polX] "node1"
    r.2 = [] ∧ chainExists r.1.tbl (.pod "CDPJYSJ2OESJAMJJ") = true ∧
    (Tbl.get r.1.tbl .glxIngress).map (·.length) = some 1 ∧
    chainExists (compileTable ⟨nss1, []⟩ [polX] "node1") (.pod "CDPJYSJ2OESJAMJJ") = false := by
  decide

/-- D13, second form (corpus/C15/d13ip.ops): the pod's address changed; the hook with the old address stays next to
    the new one. -/
theorem full_sync_exact_counter_d13_address :
    let r := fullSync kA ⟨nss1, [podA (ip4 10 0 1 101)]⟩ [polX] "node1"
    r.2 = [] ∧ (Tbl.get r.1.tbl .glxIngress).map (·.length) = some 2 := by
  decide

/-- D17 (corpus/C15/d17.ops): policy x is replaced by policy y (both select pod a).  The policy batch fails
    (restore:busy on -X GLX-PLCY-x, referenced by a's chain), GLX-PLCY-y is not created, the pod batch then fails
    (restore:no-target); the state after the sync is the state before it — so every further sync fails the same
    way: no convergence, a dangling reference is submitted, and neither exactness nor idempotence hold. -/
theorem full_sync_counter_d17 :
    let r := fullSync kA cA [polY] "node1"
    r.2 = [.restoreBusy, .restoreNoTarget] ∧
    (fullSync r.1 cA [polY] "node1").1.sets = r.1.sets ∧ (fullSync r.1 cA [polY] "node1").1.tbl = r.1.tbl ∧
    (fullSync r.1 cA [polY] "node1").2 = [.restoreBusy, .restoreNoTarget] ∧
    chainExists r.1.tbl (.plcy "HNJXEZLOMFWWK3TU") = false ∧ chainExists r.1.tbl (.plcy "GZ6RV4PA44SL5TUX") = true := by
  decide

/-- D21 as it was BEFORE the fix d42b414 (variant `keep = false` of the model): the except 10.0.1.0/24 of an ipBlock
    becomes the cidr of the same rule; after the sync the hash:net set is EMPTY (the entry was re-added, then deleted
    by key as stale) and only a second sync adds it.  corpus/C15/d21.ops replays the transition on the real code. -/
theorem full_sync_counter_d21 :
    let p1 := pol "x" "GZ6RV4PA44SL5TUX" 80 [.block ⟨ip4 10 0 0 0, 8⟩ [⟨ip4 10 0 1 0, 24⟩]]
    let p2 := pol "x" "GZ6RV4PA44SL5TUX" 80 [.block ⟨ip4 10 0 1 0, 24⟩ []]
    let k1 := (fullSyncWith false k0 cA [p1] "node1").1
    let r := fullSyncWith false k1 cA [p2] "node1"
    r.2 = [] ∧ setEntries r.1.sets ⟨.snet, 0, "GZ6RV4PA44SL5TUX"⟩ = some [] ∧
    setEntries (fullSyncWith false r.1 cA [p2] "node1").1.sets ⟨.snet, 0, "GZ6RV4PA44SL5TUX"⟩ =
      some [.net ⟨ip4 10 0 1 0, 24⟩ false] := by
  decide

/-- the current source has the guard (regenerated from createIPSet on every run) … -/
theorem fact_createIPSet_keeps_rekeyed_entries : createIPSetKeepsRekeyedEntries = true := by decide

/-- … and with it the same transition is exact at once and idempotent (regression of D21, corpus/C15/d21.ops) -/
theorem d21_fixed :
    let p1 := pol "x" "GZ6RV4PA44SL5TUX" 80 [.block ⟨ip4 10 0 0 0, 8⟩ [⟨ip4 10 0 1 0, 24⟩]]
    let p2 := pol "x" "GZ6RV4PA44SL5TUX" 80 [.block ⟨ip4 10 0 1 0, 24⟩ []]
    let k1 := (fullSync k0 cA [p1] "node1").1
    let r := fullSync k1 cA [p2] "node1"
    r.2 = [] ∧ setEntries r.1.sets ⟨.snet, 0, "GZ6RV4PA44SL5TUX"⟩ = some [.net ⟨ip4 10 0 1 0, 24⟩ false] ∧
    (fullSync r.1 cA [p2] "node1").1.sets = r.1.sets := by
  decide

/-- "the galaxy-owned ipsets … are exactly those derived … regardless of what … existed before", per set and per
    createIPSet step of the CURRENT source: from ANY prior content of an existing set of the right type (distinct
    keys, as in a kernel set), the step leaves exactly the compiled entries, options included — provided the
    compiled entries do not carry one key with two different options. -/
theorem ipset_entries_exact_partial (sets sets' : List IpSet) (s old : IpSet)
    (hfind : sets.find? (·.name == s.name) = some old) (hold : (old.entries.map Entry.key).Nodup)
    (hnew : KeysConsistent s.entries) (h : syncOneSet sets s = .ok sets') :
    ∃ es, setEntries sets' s.name = some es ∧ ∀ y, y ∈ es ↔ y ∈ s.entries := by
  have hk : syncOneSet = syncOneSetWith true := by
    unfold syncOneSet; rw [show G.createIPSetKeepsRekeyedEntries = true from fact_createIPSet_keeps_rekeyed_entries]
  rw [hk] at h
  exact syncOneSet_entries_exact sets sets' s old hfind hold hnew h

/-! ## facts of the source the model relies on -/

/-- order of the sync steps: periodic run = policies, policy rules, pod chains (D17 rests on this order);
    DeletePolicy = pods first; writeChains collects only GLX-PLCY-* (D13) and deletes with -X; syncRules = create /
    refresh sets, iptables batch, destroy stale GLX sets afterwards -/
theorem fact_sync_order :
    runOrder = ["syncNetworkPolices", "syncNetworkPolicyRules", "syncPods"] ∧
    orderAddPolicy = ["startPodInformerFactory", "syncNetworkPolices", "syncNetworkPolicyRules", "syncPods"] ∧
    orderUpdatePolicy = ["syncNetworkPolices", "syncNetworkPolicyRules", "syncPods"] ∧
    orderDeletePolicy = ["syncNetworkPolices", "syncPods", "syncNetworkPolicyRules"] ∧
    writeChainsCollectsPolicyPrefixOnly = true ∧ writeChainsDeletesWithX = true ∧ syncRulesOrder = true ∧
    syncPodOrderDeleteThenNoIPThenBase = true ∧ chainNotExistErr = "No chain/target/match by that name" := by
  decide

end Galaxy.Props.C15
