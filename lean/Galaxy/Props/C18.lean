/-
  C18 — "No request, watched object or configuration can crash or wedge a daemon":
  "For every pod object the scheduler or the API server can deliver (any annotations, requested ranges, owner
  references), every HTTP request body and query, every valid NetworkPolicy, every CNI request and every
  configuration text, galaxy-ipam and galaxy answer with a result or an error in bounded time: they do not panic,
  do not loop forever and do not keep a lock held."

  What is proved here: for every Go function mirrored by a function of the model M10 (Galaxy/Model/Total.lean —
  total by construction, Go's run-time panics explicit as `Except Panic`), the model instantiated with the loop
  shape / guards / constants REGENERATED from /repo (`Galaxy.Generated.Total`) returns `.ok` for every input
  (= "answers with a result or an error, does not panic"), and the one loop which is not bounded by the length
  of a list terminates (= "does not loop forever").  `fact_*` theorems pin the regenerated shapes the models
  assume; `*_counter` theorems show the panic / hang of the pre-fix shape (the documented deviations D1, D9, D10,
  D19, D20) or of an input outside a stated precondition.  Only theorems, `example`s (non-vacuity) here; helper
  lemmas are in Galaxy/Lemmas/Total.lean.
-/
import Galaxy.Lemmas.Total
import Galaxy.Lemmas.TotalWalk
import Galaxy.Generated.Lockset

namespace Galaxy.Props.C18
open Galaxy.Total
open Galaxy

/-! ### 1. requested / configured ranges: `walkIPRanges` -/

/-- Pins the regenerated loop header of `walkIPRanges` (`for ; first <= last; first++`) which `walkW` models;
the counter width is NOT pinned: `walk_terminates` is stated about the regenerated width. -/
theorem fact_walk_shape : Generated.Total.walkCmpOp = "<=" ∧ Generated.Total.walkIncr = "++" := by decide

/-- C18 "do not loop forever … including extreme values such as ranges ending at 255.255.255.255": with the
counter width of the CURRENT source, the walk of any IPv4 range `first ≤ last ≤ 2^32-1` evaluates its loop
condition `last-first+2` times, visits exactly `last-first+1` addresses and stops (for every larger bound too). -/
theorem walk_terminates (first last : Nat) (h : first ≤ last) (hl : last < 2 ^ 32) (fuel : Nat)
    (hf : last - first + 2 ≤ fuel) : walk first last fuel = some (last - first + 1) := by
  have hb : Generated.Total.walkCounterBits = 64 := rfl
  unfold walk
  rw [walkW_terminates _ last (by rw [hb]; omega) fuel first 0 (by omega) (by omega)]
  congr 1; omega

/-- Non-vacuity: the range 255.255.255.254~255.255.255.255 is walked in two steps. -/
example : walk 4294967294 4294967295 3 = some 2 := by decide

/-- Known deviation D1 (fixed): with the pre-fix 32-bit counter a range ending at 255.255.255.255 is never
finished — no bound on the number of iterations suffices. -/
theorem walk_terminates_counter (first : Nat) (h : first < 2 ^ 32) (fuel : Nat) :
    walkW 32 (2 ^ 32 - 1) fuel first 0 = none :=
  walkW_hangs 32 _ (by decide) fuel first 0 h

/-- The dividing line for any counter width: a `w`-bit counter hangs on exactly the ranges which end at `2^w-1`. -/
theorem walk_hangs_iff_last_is_max (w first last : Nat) (h : first ≤ last) (hl : last < 2 ^ w) :
    (∀ fuel, walkW w last fuel first 0 = none) ↔ last + 1 = 2 ^ w := by
  constructor
  · intro hn
    apply Classical.byContradiction
    intro hne
    have := walkW_terminates w last (by omega) (last + 2 - first) first 0 (by omega) (by omega)
    rw [hn] at this
    exact absurd this (by simp)
  · intro he fuel
    exact walkW_hangs w last he fuel first 0 (by omega)

/-! ### 1b. requested ranges of a pod annotation: `walkConfiguredIPRanges` (D22) -/

/-- Pins that every request-driven walk (`NodeSubnetsByIPRanges`, `AllocateInSubnetsAndIPRange`, `ByKeyAndIPRanges`: the
ranges come from a pod annotation) goes through `walkConfiguredIPRanges`, never through `walkIPRanges` over the raw
requested range, and that `walkConfiguredIPRanges` has the shape `walkConfigured` mirrors. -/
theorem fact_request_walks_clipped :
    Generated.Total.requestWalksAreClipped = true ∧
      Generated.Total.requestWalkSites.all (fun s => s.2 == "walkConfiguredIPRanges") = true ∧
      Generated.Total.requestWalkSites.length = 3 := by decide

/-- C18 "answer … in bounded time … requested ranges … extreme values" (D22): whatever ranges a pod requests (up to
0.0.0.0~255.255.255.255), the number of addresses walked under the IPAM lock is at most the number of CONFIGURED
addresses per requested range — it does not depend on the size of the requested ranges. -/
theorem walkConfigured_cost_bounded (conf reqs : List (Nat × Nat)) :
    ((reqs.map fun r => (walkRequest conf r.1 r.2).length).sum) ≤ reqs.length * confSize conf := by
  induction reqs with
  | nil => simp
  | cons r t ih =>
    have h : (walkRequest conf r.1 r.2).length ≤ confSize conf := walkConfigured_length_le conf r.1 r.2
    simp only [List.map_cons, List.sum_cons, List.length_cons]
    rw [Nat.add_mul]
    omega

/-- The clipped walk loses nothing: it visits exactly the requested addresses that are configured (addresses outside
every pool are in neither cache, so the callbacks of the three sites could not have matched them anyway). -/
theorem walkConfigured_visits_exactly (conf : List (Nat × Nat)) (first last ip : Nat) :
    ip ∈ walkRequest conf first last ↔ first ≤ ip ∧ ip ≤ last ∧ ∃ r ∈ conf, r.1 ≤ ip ∧ ip ≤ r.2 :=
  mem_walkConfigured

/-- … in the order `walkIPRanges` would have used: strictly ascending per requested range (configured ranges do not
overlap), so "first matching address" picks the same address as before the fix. -/
theorem walkConfigured_ascending_order (conf : List (Nat × Nat)) (first last : Nat) (h : Disjoint conf) :
    (walkRequest conf first last).Pairwise (· < ·) :=
  walkConfigured_ascending first last h

/-- Non-vacuity: pools 10~12 and 20~29, request 0~2^32-1 walks the 13 configured addresses; request 11~21 walks 11,12,20,21. -/
example : (walkRequest [(20, 29), (10, 12)] 0 (2 ^ 32 - 1)).length = 13 ∧
    walkRequest [(20, 29), (10, 12)] 11 21 = [11, 12, 20, 21] ∧ Disjoint [(20, 29), (10, 12)] := by
  refine ⟨by decide, by decide, ?_⟩
  simp [Disjoint]

/-- Known deviation D22 (fixed): walking the raw requested range costs its size whatever is configured —
2^32 callbacks under the lock for `0.0.0.0~255.255.255.255` even with no pool at all. -/
theorem walkConfigured_cost_counter : (walkRequestG false [] 0 (2 ^ 32 - 1)).length = 2 ^ 32 := by
  simp [walkRequestG, rangeIPs, rangeSize]

/-! ### 2. HTTP query of `ListIPs`: pagination -/

/-- Pins the wiring the pagination model assumes: `PagingParams` clamps both values, `ListIPs` passes them with
`len(fips)` to `Pagination` and slices `fips` with the returned start / end. -/
theorem fact_pagination_wiring : Generated.Total.pagingParamsClamped = true ∧
    Generated.Total.listIPsUsesPagingParams = true ∧ Generated.Total.listIPsSlicesMeasuredList = true := by decide

/-- C18 "every HTTP request … query … do not panic": for every `page` and `size` query value (absent, not a
number / out of the int64 range, any integer) and every list length, the regenerated clamps and arithmetic give
`0 ≤ start ≤ end ≤ len` (the slice expression `fips[start:end]` is in bounds) and `1 ≤ size ≤ 9999` (neither
division of `pagin` divides by zero): `listIPsPage` returns `.ok`. -/
theorem pagination_in_bounds (pq sq : Query) (len : Nat) :
    ∃ o, listIPsPage pq sq len = .ok o ∧ 0 ≤ o.start ∧ o.start ≤ o.stop ∧ o.stop ≤ len ∧
      1 ≤ o.size ∧ o.size ≤ 9999 := by
  have hp := parsePage_range pq
  have hs := parseSize_range sq
  have hb := pg_bounds (parsePage pq) (parseSize sq) len (Int.mul_nonneg hp.1 (by omega)) hs.1
  exact ⟨_, listIPsPage_eq pq sq len, hb.1, hb.2.1, hb.2.2, hs.1, hs.2⟩

/-- The model computes over unbounded integers; this shows no intermediate value of the Go `int` arithmetic leaves
the int64 range (lists shorter than 2^62 elements), so the unbounded model is the Go computation. -/
theorem pagination_no_int_overflow (pq sq : Query) (len : Nat) (hl : len < 2 ^ 62) :
    0 ≤ parsePage pq * parseSize sq ∧ parsePage pq * parseSize sq < 2 ^ 63 ∧
      Generated.Total.pgStart (parsePage pq) (parseSize sq) len + parseSize sq < 2 ^ 63 ∧
      (len : Int) + parseSize sq - 1 < 2 ^ 63 := by
  have hp := parsePage_range pq
  have hs := parseSize_range sq
  have hb := pg_bounds (parsePage pq) (parseSize sq) len (Int.mul_nonneg hp.1 (by omega)) hs.1
  have hm : parsePage pq * parseSize sq ≤ 99999 * 9999 := Int.mul_le_mul hp.2 hs.2 (by omega) (by omega)
  refine ⟨Int.mul_nonneg hp.1 (by omega), by omega, ?_, by omega⟩
  have : Generated.Total.pgStart (parsePage pq) (parseSize sq) len ≤ len := by omega
  omega

/-- Non-vacuity / extreme query: `page=99999999&size=-3` on 25 entries is the empty last page of size 10. -/
example : (listIPsPage (.num 99999999) (.num (-3)) 25).toOption.map (fun o => (o.start, o.stop, o.size, o.totalPages))
    = some (25, 25, 10, 3) := by decide

/-! ### 3. pod annotations: `constant.PolicyStr` -/

/-- Pins where the argument of every `constant.PolicyStr` call comes from: `parseReleasePolicy`, all of whose
returns are ReleasePolicy constants or `ConvertReleasePolicy(…)` (a stored `FloatingIP.Policy` is never passed). -/
theorem fact_policyStr_callers :
    Generated.Total.policyStrCallSites.all (fun s => s.2 == "parseReleasePolicy") = true ∧
      Generated.Total.parsePolicyOtherReturnsConvert = true := by decide

/-- C18 "every pod object … any annotations … do not panic": whatever the release-policy annotation says (and
whether a pool annotation short-cuts it), the value `parseReleasePolicy` hands to `PolicyStr` indexes the
regenerated 3-element array in bounds. -/
theorem policyStr_index (const : Option Nat) (annotation : String) :
    ∃ s, policyStr (parseReleasePolicy const annotation) = .ok s :=
  policyStr_ok _ (parseReleasePolicy_lt const annotation)

/-- Non-vacuity: the `never` annotation maps to index 2, printed `never`. -/
example : policyStr (parseReleasePolicy none "never") = .ok "never" := by decide

/-- `PolicyStr` itself has no guard: any policy value ≥ 3 (the type is uint16, a stored FloatingIP object can
carry one) would panic — which is why `fact_policyStr_callers` matters. -/
theorem policyStr_index_counter (n : Nat) (h : 3 ≤ n) : policyStr n = .error .indexOutOfRange :=
  policyStr_panics n h

/-! ### 4. pod names: `parsePodIndex` -/

/-- C18 "every pod object … do not panic": `strings.Split` with the regenerated (non-empty) separator never returns
an empty list, so `parts[len(parts)-1]` is in bounds for every pod name / key; the function returns a number
or the Atoi error. -/
theorem parsePodIndex_nonempty_split (name : Str) : ∃ r, parsePodIndex name = .ok r := parsePodIndex_ok name

/-- Non-vacuity: `sts-a-12` has index 12; the empty name is an Atoi error, not a panic. -/
example : parsePodIndex "sts-a-12".toList = .ok (some 12) ∧ parsePodIndex [] = .ok none := by decide

/-- The precondition that matters: with an empty separator `Split("", "")` is empty and the index expression
panics. -/
theorem parsePodIndex_nonempty_split_counter : parsePodIndexG [] 1 [] = .error .indexOutOfRange := by decide

/-! ### 5. stored keys / API keys: `util.ParseKey` -/

/-- C18 "every HTTP request … every pod object … do not panic": under the regenerated guards (`HasPrefix` before
`key[len(poolPrefix):]`, `len(parts) != 2` before `parts[0]`/`parts[1]`, `len(parts) == 4` before the four indexes of
`resolvePodKey`) `ParseKey` returns for every string. -/
theorem parseKey_no_slice_oob (key : Str) : ∃ k, parseKey key = .ok k := parseKey_ok key

/-- Non-vacuity: a pool key of a deployment pod decodes to its five fields. -/
example : parseKey "pool__p1_dp_ns1_dp1_dp1-x".toList =
    .ok { poolName := "p1".toList, appTypePrefix := "dp_".toList, appName := "dp1".toList,
          podName := "dp1-x".toList, ns := "ns1".toList } := by decide

/-- Without the `HasPrefix` guard a key shorter than the pool prefix panics in the slice expression; without the
length guard of `resolvePodKey` a key with fewer than four fields panics in the index expression. -/
theorem parseKey_no_slice_oob_counter :
    parseKeyG false (some 2) [0, 1] "ab".toList = .error .sliceBounds ∧
      resolvePodKeyG "_".toList "_".toList none [0, 2, 3, 1] "a_b".toList = .error .indexOutOfRange := by decide

/-! ### 6. JSON values: `IPNet.UnmarshalJSON`, `IPRange.UnmarshalJSON` -/

/-- C18 "every configuration text / pod annotation … do not panic": for every length of `data` (including 0, 1, 2
— direct callers, not only `encoding/json`) the regenerated guard `len(data) < 3` makes `data[1:len(data)-1]` a
valid slice expression or returns the error first. -/
theorem ipnet_unmarshal_slice_guard (len : Nat) :
    (∃ r, ipnetSlice len = .ok r) ∧ (∃ r, iprangeSlice len = .ok r) :=
  ⟨unmarshalSliceG_ok _ _ _ len (by decide), unmarshalSliceG_ok _ _ _ len (by decide)⟩

/-- Non-vacuity: two bytes are rejected with an error, `"a"` (three bytes) is sliced to its middle byte. -/
example : ipnetSlice 2 = .ok none ∧ ipnetSlice 3 = .ok (some (1, 2)) := by decide

/-- Without the length guard, data shorter than two bytes panics (`data[1:0]`, `data[1:-1]`). -/
theorem ipnet_unmarshal_slice_guard_counter (len : Nat) (h : len < 2) :
    unmarshalSliceG 0 1 1 len = .error .sliceBounds := unmarshalSliceG_panics 1 1 len (by omega)

/-! ### 7. iptables-save output: `GetChainLines` -/

/-- The documented precondition of `GetChainLines` is real: a line which contains a space is handled without a
panic (a chain line `:NAME POLICY [c:c]` always has one).  The regenerated fact `chainChecksIndex = false` says
the source does not check the result of `strings.Index`. -/
theorem getChainLines_index (line : Str) (h : ' ' ∈ line) : ∃ k, chainLine line = .ok k := chainLine_ok line h

/-- Non-vacuity: a chain line yields its chain name. -/
example : chainLine ":KUBE-HP - [0:0]".toList = .ok (.chain "KUBE-HP".toList) := by decide

/-- Without the precondition: a line `:X` (colon, no space) panics in `line[1:-1]`.  iptables-save never prints
such a line; the input is the output of a trusted local binary, not of a request. -/
theorem getChainLines_index_counter : chainLine ":X".toList = .error .sliceBounds := by decide

/-! ### 8. CNI DEL / rollback: `cniutil.CmdDel` -/

/-- Pins the regenerated loop of `CmdDel` and the two kinds of call: `-1` (DEL request) and the index of the
`range networkInfos` loop of `CmdAdd` whose list was saved just before (rollback). -/
theorem fact_cmdDel_shape :
    Generated.Total.cmdDelLoop = ["idx := lastIdx", "idx >= 0", "idx--"] ∧
      Generated.Total.cmdDelCallSites.all
        (fun s => s.2 == "-1" || s.2 == "range-index:networkInfos:saved-before-loop") = true := by decide

/-- C18 "every CNI request … do not panic": for a DEL request (`lastIdx = -1`) and for a rollback at an index
below the number of saved network infos, every index used is below `n`, the loop runs `lastIdx+1` (resp. `n`)
times and stops. -/
theorem cmdDel_index_lt_len (n : Nat) (lastIdx : Int) (h : lastIdx = -1 ∨ lastIdx < n) :
    ∃ l, cmdDel lastIdx n = .ok l ∧ (∀ i ∈ l, i < n) ∧
      l.length = (if lastIdx = -1 then n else (lastIdx + 1).toNat) := by
  unfold cmdDel cmdDelG
  simp only [Generated.Total.cmdDelDefaultsToLast, Bool.true_and]
  by_cases h1 : lastIdx = -1
  · subst h1
    simp only [show ((-1 : Int) == -1) = true from rfl, if_true]
    by_cases hn : (n : Int) - 1 < 0
    · rw [if_pos hn]; exact ⟨[], rfl, by simp, by simp; omega⟩
    · rw [if_neg hn]
      obtain ⟨l, hl, hlen, hall⟩ := cmdDelFrom_ok n (((n : Int) - 1).toNat + 1) (by omega)
      exact ⟨l, hl, hall, by rw [hlen]; omega⟩
  · have hb : (lastIdx == -1) = false := by simpa using h1
    simp only [hb, Bool.false_eq_true, if_false, h1]
    by_cases hn : lastIdx < 0
    · rw [if_pos hn]; exact ⟨[], rfl, by simp, by simp; omega⟩
    · rw [if_neg hn]
      obtain ⟨l, hl, hlen, hall⟩ := cmdDelFrom_ok n (lastIdx.toNat + 1) (by omega)
      exact ⟨l, hl, hall, by rw [hlen]; omega⟩

/-- Non-vacuity: DEL over three networks visits 2, 1, 0; a rollback at index 1 visits 1, 0. -/
example : cmdDel (-1) 3 = .ok [2, 1, 0] ∧ cmdDel 1 3 = .ok [1, 0] := by decide

/-- The precondition is needed: a rollback index at or beyond the number of infos read back from the state file
panics at once (only possible if the file changed between `saveNetworkInfo` and `consumeNetworkInfo`, e.g. two
concurrent ADDs of one container ID). -/
theorem cmdDel_index_lt_len_counter (n : Nat) (lastIdx : Nat) (h : n ≤ lastIdx) :
    cmdDel lastIdx n = .error .indexOutOfRange := by
  unfold cmdDel cmdDelG
  simp only [Generated.Total.cmdDelDefaultsToLast, Bool.true_and]
  have hb : ((lastIdx : Int) == -1) = false := by
    have : (lastIdx : Int) ≠ -1 := by omega
    simp [this]
  simp only [hb, Bool.false_eq_true, if_false]
  rw [if_neg (by omega)]
  exact cmdDelFrom_panics n _ (by omega)

/-! ### 9. networks annotation: `ParsePodNetworkAnnotation` + `resolveNetworks` -/

/-- C18 "every pod object … any annotations … do not panic" (D10): with the regenerated decoder guard (a `null`
element is an error) `resolveNetworks` never dereferences a nil element, for every list of objects and nulls. -/
theorem resolveNetworks_no_nil (elems : List (Option Str)) : ∃ r, resolveNetworks elems = .ok r :=
  resolveNetworksG_ok _ _ (.inl rfl) elems

/-- Non-vacuity: `[{"name":"a"},null]` is an error, `[{"name":"a"},{"name":"b"}]` resolves both names. -/
example : resolveNetworks [some "a".toList, none] = .ok none ∧
    resolveNetworks [some "a".toList, some "b".toList] = .ok (some ["a".toList, "b".toList]) := by decide

/-- Known deviation D10 (fixed): without the decoder guard `[null]` is dereferenced. -/
theorem resolveNetworks_no_nil_counter : resolveNetworksG false false [none] = .error .nilDeref := by decide

/-! ### 10. floatingip configuration text -/

/-- C18 "every configuration text … do not panic" (D19, D20), ConfigMap path: with the regenerated guards of
`FloatingIPPool.UnmarshalJSON` (nil node subnet, routable subnet, subnet) and of `ensureIPAMConf` (nil pool), every
list of pool objects / nulls with any combination of missing members is answered with success or an error. -/
theorem decoded_conf_has_no_nil (text : List (Option PoolConf)) : ∃ b, ensureConf text = .ok b :=
  applyConfG_ok _ rfl rfl rfl _ _ (.inl rfl) text

/-- Non-vacuity: `[null]` and `"nodeSubnets":[null]` are errors, a complete pool is accepted. -/
example : ensureConf [none] = .ok false ∧
    ensureConf [some { routable := false, nodeSubnets := [false], subnet := true, gateway := true }] = .ok false ∧
    ensureConf [some { routable := false, nodeSubnets := [true], subnet := true, gateway := true }] = .ok true := by
  decide

/-- Known deviations D19 / D20 (fixed): without the nil-subnet check the decoder panics on `"nodeSubnets":[null]`;
without a nil-pool check in the caller or in `ConfigurePool`, `[null]` is dereferenced by `ConfigurePool`. -/
theorem decoded_conf_has_no_nil_counter :
    poolUnmarshalG { confGuards with rejectsNilNodeSubnet := false }
        { routable := false, nodeSubnets := [false], subnet := true, gateway := true } = .error .nilDeref ∧
      applyConfG confGuards false false [none] = .error .nilDeref := by decide

/-- Pins the nil-pool guard of `crdIpam.ConfigurePool` (D21, fixed): every caller is covered, not only `ensureIPAMConf`. -/
theorem fact_configurePool_rejects_nil_pool : Generated.Total.configurePoolRejectsNilPool = true := by decide

/-- C18 "every configuration text … do not panic" (D21), static configuration path (`Init` →
`ConfigurePool(p.conf.FloatingIPs)`): with the regenerated guards every list of pool objects / nulls with any
combination of missing members is answered with success or an error. -/
theorem initConf_no_nil (text : List (Option PoolConf)) : ∃ b, initConf text = .ok b :=
  applyConfG_ok _ rfl rfl rfl _ _ (.inr rfl) text

/-- Non-vacuity: `"floatingips":[null]` in the configuration file is an error, a complete pool is accepted. -/
example : initConf [none] = .ok false ∧
    initConf [some { routable := false, nodeSubnets := [true], subnet := true, gateway := true }] = .ok true := by
  decide

/-- The static configuration path is panic-free for every text exactly when `Init` or `ConfigurePool` rejects nil
pools (D21 `_counter` direction: with both regenerated facts false, `[null]` panics at start-up); stated as an
equivalence over the regenerated facts. -/
theorem initConf_no_nil_iff :
    (∀ text, ∃ b, initConf text = .ok b) ↔
      (Generated.Total.initRejectsNilPool || Generated.Total.configurePoolRejectsNilPool) = true := by
  constructor
  · intro h
    cases hg : (Generated.Total.initRejectsNilPool || Generated.Total.configurePoolRejectsNilPool) with
    | true => rfl
    | false =>
      obtain ⟨b, hb⟩ := h [none]
      simp only [Bool.or_eq_false_iff] at hg
      unfold initConf at hb
      rw [hg.1, hg.2] at hb
      have hp : applyConfG confGuards false false [none] = .error .nilDeref := by decide
      rw [hp] at hb
      cases hb
  · intro h text
    exact applyConfG_ok _ rfl rfl rfl _ _ (by simpa using h) text

/-! ### 11. NetworkPolicy sync on pod events: `SyncPodIPInIPSet` -/

/-- Pins what `policyResult` (the only constructor of compiled policies) establishes: the shared pod-selector table
of a compiled direction is always set, one compiled rule per spec rule. -/
theorem fact_policyResult : Generated.Total.policyResultSetsTables = true ∧
    Generated.Total.policyResultOneRulePerSpecRule = true := by decide

/-- C18 "every valid NetworkPolicy … do not panic" (D9): with the regenerated nil / index / table guards, the work
`SyncPodIPInIPSet` does for a pod event never dereferences a nil rule and never indexes past the compiled
rules — for ALL lists of policies whose compiled directions, spec rule lists (of independent lengths), rule tables
and selector matches are arbitrary (only the invariant of `policyResult`, `Policy.WF`, is assumed). -/
theorem syncPodIPInIPSet_no_nil (ps : List Policy) (hw : ∀ p ∈ ps, p.WF) : ∃ l, syncPodIPInIPSet ps = .ok l := by
  induction ps with
  | nil => exact ⟨_, rfl⟩
  | cons p rest ih =>
    obtain ⟨l, hl⟩ := ih (fun q hq => hw q (List.mem_cons_of_mem _ hq))
    obtain ⟨a, ha⟩ := syncPodSet_ok syncGuards rfl rfl p (hw p List.mem_cons_self)
    obtain ⟨b, hb⟩ := syncDir_ok syncGuards.ingress rfl rfl rfl .src p.ingressRule p.specIngress
    obtain ⟨c, hc⟩ := syncDir_ok syncGuards.egress rfl rfl rfl .dst p.egressRule p.specEgress
    refine ⟨a ++ b ++ c ++ l, ?_⟩
    simp only [syncPodIPInIPSet, syncPolicy, syncPolicyG, ha, hb, hc, hl, bind, Except.bind, pure, Except.pure]

/-- Every policy built by `policyResult` satisfies the invariant, whatever `policyTypes` and the rule lists are. -/
theorem compiled_policy_wf (ingress egress : Bool) (inT egT : List Bool) (si se : List Nat) (sel : Bool) :
    (compilePolicy ingress egress inT egT si se sel).WF := by
  unfold Policy.WF compilePolicy
  simp only [Generated.Total.policyResultSetsTables]
  constructor <;> (intro r h; split at h <;> first | (simp only [Option.some.injEq] at h; subst h; rfl) | simp at h)

/-- Non-vacuity, the D9 policy: `policyTypes: [Egress]` with one ingress rule whose peer selects the pod and one
egress rule: the pod event touches the pod set and egress set 0, the uncompiled ingress direction is skipped. -/
example : syncPodIPInIPSet [compilePolicy false true [] [true] [1] [1] true] = .ok [.pods, .dst 0] := by decide

/-- Known deviation D9 (fixed): with the pre-fix shape (no nil check in the helpers) the same policy panics. -/
theorem syncPodIPInIPSet_no_nil_counter :
    syncPolicyG syncGuardsPreFix (compilePolicy false true [] [true] [1] [1] true) = .error .nilDeref ∧
      syncPolicyG syncGuardsPreFix (compilePolicy true false [true] [] [1] [1] false) = .error .nilDeref := by decide

/-! ### 12. "do not keep a lock held": lock balance on every path -/

/-- C18 "… and do not keep a lock held": in the lock table regenerated from the current source (every `Lock`/`RLock`
of the analysed packages, and every keyed lock taken through a wrapper which returns the unlock closure — `lockPod`,
`LockDpPool`, `LockPoolFunc`: `defer p.lockPod(..)()`, or `u := p.lockPod(..)` with `u()` / `defer u()`), every
acquisition is released EXACTLY ONCE on every path to every exit of its function: by one deferred release XOR by an
explicit release on each path — no path leaves with the lock held (`leaked`: an early `return` between lock and
unlock), and no path releases twice or without holding (`unheld`: an explicit unlock in addition to a deferred one
ends in the unrecoverable `fatal error: sync: unlock of unlocked mutex`). -/
theorem lock_released_exactly_once_on_every_path :
    Galaxy.Lockset.balanced Galaxy.Generated.Lockset.balance = true := by decide

/-- Non-vacuity: the table is not empty and contains the per-pod and per-pool keyed locks of Filter / Bind / unbind /
Release / resync. -/
example : Galaxy.Generated.Lockset.balance.length ≥ 40 ∧
    (Galaxy.Generated.Lockset.balance.filter
      (fun b => b.lock == Galaxy.Generated.Lockset.L_keyed_schedulerplugin_lockPod)).length ≥ 6 := by decide

/-- The checker has teeth: a leaked and a doubly released acquisition are both rejected. -/
theorem lock_balance_counter :
    Galaxy.Lockset.balanced [⟨0, 0, .excl, .leaked, "early return between lock and unlock"⟩] = false ∧
    Galaxy.Lockset.balanced [⟨0, 0, .excl, .deferred, ""⟩, ⟨0, 0, .excl, .unheld, "explicit unlock + deferred unlock"⟩] = false := by
  decide

/-! ### 13. "do not keep a lock held": no re-entrant acquisition (interleaving wedge) -/

/-- the transitive lock sets emitted by the translator are closed (they contain what each function locks itself and
what its same-package callees lock), so `no_reentrant_acquisition` below does not trust the translator's fixpoint. -/
theorem acquired_locks_closed :
    Galaxy.Lockset.acqClosed Galaxy.Generated.Lockset.table Galaxy.Generated.Lockset.acqDirect
      Galaxy.Generated.Lockset.acqTrans = true := by decide +kernel

/-- C18 "do not loop forever and do not keep a lock held", interleaving form: no function calls — while holding a lock
`L`, shared or exclusive, locally or by its caller-holds-the-lock contract — a function that (transitively) acquires
`L` again, and none re-acquires a lock it holds.  A second `Lock` self-deadlocks at once; a second `RLock` (e.g.
`First` calling `ByKeyAndIPRanges` under `cacheLock.RLock()`) deadlocks as soon as a writer queues between the two,
leaving the pod and pool locks of the request held for ever. -/
theorem no_reentrant_acquisition :
    Galaxy.Lockset.noReentrant Galaxy.Generated.Lockset.table Galaxy.Generated.Lockset.acqTrans
      Galaxy.Generated.Lockset.acqEvents Galaxy.Generated.Lockset.keyedLockPools = true := by decide +kernel

/-- Pins the hashed mutex tables behind the keyed locks: the per-pod lock (`lockPod` → `podLockPool`) and the
deployment / pool lock (`LockDpPool`, and `LockPoolFunc` of the pool API which the server wires to it → `dpLockPool`)
are TWO tables, allocated by two `keymutex.NewHashed` calls. -/
theorem fact_keyed_lock_pools :
    Galaxy.Lockset.poolOf Galaxy.Generated.Lockset.keyedLockPools Galaxy.Generated.Lockset.L_keyed_schedulerplugin_lockPod ≠
      Galaxy.Lockset.poolOf Galaxy.Generated.Lockset.keyedLockPools Galaxy.Generated.Lockset.L_keyed_schedulerplugin_LockDpPool ∧
    Galaxy.Lockset.poolOf Galaxy.Generated.Lockset.keyedLockPools Galaxy.Generated.Lockset.L_keyed_api_LockPoolFunc =
      Galaxy.Lockset.poolOf Galaxy.Generated.Lockset.keyedLockPools Galaxy.Generated.Lockset.L_keyed_schedulerplugin_LockDpPool ∧
    Galaxy.Generated.Lockset.keyedLockPools.length = 3 ∧ Galaxy.Generated.Lockset.keyedPoolSites.length = 2 := by decide

/-- C18 "do not keep a lock held … every pod object": wherever a function takes a keyed lock while holding another
(Filter / Preempt → getSubnet, unbind → unbindDpPod, resync: pod lock, then deployment / pool lock), the two locks come
from DIFFERENT hashed tables.  Two keys of one `keymutex.NewHashed(n)` table may be the same mutex (hash(key) mod n), so a
nesting inside one table would lock a non-reentrant mutex twice for the pod names whose two keys collide — a plain
input, no interleaving needed. -/
theorem nested_keyed_locks_use_distinct_pools :
    Galaxy.Lockset.nestingsDistinctPools Galaxy.Generated.Lockset.keyedLockPools
      (Galaxy.Lockset.keyedNestings Galaxy.Generated.Lockset.table Galaxy.Generated.Lockset.acqTrans
        Galaxy.Generated.Lockset.acqEvents Galaxy.Generated.Lockset.keyedLockPools) = true := by decide +kernel

/-- … and the tables are always taken in one order (pod table, then deployment / pool table; never the reverse): the
order induced by all nestings is acyclic, so two requests cannot deadlock on two buckets either. -/
theorem keyed_lock_order_acyclic :
    Galaxy.Lockset.acyclic (Galaxy.Lockset.poolOrder Galaxy.Generated.Lockset.keyedLockPools
      (Galaxy.Lockset.keyedNestings Galaxy.Generated.Lockset.table Galaxy.Generated.Lockset.acqTrans
        Galaxy.Generated.Lockset.acqEvents Galaxy.Generated.Lockset.keyedLockPools)) = true := by decide +kernel

/-- Non-vacuity: there ARE nestings (pod lock → pool lock) and exactly one order edge; the checkers reject a shared
table and a reversed order. -/
example : (Galaxy.Lockset.keyedNestings Galaxy.Generated.Lockset.table Galaxy.Generated.Lockset.acqTrans
        Galaxy.Generated.Lockset.acqEvents Galaxy.Generated.Lockset.keyedLockPools).length ≥ 2 ∧
    (Galaxy.Lockset.poolOrder Galaxy.Generated.Lockset.keyedLockPools
      (Galaxy.Lockset.keyedNestings Galaxy.Generated.Lockset.table Galaxy.Generated.Lockset.acqTrans
        Galaxy.Generated.Lockset.acqEvents Galaxy.Generated.Lockset.keyedLockPools)).length = 1 ∧
    Galaxy.Lockset.nestingsDistinctPools [(4, 0), (5, 0)] [(7, 5, 4)] = false ∧
    Galaxy.Lockset.acyclic [(1, 0), (0, 1)] = false := by decide +kernel

/-- Non-vacuity: the tables are populated (locking functions, helpers that inherit their callees' locks). -/
example : Galaxy.Generated.Lockset.acqDirect.length ≥ 30 ∧
    Galaxy.Generated.Lockset.acqTrans.length > Galaxy.Generated.Lockset.acqDirect.length := by decide +kernel

/-- Why re-entrant READ locks are forbidden too (writer preference of sync.RWMutex: a pending `Lock` blocks new
`RLock`s): reader thread 0 takes the read lock twice, writer thread 1 wants the lock.  After the reader's first `RLock` and the writer's arrival at
its `Lock` (schedule 0, 1) neither thread can move: a reachable deadlock.  Without the second acquisition the same system runs to completion. -/
theorem reentrant_rlock_deadlocks_counter :
    ((Galaxy.Lockset.stepWP (Galaxy.Lockset.init
          [[.racq 0, .racq 0, .rd 7, .rrel 0, .rrel 0], [.rd 9, .acq 0, .wr 7, .rel 0]]) 0).bind
        (fun s => Galaxy.Lockset.stepWP s 1)).map Galaxy.Lockset.deadlockedWP = some true ∧
    ((Galaxy.Lockset.stepWP (Galaxy.Lockset.init
          [[.racq 0, .rd 7, .rrel 0], [.rd 9, .acq 0, .wr 7, .rel 0]]) 0).bind
        (fun s => Galaxy.Lockset.stepWP s 1)).map Galaxy.Lockset.deadlockedWP = some false := by
  decide

end Galaxy.Props.C18
