/-
  C06 - filter-approved nodes can be bound and get a routable IP.

  Model: `Galaxy.Plugin` (M4-core, `Galaxy/Model/Plugin.lean`): `step facts s (.filter …)` / `step facts s (.bind …)`
  are the functions `gxdrv_plugin` executes and the harness compares with the real `Filter` / `Bind`.  Fault arguments
  0 = "nothing else changes" (no injected apiserver / provider failure).

  Hypotheses of every theorem
  * `Scene s ns name pod`: the IPAM memory and store are coherent (`Coherent`, which C04's invariant gives for every
    reachable state), the node-subnet cache holds nothing but nodeSubnet(node), the pod lister shows the pod the
    API server has, the pod asks for a floating IP and is not assigned to a node yet.  Bind's Binding call is
    answered truthfully (`ch'.answer = .truthful`: a lost or refused answer is an API fault).  ANY allocation state, node set, pool objects, workloads.
    What `Coherent` buys: the FloatingIP objects of the store are exactly the records of the memory cache
    (`agree : ∀ ip, store.get ip = alloc.get ip`), a free address has no record, allocated and free addresses are
    configured.  It is C05's invariant ("persisted FloatingIPs equal in-memory state", Galaxy.Props.C05 on the IPAM
    model; for this model the first conjunct of the plugin invariant, `inv_run`), and it holds in every state reached by
    histories of truth changes / Filter / Bind / reload WITH ANY FAULT ARGUMENTS (`state_hypotheses_hold_after_history`:
    a failed Create of a multi-address allocation is rolled back in the store, so store = memory again).  A state in
    which the store owns an address the cache lists as free is exactly a `Coherent` violation, and there
    `filter_then_bind_succeeds` fails: `incoherent_store_counter`.
  * `WF s pod = true` (decidable, `Galaxy/Model/PluginC06.lean`): every pool of the configuration in force is well
    formed, pools are pairwise disjoint address sets, node subnets are pairwise identical or disjoint, the requested
    range lists are pairwise disjoint, names are non-empty without '_'.
  * `bound_ip_routable` / `holder_offered_only_routable` carry `AtMostOneWithoutRanges s pod` (a pod that requests no
    ranges holds at most one address) because the plugin model admits ANY address of the key as `ipInfos[0]` /
    `ipInfos[:1]` (Go map order; `bound_ip_routable_counter` = the pre-fix behaviour).  Since the fix "filter and bind
    could pick different ips …" ByKeyAndIPRanges(key, nil) is sorted (`fact_by_key_without_ranges_sorted`); under the
    admissibility refinement `choiceIsMin` this fact justifies, `bound_ip_is_lowest_held`, `bound_ip_routable_sorted`
    and `holder_offered_only_routable_sorted` hold WITHOUT that hypothesis.
  Pairwise disjoint ranges are needed for `filter_then_bind_succeeds` only (`filter_then_bind_overlap_counter` = the
  documented TODO of ipam_crd.go).

  The shape of four leaf functions is a fact about the source (`Galaxy.Generated.C06`, regenerated on every run);
  `fact_*` pin the values, `model_*` say that at these values the fact-parameterised variants of
  `Galaxy/Model/PluginC06.lean` are the model's functions, the `*_counter` theorems show what fails at the other
  values (`d7_reseed_counter` = fixed defect D7).
-/
import Galaxy.Lemmas.C06Reach

namespace Galaxy.Props.C06
open Galaxy Galaxy.Plugin Galaxy.Plugin.C06

/-! ## Facts about the source the proofs rely on -/

/-- Every walk over a requested range list (ByKeyAndIPRanges, NodeSubnetsByIPRanges, AllocateInSubnetsAndIPRange) visits
    the ranges in list order and the addresses of a range in ascending order, stopping when the callback says so - the
    model's `enumRanges` + `find?`.  (Addresses outside the configured pools may be skipped: they are in no cache.) -/
theorem fact_walk_in_request_order : Generated.C06.walkInRequestOrder = true := by decide

/-- NodeSubnetsByIPRanges seeds its running intersection with the FIRST range list only (`i == 0`), ends with the
    empty set at a range list without a free address, and collects the pools of all free addresses of a list. -/
theorem fact_node_subnets_by_ranges_shape :
    Generated.C06.nodeSubnetsSeedFirstIndexOnly = true ∧ Generated.C06.nodeSubnetsEmptyRangeEndsWalk = true ∧
      Generated.C06.nodeSubnetsCollectsAllFreePools = true := by decide

/-- getSubnet seeds the intersection of the owned addresses' subnets at the first OWNED address (flag), guards the
    final intersection by that flag (not by the set size), asks NodeSubnetsByIPRanges for the unowned range lists
    only, and without ranges answers the node subnets of `ipInfos[0]`. -/
theorem fact_get_subnet_shape :
    Generated.C06.getSubnetSeedRule = "flag" ∧ Generated.C06.getSubnetSeedsAtFirstOwned = true ∧
      Generated.C06.getSubnetFinalIntersectionGuardedByFlag = true ∧
      Generated.C06.getSubnetAsksOnlyUnownedRanges = true ∧ Generated.C06.getSubnetNoRangeUsesFirstOwned = true := by
  decide

/-- AllocateInSubnetsAndIPRange picks per range list the first walk-order address that is unallocated, whose pool
    lists the node subnet and that was not picked before; a non-matching address CONTINUES the walk (the whole range
    list is scanned); no pick for a list fails the call before anything is created; no lists = AllocateInSubnet,
    which takes an unallocated address whose pool lists the subnet. -/
theorem fact_allocate_in_subnets_and_ranges_shape :
    Generated.C06.allocPicksFreeRoutableUnpicked = true ∧ Generated.C06.allocScansWholeRangeList = true ∧
      Generated.C06.allocTakesFirstFit = true ∧ Generated.C06.allocAllOrNothingPick = true ∧
      Generated.C06.allocNoRangesDelegates = true ∧ Generated.C06.allocateInSubnetPicksRoutable = true := by decide

/-- allocateIP (Bind) reuses the owned addresses, allocates exactly the range lists without one (in the bind node's
    subnet), queries again afterwards, reuses ONE address when no ranges are requested, and writes the queried
    addresses' ipinfos, in order, to the annotation. -/
theorem fact_bind_shape :
    Generated.C06.bindAllocatesOnlyUnfoundRanges = true ∧ Generated.C06.bindQueriesAgainAfterAllocate = true ∧
      Generated.C06.bindNoRangeReusesOne = true ∧ Generated.C06.bindAnnotationIsQueriedInfos = true := by decide

/-- toFloatingIPInfo takes mask, vlan and gateway (and the node subnets the filter sees) from `fip.pool`, the pool
    object of the address itself. -/
theorem fact_ipinfo_from_own_pool :
    Generated.C06.ipinfoFromOwnPool = true ∧ Generated.C06.ipinfoNodeSubnetsFromOwnPool = true ∧
      Generated.C06.ipinfoGatewayExpr = "fipPool.Gateway" := by decide

/-- ByKeyAndIPRanges(key, nil) sorts the key's addresses ascending after the map loop (fix "filter and bind could pick
    different ips of a pod which holds several without requesting ranges"): `ipInfos[0]` of getSubnet and `ipInfos[:1]`
    of allocateIP are the same, lowest, address - the admissibility refinement `choiceIsMin` at this value. -/
theorem fact_by_key_without_ranges_sorted : Generated.C06.byKeyNoRangesSorted = true := by decide

/-- updateConfigMap drops the node name → node subnet cache after a configuration change: the deferred closure reads the
    variable the result of ensureIPAMConf is ASSIGNED to (no shadowing `:=`) and replaces `p.nodeSubnet` under its lock -
    the model's `reload` sets `nodeCache := []`. -/
theorem fact_reload_clears_node_subnet_cache : Generated.C06.reloadClearsNodeSubnetCache = true := by decide

/-- At the regenerated fact value, `updateConfigMap` is the model's `reload`. -/
theorem model_reload_has_source_shape (s : State) (pools : List Pool) :
    reloadP Generated.C06.reloadClearsNodeSubnetCache s pools = reload s pools := by
  rw [fact_reload_clears_node_subnet_cache]; exact reloadP_true s pools

/-- ConfigurePool: `pool.index` is the position in the sorted slice that becomes the pool table `ci.FloatingIPs` - every
    pool, also one without addresses, keeps its slot (the model identifies the pool of an address directly,
    `poolSubnets`); and every cached record is rebuilt with `New(fipConf, …)` on the pool object of the configuration
    being applied, so after a reload mask / gateway / vlan / node subnets of ALREADY allocated addresses are the new
    pool's (the model's `toHInfo` and `subnetsOf` read the pools in force). -/
theorem fact_configure_pool_shape :
    Generated.C06.poolIndexIsPositionInPoolTable = true ∧ Generated.C06.configurePoolRebuildsEveryRecord = true := by
  decide

/-- At the regenerated fact value, `NodeSubnetsByIPRanges` is the model's `nodeSubnetsByRanges`. -/
theorem model_nodeSubnetsByRanges_has_source_shape (s : State) (rss : List Ranges) :
    nodeSubnetsByRangesP Generated.C06.nodeSubnetsSeedFirstIndexOnly s rss = nodeSubnetsByRanges s rss := by
  rw [fact_node_subnets_by_ranges_shape.1]; exact nodeSubnetsByRangesP_true s rss

/-- At the regenerated fact values, the owned-address loop of `getSubnet` is the model's `allocatedSubnets` together
    with "some address is owned". -/
theorem model_getSubnet_owned_loop_has_source_shape (s : State) (infos : List (Option IP)) :
    ownedSubnetsP Generated.C06.getSubnetSeedRule Generated.C06.getSubnetFinalIntersectionGuardedByFlag s infos =
      (!(infos.filterMap id).isEmpty, allocatedSubnets s (infos.filterMap id)) := by
  rw [fact_get_subnet_shape.1, fact_get_subnet_shape.2.2.1]; exact ownedSubnetsP_flag s infos

/-- At the regenerated fact value, the picks of `AllocateInSubnetsAndIPRange` are the model's `pickRanges`. -/
theorem model_pickRanges_has_source_shape (s : State) (n : Subnet) (rss : List Ranges) (acc : List IP) :
    pickRangesP Generated.C06.allocScansWholeRangeList s n rss acc = pickRanges s n rss acc := by
  rw [fact_allocate_in_subnets_and_ranges_shape.2.1]; exact pickRangesP_true s n rss acc

/-- At the regenerated fact value, `toFloatingIPInfo` is the model's `toHInfo`. -/
theorem model_toHInfo_has_source_shape (s : State) (ip : IP) :
    toHInfoP Generated.C06.ipinfoFromOwnPool s ip = toHInfo s ip := by
  rw [fact_ipinfo_from_own_pool.1]; exact toHInfoP_true s ip

/-! ## The property -/

/-- "If filter returns a node for a pod and nothing else changes, bind on that node succeeds (or reports that it is
    waiting for the deletion of an earlier same-named pod that still holds the IP)": for EVERY resolution `ch'` of
    Bind's map-order choices the answer is ok, "waiting for delete event", or the choice is not one the map could
    have produced (inadmissible); and some choice is admissible.  All workload kinds, policies, pool objects; fresh
    pods, pods holding all / some / none of their ranges' addresses, reserved addresses, allocation during filter. -/
theorem filter_then_bind_succeeds (s : State) (ns name : String) (pod : Pod) (nodes : List String) (ch : Choice)
    (node : String) (uid : Nat) (hs : Scene s ns name pod) (hwf : WF s pod = true) (huid : uid = 0 ∨ pod.uid = uid)
    (hn : node ∈ (step facts s (.filter ns name nodes ch 0)).2.nodes) :
    (∀ ch', ch'.answer = .truthful →
      (step facts (step facts s (.filter ns name nodes ch 0)).1 (.bind ns name uid node ch' 0 0)).2.res =
        .inadmissible ∨
      okOrWaiting (step facts (step facts s (.filter ns name nodes ch 0)).1 (.bind ns name uid node ch' 0 0)).2.res) ∧
    (∃ ch', okOrWaiting
      (step facts (step facts s (.filter ns name nodes ch 0)).1 (.bind ns name uid node ch' 0 0)).2.res) := by
  obtain ⟨sn, ha⟩ := filter_approved (scene_withFaults hs 0 0) nodes ch node hn
  have hb : BindScene (withFaults (step facts s (.filter ns name nodes ch 0)).1 0 0) ns name pod uid :=
    ⟨coherent_withFaults ha.coh 0 0, noFault_withFaults _, ha.lister, ha.truth, huid, hs.wants, hs.pending⟩
  have hr : Ready (withFaults (step facts s (.filter ns name nodes ch 0)).1 0 0) pod node sn :=
    ⟨ha.cached, ha.prepared.free⟩
  have hreq := (WF_parts hwf).2.1
  refine ⟨fun ch' hans => ?_, bind_good_exists facts hb hr hreq⟩
  rcases bind_good facts hb hr hreq ch' hans with ⟨h, _⟩ | h | ⟨h, _⟩
  · exact Or.inl h
  · exact Or.inr (Or.inr h)
  · exact Or.inr (Or.inl h)

/-- "The IP written to the pod belongs to a pool whose node subnets contain that node's address": every address of
    the binding annotation of a successful bind on a filter-approved node is routable from that node. -/
theorem bound_ip_routable (s : State) (ns name : String) (pod : Pod) (nodes : List String) (ch ch' : Choice)
    (node : String) (uid : Nat) (hs : Scene s ns name pod) (hwf : WF s pod = true) (huid : uid = 0 ∨ pod.uid = uid)
    (hone : AtMostOneWithoutRanges s pod)
    (hn : node ∈ (step facts s (.filter ns name nodes ch 0)).2.nodes)
    (hans : ch'.answer = .truthful)
    (hok : (step facts (step facts s (.filter ns name nodes ch 0)).1 (.bind ns name uid node ch' 0 0)).2.res = .ok) :
    ∀ h, h ∈ (step facts (step facts s (.filter ns name nodes ch 0)).1 (.bind ns name uid node ch' 0 0)).2.ips →
      Routable s h.ip node := by
  obtain ⟨sn, ha⟩ := filter_approved (scene_withFaults hs 0 0) nodes ch node hn
  have hb : BindScene (withFaults (step facts s (.filter ns name nodes ch 0)).1 0 0) ns name pod uid :=
    ⟨coherent_withFaults ha.coh 0 0, noFault_withFaults _, ha.lister, ha.truth, huid, hs.wants, hs.pending⟩
  have hr : Ready (withFaults (step facts s (.filter ns name nodes ch 0)).1 0 0) pod node sn :=
    ⟨ha.cached, ha.prepared.free⟩
  have hconf := (WF_parts hwf).1
  intro h hh
  have hok : (Plugin.bind facts (withFaults (step facts s (.filter ns name nodes ch 0)).1 0 0) ns name uid node
      ch').2.res = .ok := hok
  have hh : h ∈ (Plugin.bind facts (withFaults (step facts s (.filter ns name nodes ch 0)).1 0 0) ns name uid node
      ch').2.ips := hh
  rcases bind_good facts hb hr (WF_parts hwf).2.1 ch' hans with ⟨hbad, _⟩ | hw | ⟨_, ips, hips, hall⟩
  · rw [hok] at hbad; cases hbad
  · rw [hok] at hw; cases hw
  · rw [hips] at hh
    obtain ⟨ip, hip, rfl⟩ := List.mem_map.mp hh
    rw [toHInfo_ip]
    have hp : (withFaults (step facts s (.filter ns name nodes ch 0)).1 0 0).pools = s.pools := ha.pools
    have hsub : hasSubnet s ip sn = true := by
      rcases hall ip hip with hheld | ⟨_, hsub⟩
      · have := ha.prepared.routable hone ip hheld
        rw [← hasSubnet_pools hp]; exact this
      · rw [← hasSubnet_pools hp]; exact hsub
    exact (routable_iff hconf ip node).mpr ⟨sn, ha.subnet, hsub⟩

/-- "… and the mask, gateway and VLAN written with it are those configured for that pool": every entry of the binding
    annotation carries an address of exactly one configured pool, and its mask, gateway and vlan are that pool's. -/
theorem ipinfo_from_pool (s : State) (ns name : String) (pod : Pod) (nodes : List String) (ch ch' : Choice)
    (node : String) (uid : Nat) (hs : Scene s ns name pod) (hwf : WF s pod = true) (huid : uid = 0 ∨ pod.uid = uid)
    (hn : node ∈ (step facts s (.filter ns name nodes ch 0)).2.nodes)
    (hans : ch'.answer = .truthful)
    (hok : (step facts (step facts s (.filter ns name nodes ch 0)).1 (.bind ns name uid node ch' 0 0)).2.res = .ok) :
    ∀ h, h ∈ (step facts (step facts s (.filter ns name nodes ch 0)).1 (.bind ns name uid node ch' 0 0)).2.ips →
      (∃ p, p ∈ s.pools ∧ p.has h.ip = true) ∧
      ∀ p, p ∈ s.pools → p.has h.ip = true → h.bits = p.bits ∧ h.gw = p.gateway ∧ h.vlan = p.vlan := by
  obtain ⟨sn, ha⟩ := filter_approved (scene_withFaults hs 0 0) nodes ch node hn
  have hb : BindScene (withFaults (step facts s (.filter ns name nodes ch 0)).1 0 0) ns name pod uid :=
    ⟨coherent_withFaults ha.coh 0 0, noFault_withFaults _, ha.lister, ha.truth, huid, hs.wants, hs.pending⟩
  have hr : Ready (withFaults (step facts s (.filter ns name nodes ch 0)).1 0 0) pod node sn :=
    ⟨ha.cached, ha.prepared.free⟩
  have hd := (wfConf_parts (WF_parts hwf).1).2.1
  intro h hh
  have hok : (Plugin.bind facts (withFaults (step facts s (.filter ns name nodes ch 0)).1 0 0) ns name uid node
      ch').2.res = .ok := hok
  have hh : h ∈ (Plugin.bind facts (withFaults (step facts s (.filter ns name nodes ch 0)).1 0 0) ns name uid node
      ch').2.ips := hh
  rcases bind_good facts hb hr (WF_parts hwf).2.1 ch' hans with ⟨hbad, _⟩ | hw | ⟨_, ips, hips, hall⟩
  · rw [hok] at hbad; cases hbad
  · rw [hok] at hw; cases hw
  · rw [hips] at hh
    obtain ⟨ip, hip, rfl⟩ := List.mem_map.mp hh
    have hpools : (withFaults (step facts s (.filter ns name nodes ch 0)).1 0 0).pools = s.pools := ha.pools
    have hconf : configured s.pools ip = true := by
      rw [← hpools]
      rcases hall ip hip with hheld | ⟨hfree, _⟩
      · obtain ⟨r, hr1, _⟩ := held_owns hb.coh.allocNodup pod ip hheld
        exact hb.coh.allocConf ip r hr1
      · exact hb.coh.freeConf ip hfree
    have hd' : poolsDisjoint (withFaults (step facts s (.filter ns name nodes ch 0)).1 0 0).pools = true := by
      rw [hpools]; exact hd
    refine ⟨by rw [toHInfo_ip]; exact configured_exists hconf, fun p hp hhas => ?_⟩
    rw [toHInfo_ip] at hhas
    rw [toHInfo_of_pool hd' (by rw [hpools]; exact hp) hhas]
    exact ⟨rfl, rfl, rfl⟩

/-- "A pod that already holds an IP is only offered nodes from which that IP is routable": every address Bind will
    reuse for the pod (`held`: what ByKeyAndIPRanges finds for its key and request) is routable from every node
    Filter approves - i.e. approved nodes lie in the intersection of the node subnets of the held addresses' pools. -/
theorem holder_offered_only_routable (s : State) (ns name : String) (pod : Pod) (nodes : List String) (ch : Choice)
    (node : String) (hs : Scene s ns name pod) (hwf : WF s pod = true) (hone : AtMostOneWithoutRanges s pod)
    (hn : node ∈ (step facts s (.filter ns name nodes ch 0)).2.nodes) :
    ∀ ip, ip ∈ held s pod → Routable s ip node := by
  obtain ⟨sn, ha⟩ := filter_approved (scene_withFaults hs 0 0) nodes ch node hn
  intro ip hip
  exact (routable_iff (WF_parts hwf).1 ip node).mpr ⟨sn, ha.subnet, ha.prepared.routablePre hone ip hip⟩

/-- With `ByKeyAndIPRanges(key, nil)` sorted (`fact_by_key_without_ranges_sorted`): a pod WITHOUT requested ranges whose
    key holds addresses (any number) is bound with exactly the LOWEST of them, written with its own pool's ipinfo, and
    that address is routable from every node Filter approved.  `choiceIsMin` is the refinement of the model's
    admissibility test the fact justifies (the harness checks the observed choices against it). -/
theorem bound_ip_is_lowest_held (s : State) (ns name : String) (pod : Pod) (nodes : List String) (ch ch' : Choice)
    (node : String) (uid : Nat) (hs : Scene s ns name pod) (hwf : WF s pod = true) (huid : uid = 0 ∨ pod.uid = uid)
    (hr : pod.ranges = []) (m : IP) (hm : minIP (ipsOfKey s (keyOf pod)) = some m)
    (hmin : choiceIsMin Generated.C06.byKeyNoRangesSorted s pod ch = true)
    (hmin' : choiceIsMin Generated.C06.byKeyNoRangesSorted (step facts s (.filter ns name nodes ch 0)).1 pod ch' = true)
    (hn : node ∈ (step facts s (.filter ns name nodes ch 0)).2.nodes)
    (hans : ch'.answer = .truthful)
    (hok : (step facts (step facts s (.filter ns name nodes ch 0)).1 (.bind ns name uid node ch' 0 0)).2.res = .ok) :
    (step facts (step facts s (.filter ns name nodes ch 0)).1 (.bind ns name uid node ch' 0 0)).2.ips = [toHInfo s m] ∧
      Routable s m node := by
  rw [fact_by_key_without_ranges_sorted] at hmin hmin'
  have hk : ipsOfKey s (keyOf pod) ≠ [] := fun e => by rw [e] at hm; cases hm
  obtain ⟨sn0, ha⟩ := filter_approved (scene_withFaults hs 0 0) nodes ch node hn
  obtain ⟨ip, sn, hpf, hsub, hhas, ⟨c, hc⟩⟩ := filter_reuse (scene_withFaults hs 0 0) nodes ch hr hk node hn
  have hip : ip = m := by
    have := choiceIsMin_first (s := withFaults s 0 0) hmin hr hk hpf
    rw [show ipsOfKey (withFaults s 0 0) (keyOf pod) = ipsOfKey s (keyOf pod) from rfl, hm] at this
    exact (Option.some.inj this).symm
  subst hip
  have hb : BindScene (withFaults (step facts s (.filter ns name nodes ch 0)).1 0 0) ns name pod uid :=
    ⟨coherent_withFaults ha.coh 0 0, noFault_withFaults _, ha.lister, ha.truth, huid, hs.wants, hs.pending⟩
  have hkeq : ipsOfKey (withFaults (step facts s (.filter ns name nodes ch 0)).1 0 0) (keyOf pod) =
      ipsOfKey s (keyOf pod) := by
    rw [show (step facts s (.filter ns name nodes ch 0)).1 = _ from hc]; rfl
  have hkeq' : ipsOfKey (step facts s (.filter ns name nodes ch 0)).1 (keyOf pod) = ipsOfKey s (keyOf pod) := hkeq
  obtain ⟨ip', hpf', hips⟩ := bind_reuse facts node hb ch' hans hr (by rw [hkeq]; exact hk) hok
  have hip' : ip' = ip := by
    rw [hkeq] at hpf'
    have := choiceIsMin_first hmin' hr (by rw [hkeq']; exact hk) (by rw [hkeq']; exact hpf')
    rw [hkeq', hm] at this
    exact (Option.some.inj this).symm
  subst hip'
  have hp : (withFaults (step facts s (.filter ns name nodes ch 0)).1 0 0).pools = s.pools := ha.pools
  refine ⟨?_, (routable_iff (WF_parts hwf).1 ip' node).mpr ⟨sn, hsub, hhas⟩⟩
  show (Plugin.bind facts (withFaults (step facts s (.filter ns name nodes ch 0)).1 0 0) ns name uid node ch').2.ips = _
  rw [hips, toHInfo_pools hp]

/-- `bound_ip_routable` WITHOUT `AtMostOneWithoutRanges`, for the address that is actually written: with
    `ByKeyAndIPRanges(key, nil)` sorted, every address of the binding annotation of a successful bind on a
    filter-approved node is routable from that node, however many addresses the pod's key holds. -/
theorem bound_ip_routable_sorted (s : State) (ns name : String) (pod : Pod) (nodes : List String) (ch ch' : Choice)
    (node : String) (uid : Nat) (hs : Scene s ns name pod) (hwf : WF s pod = true) (huid : uid = 0 ∨ pod.uid = uid)
    (hmin : choiceIsMin Generated.C06.byKeyNoRangesSorted s pod ch = true)
    (hmin' : choiceIsMin Generated.C06.byKeyNoRangesSorted (step facts s (.filter ns name nodes ch 0)).1 pod ch' = true)
    (hn : node ∈ (step facts s (.filter ns name nodes ch 0)).2.nodes)
    (hans : ch'.answer = .truthful)
    (hok : (step facts (step facts s (.filter ns name nodes ch 0)).1 (.bind ns name uid node ch' 0 0)).2.res = .ok) :
    ∀ h, h ∈ (step facts (step facts s (.filter ns name nodes ch 0)).1 (.bind ns name uid node ch' 0 0)).2.ips →
      Routable s h.ip node := by
  by_cases hr : pod.ranges = []
  · by_cases hk : ipsOfKey s (keyOf pod) = []
    · exact bound_ip_routable s ns name pod nodes ch ch' node uid hs hwf huid (fun _ => by rw [hk]; simp) hn hans hok
    · obtain ⟨m, hm⟩ := minIP_isSome hk
      obtain ⟨hips, hrt⟩ := bound_ip_is_lowest_held s ns name pod nodes ch ch' node uid hs hwf huid hr m hm hmin hmin' hn hans hok
      intro h hh
      rw [hips] at hh
      simp at hh; subst hh
      rw [toHInfo_ip]; exact hrt
  · exact bound_ip_routable s ns name pod nodes ch ch' node uid hs hwf huid (fun e => absurd e hr) hn hans hok

/-- `holder_offered_only_routable` WITHOUT `AtMostOneWithoutRanges`: with ranges, every address Bind will reuse is
    routable from every approved node; without ranges, the address Bind will reuse - the lowest address of the key
    (`bound_ip_is_lowest_held`) - is. -/
theorem holder_offered_only_routable_sorted (s : State) (ns name : String) (pod : Pod) (nodes : List String)
    (ch : Choice) (node : String) (hs : Scene s ns name pod) (hwf : WF s pod = true)
    (hmin : choiceIsMin Generated.C06.byKeyNoRangesSorted s pod ch = true)
    (hn : node ∈ (step facts s (.filter ns name nodes ch 0)).2.nodes) :
    (pod.ranges ≠ [] → ∀ ip, ip ∈ held s pod → Routable s ip node) ∧
    (pod.ranges = [] → ∀ m, minIP (ipsOfKey s (keyOf pod)) = some m → Routable s m node) := by
  refine ⟨fun hr => holder_offered_only_routable s ns name pod nodes ch node hs hwf (fun e => absurd e hr) hn,
    fun hr m hm => ?_⟩
  rw [fact_by_key_without_ranges_sorted] at hmin
  have hk : ipsOfKey s (keyOf pod) ≠ [] := fun e => by rw [e] at hm; cases hm
  obtain ⟨ip, sn, hpf, hsub, hhas, _⟩ := filter_reuse (scene_withFaults hs 0 0) nodes ch hr hk node hn
  have := choiceIsMin_first (s := withFaults s 0 0) hmin hr hk hpf
  rw [show ipsOfKey (withFaults s 0 0) (keyOf pod) = ipsOfKey s (keyOf pod) from rfl, hm] at this
  cases this
  exact (routable_iff (WF_parts hwf).1 m node).mpr ⟨sn, hsub, hhas⟩

/-- "Of the candidate nodes a fresh default-policy pod is offered exactly those that still have a free routable IP":
    for a default-policy pod that holds nothing, with or without requested ranges, Filter answers ok and approves
    candidate `node` IFF, for every requested range list (without a request: at all), some free address lies in a
    pool that lists a subnet containing the node's address. -/
theorem fresh_pod_offered_iff_free_ip (s : State) (ns name : String) (pod : Pod) (nodes : List String) (ch : Choice)
    (node : String) (hs : Scene s ns name pod) (hwf : WF s pod = true) (hpol : policyOf pod = 0)
    (hfresh : held s pod = []) :
    (step facts s (.filter ns name nodes ch 0)).2.res = .ok ∧
    (node ∈ (step facts s (.filter ns name nodes ch 0)).2.nodes ↔ node ∈ nodes ∧ FreeRoutableNode s node pod.ranges) := by
  have hh : pod.ranges = [] → ipsOfKey (withFaults s 0 0) (keyOf pod) = [] := fun hr => by
    have := held_nil s pod hr
    rw [hfresh] at this
    exact this.symm
  refine ⟨filter_default_ok (scene_withFaults hs 0 0) nodes ch hpol hh, ?_⟩
  have := filter_default_iff (scene_withFaults hs 0 0) nodes ch hpol hh node
  rw [show (step facts s (.filter ns name nodes ch 0)) = filter (withFaults s 0 0) ns name nodes ch from rfl, this,
    freeRoutableNode_iff (WF_parts hwf).1]
  constructor
  · rintro ⟨hm, sn, h1, h2⟩
    exact ⟨hm, sn, h1, (offerSpec_fresh (withFaults s 0 0) pod sn hfresh).mp h2⟩
  · rintro ⟨hm, sn, h1, h2⟩
    exact ⟨hm, sn, h1, (offerSpec_fresh (withFaults s 0 0) pod sn hfresh).mpr h2⟩

/-- The same exactness for a default-policy pod that requests ranges and already holds addresses for SOME of them
    (strengthening of the last sentence of the property): candidate `node` is approved IFF every held address is
    routable from it and every range list without a held address has a free address routable from it. -/
theorem partial_holder_offered_iff (s : State) (ns name : String) (pod : Pod) (nodes : List String) (ch : Choice)
    (node : String) (hs : Scene s ns name pod) (hwf : WF s pod = true) (hpol : policyOf pod = 0)
    (hr : pod.ranges ≠ []) :
    node ∈ (step facts s (.filter ns name nodes ch 0)).2.nodes ↔
      node ∈ nodes ∧ ∃ sn, nodeSubnetOfNode s node = some sn ∧ (∀ ip, ip ∈ held s pod → hasSubnet s ip sn = true) ∧
        ((unfound s pod ≠ [] ∨ held s pod = []) → FreeRoutable s sn (unfound s pod)) := by
  have _ := hwf
  exact filter_default_iff (scene_withFaults hs 0 0) nodes ch hpol (fun e => absurd e hr) node

/-! ## Histories: the state hypotheses hold in every state reached by filter / bind / reload sequences -/

/-- The node-subnet cache is truthful (`CacheOK`) and memory / store are coherent in EVERY state reached from the
    initial state by a history of API truth changes, lister syncs, Filters, Binds and configuration RELOADS (any
    choices, any fault arguments; side conditions `allAssumed` of C04): a reload that changes the configuration
    empties the cache, so Filter and Bind recompute nodeSubnet(node) from the NEW configuration. -/
theorem state_hypotheses_hold_after_history (c : Conf) (ms : List Move) (hok : allAssumed facts (init c) ms = true)
    (hh : ms.all histMove = true) : Coherent (run facts (init c) ms) ∧ CacheOK (run facts (init c) ms) :=
  reachable_state_ok c ms hok hh

/-- `filter_then_bind_succeeds` for the states such histories reach: only facts about the pod itself are assumed. -/
theorem filter_then_bind_succeeds_after_history (c : Conf) (ms : List Move)
    (hok : allAssumed facts (init c) ms = true) (hh : ms.all histMove = true) (ns name : String) (pod : Pod)
    (nodes : List String) (ch : Choice) (node : String) (uid : Nat)
    (ht : Tbl.get (run facts (init c) ms).pods (ns, name) = some pod)
    (hl : Tbl.get (run facts (init c) ms).vPods (ns, name) = some pod) (hw : pod.wants = true) (hp : pod.node = "")
    (hwf : WF (run facts (init c) ms) pod = true) (huid : uid = 0 ∨ pod.uid = uid)
    (hn : node ∈ (step facts (run facts (init c) ms) (.filter ns name nodes ch 0)).2.nodes) :
    (∀ ch', ch'.answer = .truthful →
      (step facts (step facts (run facts (init c) ms) (.filter ns name nodes ch 0)).1
        (.bind ns name uid node ch' 0 0)).2.res = .inadmissible ∨
      okOrWaiting (step facts (step facts (run facts (init c) ms) (.filter ns name nodes ch 0)).1
        (.bind ns name uid node ch' 0 0)).2.res) ∧
    (∃ ch', okOrWaiting (step facts (step facts (run facts (init c) ms) (.filter ns name nodes ch 0)).1
        (.bind ns name uid node ch' 0 0)).2.res) :=
  filter_then_bind_succeeds _ ns name pod nodes ch node uid (scene_of_history c ms hok hh ns name pod ht hl hw hp) hwf huid hn

/-- `fresh_pod_offered_iff_free_ip` for the states such histories reach - in particular after a reload that changed a
    node's subnet (wider / narrower prefix, moved to another pool, removed): a fresh default-policy pod is offered
    EXACTLY the candidates that have a free routable address under the configuration NOW in force. -/
theorem fresh_pod_offered_iff_free_ip_after_history (c : Conf) (ms : List Move)
    (hok : allAssumed facts (init c) ms = true) (hh : ms.all histMove = true) (ns name : String) (pod : Pod)
    (nodes : List String) (ch : Choice) (node : String)
    (ht : Tbl.get (run facts (init c) ms).pods (ns, name) = some pod)
    (hl : Tbl.get (run facts (init c) ms).vPods (ns, name) = some pod) (hw : pod.wants = true) (hp : pod.node = "")
    (hwf : WF (run facts (init c) ms) pod = true) (hpol : policyOf pod = 0)
    (hfresh : held (run facts (init c) ms) pod = []) :
    (step facts (run facts (init c) ms) (.filter ns name nodes ch 0)).2.res = .ok ∧
    (node ∈ (step facts (run facts (init c) ms) (.filter ns name nodes ch 0)).2.nodes ↔
      node ∈ nodes ∧ FreeRoutableNode (run facts (init c) ms) node pod.ranges) :=
  fresh_pod_offered_iff_free_ip _ ns name pod nodes ch node (scene_of_history c ms hok hh ns name pod ht hl hw hp) hwf
    hpol hfresh

/-! ## Non-vacuity: a concrete topology

  three pools; A and B share the pod subnet 10.10.0.0/24 with disjoint ADJACENT ranges (.2-.4 / .5-.7, distinct
  gateways .1 / .254, vlans 2 / 3); node subnet 10.9.1.0/24 is listed by A and B, 10.9.2.0/24 by B and C, the /32 node
  subnet 10.9.9.9/32 by A only; node n4 lies in no configured subnet. -/

def sn1 : Subnet := ⟨168362240, 24⟩   -- 10.9.1.0/24
def sn2 : Subnet := ⟨168362496, 24⟩   -- 10.9.2.0/24
def sn3 : Subnet := ⟨168364297, 32⟩   -- 10.9.9.9/32
def poolA : Pool := { nodeSubnets := [sn1, sn3], ranges := [(168427522, 168427524)], gateway := 168427521, bits := 24, vlan := 2 }
def poolB : Pool := { nodeSubnets := [sn2, sn1], ranges := [(168427525, 168427527)], gateway := 168427774, bits := 24, vlan := 3 }
def poolC : Pool := { nodeSubnets := [sn2], ranges := [(168493058, 168493059)], gateway := 168493057, bits := 24, vlan := 0 }
def conf : Conf :=
  { pools := [poolC, poolA, poolB],
    nodes := [("n1", 168362245), ("n2", 168362501), ("n3", 168364297), ("n4", 168296452)] }
def allNodes : List String := ["n1", "n2", "n3", "n4"]

/-- the configuration is well formed -/
example : wfConf (init conf).pools = true := by decide

/-- a fresh statefulset pod with two requested range lists, the first spanning the adjacent ranges of pools A and B -/
def podFresh : Pod :=
  { ns := "ns1", name := "a-0", uid := 1, kind := .sts, app := "a", pool := "", policy := 0,
    ranges := [[(168427523, 168427526)], [(168493058, 168493059)]], wants := true, phase := .pending, node := "",
    handed := [] }
def sFresh : State := run facts (init conf)
  [.scale .sts "ns1" "a" 2, .createPod "ns1" "a-0" .sts "a" "" 0 podFresh.ranges true, .listerSync true true]

set_option maxRecDepth 100000 in
/-- hypotheses of all theorems hold; Filter approves exactly n2 (10.9.2.0/24 is the only subnet listed by a pool with a
    free address in BOTH range lists); Bind on n2 succeeds with 10.10.0.5 - the first address of the first range list
    whose pool lists 10.9.2.0/24, two addresses of pool A are walked over - and 10.11.0.2, each with its own pool's
    mask / gateway / vlan. -/
example : sceneB sFresh "ns1" "a-0" podFresh = true ∧ WF sFresh podFresh = true ∧ held sFresh podFresh = [] ∧
    (step facts sFresh (.filter "ns1" "a-0" allNodes {} 0)).2.nodes = ["n2"] ∧
    (step facts (step facts sFresh (.filter "ns1" "a-0" allNodes {} 0)).1 (.bind "ns1" "a-0" 1 "n2" {} 0 0)).2.ips =
      [⟨168427525, 24, 168427774, 3⟩, ⟨168493058, 24, 168493057, 0⟩] := by
  refine ⟨by decide, by decide, by decide, by decide, by decide⟩

/-- a pod that holds the address of its first range list (reserved under its key, policy never) and nothing for the
    second -/
def podPartial : Pod :=
  { ns := "ns1", name := "a-0", uid := 2, kind := .sts, app := "a", pool := "", policy := 2,
    ranges := [[(168427522, 168427522)], [(168427525, 168427526)]], wants := true, phase := .pending, node := "",
    handed := [] }
def sPartial : State := run facts (init conf)
  [.scale .sts "ns1" "a" 2, .createPod "ns1" "a-0" .sts "a" "" 2 [[(168427522, 168427522)]] true, .listerSync true true,
   .filter "ns1" "a-0" allNodes {} 0, .bind "ns1" "a-0" 1 "n1" {} 0 0, .deletePod "ns1" "a-0", .deliver 0 0 0,
   .createPod "ns1" "a-0" .sts "a" "" 2 podPartial.ranges true, .listerSync true true]

set_option maxRecDepth 100000 in
/-- … held = [10.10.0.2] (pool A: 10.9.1.0/24, 10.9.9.9/32), free addresses of the second list are pool B's
    (10.9.2.0/24, 10.9.1.0/24): only n1 is approved; Bind on n1 reuses 10.10.0.2 and allocates 10.10.0.5. -/
example : sceneB sPartial "ns1" "a-0" podPartial = true ∧ WF sPartial podPartial = true ∧
    held sPartial podPartial = [168427522] ∧ unfound sPartial podPartial = [[(168427525, 168427526)]] ∧
    (step facts sPartial (.filter "ns1" "a-0" allNodes {} 0)).2.nodes = ["n1"] ∧
    (step facts (step facts sPartial (.filter "ns1" "a-0" allNodes {} 0)).1 (.bind "ns1" "a-0" 2 "n1" {} 0 0)).2.ips =
      [⟨168427522, 24, 168427521, 2⟩, ⟨168427525, 24, 168427774, 3⟩] := by
  refine ⟨by decide, by decide, by decide, by decide, by decide, by decide⟩

/-- a fresh owner-less pod without requested ranges -/
def podSolo : Pod :=
  { ns := "ns1", name := "solo-0", uid := 1, kind := .bare, app := "", pool := "", policy := 0, ranges := [],
    wants := true, phase := .pending, node := "", handed := [] }
def sSolo : State := run facts (init conf) [.createPod "ns1" "solo-0" .bare "" "" 0 [] true, .listerSync true true]

set_option maxRecDepth 100000 in
/-- … is offered n1, n2 and the node in the /32 subnet n3, not n4; Bind on n3 with any admissible pick (here
    10.10.0.3 of pool A, the only pool listing 10.9.9.9/32) succeeds. -/
example : sceneB sSolo "ns1" "solo-0" podSolo = true ∧ WF sSolo podSolo = true ∧ held sSolo podSolo = [] ∧
    (step facts sSolo (.filter "ns1" "solo-0" allNodes {} 0)).2.nodes = ["n1", "n2", "n3"] ∧
    (step facts (step facts sSolo (.filter "ns1" "solo-0" allNodes {} 0)).1
      (.bind "ns1" "solo-0" 1 "n3" { pick := some 168427523 } 0 0)).2.ips = [⟨168427523, 24, 168427521, 2⟩] := by
  refine ⟨by decide, by decide, by decide, by decide, by decide⟩

/-- a deployment pod of a sized pool (Pool object p1, size 2): Filter allocates during the filter -/
def podSized : Pod :=
  { ns := "ns1", name := "d-x1", uid := 1, kind := .dp, app := "d", pool := "p1", policy := 0, ranges := [],
    wants := true, phase := .pending, node := "", handed := [] }
def sSized : State := run facts (init conf)
  [.scale .dp "ns1" "d" 2, .setPool "p1" (some 2), .createPod "ns1" "d-x1" .dp "d" "p1" 0 [] true, .listerSync true true]

set_option maxRecDepth 100000 in
/-- … the smallest available subnet (10.9.1.0/24) is chosen, 10.10.0.2 is stored under the pod's key by Filter, only n1
    is approved, and Bind on n1 reuses that address. -/
example : sceneB sSized "ns1" "d-x1" podSized = true ∧ WF sSized podSized = true ∧
    (step facts sSized (.filter "ns1" "d-x1" allNodes { pick := some 168427522 } 0)).2.nodes = ["n1"] ∧
    held (step facts sSized (.filter "ns1" "d-x1" allNodes { pick := some 168427522 } 0)).1 podSized = [168427522] ∧
    (step facts (step facts sSized (.filter "ns1" "d-x1" allNodes { pick := some 168427522 } 0)).1
      (.bind "ns1" "d-x1" 1 "n1" {} 0 0)).2.ips = [⟨168427522, 24, 168427521, 2⟩] := by
  refine ⟨by decide, by decide, by decide, by decide, by decide⟩

/-- a deployment pod (policy never) whose deployment holds a reserved address under its prefix key -/
def podResv : Pod :=
  { ns := "ns1", name := "d-x2", uid := 2, kind := .dp, app := "d", pool := "", policy := 2, ranges := [],
    wants := true, phase := .pending, node := "", handed := [] }
def sResv : State := run facts (init conf)
  [.scale .dp "ns1" "d" 2, .createPod "ns1" "d-x1" .dp "d" "" 2 [] true, .listerSync true true,
   .filter "ns1" "d-x1" ["n1", "n2", "n3"] {} 0, .bind "ns1" "d-x1" 1 "n2" { pick := some 168493058 } 0 0,
   .deletePod "ns1" "d-x1", .deliver 0 0 0, .createPod "ns1" "d-x2" .dp "d" "" 2 [] true, .listerSync true true]

set_option maxRecDepth 100000 in
/-- … Filter re-keys the reserved 10.11.0.2 (pool C, 10.9.2.0/24) to the pod, approves n2 only, Bind on n2 reuses it. -/
example : sceneB sResv "ns1" "d-x2" podResv = true ∧ WF sResv podResv = true ∧
    (step facts sResv (.filter "ns1" "d-x2" allNodes { pick := some 168493058 } 0)).2.nodes = ["n2"] ∧
    (step facts (step facts sResv (.filter "ns1" "d-x2" allNodes { pick := some 168493058 } 0)).1
      (.bind "ns1" "d-x2" 2 "n2" {} 0 0)).2.ips = [⟨168493058, 24, 168493057, 0⟩] := by
  refine ⟨by decide, by decide, by decide +kernel, by decide +kernel⟩

/-- a re-created statefulset pod (policy never, no ranges) while the delete event of its predecessor, which holds
    10.10.0.4 on the /32 node n3, has not been delivered -/
def podSts : Pod :=
  { ns := "ns1", name := "a-1", uid := 2, kind := .sts, app := "a", pool := "", policy := 2, ranges := [],
    wants := true, phase := .pending, node := "", handed := [] }
def sWaiting : State := run facts (init conf)
  [.scale .sts "ns1" "a" 2, .createPod "ns1" "a-1" .sts "a" "" 2 [] true, .listerSync true true,
   .filter "ns1" "a-1" ["n1", "n2", "n3"] {} 0, .bind "ns1" "a-1" 1 "n3" { pick := some 168427524 } 0 0,
   .deletePod "ns1" "a-1", .createPod "ns1" "a-1" .sts "a" "" 2 [] true, .listerSync true true]

set_option maxRecDepth 100000 in
/-- … Filter offers the nodes from which the held address is routable (n1, n3); Bind answers "waiting for delete
    event" (the second allowed class); after the event is delivered the address is reserved and Bind reuses it. -/
example : sceneB sWaiting "ns1" "a-1" podSts = true ∧ WF sWaiting podSts = true ∧
    AtMostOneWithoutRanges sWaiting podSts ∧ held sWaiting podSts = [168427524] ∧
    (step facts sWaiting (.filter "ns1" "a-1" allNodes {} 0)).2.nodes = ["n1", "n3"] ∧
    (step facts (step facts sWaiting (.filter "ns1" "a-1" allNodes {} 0)).1 (.bind "ns1" "a-1" 2 "n3" {} 0 0)).2.res =
      .err "waiting-for-delete" ∧
    (step facts (step facts (run facts sWaiting [.deliver 0 0 0]) (.filter "ns1" "a-1" allNodes {} 0)).1
      (.bind "ns1" "a-1" 2 "n3" {} 0 0)).2.ips = [⟨168427524, 24, 168427521, 2⟩] := by
  refine ⟨by decide, by decide, fun _ => by decide, by decide, by decide, by decide, by decide +kernel⟩

/-! ## Counter theorems: where a hypothesis is needed, and what the facts protect -/

/-- a re-created pod (policy never) WITHOUT requested ranges whose key still holds two addresses (its predecessor
    requested two ranges): 10.10.0.2 of pool A and 10.10.0.5 of pool B -/
def podTwo : Pod :=
  { ns := "ns1", name := "a-0", uid := 2, kind := .sts, app := "a", pool := "", policy := 2, ranges := [],
    wants := true, phase := .pending, node := "", handed := [] }
def sTwo : State := run facts (init conf)
  [.scale .sts "ns1" "a" 2,
   .createPod "ns1" "a-0" .sts "a" "" 2 [[(168427522, 168427522)], [(168427525, 168427525)]] true, .listerSync true true,
   .filter "ns1" "a-0" allNodes {} 0, .bind "ns1" "a-0" 1 "n1" {} 0 0, .deletePod "ns1" "a-0", .deliver 0 0 0,
   .createPod "ns1" "a-0" .sts "a" "" 2 [] true, .listerSync true true]

set_option maxRecDepth 100000 in
/-- non-vacuity of `bound_ip_is_lowest_held` / `bound_ip_routable_sorted` / `holder_offered_only_routable_sorted`: the key
    holds 10.10.0.2 and 10.10.0.5, both choices name the lowest one (the only choice `choiceIsMin` admits under the
    sorted fact): Filter approves n1 and the /32 node n3, Bind on n3 writes 10.10.0.2 with pool A's ipinfo. -/
example : sceneB sTwo "ns1" "a-0" podTwo = true ∧ WF sTwo podTwo = true ∧
    minIP (ipsOfKey sTwo (keyOf podTwo)) = some 168427522 ∧
    choiceIsMin Generated.C06.byKeyNoRangesSorted sTwo podTwo { first := some 168427522 } = true ∧
    choiceIsMin Generated.C06.byKeyNoRangesSorted
      (step facts sTwo (.filter "ns1" "a-0" allNodes { first := some 168427522 } 0)).1 podTwo
      { first := some 168427522 } = true ∧
    (step facts sTwo (.filter "ns1" "a-0" allNodes { first := some 168427522 } 0)).2.nodes = ["n1", "n3"] ∧
    (step facts (step facts sTwo (.filter "ns1" "a-0" allNodes { first := some 168427522 } 0)).1
      (.bind "ns1" "a-0" 2 "n3" { first := some 168427522 } 0 0)).2.ips = [⟨168427522, 24, 168427521, 2⟩] := by
  refine ⟨by decide, by decide, by decide, by decide, by decide, by decide, by decide⟩

set_option maxRecDepth 100000 in
/-- The PRE-fix behaviour (`ByKeyAndIPRanges(key, nil)` in Go map order = `choiceIsMin false`, which admits any address of
    the key, as the plugin model's own admissibility test still does): `AtMostOneWithoutRanges` was then necessary for
    `bound_ip_routable` and `holder_offered_only_routable`.  getSubnet's `ipInfos[0]` is 10.10.0.2 (pool A lists the /32
    subnet of n3), so n3 is approved; allocateIP's `ipInfos[:1]` is 10.10.0.5; Bind on n3 answers ok and writes
    10.10.0.5, whose pool B lists no subnet containing n3's address.  With the sorted fact the bind choice is NOT
    admissible (`choiceIsMin true … = false`).  Reproduced on the real code before the fix "filter and bind could pick
    different ips of a pod which holds several without requesting ranges"; corpus/C06/no-ranges-two-addresses.ops must
    now pass; `fact_by_key_without_ranges_sorted` breaks if the sort is removed. -/
theorem bound_ip_routable_counter :
    sceneB sTwo "ns1" "a-0" podTwo = true ∧ WF sTwo podTwo = true ∧ ¬ AtMostOneWithoutRanges sTwo podTwo ∧
    choiceIsMin false sTwo podTwo { first := some 168427522 } = true ∧
    choiceIsMin false (step facts sTwo (.filter "ns1" "a-0" allNodes { first := some 168427522 } 0)).1 podTwo
      { first := some 168427525 } = true ∧
    choiceIsMin true (step facts sTwo (.filter "ns1" "a-0" allNodes { first := some 168427522 } 0)).1 podTwo
      { first := some 168427525 } = false ∧
    "n3" ∈ (step facts sTwo (.filter "ns1" "a-0" allNodes { first := some 168427522 } 0)).2.nodes ∧
    (step facts (step facts sTwo (.filter "ns1" "a-0" allNodes { first := some 168427522 } 0)).1
      (.bind "ns1" "a-0" 2 "n3" { first := some 168427525 } 0 0)).2.res = .ok ∧
    (step facts (step facts sTwo (.filter "ns1" "a-0" allNodes { first := some 168427522 } 0)).1
      (.bind "ns1" "a-0" 2 "n3" { first := some 168427525 } 0 0)).2.ips = [⟨168427525, 24, 168427774, 3⟩] ∧
    ¬ Routable sTwo 168427525 "n3" := by
  refine ⟨by decide, by decide, fun h => absurd (h rfl) (by decide), by decide, by decide, by decide, by decide,
    by decide, by decide, ?_⟩
  rw [routable_iff_b (by decide)]
  decide

/-- a fresh pod whose two requested range lists OVERLAP (10.10.0.2-3 and 10.10.0.2) -/
def podOverlap : Pod := { podSolo with ranges := [[(168427522, 168427523)], [(168427522, 168427522)]] }
def sOverlap : State := run facts (init conf)
  [.createPod "ns1" "solo-0" .bare "" "" 0 podOverlap.ranges true, .listerSync true true]

set_option maxRecDepth 100000 in
/-- pairwise disjoint requested ranges (`WFRequest`, part of `WF`) are necessary for `filter_then_bind_succeeds`: with
    overlapping lists Filter approves n1 (each list has a free address of pool A) but Bind on n1 answers
    "no enough available ips": the first list takes 10.10.0.2, the only address of the second.  This is the case the
    TODO comments of NodeSubnetsByIPRanges / AllocateInSubnetsAndIPRange document; the property quantifies over
    pairwise-disjoint ranges only.  Same behaviour on the real code (corpus/C06/overlapping-ranges.ops). -/
theorem filter_then_bind_overlap_counter :
    sceneB sOverlap "ns1" "solo-0" podOverlap = true ∧ wfConf sOverlap.pools = true ∧ wfNames podOverlap = true ∧
    wfRequest podOverlap.ranges = false ∧
    "n1" ∈ (step facts sOverlap (.filter "ns1" "solo-0" allNodes {} 0)).2.nodes ∧
    ∀ ch', (step facts (step facts sOverlap (.filter "ns1" "solo-0" allNodes {} 0)).1
      (.bind "ns1" "solo-0" 1 "n1" ch' 0 0)).2.res = .err "not-enough-ip" := by
  refine ⟨by decide, by decide, by decide, by decide, by decide, fun ch' => ?_⟩
  cases ch' with
  | mk first pick answer => cases first <;> cases pick <;> rfl

/-- three requested range lists: 10.10.0.2 (pool A), 10.11.0.2 (pool C), 10.10.0.3 (pool A); A and C share no node subnet -/
def rssD7 : List Ranges := [[(168427522, 168427522)], [(168493058, 168493058)], [(168427523, 168427523)]]

/-- D7 (fixed by "fix: filter offered nodes bind must refuse when requested ranges are routable from disjoint
    subnets"): with the PRE-fix seeding of the running intersection ("seed whenever the set is empty",
    `nodeSubnetsByRangesP false`) the intersection, emptied by the second list, is re-seeded by the third, so
    10.9.1.0/24 is offered although the second list has no free address routable from it and Bind's picks fail.  The
    current function answers the empty set.  `fact_node_subnets_by_ranges_shape` breaks if the seeding changes back;
    replay corpus/C06/d7.ops passes on the fixed code. -/
theorem d7_reseed_counter :
    sn1 ∈ nodeSubnetsByRangesP false (init conf) rssD7 ∧ ¬ FreeRoutable (init conf) sn1 rssD7 ∧
    pickRanges (init conf) sn1 rssD7 [] = none ∧ nodeSubnetsByRanges (init conf) rssD7 = [] := by
  refine ⟨by decide, ?_, by decide, by decide⟩
  rw [← mem_nodeSubnetsByRanges]
  decide

/-- one requested range list spanning the adjacent ranges of pools A and B (10.10.0.2 - 10.10.0.7) -/
def rssSpan : List Ranges := [[(168427522, 168427527)]]

/-- If AllocateInSubnetsAndIPRange gave up on a range list at the first free address whose pool does not list the node
    subnet (`pickRangesP false`), Bind on the approved node n2 (10.9.2.0/24, listed by pool B) would fail although
    10.10.0.5 fits; the code as it is walks on (`fact_allocate_in_subnets_and_ranges_shape`). -/
theorem alloc_gives_up_counter :
    sn2 ∈ nodeSubnetsByRanges (init conf) rssSpan ∧ pickRanges (init conf) sn2 rssSpan [] = some [168427525] ∧
    pickRangesP false (init conf) sn2 rssSpan [] = none := by
  refine ⟨by decide, by decide, by decide⟩

/-- a pod holding 10.11.0.2 (pool C) for its SECOND range list and nothing for the first (10.10.0.2, pool A) -/
def podSecond : Pod :=
  { ns := "ns1", name := "a-0", uid := 2, kind := .sts, app := "a", pool := "", policy := 2,
    ranges := [[(168427522, 168427522)], [(168493058, 168493058)]], wants := true, phase := .pending, node := "",
    handed := [] }
def sSecond : State := run facts (init conf)
  [.scale .sts "ns1" "a" 2, .createPod "ns1" "a-0" .sts "a" "" 2 [[(168493058, 168493058)]] true, .listerSync true true,
   .filter "ns1" "a-0" allNodes {} 0, .bind "ns1" "a-0" 1 "n2" {} 0 0, .deletePod "ns1" "a-0", .deliver 0 0 0,
   .createPod "ns1" "a-0" .sts "a" "" 2 podSecond.ranges true, .listerSync true true]

set_option maxRecDepth 100000 in
/-- If getSubnet seeded the owned-address intersection at loop index 0 instead of at the first OWNED address
    (`"index"`), the held address of the second list would never enter the intersection: 10.9.1.0/24 would be offered
    although 10.11.0.2 is not routable from it.  With the flag (`fact_get_subnet_shape`) nothing is offered. -/
theorem owned_seed_index_counter :
    held sSecond podSecond = [168493058] ∧
    sn1 ∈ offeredP true "index" true sSecond (keyOf podSecond) podSecond.ranges ∧
    hasSubnet sSecond 168493058 sn1 = false ∧
    offeredP true "flag" true sSecond (keyOf podSecond) podSecond.ranges = [] ∧
    (step facts sSecond (.filter "ns1" "a-0" allNodes {} 0)).2.nodes = [] := by
  refine ⟨by decide, by decide, by decide, by decide, by decide⟩

/-- If toFloatingIPInfo took the gateway from the first pool (`toHInfoP false`), 10.10.0.5 of pool B would be handed
    out with pool A's gateway; the code as it is uses the address' own pool (`fact_ipinfo_from_own_pool`). -/
theorem ipinfo_first_pool_counter :
    (toHInfoP false (init conf) 168427525).gw = poolA.gateway ∧ (toHInfo (init conf) 168427525).gw = poolB.gateway ∧
    poolA.gateway ≠ poolB.gateway := by
  refine ⟨by decide, by decide, by decide⟩

/-- one pool whose node subnet is 10.9.1.0/24, and the same pool after a reload that widened it to 10.9.0.0/23 -/
def poolNarrow : Pool := { nodeSubnets := [sn1], ranges := [(168427522, 168427524)], gateway := 168427521, bits := 24, vlan := 0 }
def poolWide : Pool := { poolNarrow with nodeSubnets := [⟨168361984, 23⟩] }
def confNarrow : Conf := { pools := [poolNarrow], nodes := [("n1", 168362245)] }
def podB : Pod :=
  { ns := "ns1", name := "b-0", uid := 2, kind := .bare, app := "", pool := "", policy := 0, ranges := [],
    wants := true, phase := .pending, node := "", handed := [] }
/-- a filter caches n1 ↦ 10.9.1.0/24; then the configuration is reloaded; then a fresh pod is created -/
def reloadHistory : List Move :=
  [.createPod "ns1" "a-0" .bare "" "" 0 [] true, .listerSync true true, .filter "ns1" "a-0" ["n1"] {} 0,
   .reload [poolWide] 0, .createPod "ns1" "b-0" .bare "" "" 0 [] true, .listerSync true true]

set_option maxRecDepth 100000 in
/-- non-vacuity of the `…_after_history` theorems: the history satisfies the side conditions, the reload went through
    (the configuration in force lists 10.9.0.0/23, the cache is empty), and the fresh pod is offered n1, whose subnet
    under the NEW configuration is the /23. -/
example : allAssumed facts (init confNarrow) reloadHistory = true ∧ reloadHistory.all histMove = true ∧
    (run facts (init confNarrow) reloadHistory).pools = [poolWide] ∧
    (run facts (init confNarrow) reloadHistory).nodeCache = [] ∧
    WF (run facts (init confNarrow) reloadHistory) podB = true ∧
    Tbl.get (run facts (init confNarrow) reloadHistory).pods ("ns1", "b-0") = some podB ∧
    (step facts (run facts (init confNarrow) reloadHistory) (.filter "ns1" "b-0" ["n1"] {} 0)).2.nodes = ["n1"] := by
  refine ⟨by decide, by decide, by decide, by decide, by decide, by decide, by decide⟩

/-- the state after the filter of `reloadHistory` (n1 ↦ 10.9.1.0/24 is cached) -/
def sCached : State := run facts (init confNarrow) (reloadHistory.take 3)
/-- … after a reload that does NOT drop the cache (`reloadP false` = a shadowed `updated` in updateConfigMap), then the
    fresh pod -/
def sStale : State :=
  run facts (reloadP false (withFaults sCached 0 0) [poolWide]).1
    [.createPod "ns1" "b-0" .bare "" "" 0 [] true, .listerSync true true]

set_option maxRecDepth 100000 in
/-- If a reload left the node-subnet cache in place, Filter would keep the subnet n1 had under the OLD configuration
    (10.9.1.0/24) while the pool now lists 10.9.0.0/23: the fresh pod would NOT be offered n1 although 10.10.0.2 is free
    and routable from it (`fresh_pod_offered_iff_free_ip` fails, under-offering; the cache violates `CacheOK`).  The code
    as it is drops the cache (`fact_reload_clears_node_subnet_cache`); replay corpus/C06/reload-widens-node-subnet.ops. -/
theorem stale_cache_after_reload_counter :
    Tbl.get sStale.nodeCache "n1" = some sn1 ∧ nodeSubnetOfNode sStale "n1" = some ⟨168361984, 23⟩ ∧
    (step facts sStale (.filter "ns1" "b-0" ["n1"] {} 0)).2.nodes = [] ∧
    168427522 ∈ sStale.free ∧ Routable sStale 168427522 "n1" ∧ ¬ CacheOK sStale := by
  refine ⟨by decide, by decide, by decide, by decide, ?_, ?_⟩
  · rw [routable_iff_b (by decide)]; decide
  · intro h
    have := h "n1" sn1 (by decide)
    exact absurd this (by decide)

/-- the state of the fresh-pod example, except that the STORE holds an object for 10.10.0.5 (under the pod's key) while
    the memory cache lists the address as free - what a rollback that forgets the first created object leaves behind -/
def leakRec : Rec := { key := keyOf podFresh, policy := 0, node := "n2", uid := 1 }
def sLeak : State := { sFresh with store := Tbl.set sFresh.store (168427525 : Nat) leakRec }

set_option maxRecDepth 100000 in
/-- The hypothesis `Coherent` (store = memory, C05) is necessary for `filter_then_bind_succeeds`: in `sLeak` every other
    hypothesis holds, Filter (which reads the memory cache) approves n2, and every Bind on n2 fails at the store Create of
    10.10.0.5 (AlreadyExists) - for every choice, with no fault, on every retry.  Reachable states are coherent
    (`state_hypotheses_hold_after_history`, any fault arguments), so on the code as it is this needs a defect in a
    store-before-memory sequence, e.g. a rollback of AllocateInSubnetsAndIPRange that skips the first created object;
    the harness reaches such states through histories with one injected fault (corpus/C06/retry-after-create-fault.ops,
    signature filter-approved-bind-failed:already-exists:after-fault). -/
theorem incoherent_store_counter :
    coherentB sLeak = false ∧ ¬ Coherent sLeak ∧ cacheOKB sLeak = true ∧ WF sLeak podFresh = true ∧
    Tbl.get sLeak.pods ("ns1", "a-0") = some podFresh ∧ Tbl.get sLeak.vPods ("ns1", "a-0") = some podFresh ∧
    (step facts sLeak (.filter "ns1" "a-0" allNodes {} 0)).2.nodes = ["n2"] ∧
    ∀ ch', (step facts (step facts sLeak (.filter "ns1" "a-0" allNodes {} 0)).1
      (.bind "ns1" "a-0" 1 "n2" ch' 0 0)).2.res = .err "store" := by
  refine ⟨by decide, ?_, by decide, by decide, by decide, by decide, by decide, fun ch' => ?_⟩
  · intro h
    have h1 := h.agree 168427525
    have h2 := h.disjoint 168427525 (by decide)
    rw [h2] at h1
    exact absurd h1 (by decide)
  · cases ch' with
    | mk first pick answer => cases first <;> cases pick <;> cases answer <;> rfl

/-- the topology with an additional pool WITHOUT addresses (gateway 10.5.0.1, lists 10.9.2.0/24) that sorts first -/
def poolEmpty : Pool := { nodeSubnets := [sn2], ranges := [], gateway := 168099841, bits := 24, vlan := 1 }
def confEmpty : Conf := { conf with pools := [poolC, poolA, poolEmpty, poolB] }
def sEmpty : State := run facts (init confEmpty)
  [.createPod "ns1" "solo-0" .bare "" "" 0 [[(168427522, 168427524)]] true, .listerSync true true]
def podInA : Pod := { podSolo with ranges := [[(168427522, 168427524)]] }

set_option maxRecDepth 100000 in
/-- non-vacuity with a pool that has no addresses: the configuration is well formed, the empty pool sorts first and owns
    nothing; a fresh pod requesting pool A's addresses is offered n1 and the /32 node n3 (not n2) and is bound on n3. -/
example : wfConf sEmpty.pools = true ∧ sEmpty.pools.map (·.gateway) = [168099841, 168427521, 168427774, 168493057] ∧
    sceneB sEmpty "ns1" "solo-0" podInA = true ∧ WF sEmpty podInA = true ∧
    (step facts sEmpty (.filter "ns1" "solo-0" allNodes {} 0)).2.nodes = ["n1", "n3"] ∧
    (step facts (step facts sEmpty (.filter "ns1" "solo-0" allNodes {} 0)).1
      (.bind "ns1" "solo-0" 1 "n3" {} 0 0)).2.ips = [⟨168427522, 24, 168427521, 2⟩] := by
  refine ⟨by decide, by decide, by decide, by decide, by decide, by decide⟩

/-- If pools without addresses were left out of the pool table while `pool.index` still counted them
    (`poolSubnetsIdx false`), the free addresses of pool A would be looked up one slot too far: Filter would report pool
    B's node subnets (10.9.2.0/24, 10.9.1.0/24) instead of A's (10.9.1.0/24, 10.9.9.9/32) - offering n2, withholding n3.
    With the whole table (`fact_configure_pool_shape`) the lookup by index answers what the model's `poolSubnets` answers.
    Replay corpus/C06/pool-without-addresses.ops. -/
theorem pool_table_without_empty_pools_counter :
    poolSubnetsIdx true sEmpty [168427522] = poolSubnets sEmpty [168427522] ∧
    poolSubnets sEmpty [168427522] = [sn1, sn3] ∧ poolSubnetsIdx false sEmpty [168427522] = [sn2, sn1] := by
  refine ⟨by decide, by decide, by decide⟩

/-- pool A after a reload that changed its gateway, mask and vlan (same addresses, same node subnets) -/
def poolA' : Pool := { poolA with gateway := 168427770, bits := 23, vlan := 11 }
/-- 10.10.0.2 is allocated and reserved under the pod's key, then the configuration is reloaded, then the pod is re-created -/
def sReparam : State := run facts (init conf)
  [.scale .sts "ns1" "a" 2, .createPod "ns1" "a-0" .sts "a" "" 2 [[(168427522, 168427522)]] true, .listerSync true true,
   .filter "ns1" "a-0" allNodes {} 0, .bind "ns1" "a-0" 1 "n1" {} 0 0, .deletePod "ns1" "a-0", .deliver 0 0 0,
   .reload [poolC, poolA', poolB] 0,
   .createPod "ns1" "a-0" .sts "a" "" 2 [[(168427522, 168427522)]] true, .listerSync true true]

set_option maxRecDepth 100000 in
/-- `ipinfo_from_pool` across a reload: the re-created pod REUSES 10.10.0.2 and the annotation carries the gateway, mask
    and vlan of pool A as configured NOW; a record kept with its pool object of the previous configuration
    (`toHInfoKept`, excluded by `fact_configure_pool_shape`) would be written with the old ones.
    Replay corpus/C06/reload-changes-pool-parameters.ops. -/
theorem ipinfo_kept_record_counter :
    held sReparam { podPartial with ranges := [[(168427522, 168427522)]] } = [168427522] ∧
    (step facts (step facts sReparam (.filter "ns1" "a-0" allNodes {} 0)).1 (.bind "ns1" "a-0" 2 "n3" {} 0 0)).2.ips =
      [⟨168427522, 23, 168427770, 11⟩] ∧
    toHInfoKept (init conf).pools 168427522 = ⟨168427522, 24, 168427521, 2⟩ := by
  refine ⟨by decide, by decide, by decide⟩

end Galaxy.Props.C06
