/-
  C13 — the IPs a plugin configures are exactly the IPs IPAM allocated.

  "The address, prefix length, gateway and VLAN of every IP that galaxy-ipam allocated and persisted for a pod arrive
   unchanged and in the same order at the CNI plugin that galaxy invokes for that pod, through the pod annotation,
   the daemon's argument passing and the plugins' argument parser."

  Model: Galaxy/Model/Args.lean (executed by gxdrv_args, compared with the real functions by harness/cmd/c13).
  Separators, key names and json tags are regenerated from /repo (Galaxy/Generated/Args.lean) on every run.
-/
import Galaxy.Lemmas.ArgsPipeline

namespace Galaxy.Props.C13
open Galaxy Galaxy.Args Galaxy.Generated.Args

/-! ## pins on the regenerated source facts -/

/-- Source pin: BuildCNIArgs joins with ';' and '=', ParseCNIArgs splits on the same two characters, and CmdAdd
    accumulates with / trims the entry separator.  (A change of any one of them alone breaks the passing of arguments.) -/
theorem fact_separators :
    buildEntrySep = ';' ∧ buildKvSep = '=' ∧ parseEntrySep = ';' ∧ parseKvSep = '=' ∧ accSep = ';' ∧ accTrimChar = ';' := by
  decide

/-- Source pin: the published wire names (doc/supported-cnis.md: `ipinfos=[{"ip":…,"vlan":…,"gateway":…}]`), the key the
    plugins look up equals the json name galaxy-ipam writes, and the daemon reads the object galaxy-ipam writes. -/
theorem fact_wire_names :
    ipInfosKey = "ipinfos" ∧ tagIPInfos = ipInfosKey ∧ tagCommon = "common" ∧ tagCommonDaemon = tagCommon ∧
    tagIP = "ip" ∧ tagVlan = "vlan" ∧ tagGateway = "gateway" ∧ ipInfosOmitEmpty = true ∧
    ipInfoFields = [("IP", "*nets.IPNet", "ip"), ("Vlan", "uint16", "vlan"), ("Gateway", "net.IP", "gateway")] ∧
    annotationName = "k8s.v1.cni.galaxy.io/args" := by
  decide

/-- Source pin: the structural facts the model's shape relies on (skip of entries without '=', TrimSpace on both
    sides, arg copy into every network, verbatim hand-over to the plugin, the plugin-side decode path, IPNet's JSON, and that
    the daemon reads the pod of a CNI request — and with it the annotation — from the API server, not from a watch cache that
    may still hold an earlier incarnation of the same pod name). -/
theorem fact_structure :
    parseSkipsEntryWithoutKv = true ∧ parseTrimsKeyAndValue = true ∧ delegateAddPassesArgsVerbatim = true ∧
    marshalCniArgsShape = true ∧ resolveCopiesCommonToEveryNetwork = true ∧ cmdAddDelegatesResolvedNetworks = true ∧
    allocateDecodesIPInfosKey = true ∧ ipInfoToResultCopiesIPAndGateway = true ∧
    ipNetJSONIsCIDRStringKeepingHostBits = true ∧ getPodReadsApiserver = true := by
  decide

/-! ## the daemon's argument passing -/

/-- "the daemon's argument passing and the plugins' argument parser": for a map with distinct keys whose keys contain
    no ';' / '=' and no surrounding blanks and whose values contain no ';' and no surrounding blanks,
    `ParseCNIArgs(BuildCNIArgs(m)) = m` (as maps: equal lookups for every key) for EVERY order π in which Go's `range`
    may visit the map. -/
theorem args_roundtrip (m : Tbl Str Str) (π : List Nat) (hm : WFMap m) (hπ : Admissible m π) :
    ∀ k, Tbl.get (parseArgs (buildArgs m π)) k = Tbl.get m k :=
  get_parse_buildArgs ⟨by decide, by decide, by decide, by decide⟩ m π hm hπ

/-- CmdAdd's accumulation `args := TrimRight(args + ";" + BuildCNIArgs(netArgs), ";")`: whatever the request's
    argument string `prev` was (ANY string, including junk and earlier networks' entries), the plugin of this network
    sees this network's own arguments, and everything else as before — the last occurrence of a key wins. -/
theorem args_accumulate_last_wins (prev : Str) (m : Tbl Str Str) (π : List Nat) (hm : WFMap m) (hπ : Admissible m π) :
    ∀ k, Tbl.get (parseArgs (accumulate prev m π)) k =
      match Tbl.get m k with
      | some v => some v
      | none => Tbl.get (parseArgs prev) k :=
  get_parse_accumulate ⟨by decide, by decide, by decide, by decide⟩ prev m π hm hπ

/-! ## the IPInfo wire format -/

/-- "address, prefix length, gateway and VLAN … arrive unchanged and in the same order": decoding the JSON text
    galaxy-ipam writes for ANY list of (IPv4, prefix length ≤ 32, vlan < 2¹⁶, IPv4 gateway) gives back exactly that list;
    the text contains no ';' and has no surrounding blanks (the value side condition of `args_roundtrip`), and the
    `ipinfos` key satisfies the key side condition. -/
theorem ipinfos_roundtrip (l : List IPInfo) (hl : ∀ x ∈ l, x.WF) :
    decodeIPInfos (encodeIPInfos l) = some l ∧ WFVal (encodeIPInfos l) ∧ WFKey ipInfosKey.toList :=
  ⟨decode_encode l hl, wfVal_encode ⟨by decide, by decide, by decide, by decide⟩ l, by decide⟩

/-! ## composition -/

/-- The whole sentence: for every non-empty allocated list `l` (all pool masks ≤ 32, VLAN ids < 2¹⁶, gateways), every
    request argument string `req` kubelet may send, every number of networks and every map iteration order in each
    of them, EVERY delegate plugin decodes exactly `l` — same addresses, prefix lengths, VLANs, gateways, same order. -/
theorem pipeline_preserves_ipinfos (req : Str) (l : List IPInfo) (orders : List (List Nat))
    (hne : l ≠ []) (hl : ∀ x ∈ l, x.WF) (ho : ∀ π ∈ orders, Admissible (commonOf l) π) :
    pipeline req l orders = List.replicate orders.length (.ok l) :=
  accumulateAll_common_ok ⟨by decide, by decide, by decide, by decide⟩ ⟨by decide, by decide, by decide, by decide⟩
    l hne hl orders ho req

/-- "exactly": no IP in the annotation (`{"common":{}}`, omitempty) — no plugin is handed a fabricated address; each
    falls back to its ipam plugin, for every request string that does not itself carry an `ipinfos` argument. -/
theorem pipeline_no_ips_no_invention (req : Str) (n : Nat) (h : Tbl.get (parseArgs req) ipInfosKey.toList = none) :
    pipeline req [] (List.replicate n []) = List.replicate n .fallback :=
  pipeline_nil_fallback ⟨by decide, by decide, by decide, by decide⟩ ⟨by decide, by decide, by decide, by decide⟩
    n req h

/-! ## non-vacuity -/

set_option maxRecDepth 8192

/-- a pool-shaped example: two IPs of a /26 with VLAN 2, and one of a /8 without VLAN -/
def exampleIPs : List IPInfo :=
  [⟨⟨192, 168, 0, 68⟩, 26, 2, ⟨192, 168, 0, 65⟩⟩, ⟨⟨192, 168, 0, 69⟩, 26, 2, ⟨192, 168, 0, 65⟩⟩,
   ⟨⟨10, 255, 0, 1⟩, 8, 0, ⟨10, 0, 0, 1⟩⟩]

/-- the hypotheses of `ipinfos_roundtrip` / `pipeline_preserves_ipinfos` are satisfiable, and the printed text is the
    documented one -/
example : (∀ x ∈ exampleIPs, x.WF) ∧ exampleIPs ≠ [] ∧ Admissible (commonOf exampleIPs) [0] ∧
    encodeIPInfos (exampleIPs.take 1) = "[{\"ip\":\"192.168.0.68/26\",\"vlan\":2,\"gateway\":\"192.168.0.65\"}]".toList := by
  decide

/-- the hypotheses of `args_roundtrip` are satisfiable by a map with several keys, a value containing '=' and inner
    blanks, in a non-identity order -/
example : WFMap [("IgnoreUnknown".toList, "1".toList), ("a".toList, "x=y z".toList), ("ipinfos".toList, encodeIPInfos exampleIPs)] ∧
    Admissible [("IgnoreUnknown".toList, "1".toList), ("a".toList, "x=y z".toList), ("ipinfos".toList, encodeIPInfos exampleIPs)] [2, 0, 1] := by
  decide

/-- the boundary values are covered: 0.0.0.0/0 vlan 0 and 255.255.255.255/32 vlan 65535 -/
example : decodeIPInfos (encodeIPInfos [⟨⟨0, 0, 0, 0⟩, 0, 0, ⟨0, 0, 0, 0⟩⟩, ⟨⟨255, 255, 255, 255⟩, 32, 65535, ⟨255, 255, 255, 255⟩⟩]) =
    some [⟨⟨0, 0, 0, 0⟩, 0, 0, ⟨0, 0, 0, 0⟩⟩, ⟨⟨255, 255, 255, 255⟩, 32, 65535, ⟨255, 255, 255, 255⟩⟩] := by
  decide

/-! ## what breaks it (the side conditions are necessary) -/

/-- ';' inside a value: the value is cut at the ';' -/
theorem args_roundtrip_semicolon_counter :
    Tbl.get (parseArgs (buildArgs [("k".toList, "a;b".toList)] [0])) "k".toList = some "a".toList := by
  decide

/-- blanks around a value are lost -/
theorem args_roundtrip_blank_counter :
    Tbl.get (parseArgs (buildArgs [("k".toList, " a ".toList)] [0])) "k".toList = some "a".toList := by
  decide

/-- '=' inside a key: the key is cut at the first '=' -/
theorem args_roundtrip_equals_in_key_counter :
    Tbl.get (parseArgs (buildArgs [("k=x".toList, "v".toList)] [0])) "k=x".toList = none ∧
    Tbl.get (parseArgs (buildArgs [("k=x".toList, "v".toList)] [0])) "k".toList = some "x=v".toList := by
  decide

/-- a foreign common argument whose raw JSON text contains `;ipinfos=` (possible only for an annotation NOT written by
    galaxy-ipam, whose CommonCniArgs has the single member `ipinfos`) can shadow the allocated IPs when the runtime
    happens to visit it last: the pipeline theorem really needs the annotation to be IPAM's. -/
theorem pipeline_foreign_common_arg_counter :
    pipelineCommon [] [("ipinfos".toList, encodeIPInfos (exampleIPs.take 1)), ("x".toList, "\"a;ipinfos=[]\"".toList)] [[0, 1]] =
      [.undecodable] ∧
    pipelineCommon [] [("ipinfos".toList, encodeIPInfos (exampleIPs.take 1)), ("x".toList, "\"a;ipinfos=[]\"".toList)] [[1, 0]] =
      [.ok (exampleIPs.take 1)] := by
  decide

end Galaxy.Props.C13
