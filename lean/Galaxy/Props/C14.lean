/-
  C14 — host-port mappings are set up, held and removed completely.

  Statements about the model M6 (Galaxy/Model/Netfilter.lean) whose definitions the driver
  gxdrv_netfilter executes.  `hash` is the truncated SHA-256 of hostportChainName, kept abstract:
  the only assumption about it is `HashInjOn hash (ps.map encode)` — no collision among the ports in
  question (trusted; the *encoding* of the hash input is proved injective below).
  Sockets: the kernel's bind table is modelled (exclusive per protocol and port, any free non-zero port
  for a request of port 0); that the real kernel behaves like this is tested by harness/cmd/c14, not proved.
-/
import Galaxy.Lemmas.NetfilterFrame
import Galaxy.Lemmas.NetfilterSock
import Galaxy.Lemmas.NetfilterServer

namespace Galaxy.Props.C14

open Galaxy Galaxy.Netfilter

/-! ## what the regenerated source facts must say -/

/-- The shape of SetupPortMapping / CleanPortMapping / SetupPortMappingForAllPods as factgen reads it
    from pkg/network/portmapping/iptables.go: mark rule and chain lines first, restore before the
    KUBE-HOSTPORTS EnsureRule loop; clean first makes sure every chain exists (EnsureChain), deletes the jump
    rules, then flushes (`:chain`) and deletes
    (`-X`) every chain; the full sync ensures the basic rules first and flushes + deletes every stale
    KUBE-HP-* chain that is not active.  A source change that flips one of them fails this theorem. -/
theorem fact_generator_shape :
    (Generated.Netfilter.setupWritesMark && Generated.Netfilter.setupLowersProto
      && Generated.Netfilter.setupNamesChain && Generated.Netfilter.setupDeclaresChain
      && Generated.Netfilter.setupWritesHpRules && Generated.Netfilter.setupCollectsJumpRules
      && Generated.Netfilter.setupRestoreNoFlush && Generated.Netfilter.setupEnsuresJumpRulesAfterRestore
      && Generated.Netfilter.setupChainsBeforeRules
      && !Generated.Netfilter.cleanWritesMark && Generated.Netfilter.cleanLowersProto
      && Generated.Netfilter.cleanNamesChain && Generated.Netfilter.cleanDeclaresChain
      && Generated.Netfilter.cleanDeletesChain && Generated.Netfilter.cleanCollectsJumpRules
      && Generated.Netfilter.cleanEnsuresChainsFirst
      && Generated.Netfilter.cleanDeletesJumpRulesBeforeRestore && Generated.Netfilter.cleanRestores
      && Generated.Netfilter.cleanChainsBeforeRules
      && Generated.Netfilter.syncEnsuresBasicFirst && Generated.Netfilter.syncReadsExisting
      && Generated.Netfilter.syncWritesMark && Generated.Netfilter.syncDeclaresHostports
      && Generated.Netfilter.syncLowersProto && Generated.Netfilter.syncNamesChain
      && Generated.Netfilter.syncDeclaresChain && Generated.Netfilter.syncMarksActive
      && Generated.Netfilter.syncWritesJumpRule && Generated.Netfilter.syncWritesHpRules
      && Generated.Netfilter.syncStaleLoopAfterPorts && Generated.Netfilter.syncStaleSkipsActive
      && Generated.Netfilter.syncStalePrefixGuard && Generated.Netfilter.syncStaleDeclares
      && Generated.Netfilter.syncStaleDeletes && Generated.Netfilter.syncRestoreNoFlush
      && Generated.Netfilter.syncChainsBeforeRules) = true := by decide

/-- Chain names, prefix, hash input and truncation of hostportChainName, and the mark value, as read
    from the source ("chain name is a hash of host port, protocol, container port, pod"). -/
theorem fact_names_and_hash :
    Generated.Netfilter.hostportsChain = "KUBE-HOSTPORTS" ∧ Generated.Netfilter.hostportChainPrefix = "KUBE-HP-"
      ∧ Generated.Netfilter.markMasqChain = "KUBE-MARK-MASQ" ∧ Generated.Netfilter.natTable = "nat"
      ∧ Generated.Netfilter.hashInput = [.hostPort, .protocol, .containerPort, .podName]
      ∧ Generated.Netfilter.hashFunction = "sha256" ∧ Generated.Netfilter.hashEncoding = "base32.StdEncoding"
      ∧ Generated.Netfilter.hashTrunc = 16 ∧ Generated.Netfilter.markValue = "0x4000/0x4000" := by decide

/-- The one rule galaxy writes into KUBE-MARK-MASQ. -/
theorem fact_mark_rule : markRule = ["-j", "MARK", "--set-xmark", "0x4000/0x4000"] := by decide

/-! ## chain names -/

/-- The input of the chain-name hash determines (hostPort, protocol): two ports with distinct
    (hostPort, protocol) are hashed from different byte strings. -/
theorem hash_input_injective (p q : Port) (hp : protoOk p.protocol = true) (hq : protoOk q.protocol = true)
    (h : encode p = encode q) : p.hostPort = q.hostPort ∧ p.protocol = q.protocol :=
  encode_key hp hq h

/-- With a hash that does not collide on them, the ports of a well-formed list get pairwise distinct
    chains (and hence pairwise distinct KUBE-HOSTPORTS rules). -/
theorem chain_names_distinct (hash : String → String) (ps : List Port) (hwf : wfPorts ps = true)
    (hinj : HashInjOn hash (ps.map encode)) :
    (ps.map (chainName hash)).Nodup ∧ (ps.map (jumpRule hash)).Nodup :=
  ⟨chainNames_nodup hwf hinj, jumpRules_nodup (chainNames_nodup hwf hinj)⟩

example : wfPorts [⟨53, "TCP", 53, "dns-0", "10.0.0.5", ""⟩, ⟨53, "UDP", 53, "dns-0", "10.0.0.5", ""⟩,
    ⟨8080, "tcp", 80, "web-0", "10.0.0.6", "192.168.1.10"⟩] = true := by decide

/-- the identity is a collision-free "hash": the hypothesis `HashInjOn` is satisfiable -/
example (l : List String) : HashInjOn id l := fun _ _ _ _ h => h

/-! ## iptables-restore --noflush -/

/-- A failing restore batch leaves the table unchanged (all-or-nothing). -/
theorem restore_atomic (setOk : String → Bool) (T : Table) (b : Batch) (e : Err)
    (h : (commit setOk T b).2 = some e) : (commit setOk T b).1 = T :=
  commit_error_unchanged h

/-- non-vacuity: a batch that fails (jump to a missing chain after a chain line that would have flushed X) -/
example : (commit (fun _ => true) [("X", [["-j", "RETURN"]])] [.decl "X", .app "X" ["-j", "NOSUCH"]]).2
    = some .noTarget := by decide

/-! ## setup then clean -/

/-- "Setting up port mappings for a pod and cleaning them up again leaves no chain or rule of that pod
    behind and changes no other pod's or foreign rule": for every prior table `T` with KUBE-HOSTPORTS in
    which no rule references the pod's chains (in a table without dangling references: in which those
    chains do not exist), and every well-formed port list, both calls succeed, afterwards none of the
    pod's chains exists, KUBE-HOSTPORTS holds none of its rules, and every chain other than
    KUBE-MARK-MASQ — KUBE-HOSTPORTS and all other pods' chains included — has exactly its prior rules.
    KUBE-MARK-MASQ is carved out: see `setup_rewrites_kube_mark_masq_counter` (D18). -/
theorem setup_clean_inverse (hash : String → String) (T : Table) (ps : List Port)
    (hwf : wfPorts ps = true) (hinj : HashInjOn hash (ps.map encode))
    (hkh : Tbl.has T hostportsChain = true)
    (hunref : ∀ p ∈ ps, referenced T (chainName hash p) = false) :
    (setup hash T ps).2 = none ∧ (clean hash (setup hash T ps).1 ps).2 = none ∧
    (∀ p ∈ ps, Tbl.get (clean hash (setup hash T ps).1 ps).1 (chainName hash p) = none) ∧
    (∀ p ∈ ps, jumpRule hash p ∉ (Tbl.get (clean hash (setup hash T ps).1 ps).1 hostportsChain).getD []) ∧
    (∀ c, c ≠ markMasqChain → c ∉ ps.map (chainName hash) →
      Tbl.get (clean hash (setup hash T ps).1 ps).1 c = Tbl.get T c) := by
  obtain ⟨rs, hk⟩ := has_iff.mp hkh
  obtain ⟨T2, T4, h2, h4, g⟩ := setup_clean_spec hash T ps rs hk (chainNames_nodup hwf hinj) hunref
  rw [h2]; simp only; rw [h4]; simp only
  refine ⟨trivial, trivial, ?_, ?_, ?_⟩
  · intro p hp
    rw [g]; simp [List.mem_map_of_mem hp]
  · intro p hp
    have hkn : hostportsChain ∉ ps.map (chainName hash) := fun h => by
      have := names_prefix h; rw [hostports_no_prefix] at this; cases this
    rw [g]
    simp only [hkn, if_false, markMasq_ne_hostports.symm, hk, Option.getD_some]
    exact jump_not_in_prior hk hunref _ (List.mem_map_of_mem hp)
  · intro c hc hcn
    rw [g]; simp [hc, hcn]

/-- non-vacuity of `setup_clean_inverse`: a prior table with a foreign chain, another pod's chain and
    rule, and two ports (the DNS shape) satisfy every hypothesis (with the identity as hash) -/
example :
    let T : Table := [("PREROUTING", [["-j", "DOCKER"]]), ("DOCKER", [["-j", "RETURN"]]),
      ("KUBE-HOSTPORTS", [["-p", "tcp", "--dport", "99", "-j", "KUBE-HP-OTHER"]]),
      ("KUBE-HP-OTHER", [["-j", "DNAT", "--to-destination", "10.0.0.9:99"]])]
    let ps : List Port := [⟨53, "TCP", 53, "dns-0", "10.0.0.5", ""⟩, ⟨53, "UDP", 53, "dns-0", "10.0.0.5", ""⟩]
    wfPorts ps = true ∧ Tbl.has T hostportsChain = true ∧
      ∀ p ∈ ps, referenced T (chainName id p) = false := by decide

/-- D18 — the carve-out of `setup_clean_inverse` is necessary: whatever KUBE-MARK-MASQ held before
    (it is kube-proxy's chain), after SetupPortMapping it holds galaxy's fixed mark rule. -/
theorem setup_rewrites_kube_mark_masq (hash : String → String) (T : Table) (ps : List Port)
    (hkh : Tbl.has T hostportsChain = true) :
    Tbl.get (setup hash T ps).1 markMasqChain = some [markRule] := by
  obtain ⟨rs, hk⟩ := has_iff.mp hkh
  obtain ⟨T2, h2, g⟩ := setup_spec hash T ps rs hk
  rw [h2, g]; simp

/-- D18, concrete witness (replayed on the real code as corpus/C14/kube-mark-masq-rewritten.ops): a prior
    table whose KUBE-MARK-MASQ uses another masquerade bit is rewritten by a setup of one port. -/
theorem setup_rewrites_kube_mark_masq_counter :
    ∃ (T : Table) (ps : List Port),
      Tbl.get T markMasqChain = some [["-j", "MARK", "--set-xmark", "0x8000/0x8000"]] ∧
      Tbl.get (setup id T ps).1 markMasqChain ≠ Tbl.get T markMasqChain := by
  refine ⟨[("KUBE-HOSTPORTS", []), ("KUBE-MARK-MASQ", [["-j", "MARK", "--set-xmark", "0x8000/0x8000"]])],
    [⟨80, "TCP", 8080, "web-0", "10.0.0.6", ""⟩], by decide, ?_⟩
  rw [setup_rewrites_kube_mark_masq _ _ _ (by decide), fact_mark_rule]
  decide

/-! ## the full synchronisation -/

/-- "A full synchronisation leaves exactly the chains and rules of the given ports, whatever stale
    galaxy chains existed, and touches nothing else": for every prior nat table `T` (with its builtin
    chains OUTPUT and PREROUTING) in which rules jumping to a stale KUBE-HP-* chain sit only in
    KUBE-HOSTPORTS or in KUBE-HP-* chains, for every well-formed port list and EVERY iteration order of
    the Go map of existing chains (`order`), the call succeeds and afterwards
      * each port's chain holds exactly its two rules and no other KUBE-HP-* chain exists,
      * KUBE-HOSTPORTS holds exactly the ports' jump rules, in order,
      * every chain that is not galaxy's and not OUTPUT/PREROUTING has its prior rules,
      * OUTPUT and PREROUTING gained at most the documented portal jump (`addBasic`).
    (KUBE-MARK-MASQ ends as `[markRule]`, see D18.) -/
theorem sync_all_exact (hash : String → String) (order : Table → List String) (T : Table) (ps : List Port)
    (hwf : wfPorts ps = true) (hinj : HashInjOn hash (ps.map encode))
    (hord : ∀ T', (order T').Nodup ∧ ∀ c, c ∈ order T' ↔ Tbl.has T' c = true)
    (hb : ∀ c ∈ Generated.Netfilter.basicRuleChains, Tbl.has T c = true)
    (hstale : ∀ k rs r c, Tbl.get T k = some rs → r ∈ rs → chainRef r = some c →
      hasPrefix hpPrefix c = true → c ∉ ps.map (chainName hash) →
      (k = hostportsChain ∨ hasPrefix hpPrefix k = true)) :
    (syncAllWith hash order T ps).2 = none ∧
    (∀ p ∈ ps, Tbl.get (syncAllWith hash order T ps).1 (chainName hash p)
        = some [masqRule hash p, dnatRule hash p]) ∧
    (∀ c, hasPrefix hpPrefix c = true → c ∉ ps.map (chainName hash) →
        Tbl.get (syncAllWith hash order T ps).1 c = none) ∧
    Tbl.get (syncAllWith hash order T ps).1 hostportsChain = some (ps.map (jumpRuleR hash)) ∧
    (∀ c, galaxyChain c = false → c ∉ Generated.Netfilter.basicRuleChains →
        Tbl.get (syncAllWith hash order T ps).1 c = Tbl.get T c) ∧
    (∀ c ∈ Generated.Netfilter.basicRuleChains,
        Tbl.get (syncAllWith hash order T ps).1 c = (Tbl.get T c).map addBasic) := by
  obtain ⟨T', h, g⟩ := syncAll_spec hash order T ps hord hb hstale
  have hnd := chainNames_nodup hwf hinj
  rw [h]; simp only
  refine ⟨trivial, ?_, ?_, ?_, ?_, ?_⟩
  · intro p hp
    rw [g]
    simp [chainName_ne_markMasq, chainName_ne_hostports, chainName_prefix, List.mem_map_of_mem hp,
      hpRules_mem hnd hp]
  · intro c hcp hcn
    rw [g]
    have h1 : c ≠ markMasqChain := prefix_ne_markMasq hcp
    have h2 : c ≠ hostportsChain := prefix_ne_hostports hcp
    simp [h1, h2, hcp, hcn]
  · rw [g]; simp [markMasq_ne_hostports.symm]
  · intro c hc hcb
    have := syncAllWith_frame hash order T ps c hc hcb
    rw [h] at this; exact this
  · intro c hcb
    obtain ⟨h1, h2, h3⟩ := basicChains_facts c hcb
    rw [g]; simp [h1, h2, h3, hcb]

/-- The enumeration the driver (and the correspondence run) uses is one admissible iteration order, so
    `sync_all_exact` covers `syncAll`. -/
theorem sync_all_exact_covers_driver (hash : String → String) (T : Table) (ps : List Port) :
    syncAll hash T ps = syncAllWith hash chainList T ps ∧
      ∀ T', (chainList T').Nodup ∧ ∀ c, c ∈ chainList T' ↔ Tbl.has T' c = true :=
  ⟨rfl, chainList_admissible⟩

/-- non-vacuity of `sync_all_exact`: a prior table with foreign chains and two stale galaxy chains, one
    referenced from KUBE-HOSTPORTS and one from the other stale chain, satisfies the hypotheses -/
example :
    let T : Table := [("PREROUTING", [["-j", "DOCKER"]]), ("OUTPUT", []), ("DOCKER", [["-j", "RETURN"]]),
      ("KUBE-HOSTPORTS", [["-p", "tcp", "--dport", "99", "-j", "KUBE-HP-STALE1"]]),
      ("KUBE-HP-STALE1", [["-j", "KUBE-HP-STALE2"]]), ("KUBE-HP-STALE2", [])]
    (∀ c ∈ Generated.Netfilter.basicRuleChains, Tbl.has T c = true) ∧
      ∀ k ∈ chainList T, ∀ r ∈ (Tbl.get T k).getD [], ∀ c, chainRef r = some c → hasPrefix hpPrefix c = true →
        (k = hostportsChain ∨ hasPrefix hpPrefix k = true) := by
  refine ⟨by decide, ?_⟩
  intro k hk r hr c hc hp
  have hk' : k = "PREROUTING" ∨ k = "OUTPUT" ∨ k = "DOCKER" ∨ k = "KUBE-HOSTPORTS" ∨ k = "KUBE-HP-STALE1"
      ∨ k = "KUBE-HP-STALE2" := by simpa [chainList, Tbl.keys] using hk
  rcases hk' with rfl | rfl | rfl | rfl | rfl | rfl
  · simp [Tbl.get] at hr; subst hr
    have : chainRef ["-j", "DOCKER"] = some "DOCKER" := by decide
    rw [this] at hc; cases hc; revert hp; decide
  · simp [Tbl.get] at hr
  · simp [Tbl.get] at hr; subst hr
    have : chainRef ["-j", "RETURN"] = none := by decide
    rw [this] at hc; cases hc
  · exact Or.inl rfl
  · exact Or.inr (by decide)
  · exact Or.inr (by decide)

/-! ## foreign rules -/

/-- "…and touches nothing else": for EVERY prior table and EVERY port list (well-formed or not), and
    whether the call succeeds or fails half-way, SetupPortMapping and CleanPortMapping leave every chain
    other than KUBE-HOSTPORTS, KUBE-MARK-MASQ and KUBE-HP-* exactly as it was; the full sync additionally
    may touch OUTPUT and PREROUTING (the portal jump). -/
theorem frame_foreign (hash : String → String) (order : Table → List String) (T : Table) (ps : List Port)
    (c : String) (hc : galaxyChain c = false) :
    Tbl.get (setup hash T ps).1 c = Tbl.get T c ∧ Tbl.get (clean hash T ps).1 c = Tbl.get T c ∧
    (c ∉ Generated.Netfilter.basicRuleChains → Tbl.get (syncAllWith hash order T ps).1 c = Tbl.get T c) :=
  ⟨setup_frame hash T ps c hc, clean_frame hash T ps c hc, syncAllWith_frame hash order T ps c hc⟩

example : galaxyChain "DOCKER" = false ∧ galaxyChain "KUBE-SERVICES" = false ∧ galaxyChain "KUBE-HPX" = false
    ∧ galaxyChain "POSTROUTING" = false := by decide

/-! ## the daemon's setup / cleanup of one pod (pkg/galaxy/server.go) -/

/-- The order of the per-pod protocol as factgen reads it from pkg/galaxy/server.go: the sockets are opened, then
    the port file is written, THEN SetupPortMapping runs; a failed ADD and every DEL run cleanupPortMapping
    (CloseHostports, then cleanIPtables from the port file, which is removed only after a successful clean). -/
theorem fact_server_protocol :
    (Generated.Netfilter.portFileSavedBeforeSetup && Generated.Netfilter.hostportsOpenedBeforeSave
      && Generated.Netfilter.addFailureRunsCleanup && Generated.Netfilter.delRunsCleanup
      && Generated.Netfilter.cleanupClosesHostports && Generated.Netfilter.cleanupMissingFileIsNoop
      && Generated.Netfilter.cleanupSkipsEmptyRecord && Generated.Netfilter.cleanupRemovesFileAfterClean
      && Generated.Netfilter.parsePortsSetsBarePodName && Generated.Netfilter.addPathOverwritesPodName
      && Generated.Netfilter.startupUsesParsePorts) = true := by
  decide

/-- The start-up sync after a daemon restart (`setupIPtables`: ports from `parsePorts(pod)`) and the per-pod ADD path
    (`parsePorts`, then PodName overwritten with the request's pod name) name a pod's ports alike, so both compute the
    SAME chain names (the pod name is part of the hash input) — otherwise a restart would re-create the pod's chains
    under other names and the later DEL, which works from the port file written by the ADD path, would leave them. -/
theorem restart_uses_same_chain_names (hash : String → String) (name ns : String) (p : Port) :
    startupPodName name ns = addPodName name ns ∧
    chainName hash (withPodName (startupPodName name ns) p) = chainName hash (withPodName (addPodName name ns) p) := by
  have h : startupPodName name ns = addPodName name ns := by
    simp [startupPodName, addPodName, Generated.Netfilter.parsePortsSetsBarePodName,
      Generated.Netfilter.addPathOverwritesPodName]
  exact ⟨h, by rw [h]⟩

/-- Consequently a restart leaves the port list of a live pod, as the ADD path recorded it, unchanged, and
    `sync_all_exact` applies to it: after the restart the pod's chains are the ones the ADD created. -/
theorem restart_syncs_recorded_ports (hash : String → String) (s : PodState) (name ns : String) (ann : Bool)
    (live : List Port) (hrec : ∀ p ∈ live, p.podName = addPodName name ns) :
    restartPod hash s name ns ann live = (⟨(syncAll hash s.T live).1, s.file⟩, (syncAll hash s.T live).2.isNone) := by
  have hmap : live.map (withPodName (startupPodName name ns)) = live := by
    rw [(restart_uses_same_chain_names hash name ns ⟨0, "", 0, "", "", ""⟩).1]
    conv => rhs; rw [← List.map_id live]
    apply List.map_congr_left
    intro p hp
    have h := hrec p hp
    cases p
    simp only [withPodName, id] at h ⊢
    rw [h]
  cases ann <;> simp [restartPod, hmap]

/-- "Setting up … and cleaning them up again leaves no chain or rule of that pod behind", at the level of the
    daemon and for a setup that FAILS: whichever iptables call of SetupPortMapping fails (k = 0 the restore,
    k = i+1 the EnsureRule of port i), after the ADD's own cleanup no chain of the pod exists, KUBE-HOSTPORTS holds
    none of its rules, every other chain except KUBE-MARK-MASQ is as before, and the port file is gone.
    This rests on the port file being written before SetupPortMapping (`portFileSavedBeforeSetup`): the cleanup
    removes exactly what the file lists — and on CleanPortMapping creating missing chains first
    (`cleanEnsuresChainsFirst`), without which the case k = 0 fails, see `failed_restore_keeps_port_file_before_fix`. -/
theorem failed_add_leaves_nothing (hash : String → String) (T : Table) (ps : List Port) (k : Nat)
    (hwf : wfPorts ps = true) (hinj : HashInjOn hash (ps.map encode)) (hne : ps ≠ []) (hkl : k ≤ ps.length)
    (hkh : Tbl.has T hostportsChain = true)
    (hunref : ∀ p ∈ ps, referenced T (chainName hash p) = false) :
    (addPod hash (some k) ⟨T, none⟩ ps).2 = false ∧
    (addPod hash (some k) ⟨T, none⟩ ps).1.file = none ∧
    (∀ p ∈ ps, Tbl.get (addPod hash (some k) ⟨T, none⟩ ps).1.T (chainName hash p) = none) ∧
    (∀ p ∈ ps, jumpRule hash p ∉ (Tbl.get (addPod hash (some k) ⟨T, none⟩ ps).1.T hostportsChain).getD []) ∧
    (∀ c, c ≠ markMasqChain → c ∉ ps.map (chainName hash) →
      Tbl.get (addPod hash (some k) ⟨T, none⟩ ps).1.T c = Tbl.get T c) := by
  obtain ⟨rs, hk⟩ := has_iff.mp hkh
  obtain ⟨h1, h2, g⟩ := failedAdd_spec hash T ps rs k hne hkl hk (chainNames_nodup hwf hinj) hunref
  have hkn : hostportsChain ∉ ps.map (chainName hash) := fun h => by
    have := names_prefix h; rw [hostports_no_prefix] at this; cases this
  refine ⟨h1, h2, ?_, ?_, ?_⟩
  · intro p hp; rw [g]; simp [List.mem_map_of_mem hp]
  · intro p hp
    rw [g]
    simp only [hkn, if_false, markMasq_ne_hostports.symm, hk, Option.getD_some]
    exact jump_not_in_prior hk hunref _ (List.mem_map_of_mem hp)
  · intro c hc hcn; rw [g]; simp [hc, hcn]

/-- The former finding `cleanup-fails-when-chains-missing` (fixed in /repo by a5e6428; regression replays
    corpus/C14/srv-cleanup-fails-when-chains-missing.ops and clean-not-set-up.ops): for the code BEFORE the fix
    (CleanPortMapping without the EnsureChain loop, `…With false`), when it is the restore that fails the cleanup
    fails at its first `iptables -C` (jump target chain missing), the port file stays, and every later DEL fails
    the same way. -/
theorem failed_restore_keeps_port_file_before_fix (hash : String → String) (T : Table) (ps : List Port)
    (hne : ps ≠ []) (habs : ∀ p ∈ ps, Tbl.get T (chainName hash p) = none) :
    addPodWith false hash (some 0) ⟨T, none⟩ ps = (⟨T, some ps⟩, false) ∧
    delPodWith false hash none ⟨T, some ps⟩ = (⟨T, some ps⟩, false) :=
  failedRestore_prefix_spec hash T ps hne habs

/-- Cleanup can always be repeated: from ANY table with KUBE-HOSTPORTS in which no rule refers to the pod's chains
    — in particular when those chains do not exist (after a failed restore, after an earlier cleanup) —
    CleanPortMapping succeeds, removes the chains if they were there and changes nothing else; running it again
    succeeds again and changes nothing. -/
theorem cleanup_idempotent (hash : String → String) (T : Table) (ps : List Port)
    (hwf : wfPorts ps = true) (hinj : HashInjOn hash (ps.map encode))
    (hkh : Tbl.has T hostportsChain = true)
    (hunref : ∀ p ∈ ps, referenced T (chainName hash p) = false) :
    (clean hash T ps).2 = none ∧
    (∀ c, Tbl.get (clean hash T ps).1 c = if c ∈ ps.map (chainName hash) then none else Tbl.get T c) ∧
    (clean hash (clean hash T ps).1 ps).2 = none ∧
    (∀ c, Tbl.get (clean hash (clean hash T ps).1 ps).1 c = Tbl.get (clean hash T ps).1 c) := by
  obtain ⟨rs, hk⟩ := has_iff.mp hkh
  have hnd := chainNames_nodup hwf hinj
  have hkn : hostportsChain ∉ ps.map (chainName hash) := fun h => by
    have := names_prefix h; rw [hostports_no_prefix] at this; cases this
  obtain ⟨T4, h4, g4⟩ := clean_unreferenced hash T ps rs hk hnd hunref
  have hk4 : Tbl.get T4 hostportsChain = some rs := by rw [g4]; simp [hkn, hk]
  have hun4 : ∀ p ∈ ps, referenced T4 (chainName hash p) = false := by
    intro p hp
    rw [referenced_false_iff]
    intro k rs' r hg hr
    rw [g4 k] at hg
    by_cases hkn' : k ∈ ps.map (chainName hash)
    · simp [hkn'] at hg
    · simp only [hkn', if_false] at hg
      exact referenced_false_iff.mp (hunref p hp) k rs' r hg hr
  obtain ⟨T5, h5, g5⟩ := clean_unreferenced hash T4 ps rs hk4 hnd hun4
  rw [h4]; simp only; rw [h5]; simp only
  refine ⟨trivial, g4, trivial, ?_⟩
  intro c
  rw [g5 c, g4 c]
  by_cases hc : c ∈ ps.map (chainName hash) <;> simp [hc]

/-- A successful ADD followed by the DEL: afterwards nothing of the pod is left — no chain, no KUBE-HOSTPORTS
    rule, no port file — and every chain except KUBE-MARK-MASQ is as before. -/
theorem add_then_del_leaves_nothing (hash : String → String) (T : Table) (ps : List Port)
    (hwf : wfPorts ps = true) (hinj : HashInjOn hash (ps.map encode)) (hne : ps ≠ [])
    (hkh : Tbl.has T hostportsChain = true)
    (hunref : ∀ p ∈ ps, referenced T (chainName hash p) = false) :
    (addPod hash none ⟨T, none⟩ ps).2 = true ∧
    (delPod hash none (addPod hash none ⟨T, none⟩ ps).1).2 = true ∧
    (delPod hash none (addPod hash none ⟨T, none⟩ ps).1).1.file = none ∧
    (∀ p ∈ ps, Tbl.get (delPod hash none (addPod hash none ⟨T, none⟩ ps).1).1.T (chainName hash p) = none) ∧
    (∀ c, c ≠ markMasqChain → c ∉ ps.map (chainName hash) →
      Tbl.get (delPod hash none (addPod hash none ⟨T, none⟩ ps).1).1.T c = Tbl.get T c) := by
  obtain ⟨rs, hk⟩ := has_iff.mp hkh
  have hnd := chainNames_nodup hwf hinj
  obtain ⟨T2, h2, g2⟩ := add_spec hash T ps rs hne hk hnd hunref
  obtain ⟨T4, h4, g4⟩ := del_spec hash T T2 ps rs _ hne hk hnd hunref (jumpRules_nodup hnd) (fun _ h => h) g2
  rw [h2]; simp only; rw [h4]; simp only
  refine ⟨trivial, trivial, trivial, ?_, ?_⟩
  · intro p hp; rw [g4]; simp [List.mem_map_of_mem hp]
  · intro c hc hcn; rw [g4]; simp [hc, hcn]

/-- A DEL in which iptables call `j` fails (an EnsureChain, a DeleteRule or the restore) reports the failure and keeps the port
    file; the retried DEL then succeeds and leaves nothing of the pod. -/
theorem faulty_del_then_retry_leaves_nothing (hash : String → String) (T : Table) (ps : List Port) (j : Nat)
    (hwf : wfPorts ps = true) (hinj : HashInjOn hash (ps.map encode)) (hne : ps ≠ []) (hjl : j ≤ 2 * ps.length)
    (hkh : Tbl.has T hostportsChain = true)
    (hunref : ∀ p ∈ ps, referenced T (chainName hash p) = false) :
    (delPod hash (some j) (addPod hash none ⟨T, none⟩ ps).1).2 = false ∧
    (delPod hash (some j) (addPod hash none ⟨T, none⟩ ps).1).1.file = some ps ∧
    (delPod hash none (delPod hash (some j) (addPod hash none ⟨T, none⟩ ps).1).1).2 = true ∧
    (delPod hash none (delPod hash (some j) (addPod hash none ⟨T, none⟩ ps).1).1).1.file = none ∧
    (∀ p ∈ ps, Tbl.get (delPod hash none (delPod hash (some j) (addPod hash none ⟨T, none⟩ ps).1).1).1.T
        (chainName hash p) = none) ∧
    (∀ c, c ≠ markMasqChain → c ∉ ps.map (chainName hash) →
      Tbl.get (delPod hash none (delPod hash (some j) (addPod hash none ⟨T, none⟩ ps).1).1).1.T c = Tbl.get T c) := by
  obtain ⟨rs, hk⟩ := has_iff.mp hkh
  have hnd := chainNames_nodup hwf hinj
  obtain ⟨T2, h2, g2⟩ := add_spec hash T ps rs hne hk hnd hunref
  obtain ⟨T3, l, h3, hl1, hl2, g3⟩ := faultyDel_spec hash T T2 ps rs j hne hjl hk hnd hunref g2
  obtain ⟨T4, h4, g4⟩ := del_spec hash T T3 ps rs l hne hk hnd hunref hl1 hl2 g3
  rw [h2]; simp only; rw [h3]; simp only; rw [h4]; simp only
  refine ⟨trivial, trivial, trivial, trivial, ?_, ?_⟩
  · intro p hp; rw [g4]; simp [List.mem_map_of_mem hp]
  · intro c hc hcn; rw [g4]; simp [hc, hcn]

/-- non-vacuity: the witness table of `setup_clean_inverse` also satisfies the hypotheses of the server-level
    theorems (the pod's chains neither exist nor are referenced) -/
example :
    let T : Table := [("PREROUTING", [["-j", "DOCKER"]]), ("DOCKER", [["-j", "RETURN"]]),
      ("KUBE-HOSTPORTS", [["-p", "tcp", "--dport", "99", "-j", "KUBE-HP-OTHER"]]),
      ("KUBE-HP-OTHER", [["-j", "DNAT", "--to-destination", "10.0.0.9:99"]])]
    let ps : List Port := [⟨53, "TCP", 53, "dns-0", "10.0.0.5", ""⟩, ⟨53, "UDP", 53, "dns-0", "10.0.0.5", ""⟩]
    ps ≠ [] ∧ (∀ p ∈ ps, Tbl.get T (chainName id p) = none) ∧ ∀ p ∈ ps, referenced T (chainName id p) = false := by
  decide

/-! ## sockets -/

/-- the host states reachable from a node on which other processes hold the (distinct) sockets `foreign` -/
def reach (foreign : List Sock) (ops : List HostOp) : Host := ops.foldl hostStep (Host.init foreign)

/-- "Every host port handed out, including random ones, is distinct on the node": in every reachable
    state the sockets galaxy holds for a pod are pairwise distinct, non-zero and bound, and the sockets of
    two different pods are disjoint — for every history of opens, closes and foreign binds and every
    admissible choice of the kernel for port 0. -/
theorem ports_distinct_while_held (foreign : List Sock) (hf : foreign.Nodup) (ops : List HostOp) :
    (∀ pod ss, Tbl.get (reach foreign ops).held pod = some ss →
      ss.Nodup ∧ (∀ s ∈ ss, s.2 ≠ 0) ∧ ∀ s ∈ ss, s ∈ (reach foreign ops).bound) ∧
    (∀ p1 p2 ss1 ss2, p1 ≠ p2 → Tbl.get (reach foreign ops).held p1 = some ss1 →
      Tbl.get (reach foreign ops).held p2 = some ss2 → ∀ s ∈ ss1, s ∉ ss2) := by
  have hi := inv_run (inv_init hf) ops
  exact ⟨fun pod ss hg => ⟨hi.heldNodup pod ss hg, hi.heldNonzero pod ss hg, hi.heldBound pod ss hg⟩, hi.heldDisj⟩

/-- …and while it is held nobody else can bind it: `bind()` of a held (protocol, port) fails, for another
    process and for a later OpenHostports alike. -/
theorem second_bind_fails_while_held (foreign : List Sock) (hf : foreign.Nodup) (ops : List HostOp)
    (pod : String) (ss : List Sock) (hg : Tbl.get (reach foreign ops).held pod = some ss) (s : Sock) (hs : s ∈ ss) :
    (foreignBind (reach foreign ops) s).2 = false ∧
    ∀ extra choice s', bindPort (extra ++ (reach foreign ops).bound) s.1 s.2 choice ≠ .ok s' := by
  have hi := inv_run (inv_init hf) ops
  have hb : s ∈ (reach foreign ops).bound := hi.heldBound pod ss hg s hs
  refine ⟨by simp [foreignBind, hb], ?_⟩
  intro extra choice s'
  exact bindPort_inUse (List.mem_append_right _ hb) (hi.heldNonzero pod ss hg s hs) s'

/-- "a failed setup leaves no port open": if OpenHostports returns an error, every socket it had opened is
    closed again — the host state (bind table, galaxy's map) is exactly what it was. -/
theorem failed_open_leaves_none (h : Host) (pod : String) (random : Bool) (reqs : List Req) (choices : List Nat)
    (e : SockErr) (he : (openHostports h pod random reqs choices).2 = .error e) :
    (openHostports h pod random reqs choices).1 = h :=
  openHostports_error he

/-- non-vacuity: the second request collides with a socket of another process; the random socket opened
    first (port 40000) is gone afterwards -/
example : (openHostports (Host.init [("tcp", 80)]) "web-0_default" true [(0, "UDP"), (80, "TCP")] [40000])
    = (Host.init [("tcp", 80)], .error .inUse) := by rfl

/-- "…and stays bound by galaxy until the pod is torn down": the sockets handed out by a successful
    OpenHostports for `pod` stay bound, and stay recorded for `pod`, through every sequence of operations
    that contains neither CloseHostports(pod) nor another OpenHostports(pod). -/
theorem held_until_close (foreign : List Sock) (hf : foreign.Nodup) (before : List HostOp)
    (pod : String) (random : Bool) (reqs : List Req) (choices : List Nat) (ss : List Sock) (hne : ss ≠ [])
    (hok : (openHostports (reach foreign before) pod random reqs choices).2 = .ok ss)
    (after : List HostOp) (hafter : ∀ op ∈ after, touches pod op = false) :
    let h := after.foldl hostStep (openHostports (reach foreign before) pod random reqs choices).1
    Tbl.get h.held pod = some ss ∧ ∀ s ∈ ss, s ∈ h.bound := by
  have hi0 := inv_run (inv_init hf) before
  have hi1 := inv_open hi0 pod random reqs choices
  obtain ⟨_, h1 | h1⟩ := openHostports_ok hok
  · exact absurd h1.1 hne
  · have hg : Tbl.get (openHostports (reach foreign before) pod random reqs choices).1.held pod = some ss := by
      rw [h1.2]; simp
    obtain ⟨hg', hi'⟩ := held_run after hi1 hg hafter
    exact ⟨hg', hi'.heldBound pod ss hg'⟩

/-- Tear-down: CloseHostports(pod) releases every socket recorded for the pod. -/
theorem close_releases (h : Host) (pod : String) (ss : List Sock) (hg : Tbl.get h.held pod = some ss) :
    Tbl.get (closeHostports h pod).held pod = none ∧ ∀ s ∈ ss, s ∉ (closeHostports h pod).bound := by
  unfold closeHostports
  rw [hg]
  refine ⟨by simp, ?_⟩
  intro s hs hm
  simp only [List.mem_filter, decide_eq_true_eq] at hm
  exact hm.2 hs

/-- non-vacuity: a history with a foreign socket, a random and a fixed request, a second pod, a close -/
example :
    let h := reach [("tcp", 22)] [.open "a" true [(0, "tcp"), (8080, "TCP")] [40000], .open "b" true [(0, "tcp")] [40001],
      .close "a"]
    Tbl.get h.held "b" = some [("tcp", 40001)] ∧ h.bound = [("tcp", 40001), ("tcp", 22)] := by decide

end Galaxy.Props.C14
