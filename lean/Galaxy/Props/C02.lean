/-
  C02 - float IP is sticky across reschedule and rolling update.

  Model: `Galaxy.Plugin` (M4-core, what `gxdrv_plugin` executes and the harness compares with the real plugin step by
  step).  `filter` / `bind` are the model's Filter / Bind incl. the allocation during filter; every theorem below holds
  in EVERY state `s` - hence after every finite history of moves (re-creation with a fresh UID, delete events delivered
  before or after the new pod's filter / bind, lost events, resync, restarts, stale listers), for every topology of
  pools and node subnets, every admissible resolution of Go's map order (`Choice`) and every fault index.

  FULL STATEMENT (property text) and what is proved:
   * "A pod identity with release policy immutable or never that is scheduled again is bound with exactly the IP it held
     before for as long as that reservation exists; it is never given a different IP while the old one is still
     reserved":  `sticky_rebind` (the key owns exactly one address / one per requested range: a successful Bind - on any
     node - writes exactly these, in request order), `bind_hands_only_reserved` (invariant form: while the key owns
     anything, a Bind without requested ranges hands one of the owned addresses, never another one),
     `bind_waits_for_old_incarnation` (the old pod's delete event has not arrived: "waiting for delete event", nothing
     changes, no other address is given), `delete_event_keeps_reservation` (the event / resync decision `reserveIP(key,
     key)` keeps every address under the key with its policy and clears the uid, so the next Bind passes),
     `filter_offers_only_routable_nodes` (Filter offers only nodes from which the reserved address is routable and
     allocates nothing).
   * "A replacement pod of a deployment (or named IP pool) with such a policy takes one of the IPs its app already holds in
     reserve, not a fresh one": `dp_replacement_takes_reserved` (+ `dp_replacement_bind_hands_rekeyed`).
   * modelling subtlety, documented: an identity that owns TWO addresses and requests no ranges is bound with
     `ipInfos[:1]`, i.e. EITHER of them (Go map order) - `sticky_rebind_two_ips_counter`; hence the hypothesis "exactly
     one" in `sticky_rebind`, while `bind_hands_only_reserved` still holds.
  Nothing is `_partial`.
-/
import Galaxy.Lemmas.C02Main

namespace Galaxy.Props.C02
open Galaxy Galaxy.Plugin Galaxy.Plugin.C03 Galaxy.Plugin.C02

/-! ### facts regenerated from /repo on this run (tools/factgen/cmd/c03) -/

/-- The guard / re-read shape of the plugin the model runs with is the one the proofs are about (incl. "Bind waits while a
    record of the key carries another incarnation's uid"). -/
theorem fact_plugin_guards : Galaxy.Plugin.facts = Facts.good := by decide

/-- `allocateIP` looks up what the key owns first, reuses `ipInfos[:1]` when no ranges are requested, allocates only for
    ranges without an owned address (or when the key owns nothing) and lists the ipInfos in order in the annotation. -/
theorem fact_bind_reuses_owned :
    Generated.C03.allocateIPReusesOwned = true ∧ Generated.C03.allocateIPAllocatesOnlyMissing = true := by decide

/-- `getAvailableSubnet`: `usedCount >= replicas` refuses (operator and operand order); a record counts as used iff its
    key is not the prefix and (the pool is sized, or the pod names no pool, or the key has this app's prefix); a record
    is "in reserve" iff its key IS the prefix; the lookup applies to deployment keys with a policy other than default. -/
theorem fact_available_subnet_expressions (usedCount replicas : Nat) (kp sized noPool hp d : Bool) (p : Nat) :
    Generated.C03.sizeLimitReached usedCount replicas = decide (usedCount ≥ replicas) ∧
    Generated.C03.countsAsUsed kp sized noPool hp = (!kp && (sized || noPool || hp)) ∧
    Generated.C03.countsAsUnused kp sized noPool hp = kp ∧
    Generated.C03.reserveLookupApplies d p = (d && p != 0) :=
  ⟨gen_sizeLimit usedCount replicas, countsAsUsed_eq kp sized noPool hp, countsAsUnused_eq kp sized noPool hp,
   reserveLookupApplies_eq d p⟩

/-- Order inside `getAvailableSubnet` (ranges refused, ByPrefix, count loop, size limit, THEN the reserved subnets with
    reserve=true, only otherwise the free ones) and in `getSubnet` (allocation during filter iff
    `(reserve || sized) && subnets ≠ ∅`, in `List()[0]`, its error returned; a pod whose key owns an address is answered
    with that address' node subnets first). -/
theorem fact_filter_shape :
    Generated.C03.availableSubnetShape = true ∧ Generated.C03.getSubnetReturnsAllocError = true ∧
    Generated.C03.allocateDuringFilterAttr = true ∧ Generated.C03.getSubnetAnswersOwnedFirst = true ∧
    ∀ r z n : Bool, Generated.C03.filterAllocatesWhen r z n = ((r || z) && n) := by
  refine ⟨by decide, by decide, by decide, by decide, fun r z n => ?_⟩
  unfold Generated.C03.filterAllocatesWhen
  cases r <;> cases z <;> cases n <;> rfl

/-- The quota behind the `usedCount >= replicas` gate of a deployment without sized pool is `spec.replicas` and nothing
    else: `getReplicasOfDeployment` assigns `int(*obj.Spec.Replicas)` (0 when the deployment is unknown) and
    `getDpReplicas` returns exactly that value (no surge allowance, no other field of the object); with a Pool object the
    quota is `Pool.size` (`dpReplicasShape`).  The model's `getDpReplicas` is that function over the lister views. -/
theorem fact_dp_quota_is_spec_replicas :
    Generated.C03.dpReplicasIsSpecReplicas = true ∧ Generated.C03.dpReplicasShape = true ∧
    Generated.C03.dpMissingMeansZeroReplicas = true ∧
    ∀ (s : State) (k : Key),
      getDpReplicas s k =
        match (if k.pool ≠ "" then s.vPoolObjs.get k.pool else none) with
        | some size => (size, true)
        | none => ((s.vApps.get (Kind.dp, k.ns, k.app)).getD 0, false) :=
  ⟨by decide, by decide, by decide, fun _ _ => rfl⟩

/-- `allocateDuringFilter` returns the error of `allocateInSubnetWithKey` without falling through to a fresh
    allocation. -/
theorem fact_no_fall_through_to_fresh_allocation : Generated.C03.allocateDuringFilterNoFallThrough = true := by decide

/-- `AllocateInSubnetWithKey` re-keys the most recently updated record of the old key routable from the subnet, store
    first. -/
theorem fact_allocate_with_key_takes_latest : Generated.C03.allocateWithKeyTakesLatest = true := by decide

/-- count + allocate of `getSubnet` lie inside the `LockDpPool(PoolPrefix())` scope. -/
theorem fact_filter_count_and_allocate_under_pool_lock : Generated.C03.getSubnetCountAndAllocateUnderPoolLock = true := by decide

/-- the model's `getAvailableSubnet` IS the function written over the regenerated expressions -/
theorem fact_model_uses_regenerated_expressions (s : State) (k : Key) (policy replicas : Nat) (sized : Bool)
    (rss : List (List (Nat × Nat))) :
    getAvailableSubnet s k policy replicas sized rss = getAvailableSubnetG s k policy replicas sized rss :=
  getAvailableSubnet_eq_G s k policy replicas sized rss

/-! ### the identity's own reservation -/

/-- "is bound with exactly the IP it held before for as long as that reservation exists": in ANY state in which the
    lister knows the pod and its key owns exactly the addresses `ips` - one address and no requested ranges, or one per
    requested range (`byKeyAndRanges`) - a successful Bind, on whatever node, with whatever choices and faults, writes
    exactly `ips` into the binding annotation, in request order. -/
theorem sticky_rebind (s : State) (ns name : String) (uid : Nat) (node : String) (ch : Choice) (pod : Pod) (ips : List IP)
    (hl : Tbl.get s.vPods (ns, name) = some pod) (hw : pod.wants = true)
    (hown : (pod.ranges = [] ∧ ∃ i, ips = [i] ∧ ipsOfKey s (keyOf pod) = [i]) ∨
            (pod.ranges ≠ [] ∧ ips ≠ [] ∧ byKeyAndRanges s (keyOf pod) pod.ranges = ips.map some))
    (hok : (bind facts s ns name uid node ch).2.res = .ok) :
    (bind facts s ns name uid node ch).2.ips.map (·.ip) = ips := by
  rw [fact_plugin_guards] at hok ⊢
  rcases hown with ⟨hr, i, he, hi⟩ | ⟨hr, hne, hb⟩
  · subst he
    exact bind_single s ns name uid node ch pod i hl hw hr hi hok
  · have hbi : bindInfos s pod ch = some (ips.map some) := by rw [bindInfos_ranges s pod ch hr, hb]
    exact (bind_found s ns name uid node ch pod ips hl hw hbi hne hok).1

/-- "it is never given a different IP while the old one is still reserved" - invariant form over ALL move sequences:
    after any history, while the pod's key owns anything (and no ranges are requested), a successful Bind hands exactly
    one address and it is one the key owned at bind time. -/
theorem bind_hands_only_reserved (c : Conf) (ms : List Move) (ns name : String) (uid : Nat) (node : String) (ch : Choice)
    (pod : Pod) (hl : Tbl.get (run facts (init c) ms).vPods (ns, name) = some pod) (hw : pod.wants = true)
    (hr : pod.ranges = []) (hown : ipsOfKey (run facts (init c) ms) (keyOf pod) ≠ [])
    (hok : (bind facts (run facts (init c) ms) ns name uid node ch).2.res = .ok) :
    ∃ i, i ∈ ipsOfKey (run facts (init c) ms) (keyOf pod) ∧
      (bind facts (run facts (init c) ms) ns name uid node ch).2.ips.map (·.ip) = [i] := by
  rw [fact_plugin_guards] at hl hown hok ⊢
  cases hbi : bindInfos (run Facts.good (init c) ms) pod ch with
  | none =>
    exfalso
    unfold Galaxy.Plugin.bind at hok
    simp only [hl, hw, Bool.not_true, Bool.false_eq_true, if_false, hbi] at hok
    split at hok <;> simp [Out.err, Out.bad] at hok
  | some infos =>
    obtain ⟨i, hi, he⟩ := bindInfos_noranges _ pod ch hr infos hbi hown
    have hbi' : bindInfos (run Facts.good (init c) ms) pod ch = some ([i].map some) := by rw [hbi, he]; rfl
    exact ⟨i, hi, (bind_found _ ns name uid node ch pod [i] hl hw hbi' (by simp) hok).1⟩

/-- The order "new pod's bind BEFORE the old pod's delete event" (the UID-guard wait): as long as a record of the key
    still carries the uid of another incarnation, Bind answers "waiting for delete event", changes nothing - and in
    particular gives the new incarnation no other address. -/
theorem bind_waits_for_old_incarnation (s : State) (ns name : String) (uid : Nat) (node : String) (ch : Choice) (pod : Pod)
    (infos : List (Option IP)) (hl : Tbl.get s.vPods (ns, name) = some pod) (hw : pod.wants = true)
    (hu : uid = 0 ∨ uid = pod.uid) (hinfos : bindInfos s pod ch = some infos)
    (ip : IP) (r : Rec) (hm : ip ∈ ipsOfKey s (keyOf pod)) (hr : Tbl.get s.alloc ip = some r)
    (h0 : r.uid ≠ 0) (h1 : r.uid ≠ pod.uid) :
    bind facts s ns name uid node ch = (s, Out.err "waiting-for-delete") := by
  rw [fact_plugin_guards]
  exact bind_waits s ns name uid node ch pod infos hl hw hu hinfos ip r hm hr h0 h1

/-- The old pod's delete event (or the resync pass that repairs its loss) for an identity whose policy keeps the address
    runs `reserveIP(key, key)` (C03: `docAction = reserveOwn`): whichever store call fails, every address stays under
    its key with its stored policy; with coherent tables and no failing call the uid is cleared - so the new
    incarnation's Bind passes the UID guard and `sticky_rebind` applies. -/
theorem delete_event_keeps_reservation (s : State) (k : Key) (ip : IP) :
    (∀ r, Tbl.get s.alloc ip = some r →
      ∃ r', Tbl.get (exec s k .reserveOwn).1.alloc ip = some r' ∧ r'.key = r.key ∧ r'.policy = r.policy) ∧
    (∀ r', Tbl.get (exec s k .reserveOwn).1.alloc ip = some r' →
      ∃ r, Tbl.get s.alloc ip = some r ∧ r'.key = r.key ∧ r'.policy = r.policy) ∧
    (Coherent s → s.fault = 0 → ∀ r', Tbl.get (exec s k .reserveOwn).1.alloc ip = some r' → r'.key = k → r'.uid = 0) :=
  ⟨(reserve_own_keeps s k ip).2, (reserve_own_keeps s k ip).1,
   fun hc hf r' h hk => reserve_own_clears_uid s k hc (Or.inl hf) ip r' h hk⟩

/-- "on any node filter offers; filter offers only nodes from which i is routable": Filter of a pod whose key owns
    addresses (no requested ranges) offers only nodes whose subnet (as Filter sees it: cache, else
    `NodeSubnet(InternalIP)`) is a node subnet of the pool of one owned address `i`, and allocates / re-keys nothing;
    with requested ranges that all have their address: only nodes from which ALL of them are routable. -/
theorem filter_offers_only_routable_nodes (s : State) (ns name : String) (nodes : List String) (ch : Choice) (pod : Pod)
    (hp : Tbl.get s.pods (ns, name) = some pod) (hw : pod.wants = true) :
    (pod.ranges = [] → ipsOfKey s (keyOf pod) ≠ [] → (filter s ns name nodes ch).2.res = .ok →
      ∃ i, i ∈ ipsOfKey s (keyOf pod) ∧
        (∀ n, n ∈ (filter s ns name nodes ch).2.nodes → n ∈ nodes ∧ ∃ sn, nodeSub s n = some sn ∧ hasSubnet s i sn = true) ∧
        (filter s ns name nodes ch).1.alloc = s.alloc ∧ (filter s ns name nodes ch).1.free = s.free) ∧
    (∀ ips : List IP, pod.ranges ≠ [] → byKeyAndRanges s (keyOf pod) pod.ranges = ips.map some →
      (∀ n, n ∈ (filter s ns name nodes ch).2.nodes →
        n ∈ nodes ∧ ∃ sn, nodeSub s n = some sn ∧ ∀ i, i ∈ ips → hasSubnet s i sn = true) ∧
      (filter s ns name nodes ch).1.alloc = s.alloc ∧ (filter s ns name nodes ch).1.free = s.free) :=
  ⟨fun hr hne hok => filter_owned s ns name nodes ch pod hp hw hr hne hok,
   fun ips hr hb => filter_owned_ranges s ns name nodes ch pod ips hp hw hr hb⟩

/-! ### the app's / pool's reservation -/

/-- "A replacement pod of a deployment (or named IP pool) with such a policy takes one of the IPs its app already holds in
    reserve, not a fresh one."  Deployment / pool pod with policy immutable or never (`policyOf`: a pool annotation
    forces never) that owns nothing and requests no ranges; the app / pool prefix holds addresses in reserve that are
    routable (`reservedSubnets ≠ []`) and `usedCount < replicas` (resp. pool size; both counted by the regenerated
    `countsAsUsed`).  Then, for every choice and every fault index:
    * Filter NEVER takes a free address (the free list is unchanged);
    * if Filter answers ok, it re-keyed exactly one address `ip` that was held under the prefix and is routable from the
      chosen subnet `n`, no such address having been updated more recently (admissible choice), to the pod's key with
      (policy of the pod, node "", uid of the pod), and every offered node lies in `n`;
    * if Filter fails - in particular when the store update of the re-keying fails - no record changed and no node is
      offered: it does not fall back to a fresh allocation. -/
theorem dp_replacement_takes_reserved (s : State) (ns name : String) (nodes : List String) (ch : Choice) (pod : Pod)
    (hp : Tbl.get s.pods (ns, name) = some pod) (hw : pod.wants = true) (hr : pod.ranges = [])
    (hown : ipsOfKey s (keyOf pod) = []) (hdp : (keyOf pod).isDp = true) (hpol : policyOf pod ≠ 0)
    (hres : reservedSubnets s (keyOf pod) ≠ [])
    (hquota : usedCountG s (keyOf pod) (getDpReplicas s (keyOf pod)).2 < (getDpReplicas s (keyOf pod)).1) :
    (filter s ns name nodes ch).1.free = s.free ∧
    ((filter s ns name nodes ch).2.res = .ok →
      ∃ ip r n, Tbl.get s.alloc ip = some r ∧ r.key = (keyOf pod).poolPrefix ∧ hasSubnet s ip n = true ∧
        (∀ e, e ∈ s.alloc → e.2.key = (keyOf pod).poolPrefix → hasSubnet s e.1 n = true → e.2.ts ≤ r.ts) ∧
        (filter s ns name nodes ch).1.alloc =
          Tbl.set s.alloc ip (r.assign (keyOf pod) { policy := policyOf pod, node := "", uid := pod.uid } s.clock) ∧
        ∀ m, m ∈ (filter s ns name nodes ch).2.nodes → m ∈ nodes ∧ nodeSub s m = some n) ∧
    ((filter s ns name nodes ch).2.res ≠ .ok →
      (filter s ns name nodes ch).1.alloc = s.alloc ∧ (filter s ns name nodes ch).2.nodes = []) :=
  filter_takes_reserved s ns name nodes ch pod hp hw hr hown hdp hpol hres hquota

/-- The rolling-update order "replacement pod filtered BEFORE the old pod's address came back" (old pod still terminating,
    or its delete event not yet delivered): a deployment / pool pod with policy immutable or never that owns nothing,
    while the addresses in use under its app / pool prefix already number `spec.replicas` (resp. `Pool.size`) - the quota
    of `fact_dp_quota_is_spec_replicas`, nothing added - is refused with the size-limit error ("wait for releasing"),
    for every choice; no record changes, no node is offered.  So it cannot be bound with a fresh address while the old
    pod's address is on its way into the reserve; once that address is there, `dp_replacement_takes_reserved` applies. -/
theorem dp_replacement_waits_at_quota (s : State) (ns name : String) (nodes : List String) (ch : Choice) (pod : Pod)
    (hp : Tbl.get s.pods (ns, name) = some pod) (hw : pod.wants = true) (hr : pod.ranges = [])
    (hown : ipsOfKey s (keyOf pod) = []) (hdp : (keyOf pod).isDp = true) (hpol : policyOf pod ≠ 0)
    (hquota : (getDpReplicas s (keyOf pod)).1 ≤ usedCountG s (keyOf pod) (getDpReplicas s (keyOf pod)).2) :
    filter s ns name nodes ch = (s, Out.err "size-limit") :=
  filter_at_quota_waits s ns name nodes ch pod hp hw hr hown hdp hpol hquota

/-- "... and bind hands exactly that IP": after Filter re-keyed the reserved address `ip` to the pod's key (the key
    owned nothing before), the key owns exactly `ip`, and a successful Bind in that state - or in any later state in
    which this is still so - writes `[ip]`. -/
theorem dp_replacement_bind_hands_rekeyed (s s' : State) (pod : Pod) (ip : IP) (r' : Rec)
    (hown : ipsOfKey s (keyOf pod) = []) (ha : s'.alloc = Tbl.set s.alloc ip r') (hk : r'.key = keyOf pod)
    (ns name : String) (uid : Nat) (node : String) (ch : Choice)
    (hl : Tbl.get s'.vPods (ns, name) = some pod) (hw : pod.wants = true) (hr : pod.ranges = [])
    (hok : (bind facts s' ns name uid node ch).2.res = .ok) :
    ipsOfKey s' (keyOf pod) = [ip] ∧ (bind facts s' ns name uid node ch).2.ips.map (·.ip) = [ip] := by
  rw [fact_plugin_guards] at hok ⊢
  have h1 := ipsOfKey_after_rekey s s' (keyOf pod) ip r' hown ha hk
  exact ⟨h1, bind_single s' ns name uid node ch pod ip hl hw hr h1 hok⟩

/-! ### non-vacuity and the documented subtlety -/

def pool3 : Pool := { nodeSubnets := [⟨168362240, 24⟩], ranges := [(168427522, 168427524)], gateway := 168427521, bits := 24, vlan := 0 }
def conf3 : Conf := { pools := [pool3], nodes := [("n1", 168362245)], provider := false }

/-- a never-policy statefulset pod is bound with TWO requested ranges, deleted, its event delivered (both addresses
    stay reserved under its key); the next incarnation requests no ranges -/
def twoIPs : List Move := [
  .scale .sts "ns1" "a" 1,
  .createPod "ns1" "a-0" .sts "a" "" 2 [[(168427522, 168427522)], [(168427524, 168427524)]] true,
  .listerSync true true,
  .filter "ns1" "a-0" ["n1"] {} 0,
  .bind "ns1" "a-0" 1 "n1" {} 0 0,
  .deletePod "ns1" "a-0",
  .deliver 0 0 0,
  .createPod "ns1" "a-0" .sts "a" "" 2 [] true,
  .listerSync true true ]

set_option maxRecDepth 100000 in
/-- The hypothesis "exactly one address" of `sticky_rebind` is necessary AS THE CODE STANDS (`ipInfos[:1]` of a Go map):
    in the state after `twoIPs` the key owns 10.10.0.2 and 10.10.0.4, both choices of "the first" are admissible, and
    the two Binds hand different addresses (each one of the reserved ones, as `bind_hands_only_reserved` says).
    Replay on the real code: corpus/C02/two-ips-no-ranges.ops. -/
theorem sticky_rebind_two_ips_counter :
    (bind facts (run facts (init conf3) twoIPs) "ns1" "a-0" 2 "n1" { first := some 168427522 } ).2.ips.map (·.ip) = [168427522] ∧
    (bind facts (run facts (init conf3) twoIPs) "ns1" "a-0" 2 "n1" { first := some 168427524 } ).2.ips.map (·.ip) = [168427524] ∧
    (bind facts (run facts (init conf3) twoIPs) "ns1" "a-0" 2 "n1" { first := some 168427522 } ).2.res = .ok ∧
    (bind facts (run facts (init conf3) twoIPs) "ns1" "a-0" 2 "n1" { first := some 168427524 } ).2.res = .ok := by
  refine ⟨by decide, by decide, by decide, by decide⟩

/-- delete event AFTER the new incarnation's first bind attempt: bind waits, the event is delivered, bind hands the same
    address (immutable statefulset pod; the hypotheses of `bind_waits_for_old_incarnation` and `sticky_rebind` are
    satisfiable along one history) -/
def lateEvent : List Move := [
  .scale .sts "ns1" "a" 1,
  .createPod "ns1" "a-0" .sts "a" "" 2 [] true,
  .listerSync true true,
  .filter "ns1" "a-0" ["n1"] {} 0,
  .bind "ns1" "a-0" 1 "n1" { pick := some 168427523 } 0 0,
  .deletePod "ns1" "a-0",
  .createPod "ns1" "a-0" .sts "a" "" 2 [] true,
  .listerSync true true ]

set_option maxRecDepth 100000 in
example :
    (bind facts (run facts (init conf3) lateEvent) "ns1" "a-0" 2 "n1" {}).2.res = .err "waiting-for-delete" ∧
    ipsOfKey (run facts (init conf3) (lateEvent ++ [.deliver 0 0 0])) (keyOf (newPod 2 "ns1" "a-0" .sts "a" "" 2 [] true)) = [168427523] ∧
    (bind facts (run facts (init conf3) (lateEvent ++ [.deliver 0 0 0])) "ns1" "a-0" 2 "n1" {}).2.res = .ok ∧
    (bind facts (run facts (init conf3) (lateEvent ++ [.deliver 0 0 0])) "ns1" "a-0" 2 "n1" {}).2.ips.map (·.ip) = [168427523] := by
  refine ⟨by decide, by decide, by decide, by decide⟩

end Galaxy.Props.C02
