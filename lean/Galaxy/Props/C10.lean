/-
  C10 - cloud-provider assign/unassign calls are well ordered per IP.

  Model: `Galaxy.Plugin` (M4-core): every AssignIP / UnAssignIP request of the plugin is appended to `State.plog` with
  its outcome; a provider call fails cleanly (no effect) when its number within the move equals the move's `pfault`, and
  the scheduler / event loop / resync retry later as moves of their own.  `Galaxy.PluginC10`: the per-IP state machine of
  the property run over the call log - `provOf l` = the provider's assignment table after log `l`, `callOK` = "an
  AssignIP(ip, n) request finds ip unassigned or on n", `logOK l` = every request of `l` was admissible when issued.
  `run facts (init c) ms` is the state after history `ms`; `gxdrv_plugin` executes exactly these functions and the
  harness compares results, provider logs per address and provider state with the real plugin after every step.

  FULL STATEMENT (property text), for every history with pods moving between nodes, every order of old-pod events versus
  new-pod binding, any provider call failing cleanly and being retried (reload excluded by the property's quantifier):
    (1) an IP is never assigned to a second node while the provider still has it assigned to another;
    (2) every IP of a bound live pod is assigned to that pod's node;
    (3) an IP is unassigned before it is freed or handed to a different owner.
  What is proved is (1)-(3) for every history over ALL moves of the plugin model except reload - filter, preempt, bind,
  event delivery, both resync forms, API release, the pod-IP sync pass, administrator reservations, process restart,
  lister lag - with ONE failing apiserver call per move (index arbitrary) and one failing provider call per move (index
  arbitrary), whose moves satisfy the decidable side conditions `assumedAll`:
    (a) the side conditions of C04 (`Galaxy.Plugin.assumed`: non-empty names; the scheduler sends the pod UID);
    (b) `restart`: no unprocessed orphan (`orphans = []`: restart after an interrupted configuration change re-reads a
        store that differs from memory - that is C05's scenario, not a call-order one);
    (c) `bindSameNode`: at a bind the records stored under the pod's key by THIS incarnation name no OTHER node than the
        one the pod is being bound to - "no bind retry on a different node";
    (d) `singleKeys` (resync, API release): no pod key owns two addresses;
    (e) `bindNoReuse` or no apiserver fault (bind only): the failing apiserver call is not the `UpdateAttr` after a
        successful AssignIP.
  (c), (d), (e) are NOT guaranteed by the code - three genuine deviations, all confirmed on the real plugin:
    * DESIGN D14 (`assign_only_when_unassigned_or_same_node_counter`, corpus/C10/d14.ops, known finding
      rebind-other-node-without-unassign): a pod bound (or half bound) on node 1 is bound again on node 2; the UID matches,
      AssignIP(node 2) is sent while the provider still has node 1, nothing unassigns node 1;
    * multi-address keys (`unassign_before_free_or_rekey_counter`, corpus/C10/multi-ip-resync.ops, known finding
      freed-or-rekeyed-while-assigned:multi-ip-key): resync / API release unassign ONE address and then clear or release
      EVERY address of the key;
    * AssignIP ok, then UpdateAttr fails (`assign_only_when_unassigned_or_same_node_fault_counter`,
      corpus/C10/updateattr-fault.ops, known finding stored-node-lost:assign-ok-updateattr-failed): the bind fails, the
      provider has the address on n1, the record still names no node; every later move satisfies (a)-(d), and the
      scheduler's retry on n2 sends AssignIP(n2) while the provider still has n1 - statement (1) itself fails, not only
      `stored_node_is_provider_node`.  So (e) cannot be dropped by weakening the theorem to call ORDER.
  Hence the suffix `_partial`.
-/
import Galaxy.Lemmas.C10Key

namespace Galaxy.Props.C10
open Galaxy Galaxy.Plugin Galaxy.PluginC10

/-- The structural facts regenerated from /repo on this run are the shape the proofs are about (unbind / Release /
    resync guard and re-read before any mutation, lister-then-apiserver, the bind UID guards); `facts` is what
    `gxdrv_plugin` runs with. -/
theorem fact_plugin_shape : Galaxy.Plugin.facts = Facts.good := by decide

/-- Filter, Bind, unbind, Release, syncPodIP and the resync closure hold `lockPod`: one pod name's operations are
    atomic moves. -/
theorem fact_entry_points_hold_pod_lock : Generated.Plugin.allUnderPodLock = true := by decide

/-- The invariant behind the three statements holds after every history whose side conditions hold: the C04 invariant,
    coherent IPAM tables, the provider has an address assigned only to the node its record names (and records without
    pod or without incarnation name no node), the call log is well ordered, every address of a live bound pod is
    assigned to the pod's node. -/
theorem reachable_invariant (c : Conf) (hp : c.provider = true) (ms : List Move)
    (hok : allAssumed10 (init c) ms = true) : Inv10 (run Galaxy.Plugin.facts (init c) ms) := by
  rw [fact_plugin_shape]
  exact inv10_run ms _ (inv10_init c hp) hok

/-- (1) "an IP is never assigned to a second node while the provider still has it assigned to another": after every
    history the whole call log is well ordered - replayed through the per-IP state machine, every AssignIP(ip, n)
    request (successful or failed) found `ip` unassigned or assigned to `n`. -/
theorem assign_only_when_unassigned_or_same_node_partial (c : Conf) (hp : c.provider = true) (ms : List Move)
    (hok : allAssumed10 (init c) ms = true) : logOK (run Galaxy.Plugin.facts (init c) ms).plog = true :=
  (reachable_invariant c hp ms hok).core.log

/-- (1), request by request: wherever the log of a reachable state is cut before an AssignIP(ip, n) request, the
    provider state reached by the requests before the cut has `ip` unassigned or on `n`. -/
theorem every_assign_request_admissible_partial (c : Conf) (hp : c.provider = true) (ms : List Move)
    (hok : allAssumed10 (init c) ms = true) (pre post : List PCall) (n : String) (ip : IP) (ok : Bool)
    (hlog : (run Galaxy.Plugin.facts (init c) ms).plog = pre ++ .assign n ip ok :: post) :
    Tbl.get (provOf pre) ip = none ∨ Tbl.get (provOf pre) ip = some n := by
  have h := assign_only_when_unassigned_or_same_node_partial c hp ms hok
  rw [hlog] at h
  unfold logOK at h
  rw [logOKFrom_append] at h
  have h2 := (Bool.and_eq_true_iff.mp h).2
  simp only [logOKFrom, Bool.and_eq_true] at h2
  have h3 := h2.1
  unfold provOf
  cases hg : Tbl.get (List.foldl applyCall [] pre) ip with
  | none => exact Or.inl rfl
  | some m => simp only [callOK, hg, beq_iff_eq] at h3; right; rw [h3]

/-- (3) "an IP is unassigned before it is freed or handed to a different owner": whenever a move releases the record of
    an address or changes its key, the provider has the address unassigned after the move. -/
theorem unassign_before_free_or_rekey_partial (c : Conf) (hp : c.provider = true) (ms : List Move)
    (hok : allAssumed10 (init c) ms = true) (m : Move)
    (hm : assumedAll (run Galaxy.Plugin.facts (init c) ms) m = true) (ip : IP) (r : Rec)
    (hr : Tbl.get (run Galaxy.Plugin.facts (init c) ms).alloc ip = some r)
    (hch : Tbl.get (next Galaxy.Plugin.facts (run Galaxy.Plugin.facts (init c) ms) m).alloc ip = none ∨
      ∃ r', Tbl.get (next Galaxy.Plugin.facts (run Galaxy.Plugin.facts (init c) ms) m).alloc ip = some r' ∧ r'.key ≠ r.key) :
    Tbl.get (prov (next Galaxy.Plugin.facts (run Galaxy.Plugin.facts (init c) ms) m)) ip = none := by
  have hinv := reachable_invariant c hp ms hok
  rw [fact_plugin_shape] at hinv hm hr hch ⊢
  have hnext : next Facts.good (run Facts.good (init c) ms) m = run Facts.good (init c) ms ∨
      next Facts.good (run Facts.good (init c) ms) m = (step Facts.good (run Facts.good (init c) ms) m).1 := by
    unfold next
    dsimp only
    split
    · exact Or.inl rfl
    · exact Or.inr rfl
  rcases hnext with e | e
  · rw [e] at hch
    rcases hch with h0 | ⟨r', h1, h2⟩
    · rw [hr] at h0; cases h0
    · rw [hr] at h1; cases h1; exact absurd rfl h2
  · rw [e] at hch ⊢
    exact freed_or_rekeyed_step _ m hinv hm ip r hr hch

/-- (2) "every IP of a bound live pod is assigned to that pod's node": after every history, every address in the binding
    annotation of a pod that exists, was bound by the plugin and has not finished is assigned to that pod's node -
    whatever provider calls failed on the way (a bind answers ok only after a SUCCESSFUL AssignIP for every address,
    also when it is a retry after a failed assign). -/
theorem bound_pod_ip_assigned_to_its_node_partial (c : Conf) (hp : c.provider = true) (ms : List Move)
    (hok : allAssumed10 (init c) ms = true) (q : Pod) (hq : LiveBound (run Galaxy.Plugin.facts (init c) ms).pods q)
    (hd : HInfo) (hhd : hd ∈ q.handed) :
    Tbl.get (prov (run Galaxy.Plugin.facts (init c) ms)) hd.ip = some q.node :=
  (reachable_invariant c hp ms hok).bound q hq hd hhd

/-- "stored node name per IP = where the provider has the IP assigned": in every reachable state an address the provider
    has assigned to node `n` is allocated and its record names `n` - the invariant that makes (1) inductive; side
    condition (e) is exactly what it needs (`assign_only_when_unassigned_or_same_node_fault_counter`). -/
theorem stored_node_is_provider_node_partial (c : Conf) (hp : c.provider = true) (ms : List Move)
    (hok : allAssumed10 (init c) ms = true) (ip : IP) (n : String)
    (h : Tbl.get (prov (run Galaxy.Plugin.facts (init c) ms)) ip = some n) :
    ∃ r, Tbl.get (run Galaxy.Plugin.facts (init c) ms).alloc ip = some r ∧ r.node = n :=
  (((reachable_invariant c hp ms hok).core.j ip).1 n h).2

/-! ### non-vacuity -/

def pool1 : Pool := { nodeSubnets := [⟨168362240, 24⟩], ranges := [(168427522, 168427523)], gateway := 168427521, bits := 24, vlan := 0 }
def conf1 : Conf := { pools := [pool1], nodes := [("n1", 168362245), ("n2", 168362246)], provider := true }

/-- a-0 is bound on n1 after a failed AssignIP and a retry on the same node, deleted; its successor is bound on n2
    only after the old pod's event unassigned the address (the bind before the event waits: UID guard) -/
def good1 : List Move := [
  .scale .sts "ns1" "a" 1,
  .createPod "ns1" "a-0" .sts "a" "" 2 [] true,
  .listerSync true true,
  .filter "ns1" "a-0" ["n1", "n2"] {} 0,
  .bind "ns1" "a-0" 1 "n1" { pick := some 168427522 } 0 1,       -- AssignIP fails cleanly
  .bind "ns1" "a-0" 1 "n1" {} 0 0,                                -- the retry, same node
  .deletePod "ns1" "a-0",
  .createPod "ns1" "a-0" .sts "a" "" 2 [] true,
  .listerSync true true,
  .bind "ns1" "a-0" 2 "n2" {} 0 0,                                -- waits for the delete event of the old pod
  .deliver 0 0 1,                                                 -- UnAssignIP fails cleanly, the event is re-queued
  .deliver 0 0 0,
  .bind "ns1" "a-0" 2 "n2" {} 0 0 ]

set_option maxRecDepth 100000 in
/-- the side conditions are satisfiable by a history with a failed assign, a failed unassign, retries, and a pod that
    moves to another node -/
example : allAssumed10 (init conf1) good1 = true := by decide

set_option maxRecDepth 100000 in
/-- ... whose call log is  A(n1) failed, A(n1), U(n1) failed, U(n1), A(n2)  and which ends with the address on n2 -/
example : (run Galaxy.Plugin.facts (init conf1) good1).plog =
      [.assign "n1" 168427522 false, .assign "n1" 168427522 true, .unassign "n1" 168427522 false,
       .unassign "n1" 168427522 true, .assign "n2" 168427522 true] ∧
    Tbl.get (prov (run Galaxy.Plugin.facts (init conf1) good1)) 168427522 = some "n2" := by decide

/-- apiserver faults in filter, bind, sync pass and event delivery, a process restart, the pod-IP sync pass, an
    administrator's reservation made and lifted -/
def good2 : List Move := [
  .scale .sts "ns1" "a" 1,
  .createPod "ns1" "a-0" .sts "a" "" 2 [] true,
  .listerSync true true,
  .filter "ns1" "a-0" ["n1", "n2"] {} 1,
  .filter "ns1" "a-0" ["n1", "n2"] {} 0,
  .bind "ns1" "a-0" 1 "n1" { pick := some 168427522 } 1 0,       -- the store write fails: nothing assigned
  .bind "ns1" "a-0" 1 "n1" { pick := some 168427522 } 2 0,
  .bind "ns1" "a-0" 1 "n1" {} 0 0,
  .runPod "ns1" "a-0",
  .syncPodIPs 1,
  .restart,
  .syncPodIPs 0,
  .adminReserve 168427523 "ops" 2,
  .deletePod "ns1" "a-0",
  .deliver 0 1 0,                                                 -- the apiserver read fails, the event is re-queued
  .deliver 0 0 0,
  .adminUnreserve 168427523 ]

set_option maxRecDepth 100000 in
/-- the side conditions are satisfiable by a history with apiserver faults, restart, the sync pass and reservations -/
example : allAssumed10 (init conf1) good2 = true ∧
    logOK (run Galaxy.Plugin.facts (init conf1) good2).plog = true ∧
    (run Galaxy.Plugin.facts (init conf1) good2).plog.length = 4 := by decide

/-! ### counter theorems -/

/-- DESIGN D14 (corpus/C10/d14.ops): a-0 is bound on n1; the scheduler binds the same pod again on n2 -/
def d14 : List Move := [
  .scale .sts "ns1" "a" 1,
  .createPod "ns1" "a-0" .sts "a" "" 2 [] true,
  .listerSync true true,
  .filter "ns1" "a-0" ["n1", "n2"] {} 0,
  .bind "ns1" "a-0" 1 "n1" { pick := some 168427522 } 0 0 ]

def d14rebind : Move := .bind "ns1" "a-0" 1 "n2" {} 0 0

set_option maxRecDepth 100000 in
/-- WITHOUT side condition (c) statement (1) is false: every move of `d14` satisfies all side conditions; the second
    bind satisfies all of them except `bindSameNode`; the UID matches, so AssignIP(n2) is sent while the provider
    still has n1 - the call log is no longer well ordered.  The real code does the same (known finding
    rebind-other-node-without-unassign). -/
theorem assign_only_when_unassigned_or_same_node_counter :
    allAssumed10 (init conf1) d14 = true ∧
    assumed (run Galaxy.Plugin.facts (init conf1) d14) d14rebind = true ∧
    singleKeys (run Galaxy.Plugin.facts (init conf1) d14) = true ∧
    bindSameNode (run Galaxy.Plugin.facts (init conf1) d14) "ns1" "a-0" "n2" = false ∧
    logOK (run Galaxy.Plugin.facts (init conf1) d14).plog = true ∧
    (next Galaxy.Plugin.facts (run Galaxy.Plugin.facts (init conf1) d14) d14rebind).plog =
      [.assign "n1" 168427522 true, .assign "n2" 168427522 true] ∧
    logOK (next Galaxy.Plugin.facts (run Galaxy.Plugin.facts (init conf1) d14) d14rebind).plog = false := by decide

/-- a-0 (policy never) is bound on n1, deleted, its event unassigns the address and keeps the reservation; the successor
    a-0 is filtered (corpus/C10/updateattr-fault.ops) -/
def uaf : List Move := [
  .scale .sts "ns1" "a" 1,
  .createPod "ns1" "a-0" .sts "a" "" 2 [] true,
  .listerSync true true,
  .filter "ns1" "a-0" ["n1", "n2"] {} 0,
  .bind "ns1" "a-0" 1 "n1" { pick := some 168427522 } 0 0,
  .deletePod "ns1" "a-0",
  .deliver 0 0 0,
  .createPod "ns1" "a-0" .sts "a" "" 2 [] true,
  .listerSync true true,
  .filter "ns1" "a-0" ["n1", "n2"] {} 0 ]

/-- the bind of the successor on n1 whose second apiserver call - the `UpdateAttr` after AssignIP - fails -/
def uafBind : Move := .bind "ns1" "a-0" 2 "n1" {} 2 0

/-- the scheduler's retry, on n2, without any fault -/
def uafRetry : Move := .bind "ns1" "a-0" 2 "n2" {} 0 0

set_option maxRecDepth 100000 in
/-- WITHOUT side condition (e) statement (1) is false: every move of `uaf` satisfies all side conditions; `uafBind`
    satisfies all of them except (e) (it re-uses the reserved address and its apiserver fault index is not 0); AssignIP(n1)
    succeeds, UpdateAttr fails, the bind fails: the provider has the address on n1 while the record names no node.  The
    retry on n2 then satisfies EVERY side condition (no record of the key names another node) and sends AssignIP(n2)
    while the provider still has n1.  The real code does the same (known finding
    stored-node-lost:assign-ok-updateattr-failed). -/
theorem assign_only_when_unassigned_or_same_node_fault_counter :
    allAssumed10 (init conf1) uaf = true ∧
    assumed (run Galaxy.Plugin.facts (init conf1) uaf) uafBind = true ∧
    bindSameNode (run Galaxy.Plugin.facts (init conf1) uaf) "ns1" "a-0" "n1" = true ∧
    bindNoReuse (run Galaxy.Plugin.facts (init conf1) uaf) "ns1" "a-0" {} = false ∧
    (Tbl.get (next Galaxy.Plugin.facts (run Galaxy.Plugin.facts (init conf1) uaf) uafBind).alloc 168427522).map (·.node) = some "" ∧
    Tbl.get (prov (next Galaxy.Plugin.facts (run Galaxy.Plugin.facts (init conf1) uaf) uafBind)) 168427522 = some "n1" ∧
    logOK (next Galaxy.Plugin.facts (run Galaxy.Plugin.facts (init conf1) uaf) uafBind).plog = true ∧
    assumedAll (next Galaxy.Plugin.facts (run Galaxy.Plugin.facts (init conf1) uaf) uafBind) uafRetry = true ∧
    logOK (next Galaxy.Plugin.facts (next Galaxy.Plugin.facts (run Galaxy.Plugin.facts (init conf1) uaf) uafBind) uafRetry).plog
      = false := by decide

/-- a pod with two requested ranges (two addresses under one key), bound on n1, deleted, its delete event lost -/
def multi : List Move := [
  .scale .sts "ns1" "m" 1,
  .createPod "ns1" "m-0" .sts "m" "" 0 [[(168427522, 168427522)], [(168427523, 168427523)]] true,
  .listerSync true true,
  .filter "ns1" "m-0" ["n1"] {} 0,
  .bind "ns1" "m-0" 1 "n1" {} 0 0,
  .deletePod "ns1" "m-0",
  .dropEvent 0,
  .listerSync true true ]

def multiResync : Move := .resync [168427522, 168427523] 0 0

set_option maxRecDepth 100000 in
/-- WITHOUT side condition (d) statement (3) is false: every move of `multi` satisfies its side conditions; the resync
    pass satisfies all of them except `singleKeys`; it unassigns 10.10.0.2, clears node and uid of BOTH records of the
    key and releases both: 10.10.0.3 is free while the provider still has it assigned to n1.  The real code does the
    same (corpus/C10/multi-ip-resync.ops, known finding freed-or-rekeyed-while-assigned:multi-ip-key). -/
theorem unassign_before_free_or_rekey_counter :
    allAssumed10 (init conf1) multi = true ∧
    assumed (run Galaxy.Plugin.facts (init conf1) multi) multiResync = true ∧
    singleKeys (run Galaxy.Plugin.facts (init conf1) multi) = false ∧
    (Tbl.get (run Galaxy.Plugin.facts (init conf1) multi).alloc 168427523).isSome = true ∧
    Tbl.get (next Galaxy.Plugin.facts (run Galaxy.Plugin.facts (init conf1) multi) multiResync).alloc 168427523 = none ∧
    Tbl.get (prov (next Galaxy.Plugin.facts (run Galaxy.Plugin.facts (init conf1) multi) multiResync)) 168427523 = some "n1" := by
  decide

end Galaxy.Props.C10
