/-
  C07 - a sized IP pool never grows beyond its size.

  Model: `Galaxy.Plugin` (M4-core) + `Galaxy.PluginC07`: the pool API `POST /v1/pool` (`apiPool` =
  `PoolController.CreateOrUpdate` + `preAllocateIP`), Filter cut at the only point where another goroutine can get in
  between (`decide7` = `getSubnet` up to and including the count of `getAvailableSubnet`, `applyDecision` =
  `allocateDuringFilter`), and the interleaving model `cstep`: Filter and pre-allocation as two-phase actions
  (`filterBegin` / `preBegin` = take the pool lock + count, `finish` = allocate + unlock) with a lock table keyed by the
  STRINGS the two call sites hand to `LockDpPool` / `LockPoolFunc`; between the two phases of an action ANY other move
  may run (other filters, pool requests, binds, unbinds, resync, API release, API truth changes, lister syncs); a
  phase that needs a lock string somebody holds is disabled (that is what a mutex does).
  `cnt s P` = number of allocated addresses whose key has the prefix `pool__P_`.

  The facts the model's shape depends on are regenerated from /repo on every run (`Galaxy.Generated.C07`, translator
  tools/factgen/cmd/c07) and are PARAMETERS of the model (`Facts`); `fact_*` pin them to the shape the proofs are
  about, so a change of the lock discipline, of a lock-key expression, of the counting rule, of the comparison or of
  the allocate-during-filter condition breaks a theorem below.

  FULL STATEMENT (property text): for every history of filter, bind and pool create/update requests, under every
  interleaving, no step brings the number of addresses held under `pool__P_` above the size in force.
  What is proved is this statement for every interleaving of `cstep` moves - two-phase filters, two-phase
  pre-allocations and EVERY atomic move of the plugin model (filter, preempt, bind, event delivery, both resync forms,
  API release, the pod-IP sync pass, administrator reservations, configuration reload, process restart, API truth and
  lister moves; one failing apiserver call and one failing provider call per move) - whose side condition `callowed`
  holds.  Five moves carry one:
    (a) `bind`: the pod already owns an address for every request (`bindOK`: what a Filter that saw the Pool object
        leaves behind, `filter_that_saw_pool_makes_bind_ok`; always true for pods without pool annotation), OR the
        pod's pool is not a sized pool at that moment (`bindUnsized`: no Pool object of that name exists and nobody is
        counting for it - then the step is reported as `unsizedBind`, the property speaks of sized pools only);
    (b) `syncPodIPs`, and `markTerminating` (UpdatePod runs `syncPodIP` for a Running pod): the pass re-creates no
        record of a pool (`syncOK`; `termOK`: the pod's addresses are allocated - C04's guarantee for a live bound pod);
    (c) `reload`: every pool of the new configuration has a node subnet (the decoder's check) and no store object
        orphaned by an earlier reload belongs to a pool (`orphanFree`); `restart`: `orphanFree`.
  (a) and (b) are NOT guaranteed by the code - two genuine deviations, both confirmed on the real plugin:
    * DESIGN D15 (`pool_never_exceeds_size_counter`, corpus/C07/d15.ops, known finding
      bind-after-unsized-filter-exceeds-size): Bind allocates for a pod that owns nothing under its key without looking
      at the size; a deployment pod owns nothing exactly when its Filter ran while the Pool object was not visible;
    * the pod-IP sync pass (`sync_pass_counter`, corpus/C07/syncpodip.ops, known finding pool-exceeds-size:syncips):
      `syncPodIP` re-creates the record of a Running pod of the (stale) lister whose address was released through the
      API, without looking at the size.
  Pods that are not deployment pods but carry a pool annotation (their key has the pool prefix, so they count as
  members) are never handled by the sized branch of `getAvailableSubnet` and always allocate at bind: for them (a) holds
  only while the pool is unsized.  The property text speaks of "scheduling pods of the deployments that share the pool",
  so these pods are OUTSIDE the property; the harness monitor skips their binds for the same reason.
  Hence `pool_never_exceeds_size_partial`.
-/
import Galaxy.Lemmas.C07Bridge

namespace Galaxy.Props.C07
open Galaxy Galaxy.Plugin Galaxy.PluginC07

/-! ### regenerated facts -/

/-- All structural facts regenerated on this run are the shape the proofs are about (each is also pinned one by one
    below so that a failure names the fact). -/
theorem fact_c07_shape : PluginC07.facts = PluginC07.Facts.good := by decide

/-- "count + allocate happen inside the pool lock during filter": getSubnet takes `LockDpPool(keyObj.PoolPrefix())`
    before `getAvailableSubnet` ... -/
theorem fact_filter_locks_before_count : Generated.C07.filterLocksBeforeCount = true := by decide

/-- ... and holds it (deferred unlock) across `allocateDuringFilter`; the records it counts are those of
    `ByPrefix(keyObj.PoolPrefix())` - the very string it locks - and `keyObj` is the pod's key. -/
theorem fact_filter_holds_lock_across_allocation :
    (Generated.C07.filterHoldsAcrossAlloc && Generated.C07.filterCountsLockedPrefix &&
      Generated.C07.filterKeyIsPodKey) = true := by decide

/-- "pre-allocation takes the same lock": preAllocateIP takes `LockPoolFunc(poolPrefix)` before `ByPrefix` (the
    count), holds it across the allocation loop, and counts / allocates under the very string it locks. -/
theorem fact_prealloc_holds_lock :
    (Generated.C07.preLocksBeforeCount && Generated.C07.preHoldsAcrossLoop &&
      Generated.C07.preCountsAndAllocatesLockedPrefix) = true := by decide

/-- The server wires `LockPoolFunc` to `plugin.LockDpPool` and hands the plugin's own IPAM to the pool controller;
    `LockDpPool(x)` is a keyed mutex on exactly the string `x`. -/
theorem fact_lock_wired :
    (Generated.C07.lockWired && Generated.C07.ipamShared && Generated.C07.lockDpPoolIsKeyedMutex) = true := by decide

/-- Both sides lock the SAME string: the regenerated lock-key function of Filter (`keyObj.PoolPrefix()` of the pod's
    key object) and the one of the pool API (`NewKeyObj(DeploymentPrefixKey, "", "", "", pool.Name).PoolPrefix()`)
    agree for every pod of a named pool, whatever its deployment / namespace. -/
theorem fact_same_lock_key (P typ ns app : String) (hP : P ≠ "") :
    Generated.C07.filterLockKey P typ ns app = Generated.C07.apiLockKey P := same_lock_key P typ ns app hP

/-- The counting rule of getAvailableSubnet: with a Pool size defined, EVERY member that is not the bare prefix counts
    as used (not only the filtering deployment's own). -/
theorem fact_sized_pool_counts_all_members : Generated.C07.countsAllWhenSized = true := by decide

/-- The refusal is `usedCount >= replicas`. -/
theorem fact_refuses_at_size : Generated.C07.refusesWhenUsedGeSize = true := by decide

/-- Filter allocates during filter iff `(reserve || isPoolSizeDefined)`; allocateDuringFilter re-keys a reserved
    record or takes a free address under the pod's key; a Pool object in the lister answers (pool.Size, true). -/
theorem fact_allocates_when_sized :
    (Generated.C07.allocatesWhenReserveOrSized && Generated.C07.allocateDuringFilterShape &&
      Generated.C07.sizeFromPoolObject) = true := by decide

/-! ### the model is the core model -/

/-- The fact-parameterised Filter the theorems below speak about IS the core model's Filter (the function
    `gxdrv_plugin` executes and the harness compares with the real plugin). -/
theorem filter7_is_core_filter (s : State) (ns name : String) (nodes : List String) (ch : Choice) :
    filter7 PluginC07.facts s ns name nodes ch = Plugin.filter s ns name nodes ch := by
  rw [fact_c07_shape]; exact filter7_good s ns name nodes ch

/-- `getSubnet` is "count, then allocate": the cut used by the interleaving model loses nothing. -/
theorem getSubnet_is_count_then_allocate (s : State) (pod : Pod) (ch : Choice) :
    getSubnet s pod ch = applyDecision s pod ch (decide7 PluginC07.facts s pod ch) := by
  rw [fact_c07_shape]; exact getSubnet_split s pod ch

/-! ### one atomic action -/

/-- "scheduling pods of the deployments that share the pool ... never bring the number of IPs held under that pool
    above the size": a Filter of a deployment pod of pool `P` that read size `z` from the Pool object in its lister
    leaves `cnt P ≤ max (cnt P before) z` - whatever the other members of the pool belong to (any number of
    deployments, reserved members, members of other namespaces).  `hrt`: every allocated address belongs to a
    configured pool with a node subnet (true in every reachable state, `reachable_invariant`). -/
theorem pool_count_le_size_seen (F : Plugin.Facts) (s : State) (ns name : String) (nodes : List String) (ch : Choice)
    (fault : Nat) (pod : Pod) (P : String) (z : Nat)
    (hrt : ∀ e, e ∈ s.alloc → subnetsOf s.pools e.1 ≠ [])
    (hpod : Tbl.get s.pods (ns, name) = some pod) (hpool : (keyOf pod).pool = P) (hne : P ≠ "")
    (hz : Tbl.get s.vPoolObjs P = some z) :
    cnt (stepB PluginC07.facts F s (.filter ns name nodes ch fault)).1 P ≤ max (cnt s P) z := by
  rw [fact_c07_shape, cnt_eq _ P hne, cnt_eq _ P hne]
  have g := filter7_grow (withFaults s fault 0) ns name nodes ch
  rcases g.2.2 P hne with h | ⟨pod', hp', _, _, fr, h⟩
  · exact Nat.le_trans h (Nat.le_max_left _ _)
  · have e : pod' = pod := by
      have : Tbl.get s.pods (ns, name) = some pod' := hp'
      rw [hpod] at this; cases this; rfl
    subst e
    obtain ⟨_, _, z', hz', hb⟩ := fr
    have hz'' : Tbl.get s.vPoolObjs (keyOf pod').pool = some z' := hz'
    rw [hpool, hz] at hz''
    cases hz''
    have := hb hrt
    rw [hpool] at this
    have hc : cnt (withFaults s fault 0) P = cntp (mP P) s.alloc := cnt_eq _ P hne
    rw [hc] at this
    exact Nat.le_trans (Nat.le_trans h this) (Nat.le_max_right _ _)

/-- ... and it adds nothing to any OTHER pool. -/
theorem filter_leaves_other_pools (F : Plugin.Facts) (s : State) (ns name : String) (nodes : List String) (ch : Choice)
    (fault : Nat) (pod : Pod) (Q : String)
    (hpod : Tbl.get s.pods (ns, name) = some pod) (hQ : (keyOf pod).pool ≠ Q) (hne : Q ≠ "") :
    cnt (stepB PluginC07.facts F s (.filter ns name nodes ch fault)).1 Q ≤ cnt s Q := by
  rw [fact_c07_shape, cnt_eq _ Q hne, cnt_eq _ Q hne]
  have g := filter7_grow (withFaults s fault 0) ns name nodes ch
  rcases g.2.2 Q hne with h | ⟨pod', hp', _, hq, _, _⟩
  · exact h
  · have : Tbl.get s.pods (ns, name) = some pod' := hp'
    rw [hpod] at this; cases this
    exact absurd hq hQ

/-- "... and pre-allocating through the API never bring the number ... above the size": a pool API request
    `{name P, size z, preAllocateIP}` leaves `cnt P ≤ max (cnt P before) z` (for every order in which it walks the node
    subnets, every address `AllocateInSubnet` picks, every store fault). -/
theorem prealloc_count_le_size (s : State) (P : String) (z : Nat) (pre : Bool) (order : List Subnet) (picks : List IP)
    (fault : Nat) (hne : P ≠ "") :
    cnt (apiPool s P z pre order picks fault).1 P ≤ max (cnt s P) z := by
  rw [cnt_eq _ P hne, cnt_eq _ P hne]
  have g : cntp (mP P) (apiPool s P z pre order picks fault).1.alloc ≤
      cntp (mP P) s.alloc + (if P = P ∧ pre = true then z - cntp (mP P) s.alloc else 0) :=
    (apiPool_grow s P z pre order picks fault).cnt P hne
  cases pre with
  | true => simp only [and_self, ↓reduceIte] at g; omega
  | false => simp only [Bool.false_eq_true, and_false, ↓reduceIte, Nat.add_zero] at g; omega

/-- "bind does not grow the pool when filter allocated": a bind whose pod already owns an address for every request
    (`bindOK`; always true for pods without pool annotation) adds nothing to any pool - whatever the provider and the
    apiserver do (fault indices arbitrary). -/
theorem bind_does_not_grow_when_filter_allocated (F : Plugin.Facts) (s : State) (ns name : String) (uid : Nat)
    (node : String) (ch : Choice) (fault pfault : Nat) (hok : bindOK s ns name ch = true) (P : String) (hne : P ≠ "") :
    cnt (step F s (.bind ns name uid node ch fault pfault)).1 P ≤ cnt s P := by
  rw [cnt_eq _ P hne, cnt_eq _ P hne]
  have hok' : bindOK (withFaults s fault pfault) ns name ch = true := hok
  exact ((withFaults_q s fault pfault).trans (bind_q F _ ns name uid node ch rfl hok')).cnt P hne

/-- Everything else only keeps or lowers the count of every pool: event delivery, both resync forms, API release, the
    administrator's reservations, a reload / restart without pool orphans, and a pod-IP sync pass that re-creates no pool
    record - for every apiserver / provider fault index.  (`cs` carries the pending actions; none is needed here.) -/
theorem other_moves_do_not_grow (F : Plugin.Facts) (s : State) (hc : Coherent s) (m : Move)
    (hm : allowed { base := s } (.base m) = true)
    (hnf : subnetPod s m = none) (hnb : ∀ ns name uid node ch f pf, m ≠ .bind ns name uid node ch f pf)
    (P : String) (hne : P ≠ "") :
    cnt (nextB PluginC07.facts F s m) P ≤ cnt s P := by
  rw [fact_c07_shape, cnt_eq _ P hne, cnt_eq _ P hne]
  have e := nextB_effect F { base := s } m hc hm
  rcases e.eff P hne with h | ⟨pod, hsp, _⟩ | ⟨ns, name, uid, node, ch, f, pf, _, hb, _⟩
  · exact h
  · have hsp' : subnetPod s m = some pod := hsp
    rw [hnf] at hsp'; cases hsp'
  · exact absurd hb (hnb ns name uid node ch f pf)

/-- The wording "every bind is preceded by a filter that saw the Pool object" and the state-level side condition of the
    theorems below are linked: a Filter of a deployment pod of a named pool whose Pool object is in the plugin's lister,
    answering ok with at least one node, leaves the pod owning an address for every request - so the bind that follows
    satisfies `bindOK` (whatever it picks), i.e. allocates nothing. -/
theorem filter_that_saw_pool_makes_bind_ok (F : Plugin.Facts) (s : State) (hc : Coherent s) (ns name : String)
    (nodes : List String) (ch : Choice) (fault : Nat) (pod : Pod) (z : Nat)
    (hpod : Tbl.get s.pods (ns, name) = some pod) (hv : Tbl.get s.vPods (ns, name) = some pod)
    (hw : pod.wants = true) (hdp : (keyOf pod).isDp = true) (hpool : (keyOf pod).pool ≠ "")
    (hz : Tbl.get s.vPoolObjs (keyOf pod).pool = some z)
    (hok : (stepB PluginC07.facts F s (.filter ns name nodes ch fault)).2.res = .ok)
    (hnodes : (stepB PluginC07.facts F s (.filter ns name nodes ch fault)).2.nodes ≠ []) (ch' : Choice) :
    bindOK (stepB PluginC07.facts F s (.filter ns name nodes ch fault)).1 ns name ch' = true := by
  rw [fact_c07_shape] at hok hnodes ⊢
  exact sized_filter_establishes_bindOK (withFaults s fault 0) (coherent_of_eq hc rfl rfl rfl rfl) ns name nodes ch pod z
    hpod hv hw hdp hpool hz hok hnodes ch'

/-! ### every interleaving -/

/-- The invariant behind the bound holds in every state reachable by moves whose side conditions hold: the IPAM tables
    are coherent, every pool of the configuration has a node subnet, every pending action that is going to add members
    to a pool holds that pool's lock string, no lock string is held twice, and every pending action's count is still
    an upper bound of the pool's population ("count + allocate is one atomic action"). -/
theorem reachable_invariant (F : Plugin.Facts) (c : Conf) (hwf : WFPools c.pools) (ms : List CMove)
    (hok : callAllowed PluginC07.facts F (cinit c) ms = true) : CInv (crun PluginC07.facts F (cinit c) ms) := by
  rw [fact_c07_shape] at hok ⊢
  exact cinv_run F ms _ (cinv_init c hwf) hok

/-- "... never bring the number of IPs held under that pool above the size in force, no matter how many filter, bind
    and pool-update requests run concurrently": after ANY interleaving `ms` of two-phase filters, two-phase
    pre-allocations and atomic moves (side conditions `callowed`), ANY further move `m` leaves every pool `P` with
    `cnt P ≤ max (cnt P before) (the size this step read)`; the size is 0 for every step that is not a Filter / Preempt
    of a pod of `P`, a pool request for `P`, or the second phase of one - i.e. all other steps add nothing.  The one
    exception is reported by `unsizedBind`: a bind for a pod of `P` while no Pool object named `P` exists and nobody is
    counting for `P` (not a sized pool). -/
theorem pool_never_exceeds_size_partial (F : Plugin.Facts) (c : Conf) (hwf : WFPools c.pools) (ms : List CMove)
    (hok : callAllowed PluginC07.facts F (cinit c) ms = true) (m : CMove)
    (hm : callowed (crun PluginC07.facts F (cinit c) ms) m = true) (P : String) (hne : P ≠ "") :
    unsizedBind (crun PluginC07.facts F (cinit c) ms) m P = true ∨
    cnt (cstep PluginC07.facts F (crun PluginC07.facts F (cinit c) ms) m).base P ≤
      max (cnt (crun PluginC07.facts F (cinit c) ms).base P) (sizeSeen (crun PluginC07.facts F (cinit c) ms) m P) := by
  have hinv := reachable_invariant F c hwf ms hok
  rw [fact_c07_shape] at hinv hm ⊢
  exact cstep_bound F _ m hinv hm P hne

/-- the exception is about unsized pools only: the reported bind found no Pool object named `P` (API truth) -/
theorem unsized_bind_has_no_pool_object (cs : CState) (m : CMove) (P : String) (h : unsizedBind cs m P = true) :
    Tbl.get cs.base.poolObjs P = none := by
  unfold unsizedBind at h
  split at h
  · split at h
    · simp only [Bool.and_eq_true] at h
      have := h.2
      unfold poolIdle at this
      simp only [Bool.and_eq_true, Option.isNone_iff_eq_none] at this
      exact this.1
    · cases h
  · cases h

/-- While a Filter or a pre-allocation sits between its count and its allocation on pool `P`, nobody else can start
    counting `P`: a second Filter of a pod of `P` / a second pool request for `P` is disabled until the first one has
    finished (mutual exclusion through the common lock string; this is where `fact_same_lock_key` is used). -/
theorem second_counter_waits (F : Plugin.Facts) (cs : CState) (p : Pending) (hp : p ∈ cs.pend)
    (hl : p.lock = some (Generated.C07.apiLockKey p.pool)) (name : String) (size : Nat) (hn : name = p.pool) :
    cstep PluginC07.facts F cs (.preBegin name size) = cs := by
  rw [fact_c07_shape]
  dsimp only [cstep]
  by_cases h0 : name = ""
  · rw [if_pos h0]
  · rw [if_neg h0]
    have : lockFree cs (apiLockOf Facts.good name) = false := by
      cases hf : lockFree cs (apiLockOf Facts.good name) with
      | false => rfl
      | true =>
        rw [apiLockOf_good, hn] at hf
        exact absurd (held_not_free cs p hp _ hl hf) id
    rw [this]; rfl

/-! ### non-vacuity and the counter history -/

def pool1 : Pool := { nodeSubnets := [⟨168362240, 24⟩], ranges := [(168427522, 168427525)], gateway := 168427521, bits := 24, vlan := 0 }
def conf1 : Conf := { pools := [pool1], nodes := [("n1", 168362245)], provider := false }

/-- two deployments share pool p1 of size 2: a pool request pre-allocates one member and is overtaken between its
    count and its allocation by nothing (its lock), two filters run as two-phase actions, binds follow -/
def good1 : List CMove := [
  .plain (.base (.scale .dp "ns1" "d1" 2)),
  .plain (.base (.scale .dp "ns1" "d2" 2)),
  .plain (.base (.createPod "ns1" "d1-x1" .dp "d1" "p1" 0 [] true)),
  .plain (.base (.createPod "ns1" "d2-x1" .dp "d2" "p1" 0 [] true)),
  .plain (.apiPool "p1" 2 false [] [] 0),
  .plain (.base (.listerSync true true)),
  .filterBegin "ns1" "d1-x1" ["n1"] { pick := some 168427522 },
  .plain (.base (.filter "ns1" "d2-x1" ["n1"] { pick := some 168427523 } 0)),   -- disabled: d1-x1's Filter holds the lock
  .preBegin "p1" 2,                                                           -- disabled as well
  .finish 0 [] [],
  .plain (.base (.filter "ns1" "d2-x1" ["n1"] { pick := some 168427523 } 0)),
  .plain (.base (.bind "ns1" "d1-x1" 1 "n1" {} 0 0)),
  .plain (.base (.bind "ns1" "d2-x1" 2 "n1" {} 0 0)) ]

set_option maxRecDepth 100000 in
/-- the hypotheses of `pool_never_exceeds_size_partial` are satisfiable by a non-trivial interleaving ... -/
example : callAllowed PluginC07.facts Plugin.facts (cinit conf1) good1 = true := by decide

set_option maxRecDepth 100000 in
/-- ... at whose end the pool is exactly full, and in the middle of which the second Filter really was disabled -/
example : cnt (crun PluginC07.facts Plugin.facts (cinit conf1) good1).base "p1" = 2 ∧
    cnt (crun PluginC07.facts Plugin.facts (cinit conf1) (good1.take 9)).base "p1" = 0 ∧
    cnt (crun PluginC07.facts Plugin.facts (cinit conf1) (good1.take 10)).base "p1" = 1 := by decide

example : WFPools conf1.pools := by
  intro p hp
  have : p = pool1 := by simpa [conf1] using hp
  subst this; decide

/-- DESIGN D15 (corpus/C07/d15.ops): d1-x2 is filtered while no Pool object exists (unsized: nothing is allocated
    during filter); the Pool object is created with size 1; d1-x1 is filtered (sized: allocates the one member the
    size allows) and bound; then the scheduler binds d1-x2 -/
def d15 : List CMove := [
  .plain (.base (.scale .dp "ns1" "d1" 2)),
  .plain (.base (.createPod "ns1" "d1-x1" .dp "d1" "p1" 0 [] true)),
  .plain (.base (.createPod "ns1" "d1-x2" .dp "d1" "p1" 0 [] true)),
  .plain (.base (.listerSync true true)),
  .plain (.base (.filter "ns1" "d1-x2" ["n1"] {} 0)),
  .plain (.apiPool "p1" 1 false [] [] 0),
  .plain (.base (.listerSync true true)),
  .plain (.base (.filter "ns1" "d1-x1" ["n1"] { pick := some 168427522 } 0)),
  .plain (.base (.bind "ns1" "d1-x1" 1 "n1" {} 0 0)) ]

def d15bind : CMove := .plain (.base (.bind "ns1" "d1-x2" 2 "n1" { pick := some 168427523 } 0 0))

set_option maxRecDepth 100000 in
/-- WITHOUT side condition (b) the full statement is false: every move of `d15` satisfies its side condition, the Pool
    object (API truth and lister) says size 1 and the pool has 1 member; the bind of d1-x2 - whose Filter ran before
    the Pool object existed - violates only `bindOK` and takes the pool to 2 members.  The real code does the same
    (replay corpus/C07/d15.ops; known finding bind-after-unsized-filter-exceeds-size). -/
theorem pool_never_exceeds_size_counter :
    callAllowed PluginC07.facts Plugin.facts (cinit conf1) d15 = true ∧
    callowed (crun PluginC07.facts Plugin.facts (cinit conf1) d15) d15bind = false ∧
    Tbl.get (crun PluginC07.facts Plugin.facts (cinit conf1) d15).base.poolObjs "p1" = some 1 ∧
    Tbl.get (crun PluginC07.facts Plugin.facts (cinit conf1) d15).base.vPoolObjs "p1" = some 1 ∧
    cnt (crun PluginC07.facts Plugin.facts (cinit conf1) d15).base "p1" = 1 ∧
    cnt (cstep PluginC07.facts Plugin.facts (crun PluginC07.facts Plugin.facts (cinit conf1) d15) d15bind).base "p1" = 2 := by
  decide

set_option maxRecDepth 100000 in
/-- ... while the same bind BEFORE the Pool object is created is in the move set and is reported as a bind on an unsized
    pool (the narrowed side condition: `bindOK` fails, `bindUnsized` holds) -/
example : bindOK (crun PluginC07.facts Plugin.facts (cinit conf1) (d15.take 5)).base "ns1" "d1-x2" { pick := some 168427523 } = false ∧
    callowed (crun PluginC07.facts Plugin.facts (cinit conf1) (d15.take 5)) d15bind = true ∧
    unsizedBind (crun PluginC07.facts Plugin.facts (cinit conf1) (d15.take 5)) d15bind "p1" = true := by decide

/-- the sync pass history (corpus/C07/syncpodip.ops): d1-x1 (Running) and d1-x2 fill pool p1 of size 2; d1-x1 is
    deleted, its address goes back to the pool and is released through the API; the size is set to 1 = members; the pod
    lister still shows d1-x1 Running -/
def pool2 : Pool := { nodeSubnets := [⟨168362240, 24⟩], ranges := [(168427522, 168427523)], gateway := 168427521, bits := 24, vlan := 0 }
def conf2 : Conf := { pools := [pool2], nodes := [("n1", 168362245)], provider := false }

def syncHist : List CMove := [
  .plain (.base (.scale .dp "ns1" "d1" 2)),
  .plain (.base (.createPod "ns1" "d1-x1" .dp "d1" "p1" 0 [] true)),
  .plain (.base (.createPod "ns1" "d1-x2" .dp "d1" "p1" 0 [] true)),
  .plain (.apiPool "p1" 2 false [] [] 0),
  .plain (.base (.listerSync true true)),
  .plain (.base (.filter "ns1" "d1-x1" ["n1"] { pick := some 168427522 } 0)),
  .plain (.base (.bind "ns1" "d1-x1" 1 "n1" {} 0 0)),
  .plain (.base (.filter "ns1" "d1-x2" ["n1"] { pick := some 168427523 } 0)),
  .plain (.base (.bind "ns1" "d1-x2" 2 "n1" {} 0 0)),
  .plain (.base (.runPod "ns1" "d1-x1")),
  .plain (.base (.listerSync true true)),
  .plain (.base (.deletePod "ns1" "d1-x1")),
  .plain (.base (.deliver 0 0 0)),
  .plain (.base (.apiRelease 168427522 (poolKey "p1") 0 0)),
  .plain (.apiPool "p1" 1 false [] [] 0),
  .plain (.base (.listerSync false true)) ]

def syncPass : CMove := .plain (.base (.syncPodIPs 0))

set_option maxRecDepth 100000 in
/-- WITHOUT side condition (b) the full statement is false: every move of `syncHist` satisfies its side condition, the
    Pool object (API truth and lister) says size 1 and the pool has 1 member; the sync pass violates only `syncOK` - it
    re-creates the released record of d1-x1, which the stale lister still shows Running - and takes the pool to 2
    members.  The real code does the same (replay corpus/C07/syncpodip.ops; known finding pool-exceeds-size:syncips). -/
theorem sync_pass_counter :
    callAllowed PluginC07.facts Plugin.facts (cinit conf2) syncHist = true ∧
    callowed (crun PluginC07.facts Plugin.facts (cinit conf2) syncHist) syncPass = false ∧
    Tbl.get (crun PluginC07.facts Plugin.facts (cinit conf2) syncHist).base.poolObjs "p1" = some 1 ∧
    Tbl.get (crun PluginC07.facts Plugin.facts (cinit conf2) syncHist).base.vPoolObjs "p1" = some 1 ∧
    cnt (crun PluginC07.facts Plugin.facts (cinit conf2) syncHist).base "p1" = 1 ∧
    cnt (cstep PluginC07.facts Plugin.facts (crun PluginC07.facts Plugin.facts (cinit conf2) syncHist) syncPass).base "p1" = 2 := by
  decide

/-- reload, restart, the sync pass, preempt and an administrator's reservation inside a history: after the pool is
    full a sync pass finds every Running pod's address allocated, a restart rebuilds the tables, a reload of the same
    pools is a no-op, Preempt of a pod of the full pool allocates nothing -/
def good2 : List CMove := [
  .plain (.base (.scale .dp "ns1" "d1" 3)),
  .plain (.base (.createPod "ns1" "d1-x1" .dp "d1" "p1" 0 [] true)),
  .plain (.base (.createPod "ns1" "d1-x2" .dp "d1" "p1" 0 [] true)),
  .plain (.apiPool "p1" 1 false [] [] 0),
  .plain (.base (.listerSync true true)),
  .plain (.base (.filter "ns1" "d1-x1" ["n1"] { pick := some 168427522 } 0)),
  .plain (.base (.bind "ns1" "d1-x1" 1 "n1" {} 0 0)),
  .plain (.base (.runPod "ns1" "d1-x1")),
  .plain (.base (.listerSync true true)),
  .plain (.base (.syncPodIPs 0)),
  .plain (.base .restart),
  .plain (.base (.reload [pool2] 0)),
  .plain (.base (.preempt "ns1" "d1-x2" ["n1"] {} 0)),
  .plain (.base (.adminReserve 168427523 "ops" 2)),
  .plain (.base (.syncPodIPs 1)) ]

set_option maxRecDepth 100000 in
example : callAllowed PluginC07.facts Plugin.facts (cinit conf2) good2 = true ∧
    cnt (crun PluginC07.facts Plugin.facts (cinit conf2) good2).base "p1" = 1 := by decide

end Galaxy.Props.C07
